(* C08: the structural check is exact.  On a tree with unique ids, if the check fails there is an
   execution (one of the two canonical ones) in which some fetch is prepared before a fetch it
   depends on is merged. *)
From Gv Require Import C08.Model C08.Spec C08.ProofsSpec.
From Coq Require Import List Arith Bool Permutation Lia.
Import ListNotations.

Lemma before_antisym (a b : event) s : NoDup s -> before a b s -> before b a s -> False.
Proof.
  intros N [s1 [s2 [s3 E1]]] [t1 [t2 [t3 E2]]].
  assert (Ha : In b (s2 ++ b :: s3)) by (apply in_or_app; right; left; reflexivity).
  assert (Hb : In a (t2 ++ a :: t3)) by (apply in_or_app; right; left; reflexivity).
  revert Ha Hb. generalize (s2 ++ b :: s3) (t2 ++ a :: t3) E1 E2. clear E1 E2 s2 s3 t2 t3.
  intros r r' E1 E2 Ha Hb. subst s. revert t1 E2 N.
  induction s1 as [|x s1 IH]; intros t1 E2 N; simpl in *.
  - destruct t1 as [|y t1]; simpl in E2; inversion E2; subst.
    + inversion N; subst. contradiction.
    + inversion N as [|? ? Hn _]; subst. apply Hn. apply in_or_app. right. right. exact Hb.
  - destruct t1 as [|y t1]; simpl in E2; inversion E2; subst.
    + inversion N as [|? ? Hn _]; subst. apply Hn. apply in_or_app. right. right. exact Ha.
    + inversion N; subst. eapply IH; eassumption.
Qed.

Lemma forallb_false {A} (p : A -> bool) l : forallb p l = false -> exists x, In x l /\ p x = false.
Proof.
  induction l as [|x l IH]; simpl; intros H; [discriminate|].
  destruct (p x) eqn:P.
  - destruct (IH H) as [y [Hy Py]]. exists y. split; [right; exact Hy | exact Py].
  - exists x. split; [left; reflexivity | exact P].
Qed.

Lemma run_lr_events t : Permutation (run_lr t) (events_of (tree_fetches t)).
Proof. apply lin_events. apply run_lr_lin. Qed.
Lemma run_rl_events t : Permutation (run_rl t) (events_of (tree_fetches t)).
Proof. apply lin_events. apply run_rl_lin. Qed.
Lemma prepare_in_run (run : tree -> list event) t f :
  Permutation (run t) (events_of (tree_fetches t)) -> In f (tree_fetches t) -> In (Prepare (fid f)) (run t).
Proof.
  intros P H. eapply Permutation_in; [apply Permutation_sym; exact P|]. apply events_of_in_prepare. exact H.
Qed.
Lemma merge_in_run (run : tree -> list event) t d :
  Permutation (run t) (events_of (tree_fetches t)) -> In d (tree_ids t) -> In (Merge d) (run t).
Proof.
  intros P H. eapply Permutation_in; [apply Permutation_sym; exact P|]. apply events_of_in_merge. exact H.
Qed.

(* a failed check names a fetch f and a dependency d that is known, not sequenced before the
   subtree, and -- when d lies in the subtree -- comes after Prepare f in one canonical run *)
Definition blamed (known B : list nat) (t : tree) : Prop :=
  exists f d, In f (tree_fetches t) /\ In d (fdeps f) /\ In d known /\ ~ In d B /\
    (In d (tree_ids t) ->
     before (Prepare (fid f)) (Merge d) (run_lr t) \/ before (Prepare (fid f)) (Merge d) (run_rl t)).

Lemma tree_ids_children ts d :
  In d (ids (flat_map tree_fetches ts)) <-> exists c, In c ts /\ In d (tree_ids c).
Proof.
  unfold tree_ids, ids. rewrite in_map_iff. split.
  - intros [f [E H]]. apply in_flat_map in H. destruct H as [c [Hc Hf]].
    exists c. split; [exact Hc|]. apply in_map_iff. exists f. split; assumption.
  - intros [c [Hc H]]. apply in_map_iff in H. destruct H as [f [E Hf]].
    exists f. split; [exact E|]. apply in_flat_map. exists c. split; assumption.
Qed.

Lemma concat_rev_map_app {A B} (g : A -> list B) l1 c l2 :
  concat (rev (map g (l1 ++ c :: l2))) = concat (rev (map g l2)) ++ g c ++ concat (rev (map g l1)).
Proof.
  rewrite map_app. simpl. rewrite rev_app_distr. simpl. rewrite concat_app.
  rewrite concat_app. simpl. rewrite app_nil_r, <- app_assoc. reflexivity.
Qed.

Lemma in_concat_rev_map {A B} (g : A -> list B) l x e : In x l -> In e (g x) -> In e (concat (rev (map g l))).
Proof.
  intros Hx He. apply in_concat. exists (g x). split; [|exact He].
  apply -> in_rev. apply in_map. exact Hx.
Qed.

Lemma sc_complete known t : forall B, sc known B t = false -> blamed known B t.
Proof.
  induction t as [f0 | ts IH | ts IH] using tree_ind'; intros B H.
  - (* Single *)
    simpl in H. apply forallb_false in H. destruct H as [d [Hd P]].
    apply orb_false_iff in P. destruct P as [P1 P2].
    apply negb_false_iff in P1. apply memb_In in P1. apply memb_false in P2.
    exists f0, d. split; [left; reflexivity|]. split; [exact Hd|]. split; [exact P1|]. split; [exact P2|].
    intros Hin. unfold tree_ids in Hin. simpl in Hin. destruct Hin as [E | []]. subst d.
    left. exists [], [], []. reflexivity.
  - (* Sequence: the first child that fails *)
    change (sc known B (Sequence ts)) with (sc_seq (sc known) B ts) in H.
    assert (G : forall B, sc_seq (sc known) B ts = false ->
                exists c l1 l2, ts = l1 ++ c :: l2 /\
                  blamed known (ids (flat_map tree_fetches (rev l1)) ++ B) c).
    { clear B H. induction IH as [|c r Hc Hr IHr]; intros B H; [discriminate|].
      simpl in H. apply andb_false_iff in H. destruct H as [H | H].
      - exists c, [], r. split; [reflexivity|]. simpl. apply Hc. exact H.
      - destruct (IHr _ H) as [c' [l1 [l2 [E Bl]]]]. exists c', (c :: l1), l2. split; [subst; reflexivity|].
        destruct Bl as [f [d [A1 [A2 [A3 [A4 A5]]]]]]. exists f, d. repeat (split; try assumption).
        intros Hin. apply A4. simpl rev in Hin. rewrite flat_map_app, ids_app in Hin. simpl in Hin.
        rewrite app_nil_r in Hin. rewrite <- app_assoc in Hin. exact Hin. }
    destruct (G B H) as [c [l1 [l2 [E [f [d [A1 [A2 [A3 [A4 A5]]]]]]]]]]. clear G.
    exists f, d. split.
    { simpl. apply in_flat_map. exists c. split; [subst; apply in_or_app; right; left; reflexivity | exact A1]. }
    split; [exact A2|]. split; [exact A3|]. split.
    { intros Hin. apply A4. apply in_or_app. right. exact Hin. }
    intros Hin. unfold tree_ids in Hin. simpl in Hin. apply tree_ids_children in Hin.
    destruct Hin as [c' [Hc' Hd]]. subst ts. simpl. rewrite !flat_map_app. simpl.
    apply in_app_or in Hc'. destruct Hc' as [Hc' | [Hc' | Hc']].
    + (* d sequenced earlier: excluded *)
      exfalso. apply A4. apply in_or_app. left. apply tree_ids_children. exists c'. split; [|exact Hd].
      apply -> in_rev. exact Hc'.
    + subst c'. destruct (A5 Hd) as [R | R].
      * left. apply before_app_r. apply before_app_l. exact R.
      * right. apply before_app_r. apply before_app_l. exact R.
    + left. apply before_app_r. apply before_split.
      * apply prepare_in_run; [apply run_lr_events | exact A1].
      * apply in_flat_map. exists c'. split; [exact Hc'|]. apply merge_in_run; [apply run_lr_events | exact Hd].
  - (* Parallel *)
    change (sc known B (Parallel ts)) with (forallb (sc known B) ts) in H.
    apply forallb_false in H. destruct H as [c [Hc P]].
    rewrite Forall_forall in IH. destruct (IH c Hc B P) as [f [d [A1 [A2 [A3 [A4 A5]]]]]].
    exists f, d. split.
    { simpl. apply in_flat_map. exists c. split; assumption. }
    split; [exact A2|]. split; [exact A3|]. split; [exact A4|].
    intros Hin. unfold tree_ids in Hin. simpl in Hin. apply tree_ids_children in Hin.
    destruct Hin as [c' [Hc' Hd]]. apply in_split in Hc. destruct Hc as [l1 [l2 E]]. subst ts.
    simpl. rewrite flat_map_app, concat_rev_map_app. simpl.
    apply in_app_or in Hc'. destruct Hc' as [Hc' | [Hc' | Hc']].
    + (* d in a child to the left: run right to left *)
      right. apply before_app_r. apply before_split.
      * apply prepare_in_run; [apply run_rl_events | exact A1].
      * eapply in_concat_rev_map; [exact Hc'|]. apply merge_in_run; [apply run_rl_events | exact Hd].
    + subst c'. destruct (A5 Hd) as [R | R].
      * left. apply before_app_r. apply before_app_l. exact R.
      * right. apply before_app_r. apply before_app_l. exact R.
    + left. apply before_app_r. apply before_split.
      * apply prepare_in_run; [apply run_lr_events | exact A1].
      * apply in_flat_map. exists c'. split; [exact Hc'|]. apply merge_in_run; [apply run_lr_events | exact Hd].
Qed.

Lemma respects_deps_b_complete t :
  NoDup (tree_ids t) -> tree_respects t -> respects_deps_b t = true.
Proof.
  intros N R. destruct (respects_deps_b t) eqn:E; [reflexivity|]. exfalso.
  destruct (sc_complete _ _ _ E) as [f [d [A1 [A2 [A3 [_ A5]]]]]].
  assert (ND : forall s, lin t s -> NoDup s).
  { intros s L. eapply Permutation_NoDup; [apply Permutation_sym; apply lin_events; exact L|].
    apply events_of_nodup. exact N. }
  destruct (A5 A3) as [W | W].
  - apply (before_antisym _ _ _ (ND _ (run_lr_lin t)) W). apply (R _ (run_lr_lin t) f d A1 A2 A3).
  - apply (before_antisym _ _ _ (ND _ (run_rl_lin t)) W). apply (R _ (run_rl_lin t) f d A1 A2 A3).
Qed.

Lemma respects_deps_b_exact t :
  NoDup (tree_ids t) -> (respects_deps_b t = true <-> tree_respects t).
Proof. intros N. split; [apply respects_deps_b_sound | apply respects_deps_b_complete; exact N]. Qed.
