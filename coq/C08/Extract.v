From Gv Require Import lib.Bytes C08.Model C08.Spec C08.ModelPaths C08.SpecPaths.
From Coq Require Import NArith ZArith.
Require Import ExtrOcamlBasic.
Extraction Language OCaml.
(* N.of_nat / Z.of_nat only bring the number types that the shared OCaml prelude mentions *)
Extraction "model.ml" organize organize_in_waves process_fetch_tree order_sequence
  respects_deps_b exactly_once_b unique_ids_b acyclic_b run_lr run_rl run_respects_b
  tree_fetches tree_ids respects_member_deps_b members_once_b plain_b create_multi_fetch
  add_missing completed declared pipeline eligible provides writes_above_b reads_b stage_reads_b
  segments_ok_b covers_b
  N.of_nat Z.of_nat.
