(* C08: facts about executions of a tree and soundness of the structural checkers. *)
From Gv Require Import C08.Model C08.Spec.
From Coq Require Import List Arith Bool Permutation Lia.
Import ListNotations.

(* ---- induction over trees ---- *)
Section TreeInd.
  Variable P : tree -> Prop.
  Hypothesis HS : forall f, P (Single f).
  Hypothesis HQ : forall l, Forall P l -> P (Sequence l).
  Hypothesis HP : forall l, Forall P l -> P (Parallel l).
  Fixpoint tree_ind' (t : tree) : P t :=
    match t with
    | Single f => HS f
    | Sequence l =>
      HQ l ((fix go (l : list tree) : Forall P l :=
               match l with
               | [] => Forall_nil _
               | x :: r => Forall_cons _ (tree_ind' x) (go r)
               end) l)
    | Parallel l =>
      HP l ((fix go (l : list tree) : Forall P l :=
               match l with
               | [] => Forall_nil _
               | x :: r => Forall_cons _ (tree_ind' x) (go r)
               end) l)
    end.
End TreeInd.

Scheme lin_mut := Induction for lin Sort Prop
  with lin_seq_mut := Induction for lin_seq Sort Prop
  with lin_par_mut := Induction for lin_par Sort Prop.
Combined Scheme lin_mutind from lin_mut, lin_seq_mut, lin_par_mut.

(* ---- small list facts ---- *)
Lemma memb_In x l : memb x l = true <-> In x l.
Proof.
  unfold memb. rewrite existsb_exists. split.
  - intros [y [Hy E]]. apply Nat.eqb_eq in E. subst. exact Hy.
  - intros H. exists x. split; [exact H | apply Nat.eqb_refl].
Qed.
Lemma memb_false x l : memb x l = false <-> ~ In x l.
Proof.
  rewrite <- memb_In. destruct (memb x l); split; intros H.
  - discriminate.
  - exfalso. apply H. reflexivity.
  - discriminate.
  - reflexivity.
Qed.

Lemma has_dup_false l : has_dup l = false <-> NoDup l.
Proof.
  induction l as [|x r IH]; simpl.
  - split; [constructor | reflexivity].
  - rewrite orb_false_iff, memb_false, IH. split.
    + intros [A B]. constructor; assumption.
    + intros H. inversion H; subst. split; assumption.
Qed.

Lemma list_nat_eqb_eq a b : list_nat_eqb a b = true <-> a = b.
Proof.
  revert b. induction a as [|x a IH]; destruct b as [|y b]; simpl; split; intros H;
    try reflexivity; try discriminate.
  - apply andb_true_iff in H. destruct H as [E H]. apply Nat.eqb_eq in E. apply IH in H. subst. reflexivity.
  - inversion H; subst. rewrite Nat.eqb_refl. simpl. apply IH. reflexivity.
Qed.

Lemma src_eqb_eq a b : src_eqb a b = true <-> a = b.
Proof.
  destruct a as [[d1 e1]|], b as [[d2 e2]|]; simpl; split; intros H; try reflexivity; try discriminate.
  - apply andb_true_iff in H. destruct H as [A B]. apply Nat.eqb_eq in A. apply Nat.eqb_eq in B.
    subst. reflexivity.
  - inversion H; subst. rewrite !Nat.eqb_refl. reflexivity.
Qed.

Lemma fetch_eqb_eq a b : fetch_eqb a b = true <-> a = b.
Proof.
  unfold fetch_eqb. rewrite !andb_true_iff, Nat.eqb_eq, !list_nat_eqb_eq, src_eqb_eq.
  destruct a, b; simpl. split.
  - intros [[[A B] C] D]. subst. reflexivity.
  - intros H. inversion H. repeat split; reflexivity.
Qed.

Lemma in_ids l f : In f l -> In (fid f) (ids l).
Proof. intros H. unfold ids. apply in_map. exact H. Qed.
Lemma ids_in l x : In x (ids l) -> exists f, In f l /\ fid f = x.
Proof. unfold ids. intros H. apply in_map_iff in H. destruct H as [f [E H]]. exists f. split; assumption. Qed.
Lemma ids_app a b : ids (a ++ b) = ids a ++ ids b.
Proof. unfold ids. apply map_app. Qed.

(* ---- "before" ---- *)
Inductive bef (a b : event) : list event -> Prop :=
| bef_here s : In b s -> bef a b (a :: s)
| bef_skip x s : bef a b s -> bef a b (x :: s).

Lemma bef_before a b s : bef a b s <-> before a b s.
Proof.
  split.
  - induction 1 as [s H | x s H IH].
    + apply in_split in H. destruct H as [s2 [s3 E]]. exists [], s2, s3. subst. reflexivity.
    + destruct IH as [s1 [s2 [s3 E]]]. exists (x :: s1), s2, s3. subst. reflexivity.
  - intros [s1 [s2 [s3 E]]]. subst. induction s1 as [|x s1 IH]; simpl.
    + apply bef_here. apply in_or_app. right. left. reflexivity.
    + apply bef_skip. exact IH.
Qed.

Lemma before_app_l a b s1 s2 : before a b s1 -> before a b (s1 ++ s2).
Proof.
  intros [x [y [z E]]]. subst. exists x, y, (z ++ s2).
  repeat (rewrite <- app_assoc; simpl). reflexivity.
Qed.
Lemma before_app_r a b s1 s2 : before a b s2 -> before a b (s1 ++ s2).
Proof.
  intros [x [y [z E]]]. subst. exists (s1 ++ x), y, z. rewrite <- app_assoc. reflexivity.
Qed.
Lemma before_split a b s1 s2 : In a s1 -> In b s2 -> before a b (s1 ++ s2).
Proof.
  intros Ha Hb. apply in_split in Ha. destruct Ha as [x [y E]]. apply in_split in Hb.
  destruct Hb as [u [v E2]]. subst. exists x, (y ++ u), v.
  repeat (rewrite <- app_assoc; simpl). reflexivity.
Qed.

Lemma interleave_in_l {A} (s1 s2 s : list A) x : interleave s1 s2 s -> In x s1 -> In x s.
Proof. induction 1; simpl; intros Hin; tauto. Qed.
Lemma interleave_in_r {A} (s1 s2 s : list A) x : interleave s1 s2 s -> In x s2 -> In x s.
Proof. induction 1; simpl; intros Hin; tauto. Qed.
Lemma interleave_perm {A} (s1 s2 s : list A) : interleave s1 s2 s -> Permutation (s1 ++ s2) s.
Proof.
  induction 1; simpl.
  - constructor.
  - constructor. exact IHinterleave.
  - eapply Permutation_trans; [apply Permutation_sym; apply Permutation_middle|].
    constructor. exact IHinterleave.
Qed.
Lemma interleave_app {A} (s1 s2 : list A) : interleave s1 s2 (s1 ++ s2).
Proof.
  induction s1 as [|x s1 IH]; simpl.
  - induction s2; constructor; assumption.
  - constructor. exact IH.
Qed.
Lemma interleave_app_rev {A} (s1 s2 : list A) : interleave s1 s2 (s2 ++ s1).
Proof.
  induction s2 as [|x s2 IH]; simpl.
  - induction s1; constructor; assumption.
  - constructor. exact IH.
Qed.

Lemma before_interleave_l a b s1 s2 s : interleave s1 s2 s -> before a b s1 -> before a b s.
Proof.
  intros I H. apply bef_before in H. apply bef_before. revert s2 s I.
  induction H as [s1 H | x s1 H IH]; intros s2 s I.
  - remember (a :: s1) as s1' eqn:E. revert s1 H E. induction I; intros s1 H E; try discriminate.
    + inversion E; subst. apply bef_here. eapply interleave_in_l; eassumption.
    + apply bef_skip. eapply IHI; eassumption.
  - remember (x :: s1) as s1' eqn:E. revert E. induction I; intros E; try discriminate.
    + inversion E; subst. apply bef_skip. eapply IH. eassumption.
    + apply bef_skip. apply IHI. exact E.
Qed.
Lemma before_interleave_r a b s1 s2 s : interleave s1 s2 s -> before a b s2 -> before a b s.
Proof.
  intros I H. apply bef_before in H. apply bef_before. revert s1 s I.
  induction H as [s2 H | x s2 H IH]; intros s1 s I.
  - remember (a :: s2) as s2' eqn:E. revert s2 H E. induction I; intros s2 H E; try discriminate.
    + apply bef_skip. eapply IHI; eassumption.
    + inversion E; subst. apply bef_here. eapply interleave_in_r; eassumption.
  - remember (x :: s2) as s2' eqn:E. revert E. induction I; intros E; try discriminate.
    + apply bef_skip. apply IHI. exact E.
    + inversion E; subst. apply bef_skip. eapply IH. eassumption.
Qed.

(* ---- the events of an execution ---- *)
Lemma events_of_app a b : events_of (a ++ b) = events_of a ++ events_of b.
Proof. unfold events_of. apply flat_map_app. Qed.

Lemma lin_events_all :
  (forall t s, lin t s -> Permutation s (events_of (tree_fetches t))) /\
  (forall ts s, lin_seq ts s -> Permutation s (events_of (flat_map tree_fetches ts))) /\
  (forall ts s, lin_par ts s -> Permutation s (events_of (flat_map tree_fetches ts))).
Proof.
  apply lin_mutind.
  - intros. apply Permutation_refl.
  - intros. assumption.
  - intros. assumption.
  - constructor.
  - intros t ts s1 s2 L1 IH1 L2 IH2.
    change (flat_map tree_fetches (t :: ts)) with (tree_fetches t ++ flat_map tree_fetches ts).
    rewrite events_of_app. apply Permutation_app; assumption.
  - constructor.
  - intros t ts s1 s2 s L1 IH1 L2 IH2 I.
    change (flat_map tree_fetches (t :: ts)) with (tree_fetches t ++ flat_map tree_fetches ts).
    rewrite events_of_app. eapply Permutation_trans.
    + apply Permutation_sym. apply interleave_perm. eassumption.
    + apply Permutation_app; assumption.
Qed.
Lemma lin_events t s : lin t s -> Permutation s (events_of (tree_fetches t)).
Proof. apply lin_events_all. Qed.
Lemma lin_seq_events ts s : lin_seq ts s -> Permutation s (events_of (flat_map tree_fetches ts)).
Proof. apply lin_events_all. Qed.
Lemma lin_par_events ts s : lin_par ts s -> Permutation s (events_of (flat_map tree_fetches ts)).
Proof. apply lin_events_all. Qed.

Lemma events_of_in_prepare l f : In f l -> In (Prepare (fid f)) (events_of l).
Proof. intros H. unfold events_of. apply in_flat_map. exists f. split; [exact H | simpl; auto]. Qed.
Lemma events_of_in_merge l d : In d (ids l) -> In (Merge d) (events_of l).
Proof.
  intros H. apply ids_in in H. destruct H as [f [H E]]. subst.
  unfold events_of. apply in_flat_map. exists f. split; [exact H | simpl; auto].
Qed.

Lemma events_of_nodup l : NoDup (ids l) -> NoDup (events_of l).
Proof.
  induction l as [|f l IH]; simpl; intros H.
  - constructor.
  - inversion H as [|? ? Hn Hr]; subst. constructor; [|constructor].
    + simpl. intros [E | Hin]; [discriminate|].
      unfold events_of in Hin. apply in_flat_map in Hin. destruct Hin as [g [Hg Hin]].
      simpl in Hin. destruct Hin as [E | [E | []]]; try discriminate. inversion E.
      apply Hn. rewrite <- H1. apply in_ids. exact Hg.
    + intros Hin. unfold events_of in Hin. apply in_flat_map in Hin. destruct Hin as [g [Hg Hin]].
      simpl in Hin. destruct Hin as [E | [E | []]]; try discriminate. inversion E.
      apply Hn. rewrite <- H1. apply in_ids. exact Hg.
    + apply IH. exact Hr.
Qed.

Lemma events_of_perm a b : Permutation a b -> Permutation (events_of a) (events_of b).
Proof. intros H. unfold events_of. apply Permutation_flat_map. exact H. Qed.

(* ---- soundness of the structural check ---- *)
Definition guarded (known B : list nat) (fs : list fetch) (s : list event) : Prop :=
  forall f d, In f fs -> In d (fdeps f) -> In d known ->
  In d B \/ before (Merge d) (Prepare (fid f)) s.

Lemma sc_sound_all :
  (forall t s, lin t s -> forall known B, sc known B t = true -> guarded known B (tree_fetches t) s) /\
  (forall ts s, lin_seq ts s -> forall known B, sc_seq (sc known) B ts = true ->
                guarded known B (flat_map tree_fetches ts) s) /\
  (forall ts s, lin_par ts s -> forall known B, forallb (sc known B) ts = true ->
                guarded known B (flat_map tree_fetches ts) s).
Proof.
  apply lin_mutind.
  - (* single *)
    intros f0 known B H f d Hf Hd Hk. simpl in Hf. destruct Hf as [E | []]. subst f0.
    simpl in H. rewrite forallb_forall in H. specialize (H d Hd).
    apply orb_true_iff in H. destruct H as [H | H].
    + apply negb_true_iff in H. apply memb_false in H. contradiction.
    + left. apply memb_In. exact H.
  - (* Sequence *)
    intros ts s L IH known B H. simpl in *. apply IH. exact H.
  - (* Parallel *)
    intros ts s L IH known B H. simpl in *. apply IH. exact H.
  - (* seq nil *)
    intros known B _ f d Hf. simpl in Hf. contradiction.
  - (* seq cons *)
    intros t ts s1 s2 L1 IH1 L2 IH2 known B H f d Hf Hd Hk.
    simpl in H. apply andb_true_iff in H. destruct H as [H1 H2].
    simpl in Hf. apply in_app_or in Hf. destruct Hf as [Hf | Hf].
    + destruct (IH1 known B H1 f d Hf Hd Hk) as [R | R]; [left; exact R | right].
      apply before_app_l. exact R.
    + destruct (IH2 known _ H2 f d Hf Hd Hk) as [R | R].
      * apply in_app_or in R. destruct R as [R | R]; [right | left; exact R].
        apply before_split.
        -- eapply Permutation_in; [apply Permutation_sym; apply lin_events; exact L1|].
           apply events_of_in_merge. exact R.
        -- eapply Permutation_in; [apply Permutation_sym; apply lin_seq_events; exact L2|].
           apply events_of_in_prepare. exact Hf.
      * right. apply before_app_r. exact R.
  - (* par nil *)
    intros known B _ f d Hf. simpl in Hf. contradiction.
  - (* par cons *)
    intros t ts s1 s2 s L1 IH1 L2 IH2 I known B H f d Hf Hd Hk.
    simpl in H. apply andb_true_iff in H. destruct H as [H1 H2].
    simpl in Hf. apply in_app_or in Hf. destruct Hf as [Hf | Hf].
    + destruct (IH1 known B H1 f d Hf Hd Hk) as [R | R]; [left; exact R | right].
      eapply before_interleave_l; eassumption.
    + destruct (IH2 known B H2 f d Hf Hd Hk) as [R | R]; [left; exact R | right].
      eapply before_interleave_r; eassumption.
Qed.

Lemma respects_deps_b_sound t : respects_deps_b t = true -> tree_respects t.
Proof.
  intros H s L f d Hf Hd Hk.
  destruct (proj1 sc_sound_all t s L (tree_ids t) [] H f d Hf Hd Hk) as [[] | R]. exact R.
Qed.

(* ---- exactly once ---- *)
Lemma perm_exactly_once t l : NoDup (ids l) -> Permutation (tree_fetches t) l -> exactly_once t l.
Proof.
  intros N P s L.
  assert (Q : Permutation s (events_of l)).
  { eapply Permutation_trans; [apply lin_events; exact L | apply events_of_perm; exact P]. }
  split; [|exact Q].
  eapply Permutation_NoDup; [apply Permutation_sym; exact Q | apply events_of_nodup; exact N].
Qed.

Lemma perm_plan_respects t l : Permutation (tree_fetches t) l -> tree_respects t -> plan_respects t l.
Proof.
  intros P R s L f d Hf Hd Hk. apply (R s L f d).
  - eapply Permutation_in; [apply Permutation_sym; exact P | exact Hf].
  - exact Hd.
  - unfold tree_ids. eapply Permutation_in; [|exact Hk]. unfold ids. apply Permutation_map.
    apply Permutation_sym. exact P.
Qed.

Lemma nodup_map_inv {A B} (f : A -> B) l : NoDup (map f l) -> NoDup l.
Proof.
  induction l as [|x l IH]; simpl; intros H; [constructor|].
  inversion H; subst. constructor.
  - intros Hin. apply H2. apply in_map. exact Hin.
  - apply IH. assumption.
Qed.

Lemma exactly_once_b_perm t l :
  exactly_once_b t l = true -> Permutation (tree_fetches t) l.
Proof.
  unfold exactly_once_b. intros H. apply andb_true_iff in H. destruct H as [H H3].
  apply andb_true_iff in H. destruct H as [H1 H2].
  apply negb_true_iff in H1. apply has_dup_false in H1. apply Nat.leb_le in H2.
  apply NoDup_Permutation_bis.
  - eapply nodup_map_inv. exact H1.
  - exact H2.
  - intros f Hf. rewrite forallb_forall in H3. specialize (H3 f Hf).
    apply existsb_exists in H3. destruct H3 as [g [Hg E]]. apply fetch_eqb_eq in E. subst. exact Hg.
Qed.

(* the two checkers together give the property for the plan [l] *)
Lemma spec_b_sound t l :
  exactly_once_b t l = true -> respects_deps_b t = true ->
  plan_respects t l /\ exactly_once t l.
Proof.
  intros H1 H2. pose proof (exactly_once_b_perm t l H1) as P. split.
  - apply perm_plan_respects; [exact P | apply respects_deps_b_sound; exact H2].
  - apply perm_exactly_once; [|exact P].
    unfold exactly_once_b in H1. apply andb_true_iff in H1. destruct H1 as [H1 _].
    apply andb_true_iff in H1. destruct H1 as [H1 _]. apply negb_true_iff in H1.
    apply has_dup_false in H1. eapply Permutation_NoDup; [|exact H1].
    unfold tree_ids, ids. apply Permutation_map. exact P.
Qed.

(* ---- executions exist: the statements are not vacuous ---- *)
Lemma lin_seq_of (run : tree -> list event) ts :
  Forall (fun t => lin t (run t)) ts -> lin_seq ts (flat_map run ts).
Proof. induction 1; simpl; constructor; assumption. Qed.
Lemma lin_par_lr (run : tree -> list event) ts :
  Forall (fun t => lin t (run t)) ts -> lin_par ts (flat_map run ts).
Proof.
  induction 1; simpl; [constructor|]. econstructor; [eassumption | eassumption | apply interleave_app].
Qed.
Lemma lin_par_rl (run : tree -> list event) ts :
  Forall (fun t => lin t (run t)) ts -> lin_par ts (concat (rev (map run ts))).
Proof.
  induction 1; simpl; [constructor|]. rewrite concat_app. simpl. rewrite app_nil_r.
  econstructor; [eassumption | eassumption | apply interleave_app_rev].
Qed.

Lemma run_lr_lin t : lin t (run_lr t).
Proof.
  induction t using tree_ind'; simpl.
  - constructor.
  - constructor. apply lin_seq_of. assumption.
  - constructor. apply lin_par_lr. assumption.
Qed.
Lemma run_rl_lin t : lin t (run_rl t).
Proof.
  induction t using tree_ind'; simpl.
  - constructor.
  - constructor. apply lin_seq_of. assumption.
  - constructor. apply lin_par_rl. assumption.
Qed.

Lemma executions_exist t : lin t (run_lr t) /\ lin t (run_rl t).
Proof. split; [apply run_lr_lin | apply run_rl_lin]. Qed.

(* the direct per-execution reading agrees with [before] *)
Lemma pos_of_split e s i : pos_of e s = Some i ->
  exists s1 s2, s = s1 ++ e :: s2 /\ length s1 = i.
Proof.
  revert i. induction s as [|x s IH]; simpl; intros i H; [discriminate|].
  destruct (event_eqb e x) eqn:E.
  - inversion H; subst. exists [], s. split; [|reflexivity].
    destruct e, x; simpl in E; try discriminate; apply Nat.eqb_eq in E; subst; reflexivity.
  - destruct (pos_of e s) as [j|] eqn:P; simpl in H; [|discriminate]. inversion H; subst.
    destruct (IH j eq_refl) as [s1 [s2 [E1 E2]]]. exists (x :: s1), s2. subst. split; reflexivity.
Qed.

Lemma run_respects_b_sound l s :
  run_respects_b l s = true ->
  forall f d, In f l -> In d (fdeps f) -> In d (ids l) -> before (Merge d) (Prepare (fid f)) s.
Proof.
  unfold run_respects_b. intros H f d Hf Hd Hk.
  rewrite forallb_forall in H. specialize (H f Hf). rewrite forallb_forall in H. specialize (H d Hd).
  apply orb_true_iff in H. destruct H as [H | H].
  - apply negb_true_iff in H. apply memb_false in H. contradiction.
  - destruct (pos_of (Merge d) s) as [i|] eqn:P1; [|discriminate].
    destruct (pos_of (Prepare (fid f)) s) as [j|] eqn:P2; [|discriminate].
    apply Nat.ltb_lt in H.
    destruct (pos_of_split _ _ _ P1) as [a1 [a2 [E1 L1]]].
    destruct (pos_of_split _ _ _ P2) as [b1 [b2 [E2 L2]]].
    (* the Prepare sits in a2 because its position is larger *)
    assert (In (Prepare (fid f)) a2).
    { subst s. assert (L : length a1 < length b1) by lia. clear - E2 L.
      revert b1 E2 L. induction a1 as [|x a1 IH]; intros b1 E2 L.
      - destruct b1 as [|y b1]; simpl in *; [lia|]. inversion E2; subst.
        apply in_or_app. right. left. reflexivity.
      - destruct b1 as [|y b1]; simpl in *; [lia|]. inversion E2; subst.
        eapply IH; [eassumption | lia]. }
    apply in_split in H0. destruct H0 as [u [v E]]. exists a1, u, v. subst. reflexivity.
Qed.
