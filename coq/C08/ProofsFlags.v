(* C08, schedule half, loader-wide flags: "the final response does not depend on the completion
   order of concurrently running requests" also for the cross-fetch state that resolve/loader.go
   writes in the merge phase, in COMPLETION order (under the data lock):

     skipValueCompletion   bool, raised in the no-data branch of mergeResult by
                             if hasErrors && l.apolloCompatibilityValueCompletionInExtensions {
                                 l.skipValueCompletion = true }
                           (decides whether extensions.valueCompletion is rendered);
     erroredFetchIDs       set of fetch ids (recordErroredFetchIDLocked: a fetch that came back
                           without data, or that was skipped because a dependency is in the set);
     taintedObjs           set of objects (l.taintedObjs.add in mergeResult).

   ProofsSchedule.state = (data, requests, errors) does not contain them, so
   completion_order_irrelevant_state could not speak about a change of HOW they are updated
   (seeded regression C08-m6: the sticky update became the assignment
   [l.skipValueCompletion = hasErrors && flag], last writer wins).

   Here the state is extended with a [flags] record.  One merge contributes a [contrib] (oracle
   [flagc f rq]: a function of the fetch and the request it sent, like resp/errs) and the loader
   JOINS it into the flags: boolean or, set insertion.  join is right-commutative, idempotent and
   monotone, hence unordered events still commute and every execution ends with the same flags
   ([completion_order_irrelevant_flags_proof]).  With the assignment of the mutant the commutation
   fails and two executions of one Parallel node end with different skipvc
   ([skipvc_assignment_refuted]).

   In this model the flags never influence data/requests/errors ([xrun_fst]); the skipping of
   dependants of an errored fetch (shouldSkipErroredDependencyLocked) acts between fetches that
   ARE ordered by the dependency relation and is outside this statement. *)
From Gv Require Import C08.Model C08.Spec C08.ProofsSpec C08.ProofsSchedule C09.ProofsCommute C09.ProofsSchedule.
From Coq Require Import List Arith Bool Permutation Lia Relations.
Import ListNotations.

(* ---------------------------------------------------------------- finite sets of nat: sorted, duplicate-free lists *)
Fixpoint sinsert (x : nat) (l : list nat) : list nat :=
  match l with
  | [] => [x]
  | y :: r => if y <? x then y :: sinsert x r else if y =? x then y :: r else x :: y :: r
  end.
Definition sinsert_all (l xs : list nat) : list nat := fold_left (fun l x => sinsert x l) xs l.

Ltac nat_cases :=
  repeat (match goal with
          | |- context [?u <? ?v] =>
            let E := fresh "E" in
            destruct (u <? v) eqn:E; [apply Nat.ltb_lt in E | apply Nat.ltb_ge in E]
          | |- context [?u =? ?v] =>
            let E := fresh "E" in
            destruct (u =? v) eqn:E; [apply Nat.eqb_eq in E | apply Nat.eqb_neq in E]
          end; simpl).

Lemma sinsert_comm x y l : sinsert x (sinsert y l) = sinsert y (sinsert x l).
Proof.
  induction l as [|a r IH]; simpl; nat_cases;
    try reflexivity; try lia; try (rewrite IH; reflexivity); try (subst; reflexivity);
    try (assert (x = y) by lia; subst; reflexivity).
Qed.

Lemma sinsert_idem x l : sinsert x (sinsert x l) = sinsert x l.
Proof.
  induction l as [|a r IH]; simpl; nat_cases;
    try reflexivity; try lia; try (rewrite IH; reflexivity); try (subst; reflexivity).
Qed.

Lemma sinsert_In z x l : In z (sinsert x l) <-> z = x \/ In z l.
Proof.
  induction l as [|a r IH]; simpl.
  - intuition (subst; auto).
  - nat_cases; try rewrite IH; intuition (subst; auto).
Qed.

Lemma sinsert_sinsert_all x : forall xs l, sinsert x (sinsert_all l xs) = sinsert_all (sinsert x l) xs.
Proof.
  induction xs as [|a xs IH]; intros l; unfold sinsert_all in *; simpl.
  - reflexivity.
  - rewrite IH. rewrite sinsert_comm. reflexivity.
Qed.

Lemma sinsert_all_comm : forall xs ys l,
  sinsert_all (sinsert_all l xs) ys = sinsert_all (sinsert_all l ys) xs.
Proof.
  induction xs as [|a xs IH]; intros ys l.
  - reflexivity.
  - change (sinsert_all l (a :: xs)) with (sinsert_all (sinsert a l) xs).
    change (sinsert_all (sinsert_all l ys) (a :: xs)) with (sinsert_all (sinsert a (sinsert_all l ys)) xs).
    rewrite IH. rewrite sinsert_sinsert_all. reflexivity.
Qed.

Lemma sinsert_all_idem : forall xs l, sinsert_all (sinsert_all l xs) xs = sinsert_all l xs.
Proof.
  induction xs as [|a xs IH]; intros l.
  - reflexivity.
  - change (sinsert_all l (a :: xs)) with (sinsert_all (sinsert a l) xs).
    change (sinsert_all (sinsert_all (sinsert a l) xs) (a :: xs))
      with (sinsert_all (sinsert a (sinsert_all (sinsert a l) xs)) xs).
    rewrite sinsert_sinsert_all, sinsert_idem. apply IH.
Qed.

Lemma sinsert_all_In z : forall xs l, In z (sinsert_all l xs) <-> In z xs \/ In z l.
Proof.
  induction xs as [|a xs IH]; intros l.
  - simpl. tauto.
  - change (sinsert_all l (a :: xs)) with (sinsert_all (sinsert a l) xs).
    rewrite IH, sinsert_In. simpl. intuition (subst; auto).
Qed.

(* ---------------------------------------------------------------- flags and the join of one merge *)
Record flags := mkflags { skipvc : bool; errored : list nat; tainted : list nat }.
Record contrib := mkcontrib { c_skip : bool; c_errored : list nat; c_tainted : list nat }.

(* loader.go: [if cond { l.skipValueCompletion = true }], [l.erroredFetchIDs[id] = struct{}{}],
   [l.taintedObjs.add(obj)] *)
Definition join (x : flags) (a : contrib) : flags :=
  mkflags (skipvc x || c_skip a)
          (sinsert_all (errored x) (c_errored a))
          (sinsert_all (tainted x) (c_tainted a)).

Lemma flags_eq s e t s' e' t' : s = s' -> e = e' -> t = t' -> mkflags s e t = mkflags s' e' t'.
Proof. intros -> -> ->. reflexivity. Qed.

Lemma join_comm x a b : join (join x a) b = join (join x b) a.
Proof.
  unfold join. cbn [skipvc errored tainted]. apply flags_eq.
  - destruct (skipvc x), (c_skip a), (c_skip b); reflexivity.
  - apply sinsert_all_comm.
  - apply sinsert_all_comm.
Qed.

Lemma join_idem x a : join (join x a) a = join x a.
Proof.
  unfold join. cbn [skipvc errored tainted]. apply flags_eq.
  - destruct (skipvc x), (c_skip a); reflexivity.
  - apply sinsert_all_idem.
  - apply sinsert_all_idem.
Qed.

Lemma join_skip_sticky x a : skipvc x = true -> skipvc (join x a) = true.
Proof. intros H. unfold join. cbn [skipvc]. rewrite H. reflexivity. Qed.

Lemma join_skip_raised x a : c_skip a = true -> skipvc (join x a) = true.
Proof. intros H. unfold join. cbn [skipvc]. rewrite H. apply orb_true_r. Qed.

Lemma join_errored_mono x a i : In i (errored x) -> In i (errored (join x a)).
Proof. intros H. unfold join. cbn [errored]. apply sinsert_all_In. right. exact H. Qed.

Lemma join_tainted_mono x a i : In i (tainted x) -> In i (tainted (join x a)).
Proof. intros H. unfold join. cbn [tainted]. apply sinsert_all_In. right. exact H. Qed.

Lemma join_errored_In x a i : In i (errored (join x a)) <-> In i (c_errored a) \/ In i (errored x).
Proof. unfold join. cbn [errored]. apply sinsert_all_In. Qed.

(* the facts about the update, as one statement *)
Lemma flag_updates_monotone :
  (forall x a, skipvc x = true -> skipvc (join x a) = true) /\
  (forall x a i, In i (errored x) -> In i (errored (join x a))) /\
  (forall x a i, In i (tainted x) -> In i (tainted (join x a))) /\
  (forall x a b, join (join x a) b = join (join x b) a) /\
  (forall x a, join (join x a) a = join x a).
Proof.
  split; [exact join_skip_sticky |]. split; [exact join_errored_mono |].
  split; [exact join_tainted_mono |]. split; [exact join_comm | exact join_idem].
Qed.

(* the mutant's update: skipvc is ASSIGNED (last writer wins), the sets as before *)
Definition join_assign (x : flags) (a : contrib) : flags :=
  mkflags (c_skip a)
          (sinsert_all (errored x) (c_errored a))
          (sinsert_all (tainted x) (c_tainted a)).

(* ---------------------------------------------------------------- the loader's run with flags *)
Definition xstate := (state * flags)%type.

Section LoaderFlags.
  Variable rpos : nat -> list nat.
  Variable wpos : nat -> list nat.
  Variable resp : nat -> request -> list (nat * nat).
  Variable errs : nat -> request -> list nat.
  Variable shared : list nat.
  Variable canon : nat -> nat.
  (* what merging f's response to request rq contributes to the loader-wide flags:
     c_skip = "no data, has errors, ApolloCompatibilityValueCompletionInExtensions on",
     c_errored = [f] when there is no data, c_tainted = the positions tainted *)
  Variable flagc : nat -> request -> contrib.

  Definition xstep (x : xstate) (e : event) : xstate :=
    match e with
    | Prepare f => (step rpos wpos resp errs (fst x) e, snd x)
    | Merge f =>
      (step rpos wpos resp errs (fst x) e,
       match nth_error (sreq (fst x)) f with
       | Some (Some rq) => join (snd x) (flagc f rq)
       | _ => snd x
       end)
    end.
  Definition xrun (x : xstate) (s : list event) : xstate := fold_left xstep s x.

  Definition xstep_assign (x : xstate) (e : event) : xstate :=
    match e with
    | Prepare f => (step rpos wpos resp errs (fst x) e, snd x)
    | Merge f =>
      (step rpos wpos resp errs (fst x) e,
       match nth_error (sreq (fst x)) f with
       | Some (Some rq) => join_assign (snd x) (flagc f rq)
       | _ => snd x
       end)
    end.
  Definition xrun_assign (x : xstate) (s : list event) : xstate := fold_left xstep_assign s x.

  Lemma xstep_fst x e : fst (xstep x e) = step rpos wpos resp errs (fst x) e.
  Proof. destruct e; reflexivity. Qed.
  Lemma xstep_snd_prepare x f : snd (xstep x (Prepare f)) = snd x.
  Proof. reflexivity. Qed.
  Lemma xstep_snd_merge x f :
    snd (xstep x (Merge f)) =
    match nth_error (sreq (fst x)) f with
    | Some (Some rq) => join (snd x) (flagc f rq)
    | _ => snd x
    end.
  Proof. reflexivity. Qed.

  Lemma sreq_merge st f : sreq (step rpos wpos resp errs st (Merge f)) = sreq st.
  Proof. unfold step. destruct (nth_error (sreq st) f) as [[rq |] |]; reflexivity. Qed.
  Lemma sreq_prepare_neq st f g :
    f <> g -> nth_error (sreq (step rpos wpos resp errs st (Prepare f))) g = nth_error (sreq st) g.
  Proof. intros H. unfold step. cbn [sreq]. apply nth_error_upd_neq. exact H. Qed.

  (* the flags are carried along: data, requests and errors are those of ProofsSchedule *)
  Lemma xrun_fst : forall s x, fst (xrun x s) = loader_run rpos wpos resp errs (fst x) s.
  Proof.
    induction s as [|e s IH]; intros x.
    - reflexivity.
    - unfold xrun, loader_run in *. simpl. rewrite IH, xstep_fst. reflexivity.
  Qed.

  Lemma xstep_skip_sticky x e : skipvc (snd x) = true -> skipvc (snd (xstep x e)) = true.
  Proof.
    intros H. destruct e as [f | f]; [exact H |].
    rewrite xstep_snd_merge. destruct (nth_error (sreq (fst x)) f) as [[rq |] |]; try exact H.
    apply join_skip_sticky. exact H.
  Qed.
  Lemma xstep_errored_mono x e i : In i (errored (snd x)) -> In i (errored (snd (xstep x e))).
  Proof.
    intros H. destruct e as [f | f]; [exact H |].
    rewrite xstep_snd_merge. destruct (nth_error (sreq (fst x)) f) as [[rq |] |]; try exact H.
    apply join_errored_mono. exact H.
  Qed.
  Lemma xstep_tainted_mono x e i : In i (tainted (snd x)) -> In i (tainted (snd (xstep x e))).
  Proof.
    intros H. destruct e as [f | f]; [exact H |].
    rewrite xstep_snd_merge. destruct (nth_error (sreq (fst x)) f) as [[rq |] |]; try exact H.
    apply join_tainted_mono. exact H.
  Qed.

  (* once raised / once recorded, for the rest of the run -- whatever the order of events *)
  Theorem flags_monotone_run : forall s x,
    (skipvc (snd x) = true -> skipvc (snd (xrun x s)) = true) /\
    (forall i, In i (errored (snd x)) -> In i (errored (snd (xrun x s)))) /\
    (forall i, In i (tainted (snd x)) -> In i (tainted (snd (xrun x s)))).
  Proof.
    induction s as [|e s IH]; intros x.
    - repeat split; intros; assumption.
    - unfold xrun in *. simpl. destruct (IH (xstep x e)) as [A [B C]]. repeat split.
      + intros H. apply A. apply xstep_skip_sticky. exact H.
      + intros i H. apply B. apply xstep_errored_mono. exact H.
      + intros i H. apply C. apply xstep_tainted_mono. exact H.
  Qed.

  Section PlanFlags.
    Variable l : list fetch.
    Hypothesis Hreads : deps_cover_reads_b rpos wpos l = true.
    Hypothesis Hwrites : writes_compatible_b wpos shared l = true.
    Hypothesis Hshared : shared_agree resp shared canon.

    (* the commutation hypothesis of C09.ProofsCommute for the extended step *)
    Lemma xevents_commute :
      forall x a b, In a (events_of l) -> In b (events_of l) -> a <> b ->
      indep event (events_of l) (event_ord l) a b ->
      xstep (xstep x a) b = xstep (xstep x b) a.
    Proof.
      intros x a b Ha Hb Hne Hind.
      apply injective_projections.
      - rewrite !xstep_fst.
        exact (events_commute rpos wpos resp errs shared canon l Hreads Hwrites Hshared
                 (fst x) a b Ha Hb Hne Hind).
      - destruct a as [f | f], b as [g | g].
        + reflexivity.
        + (* Prepare f, Merge g *)
          assert (E : f <> g).
          { intros <-. destruct (events_prepare_inv l f Ha) as [h [Hh <-]].
            destruct Hind as [N _]. apply N. apply t_step. apply ord_pm. exact Hh. }
          repeat rewrite ?xstep_snd_prepare, ?xstep_snd_merge, ?xstep_fst.
          rewrite sreq_prepare_neq by exact E. reflexivity.
        + (* Merge f, Prepare g *)
          assert (E : g <> f).
          { intros <-. destruct (events_prepare_inv l g Hb) as [h [Hh <-]].
            destruct Hind as [_ N]. apply N. apply t_step. apply ord_pm. exact Hh. }
          repeat rewrite ?xstep_snd_prepare, ?xstep_snd_merge, ?xstep_fst.
          rewrite sreq_prepare_neq by exact E. reflexivity.
        + (* Merge f, Merge g: the request table is not touched, the joins commute *)
          repeat rewrite ?xstep_snd_merge, ?xstep_fst. rewrite !sreq_merge.
          destruct (nth_error (sreq (fst x)) f) as [[rf |] |];
            destruct (nth_error (sreq (fst x)) g) as [[rg |] |]; try reflexivity.
          apply join_comm.
    Qed.

    Theorem xplan_runs_agree :
      unique_ids l -> forall t1 t2,
      plan_respects t1 l -> exactly_once t1 l -> plan_respects t2 l -> exactly_once t2 l ->
      forall s1 s2, lin t1 s1 -> lin t2 s2 -> forall x, xrun x s1 = xrun x s2.
    Proof.
      intros Hu t1 t2 P1 E1 P2 E2 s1 s2 L1 L2 x. unfold xrun.
      exact (tree_runs_agree xstate xstep l xevents_commute Hu t1 t2 P1 E1 P2 E2 s1 s2 L1 L2 x).
    Qed.
  End PlanFlags.

  (* the property's second sentence, for the whole extended state *)
  Theorem completion_order_irrelevant_flags_proof :
    forall t, NoDup (tree_ids t) -> tree_respects t ->
    deps_cover_reads_b rpos wpos (tree_fetches t) = true ->
    writes_compatible_b wpos shared (tree_fetches t) = true ->
    shared_agree resp shared canon ->
    forall s1 s2, lin t s1 -> lin t s2 -> forall x, xrun x s1 = xrun x s2.
  Proof.
    intros t Hnd Hresp Hr Hw Hs s1 s2 L1 L2 x.
    assert (P : plan_respects t (tree_fetches t))
      by (apply perm_plan_respects; [apply Permutation_refl | exact Hresp]).
    assert (X : exactly_once t (tree_fetches t))
      by (apply perm_exactly_once; [exact Hnd | apply Permutation_refl]).
    exact (xplan_runs_agree (tree_fetches t) Hr Hw Hs Hnd t t P X P X s1 s2 L1 L2 x).
  Qed.
End LoaderFlags.

(* ---------------------------------------------------------------- examples *)
(* one Parallel node, two fetches without dependencies, neither writes data: fetch 1 comes back
   with errors and no data, fetch 2 with neither data nor errors ({} under
   ApolloCompatibilitySuppressFetchErrors) -- the situation of seeded/C08-m6 *)
Definition fl_errs (f : nat) (rq : request) : list nat := match f with 1 => [7] | _ => [] end.
Definition fl_flagc (f : nat) (rq : request) : contrib :=
  match f with
  | 1 => mkcontrib true [1] []
  | 2 => mkcontrib false [2] []
  | _ => mkcontrib false [] []
  end.
Definition fl_x0 : xstate := (mkstate [None] [None; None; None] [], mkflags false [] []).

(* the hypotheses of completion_order_irrelevant_flags_proof hold on that tree, the two canonical
   executions differ as event lists and end in the same non-trivial flags: skipvc raised, both
   fetches recorded as errored *)
Example fl_hypotheses_and_runs :
  NoDup (tree_ids clash_tree) /\ tree_respects clash_tree /\
  deps_cover_reads_b (fun _ => []) (fun _ => []) (tree_fetches clash_tree) = true /\
  writes_compatible_b (fun _ => []) [] (tree_fetches clash_tree) = true /\
  shared_agree (fun _ _ => []) [] (fun _ => 0) /\
  run_lr clash_tree <> run_rl clash_tree /\
  snd (xrun (fun _ => []) (fun _ => []) (fun _ _ => []) fl_errs fl_flagc fl_x0 (run_lr clash_tree)) =
    mkflags true [1; 2] [] /\
  xrun (fun _ => []) (fun _ => []) (fun _ _ => []) fl_errs fl_flagc fl_x0 (run_rl clash_tree) =
  xrun (fun _ => []) (fun _ => []) (fun _ _ => []) fl_errs fl_flagc fl_x0 (run_lr clash_tree).
Proof.
  split; [apply has_dup_false; reflexivity |].
  split; [apply respects_deps_b_sound; reflexivity |].
  split; [reflexivity |]. split; [reflexivity |].
  split; [intros f rq p v _ [] |].
  split; [discriminate |]. split; reflexivity.
Qed.

(* the mutant (skipvc assigned instead of raised): same tree, same oracle, every hypothesis of the
   positive theorem holds, data/requests/errors agree -- and the two executions end with
   different skipvc *)
Theorem skipvc_assignment_refuted :
  exists rpos wpos resp errs flagc t x s1 s2,
    NoDup (tree_ids t) /\ tree_respects t /\
    deps_cover_reads_b rpos wpos (tree_fetches t) = true /\
    writes_compatible_b wpos [] (tree_fetches t) = true /\
    shared_agree resp [] (fun _ => 0) /\
    lin t s1 /\ lin t s2 /\
    fst (xrun_assign rpos wpos resp errs flagc x s1) = fst (xrun_assign rpos wpos resp errs flagc x s2) /\
    skipvc (snd (xrun_assign rpos wpos resp errs flagc x s1)) <>
    skipvc (snd (xrun_assign rpos wpos resp errs flagc x s2)).
Proof.
  exists (fun _ => []), (fun _ => []), (fun _ _ => []), fl_errs, fl_flagc, clash_tree, fl_x0,
    (run_lr clash_tree), (run_rl clash_tree).
  split; [apply has_dup_false; reflexivity |].
  split; [apply respects_deps_b_sound; reflexivity |].
  split; [reflexivity |]. split; [reflexivity |].
  split; [intros f rq p v _ [] |].
  split; [apply run_lr_lin |]. split; [apply run_rl_lin |].
  split; [vm_compute; reflexivity | vm_compute; discriminate].
Qed.
