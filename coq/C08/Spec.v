(* C08 (structural part): what "the fetch tree respects the data dependencies under every
   schedule" means.  Written over the tree type only; nothing here refers to how a tree is built.

   Execution of a tree (resolve/loader.go resolveFetchNodeWithCtx): a Single fetch is prepared
   (reads the response under the data lock), loaded, and merged (writes under the lock): two
   atomic events [Prepare id], [Merge id] in that order.  A Sequence runs its children one after
   the other; a Parallel runs them concurrently, so its executions are all interleavings of
   executions of the children. *)
From Gv Require Import C08.Model.
From Coq Require Import List Arith Bool Permutation.
Import ListNotations.

Inductive event :=
| Prepare (id : nat)
| Merge (id : nat).

Inductive interleave {A : Type} : list A -> list A -> list A -> Prop :=
| il_nil : interleave [] [] []
| il_left x a b s : interleave a b s -> interleave (x :: a) b (x :: s)
| il_right x a b s : interleave a b s -> interleave a (x :: b) (x :: s).

Inductive lin : tree -> list event -> Prop :=
| lin_single f : lin (Single f) [Prepare (fid f); Merge (fid f)]
| lin_sequence ts s : lin_seq ts s -> lin (Sequence ts) s
| lin_parallel ts s : lin_par ts s -> lin (Parallel ts) s
with lin_seq : list tree -> list event -> Prop :=
| ls_nil : lin_seq [] []
| ls_cons t ts s1 s2 : lin t s1 -> lin_seq ts s2 -> lin_seq (t :: ts) (s1 ++ s2)
with lin_par : list tree -> list event -> Prop :=
| lp_nil : lin_par [] []
| lp_cons t ts s1 s2 s : lin t s1 -> lin_par ts s2 -> interleave s1 s2 s -> lin_par (t :: ts) s.

(* a occurs, and later b occurs *)
Definition before (a b : event) (s : list event) : Prop :=
  exists s1 s2 s3, s = s1 ++ a :: s2 ++ b :: s3.

(* The plan is the flat list [l] of fetches (id, ids it reads from).  A dependency on an id that
   is not in the list is satisfied outside the tree (the Go code allows it) and constrains nothing. *)
Definition plan_respects (t : tree) (l : list fetch) : Prop :=
  forall s, lin t s ->
  forall f d, In f l -> In d (fdeps f) -> In d (ids l) ->
  before (Merge d) (Prepare (fid f)) s.

Definition events_of (l : list fetch) : list event :=
  flat_map (fun f => [Prepare (fid f); Merge (fid f)]) l.

(* every planned request exactly once, and nothing else *)
Definition exactly_once (t : tree) (l : list fetch) : Prop :=
  forall s, lin t s -> NoDup s /\ Permutation s (events_of l).

(* the same on the tree alone: dependencies as carried by the tree's own nodes *)
Definition tree_respects (t : tree) : Prop :=
  forall s, lin t s ->
  forall f d, In f (tree_fetches t) -> In d (fdeps f) -> In d (tree_ids t) ->
  before (Merge d) (Prepare (fid f)) s.

(* ---- merged fetches ----
   A node of the tree stands for the planned fetches merged into it (MultiEntityFetch.
   MergedFetchIDs); a plain node stands for itself.  The request of a merged node carries the
   representations of all its members, so it reads whatever any member reads: the dependencies
   that count are the ones the PLANNER declared for the members in the plan [l], not the list the
   post-processing wrote on the merged node. *)
Definition planned_ids (f : fetch) : list nat :=
  match fmerged f with
  | [] => [fid f]
  | ms => ms
  end.
Definition planned_of_tree (t : tree) : list nat := flat_map planned_ids (tree_fetches t).

Definition member_respects (t : tree) (l : list fetch) : Prop :=
  forall s, lin t s ->
  forall M m g d, In M (tree_fetches t) -> In m (planned_ids M) ->
                  In g l -> fid g = m -> In d (fdeps g) -> In d (ids l) ->
  exists D, In D (tree_fetches t) /\ In d (planned_ids D) /\
            before (Merge (fid D)) (Prepare (fid M)) s.

(* every planned fetch is a member of exactly one node (with unique ids in [l]), and every node
   runs exactly once *)
Definition members_once (t : tree) (l : list fetch) : Prop :=
  Permutation (planned_of_tree t) (ids l) /\
  forall s, lin t s -> NoDup s /\ Permutation s (events_of (tree_fetches t)).

(* the planner's output carries no merged fetch *)
Definition plain (l : list fetch) : Prop := forall f, In f l -> fmerged f = [].

(* hypotheses on plans *)
Definition unique_ids (l : list fetch) : Prop := NoDup (ids l).
Definition acyclic (l : list fetch) : Prop :=
  exists rank : nat -> nat,
    forall f d, In f l -> In d (fdeps f) -> In d (ids l) -> rank d < rank (fid f).

(* a list order in which every fetch comes after the fetches of [l] it depends on *)
Definition topological (l : list fetch) (s : list fetch) : Prop :=
  forall pre f post, s = pre ++ f :: post ->
  forall d, In d (fdeps f) -> In d (ids l) -> In d (ids pre).

(* ---- decidable forms, run on the implementation's trees ---- *)

(* [known]: ids that constrain; [before]: ids whose subtree is sequenced strictly earlier *)
Definition sc_seq (sc1 : list nat -> tree -> bool) : list nat -> list tree -> bool :=
  fix go (before : list nat) (ts : list tree) : bool :=
    match ts with
    | [] => true
    | c :: r => sc1 before c && go (tree_ids c ++ before) r
    end.
Fixpoint sc (known before : list nat) (t : tree) : bool :=
  match t with
  | Single f => forallb (fun d => negb (memb d known) || memb d before) (fdeps f)
  | Parallel ts => forallb (sc known before) ts
  | Sequence ts => sc_seq (sc known) before ts
  end.
Definition respects_deps_b (t : tree) : bool := sc (tree_ids t) [] t.

Definition fetch_eqb (a b : fetch) : bool :=
  (fid a =? fid b) && list_nat_eqb (fdeps a) (fdeps b) && src_eqb (fsrc a) (fsrc b) &&
  list_nat_eqb (fmerged a) (fmerged b).
Definition exactly_once_b (t : tree) (l : list fetch) : bool :=
  negb (has_dup (tree_ids t)) &&
  (length l <=? length (tree_fetches t)) &&
  forallb (fun f => existsb (fetch_eqb f) l) (tree_fetches t).

Definition unique_ids_b (l : list fetch) : bool := negb (has_dup (ids l)).
Definition plain_b (l : list fetch) : bool :=
  forallb (fun f => match fmerged f with [] => true | _ => false end) l.

(* structural form of [member_respects]: [before] holds the PLANNED ids sequenced strictly earlier *)
Definition mc_seq (mc1 : list nat -> tree -> bool) : list nat -> list tree -> bool :=
  fix go (before : list nat) (ts : list tree) : bool :=
    match ts with
    | [] => true
    | c :: r => mc1 before c && go (planned_of_tree c ++ before) r
    end.
Fixpoint mc (l : list fetch) (before : list nat) (t : tree) : bool :=
  match t with
  | Single M =>
    forallb (fun m =>
               match node_by_id l m with
               | None => false
               | Some g => forallb (fun d => negb (memb d (ids l)) || memb d before) (fdeps g)
               end) (planned_ids M)
  | Parallel ts => forallb (mc l before) ts
  | Sequence ts => mc_seq (mc l) before ts
  end.
Definition respects_member_deps_b (t : tree) (l : list fetch) : bool := mc l [] t.
Definition members_once_b (t : tree) (l : list fetch) : bool :=
  negb (has_dup (tree_ids t)) && negb (has_dup (planned_of_tree t)) &&
  (length l <=? length (planned_of_tree t)) &&
  forallb (fun m => memb m (ids l)) (planned_of_tree t).

(* acyclicity certificate: any list of ids such that every fetch stands after its in-list
   dependencies (position of an id that is missing from [order] = length order) *)
Fixpoint index_of (x : nat) (l : list nat) : nat :=
  match l with
  | [] => 0
  | y :: r => if x =? y then 0 else S (index_of x r)
  end.
Definition topo_witness_b (l : list fetch) (order : list nat) : bool :=
  forallb (fun f =>
             forallb (fun d => negb (memb d (ids l)) || (index_of d order <? index_of (fid f) order))
                     (fdeps f)) l.
Definition acyclic_b (l : list fetch) : bool :=
  match order_sequence l with
  | Some s => topo_witness_b l (ids s)
  | None => false
  end.

(* canonical executions, used to show that the statements above are not vacuous and by the
   driver as a direct cross-check of the structural checker: children of a Parallel run one
   after the other, left to right or right to left *)
Fixpoint run_lr (t : tree) : list event :=
  match t with
  | Single f => [Prepare (fid f); Merge (fid f)]
  | Sequence ts => flat_map run_lr ts
  | Parallel ts => flat_map run_lr ts
  end.
Fixpoint run_rl (t : tree) : list event :=
  match t with
  | Single f => [Prepare (fid f); Merge (fid f)]
  | Sequence ts => flat_map run_rl ts
  | Parallel ts => concat (rev (map run_rl ts))
  end.

Definition event_eqb (a b : event) : bool :=
  match a, b with
  | Prepare x, Prepare y => x =? y
  | Merge x, Merge y => x =? y
  | _, _ => false
  end.
Fixpoint pos_of (e : event) (s : list event) : option nat :=
  match s with
  | [] => None
  | x :: r => if event_eqb e x then Some 0 else option_map S (pos_of e r)
  end.
(* direct reading of [plan_respects] on one execution *)
Definition run_respects_b (l : list fetch) (s : list event) : bool :=
  forallb (fun f =>
             forallb (fun d =>
                        negb (memb d (ids l)) ||
                        match pos_of (Merge d) s, pos_of (Prepare (fid f)) s with
                        | Some i, Some j => i <? j
                        | _, _ => false
                        end) (fdeps f)) l.
