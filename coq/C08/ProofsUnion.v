(* C08: unionDependencies (create_multi_fetch.go), exactly.  The model's [union_deps] is the Go
   double loop read off literally (members in id order, member ids skipped, a dependency that was
   already collected skipped, otherwise appended).  Here: its closed form -- the first occurrences,
   in order, of the non-member entries of the concatenated member lists --, the set equality with
   the union of the members' dependencies minus member ids, NoDup of the result; and the variant
   that leaves the scan of a member's list at the first already-collected dependency
   ([union_deps_break]: `break` for `continue`, seeded regressions C08-m2 / C09-m6), which is NOT
   part of the model, with the witness on which it loses a dependency. *)
From Gv Require Import C08.Model C08.Spec C08.ProofsSpec C08.ProofsMulti.
From Coq Require Import List Arith Bool Lia.
Import ListNotations.

Definition keep (mids : list nat) (d : nat) : bool := negb (memb d mids).
Definition inner (mids : list nat) (deps : list nat) (d : nat) : list nat :=
  if memb d mids then deps else if memb d deps then deps else deps ++ [d].

Lemma inner_fold mids ds acc :
  fold_left (inner mids) ds acc = union acc (filter (keep mids) ds).
Proof.
  revert acc. induction ds as [|d ds IH]; intros acc; simpl; [reflexivity|].
  rewrite IH. unfold inner, keep. destruct (memb d mids); simpl; reflexivity.
Qed.

Lemma union_app a b c : union a (b ++ c) = union (union a b) c.
Proof. unfold union. apply fold_left_app. Qed.

(* closed form: order and duplicates included *)
Lemma union_deps_closed members mids :
  union_deps members mids = union [] (filter (keep mids) (flat_map fdeps members)).
Proof.
  unfold union_deps.
  change (fun deps m => fold_left (fun deps0 d => if memb d mids then deps0
                                   else if memb d deps0 then deps0 else deps0 ++ [d]) (fdeps m) deps)
    with (fun deps m => fold_left (inner mids) (fdeps m) deps).
  generalize (@nil nat) as acc.
  induction members as [|m ms IH]; intros acc; simpl; [reflexivity|].
  rewrite IH, inner_fold, filter_app, union_app. reflexivity.
Qed.

Lemma nodup_snoc (a : list nat) x : NoDup a -> ~ In x a -> NoDup (a ++ [x]).
Proof.
  induction a as [|y a IH]; simpl; intros Ha Hx; [constructor; [intros [] | constructor]|].
  inversion Ha as [|? ? Hn Hr]; subst. constructor.
  - rewrite in_app_iff. simpl. intros [H | [H | []]]; [contradiction | subst; apply Hx; left; reflexivity].
  - apply IH; [exact Hr | intros H; apply Hx; right; exact H].
Qed.

Lemma union_nodup b : forall a, NoDup a -> NoDup (union a b).
Proof.
  unfold union. induction b as [|x b IH]; intros a Ha; simpl; [exact Ha|].
  apply IH. destruct (memb x a) eqn:M; [exact Ha|].
  apply memb_false in M. apply nodup_snoc; assumption.
Qed.

Lemma union_deps_nodup members mids : NoDup (union_deps members mids).
Proof. rewrite union_deps_closed. apply union_nodup. constructor. Qed.

(* the merged fetch depends on exactly the dependencies of its members that are not members *)
Lemma union_deps_exact members :
  (forall d, In d (union_deps members (ids members)) <->
             exists m, In m members /\ In d (fdeps m) /\ ~ In d (ids members)) /\
  NoDup (union_deps members (ids members)).
Proof. split; [intros d; apply union_deps_in | apply union_deps_nodup]. Qed.

(* a single member with a repeated entry: first occurrence kept *)
Example union_deps_example :
  let members := [ {| fid := 5; fdeps := [0; 0; 1; 6; 3]; fsrc := Some (0, 0); fmerged := [] |};
                   {| fid := 6; fdeps := [1; 2; 0; 5; 2]; fsrc := Some (0, 0); fmerged := [] |} ] in
  union_deps members (ids members) = [0; 1; 3; 2] /\
  (exists m, In m members /\ In 2 (fdeps m) /\ ~ In 2 (ids members)) /\
  NoDup (union_deps members (ids members)).
Proof.
  simpl. split; [vm_compute; reflexivity | split].
  - eexists. split; [right; left; reflexivity | split; [simpl; tauto | simpl; lia]].
  - apply union_deps_nodup.
Qed.

(* ---- the `break` variant (not the model) ---- *)
Fixpoint scan_break (mids : list nat) (ds : list nat) (deps : list nat) : list nat :=
  match ds with
  | [] => deps
  | d :: r =>
    if memb d mids then scan_break mids r deps          (* continue *)
    else if memb d deps then deps                       (* break: the rest of the list is not read *)
    else scan_break mids r (deps ++ [d])
  end.
Definition union_deps_break (members : list fetch) (mids : list nat) : list nat :=
  fold_left (fun deps m => scan_break mids (fdeps m) deps) members [].

Definition break_witness : list fetch :=
  [ {| fid := 3; fdeps := [0; 1]; fsrc := Some (0, 0); fmerged := [] |};
    {| fid := 4; fdeps := [0; 2]; fsrc := Some (0, 0); fmerged := [] |} ].

Lemma union_deps_break_loses :
  exists members,
    union_deps members (ids members) = [0; 1; 2] /\
    union_deps_break members (ids members) = [0; 1] /\
    ~ (forall d, In d (union_deps_break members (ids members)) <->
                 exists m, In m members /\ In d (fdeps m) /\ ~ In d (ids members)).
Proof.
  exists break_witness. split; [vm_compute; reflexivity | split; [vm_compute; reflexivity|]].
  intros H. specialize (H 2). destruct H as [_ H].
  assert (In 2 (union_deps_break break_witness (ids break_witness))) as Hin.
  { apply H. eexists. split; [right; left; reflexivity | split; [simpl; tauto | simpl; lia]]. }
  vm_compute in Hin. intuition discriminate.
Qed.

(* the same inside ONE member's list: a repeated entry ends the scan *)
Lemma union_deps_break_loses_dup :
  let members := [ {| fid := 2; fdeps := [0; 0; 1]; fsrc := Some (0, 0); fmerged := [] |};
                   {| fid := 3; fdeps := [0]; fsrc := Some (0, 0); fmerged := [] |} ] in
  union_deps members (ids members) = [0; 1] /\ union_deps_break members (ids members) = [0].
Proof. vm_compute. split; reflexivity. Qed.
