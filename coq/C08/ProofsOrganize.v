(* C08: validateSchedule is sound, hence organizeFetchTree respects the dependencies whatever
   the scheduler computed (scheduler output when it validates, legacy waves otherwise). *)
From Gv Require Import C08.Model C08.Spec C08.ProofsSpec C08.ProofsSort C08.ProofsWaves.
From Coq Require Import List Arith Bool Permutation Lia.
Import ListNotations.

(* ---- validateSchedule ---- *)
Lemma vwalk_spec l t : forall B vs,
  vwalk l B t = Some vs -> vs = tree_ids t /\ sc (ids l) B t = true /\ incl vs (ids l).
Proof.
  induction t as [f | ts IH | ts IH] using tree_ind'; intros B vs H.
  - simpl in H. destruct (negb (memb (fid f) (ids l))) eqn:K; [discriminate|].
    destruct (forallb _ (fdeps f)) eqn:F; [|discriminate]. inversion H; subst. clear H.
    split; [reflexivity|]. split; [exact F|].
    intros z [E | []]. subst z. apply negb_false_iff in K. apply memb_In. exact K.
  - (* Sequence *)
    change (vwalk l B (Sequence ts)) with (vwalk_seq (vwalk l) B ts) in H.
    change (sc (ids l) B (Sequence ts)) with (sc_seq (sc (ids l)) B ts).
    unfold tree_ids. simpl tree_fetches.
    revert B vs H. induction IH as [|c r Hc Hr IHr]; intros B vs H.
    + simpl in H. inversion H; subst. split; [reflexivity|]. split; [reflexivity|]. intros z [].
    + simpl in H. destruct (vwalk l B c) as [a|] eqn:Ec; [|discriminate].
      destruct (vwalk_seq (vwalk l) (a ++ B) r) as [b|] eqn:Er; [|discriminate].
      inversion H; subst. clear H.
      destruct (Hc B a Ec) as [A1 [A2 A3]]. destruct (IHr (a ++ B) b Er) as [B1 [B2 B3]].
      split; [|split].
      * simpl. rewrite ids_app. rewrite A1, B1. reflexivity.
      * simpl. rewrite A2. simpl. rewrite <- A1. exact B2.
      * intros z Hz. apply in_app_or in Hz. destruct Hz; auto.
  - (* Parallel *)
    change (vwalk l B (Parallel ts)) with (vwalk_par (vwalk l B) ts) in H.
    change (sc (ids l) B (Parallel ts)) with (forallb (sc (ids l) B) ts).
    unfold tree_ids. simpl tree_fetches.
    revert vs H. induction IH as [|c r Hc Hr IHr]; intros vs H.
    + simpl in H. inversion H; subst. split; [reflexivity|]. split; [reflexivity|]. intros z [].
    + simpl in H. destruct (vwalk l B c) as [a|] eqn:Ec; [|discriminate].
      destruct (vwalk_par (vwalk l B) r) as [b|] eqn:Er; [|discriminate].
      inversion H; subst. clear H.
      destruct (Hc B a Ec) as [A1 [A2 A3]]. destruct (IHr b eq_refl) as [B1 [B2 B3]].
      split; [|split].
      * simpl. rewrite ids_app. rewrite A1, B1. reflexivity.
      * simpl. rewrite A2, B2. reflexivity.
      * intros z Hz. apply in_app_or in Hz. destruct Hz; auto.
Qed.

Lemma validate_facts l t :
  NoDup (ids l) -> validate_schedule l (Some t) = true ->
  sc (ids l) [] t = true /\ Permutation (tree_ids t) (ids l) /\ NoDup (tree_ids t).
Proof.
  intros N H. unfold validate_schedule in H.
  destruct (vwalk l [] t) as [vs|] eqn:E; [|discriminate].
  destruct (vwalk_spec l t [] vs E) as [A1 [A2 A3]]. subst vs.
  apply andb_true_iff in H. destruct H as [H1 H2].
  apply negb_true_iff in H1. apply has_dup_false in H1.
  split; [exact A2|]. split; [|exact H1].
  apply NoDup_Permutation; try assumption.
  intros x. split; [apply A3|]. intros Hx. rewrite forallb_forall in H2. apply memb_In. apply H2. exact Hx.
Qed.

(* validateSchedule t dag = ok  ->  every execution of t honours the dependencies carried by
   t's nodes, and t holds exactly the ids of the dag *)
Lemma validate_sound_proof l t :
  NoDup (ids l) -> validate_schedule l (Some t) = true ->
  tree_respects t /\ Permutation (tree_ids t) (ids l) /\
  (forall s, lin t s -> NoDup s /\ Permutation s (events_of (tree_fetches t))).
Proof.
  intros N H. destruct (validate_facts l t N H) as [A [P ND]]. split; [|split; [exact P|]].
  - intros s L f d Hf Hd Hk.
    destruct (proj1 sc_sound_all t s L (ids l) [] A f d) as [[] | R]; try assumption.
    eapply Permutation_in; [exact P | exact Hk].
  - intros s L. pose proof (lin_events t s L) as Q. split; [|exact Q].
    eapply Permutation_NoDup; [apply Permutation_sym; exact Q|]. apply events_of_nodup. exact ND.
Qed.

Lemma validate_plan l t :
  NoDup (ids l) -> validate_schedule l (Some t) = true -> incl (tree_fetches t) l ->
  Permutation (tree_fetches t) l /\ sc (ids l) [] t = true.
Proof.
  intros N H I. destruct (validate_facts l t N H) as [A [P ND]]. split; [|exact A].
  apply NoDup_Permutation_bis.
  - eapply nodup_map_inv. exact ND.
  - apply Permutation_length in P. unfold tree_ids, ids in P. rewrite !map_length in P. lia.
  - exact I.
Qed.

(* ---- where the scheduler's nodes come from ---- *)
Section Provenance.
  Variable l : list fetch.
  Definition from_l (ot : option tree) : Prop :=
    match ot with None => True | Some t => incl (tree_fetches t) l end.

  Lemma node_from x : from_l (node l x).
  Proof.
    unfold node. destruct (node_by_id l x) as [c|] eqn:E; simpl; [|exact I].
    apply node_by_id_some in E. intros z [Hz | []]. subst. apply E.
  Qed.

  Lemma go_sort_in {A} (cmp : A -> A -> comparison) (xs : list A) z : In z (go_sort cmp xs) <-> In z xs.
  Proof.
    unfold go_sort. rewrite <- in_rev.
    assert (G : forall racc, In z (fold_left (fun racc x => ins_rev cmp x racc) xs racc) <-> In z xs \/ In z racc).
    { induction xs as [|x xs IH]; simpl; intros racc; [tauto|].
      rewrite IH, ins_rev_in. split; intros H; intuition. }
    rewrite G. simpl. tauto.
  Qed.

  Lemma combine_from par cs : Forall from_l cs -> from_l (combine_of par cs).
  Proof.
    intros F. unfold combine_of.
    set (out := flat_map _ cs).
    assert (O : forall t, In t out -> incl (tree_fetches t) l).
    { intros t Ht. unfold out in Ht. apply in_flat_map in Ht. destruct Ht as [c [Hc Ht]].
      rewrite Forall_forall in F. specialize (F c Hc). destruct c as [c|]; [|destruct Ht].
      simpl in F. destruct par; destruct c as [f | xs | xs]; simpl in Ht;
        try (destruct Ht as [E | []]; subst; exact F);
        intros z Hz; apply F; simpl; apply in_flat_map; exists t; split; assumption. }
    destruct out as [|t1 [|t2 r]] eqn:E; [exact I | apply O; left; reflexivity |].
    destruct par; unfold from_l; intros z Hz.
    - change (In z (flat_map tree_fetches (go_sort cmp_min (t1 :: t2 :: r)))) in Hz.
      apply in_flat_map in Hz. destruct Hz as [t [Ht Hz]].
      apply go_sort_in in Ht. apply (O t Ht). exact Hz.
    - change (In z (flat_map tree_fetches (t1 :: t2 :: r))) in Hz.
      apply in_flat_map in Hz. destruct Hz as [t [Ht Hz]]. apply (O t Ht). exact Hz.
  Qed.

  Lemma sched_all_from {A} (f : A -> sres) xs ts :
    (forall x t, f x = SOk t -> from_l t) -> sched_all f xs = inr ts -> Forall from_l ts.
  Proof.
    intros Hf. revert ts. induction xs as [|x xs IH]; simpl; intros ts H.
    - inversion H; subst. constructor.
    - destruct (f x) as [t| |] eqn:E; try discriminate.
      destruct (sched_all f xs) as [e|ts'] eqn:E2; [discriminate|]. inversion H; subst.
      constructor; [eapply Hf; exact E | apply IH; reflexivity].
  Qed.

  Lemma sched_all_inl {A} (f : A -> sres) xs e : sched_all f xs = inl e -> forall t, e <> SOk t.
  Proof.
    induction xs as [|x xs IH]; simpl; intros H t; [discriminate|].
    destruct (f x) as [t'| |] eqn:E.
    - destruct (sched_all f xs) as [e'|ts]; [|discriminate]. inversion H; subst. apply IH. reflexivity.
    - inversion H; subst. discriminate.
    - inversion H; subst. discriminate.
  Qed.

  Lemma schedule_from fuel : forall inline set t, schedule l fuel inline set = SOk t -> from_l t.
  Proof.
    induction fuel as [|k IH]; intros inline set t H; [discriminate|].
    simpl in H. destruct (sort_nat set) as [|a [|b r]] eqn:Ess.
    - inversion H; subst. exact I.
    - inversion H; subst. apply node_from.
    - destruct (1 <? length (wcc l (a :: b :: r))).
      + destruct (sched_all (schedule l k inline) (wcc l (a :: b :: r))) as [e|branches] eqn:E.
        * exfalso. subst e. eapply sched_all_inl; [exact E | reflexivity].
        * inversion H; subst. apply combine_from.
          eapply sched_all_from; [|exact E]. intros x t' Hx. eapply IH. exact Hx.
      + set (roots := filter (fun id => negb (has_parent_in l id (a :: b :: r))) (a :: b :: r)) in *.
        destruct roots as [|r0 roots'] eqn:ER; [discriminate|].
        match type of H with
        | match sched_all ?br ?rs with _ => _ end = _ =>
          destruct (sched_all br rs) as [e|branches] eqn:E;
            [exfalso; subst e; eapply sched_all_inl; [exact E | reflexivity]|];
          assert (FB : Forall from_l branches)
        end.
        { eapply sched_all_from; [|exact E]. intros x t' Hx. simpl in Hx.
          match type of Hx with
          | match ?F with _ => _ end = _ => destruct F as [|m ms] eqn:EM
          end.
          - inversion Hx; subst. apply node_from.
          - destruct (schedule l k inline (m :: ms)) as [sub| |] eqn:ES; try discriminate.
            inversion Hx; subst. apply combine_from. constructor; [apply node_from|].
            constructor; [eapply IH; exact ES | constructor]. }
        match type of H with
        | match schedule l k inline ?rest with _ => _ end = _ =>
          destruct (schedule l k inline rest) as [rest_tree| |] eqn:ER2; try discriminate
        end.
        inversion H; subst. apply combine_from. constructor; [apply combine_from; exact FB|].
        constructor; [eapply IH; exact ER2 | constructor].
  Qed.

  Lemma build_from t : build_schedule_tree l = SOk t -> from_l t /\ validate_schedule l t = true.
  Proof.
    unfold build_schedule_tree. intros H.
    match type of H with
    | match sched_all ?f ?cs with _ => _ end = _ =>
      destruct (sched_all f cs) as [e|winners] eqn:E;
        [exfalso; subst e; eapply sched_all_inl; [exact E | reflexivity]|];
      assert (FW : Forall from_l winners)
    end.
    { eapply sched_all_from; [|exact E]. intros c t' Hc. cbv beta in Hc.
      destruct (schedule l (S (length l)) false c) as [w| |] eqn:Ew; try discriminate.
      destruct (schedule l (S (length l)) true c) as [i| |] eqn:Ei; try discriminate.
      inversion Hc; subst. destruct (dominates i w); eapply schedule_from; eassumption. }
    destruct (validate_schedule l (parallel_of winners)) eqn:V; [|discriminate].
    inversion H; subst. split; [apply combine_from; exact FW | exact V].
  Qed.
End Provenance.

(* ---- scheduleFetches.ProcessFetchTree ---- *)
Lemma new_fetch_dag_nodup l : new_fetch_dag_ok l = true -> NoDup (ids l).
Proof.
  unfold new_fetch_dag_ok. intros H. apply andb_true_iff in H. destruct H as [H _].
  apply negb_true_iff in H. apply has_dup_false. exact H.
Qed.

Lemma wrap_ok l t0 :
  Permutation (tree_fetches t0) l -> sc (ids l) [] t0 = true ->
  Permutation (tree_fetches (Sequence [t0])) l /\ sc (ids l) [] (Sequence [t0]) = true.
Proof.
  intros P S. split.
  - change (tree_fetches (Sequence [t0])) with (tree_fetches t0 ++ []). rewrite app_nil_r. exact P.
  - change (sc (ids l) [] (Sequence [t0])) with (sc (ids l) [] t0 && true). rewrite S. reflexivity.
Qed.

Lemma process_fetch_tree_ok trigger l t :
  process_fetch_tree trigger l = inr t ->
  Permutation (tree_fetches t) l /\ plan_respects t l /\ exactly_once t l.
Proof.
  unfold process_fetch_tree. destruct (new_fetch_dag_ok l) eqn:D; simpl; [|discriminate].
  pose proof (new_fetch_dag_nodup l D) as N.
  destruct (build_schedule_tree l) as [[t0|]| |] eqn:B; try discriminate.
  - intros H. destruct (build_from l _ B) as [F V]. simpl in F.
    destruct (validate_plan l t0 N V F) as [P S].
    assert (G : Permutation (tree_fetches t) l /\ sc (ids l) [] t = true).
    { destruct t0 as [f | xs | xs]; destruct trigger; inversion H; subst; try (split; assumption);
        apply wrap_ok; assumption. }
    destruct G as [Pt St]. split; [exact Pt|]. split.
    + apply sc_plan_respects; assumption.
    + apply perm_exactly_once; assumption.
  - intros H. inversion H; subst. clear H.
    destruct (build_from l _ B) as [_ V]. unfold validate_schedule in V. simpl in V.
    assert (l = []).
    { destruct l as [|f l]; [reflexivity|]. simpl in V. discriminate. }
    subst l. split; [constructor|]. split.
    + intros s L f d [].
    + apply perm_exactly_once; [constructor | constructor].
Qed.

(* ---- organizeFetchTree ---- *)
Lemma organize_in_waves_ok l t :
  acyclic l -> unique_ids l -> organize_in_waves l = Some t ->
  Permutation (tree_fetches t) l /\ plan_respects t l /\ exactly_once t l.
Proof.
  intros Hac Hu E. destruct (waves_respect_deps_proof l Hac Hu) as [t' [E' R]].
  rewrite E in E'. inversion E'; subst. exact R.
Qed.

(* without the MultiFetch stage the nodes of the tree are the planner's fetches *)
Lemma organize_respects_deps_proof sched trigger l t :
  acyclic l -> unique_ids l ->
  organize sched false trigger l = Done t ->
  Permutation (tree_fetches t) l /\ plan_respects t l /\ exactly_once t l.
Proof.
  intros Hac Hu. unfold organize. destruct sched.
  - destruct (process_fetch_tree trigger l) as [e|t'] eqn:E.
    + destruct e; try discriminate; unfold of_option;
        destruct (organize_in_waves l) as [t'|] eqn:W2; try discriminate;
        intros H; inversion H; subst; apply (organize_in_waves_ok _ _ Hac Hu W2).
    + intros H. inversion H; subst. apply (process_fetch_tree_ok _ _ _ E).
  - destruct (organize_in_waves l) as [t'|] eqn:W2; [|discriminate].
    intros H; inversion H; subst. apply (organize_in_waves_ok _ _ Hac Hu W2).
Qed.

(* with the scheduler off the model never runs out of fuel *)
Lemma organize_waves_total multi trigger l :
  acyclic l -> unique_ids l -> exists t, organize false multi trigger l = Done t.
Proof.
  intros Hac Hu. destruct (waves_respect_deps_proof l Hac Hu) as [t [E _]].
  unfold organize. rewrite E. eexists. reflexivity.
Qed.
