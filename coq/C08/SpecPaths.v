(* C08 (structural part): the DATA-FLOW dependency relation of a plan, independent of how the
   post-processing computes it, and what it means for a tree to respect it.

   A fetch at response path p is prepared from the objects found at p in the response under
   construction.  A fetch g merges its result at (response path of g) ++ (merge path of g): with a
   non-empty merge path it creates the object there, with an empty merge path it adds fields to the
   objects at its own response path, i.e. it creates every object strictly below.  So g "writes
   above" f when the place g merges at is the object f is prepared from or one of its ancestors,
   except that a fetch merging INTO the objects at p does not create the objects at p themselves
   (two entity fetches on the same object are siblings, not provider and dependant).
   Paths are compared segment by segment here -- "a.b" is not above "a.bc". *)
From Gv Require Import lib.Bytes C08.Model C08.Spec C08.ModelPaths C08.ProofsSort.
From Coq Require Import List Arith Bool NArith.
Import ListNotations.
Local Open Scope nat_scope.

Definition writes_above (g f : pfetch) : Prop :=
  (exists rest, prp f = (prp g ++ pmp g) ++ rest) /\ (pmp g = [] -> prp g <> prp f).

Fixpoint seg_prefix (p s : list bytes) {struct p} : bool :=
  match p with
  | [] => true
  | x :: p' => match s with
               | [] => false
               | y :: s' => bytes_eqb x y && seg_prefix p' s'
               end
  end.
Fixpoint segs_eqb (a b : list bytes) : bool :=
  match a, b with
  | [], [] => true
  | x :: a', y :: b' => bytes_eqb x y && segs_eqb a' b'
  | _, _ => false
  end.
Definition writes_above_b (g f : pfetch) : bool :=
  seg_prefix (prp g ++ pmp g) (prp f) && negb (is_nil (pmp g) && segs_eqb (prp g) (prp f)).

(* the planner's declared relation *)
Definition declared (pl : list pfetch) : list fetch := map pf pl.

(* the path part of the data-flow relation as a plan: every selected fetch "depends on" the
   fetches that write above it.  [sel] selects the fetches the statement is about: all of them,
   or the ones the stage is responsible for ([eligible]). *)
Definition writers (pl : list pfetch) (f : pfetch) : list nat :=
  map (fun g => fid (pf g))
      (filter (fun g => writes_above_b g f && negb (fid (pf g) =? fid (pf f))) pl).
Definition writers_plan_on (sel : pfetch -> bool) (pl : list pfetch) : list fetch :=
  map (fun f => {| fid := fid (pf f); fdeps := if sel f then writers pl f else [];
                   fsrc := fsrc (pf f); fmerged := fmerged (pf f) |}) pl.

(* every execution of the tree merges the node holding g before it prepares the node holding f,
   for every selected f and every g that writes above f (a node stands for the planned fetches
   merged into it) *)
Definition reads_respected_on (sel : pfetch -> bool) (t : tree) (pl : list pfetch) : Prop :=
  forall s, lin t s ->
  forall M f g, In M (tree_fetches t) -> In f pl -> sel f = true ->
                In (fid (pf f)) (planned_ids M) ->
                In g pl -> fid (pf g) <> fid (pf f) -> writes_above g f ->
  exists D, In D (tree_fetches t) /\ In (fid (pf g)) (planned_ids D) /\
            before (Merge (fid D)) (Prepare (fid M)) s.
Definition all_fetches (_ : pfetch) : bool := true.
(* the whole path relation *)
Definition reads_respected := reads_respected_on all_fetches.
(* the part the stage alone is responsible for: the fetches the planner left without dependencies *)
Definition stage_reads_respected := reads_respected_on eligible.

(* decidable forms, run on the implementation's trees *)
Definition reads_b_on (sel : pfetch -> bool) (t : tree) (pl : list pfetch) : bool :=
  respects_member_deps_b t (writers_plan_on sel pl).
Definition reads_b := reads_b_on all_fetches.
Definition stage_reads_b := reads_b_on eligible.

(* ---- hypotheses on plans ---- *)

(* response path elements are non-empty strings (field names, aliases, "@") *)
Definition segments_ok (pl : list pfetch) : Prop :=
  forall f seg, In f pl -> In seg (prp f) -> seg <> [].
Definition segments_ok_b (pl : list pfetch) : bool :=
  forallb (fun f => forallb (fun seg => negb (is_nil seg)) (prp f)) pl.

(* The stage completes only the fetches the planner left without any dependency.  For every other
   fetch the planner is responsible: each fetch that writes above it must be among its transitive
   dependencies (in practice: it depends on the fetch that provided its keys, which depends on ...). *)
Definition covers_on (sel : pfetch -> bool) (pl : list pfetch) : Prop :=
  forall f g, In f pl -> In g pl -> sel f = true -> eligible f = false ->
              fid (pf g) <> fid (pf f) -> writes_above g f ->
  tdep (completed pl) (pf f) (fid (pf g)).
Definition covers := covers_on all_fetches.
Definition covers_b (pl : list pfetch) : bool :=
  let l' := completed pl in
  forallb (fun f =>
             eligible f ||
             match node_depends_on (S (length l')) l' (pf f) with
             | None => false
             | Some r =>
               forallb (fun g => negb (writes_above_b g f) || (fid (pf g) =? fid (pf f)) ||
                                 memb (fid (pf g)) r) pl
             end) pl.

(* a sufficient condition for the completed relation to stay acyclic: no declared dependency
   points at a fetch with a longer response path (providers precede dependants) *)
Definition path_monotone (pl : list pfetch) : Prop :=
  forall f g, In f pl -> In g pl -> In (fid (pf g)) (fdeps (pf f)) ->
              length (response_path g) <= length (response_path f).
