(* C08: orderSequenceByDependencies -- the comparator is the lexicographic order on
   (number of transitive dependencies, fetch id); the sorted list is unique and topological. *)
From Gv Require Import C08.Model C08.Spec C08.ProofsSpec.
From Coq Require Import List Arith Bool Permutation Lia Sorted.
Import ListNotations.

(* ---- node_by_id ---- *)
Lemma node_by_id_some l d c : node_by_id l d = Some c -> In c l /\ fid c = d.
Proof.
  unfold node_by_id. intros H. apply find_some in H. destruct H as [H E].
  apply Nat.eqb_eq in E. split; assumption.
Qed.
Lemma node_by_id_none l d : node_by_id l d = None -> ~ In d (ids l).
Proof.
  unfold node_by_id. intros H Hin. apply ids_in in Hin. destruct Hin as [f [Hf E]].
  pose proof (find_none _ _ H f Hf) as N. simpl in N. rewrite E, Nat.eqb_refl in N. discriminate.
Qed.
Lemma node_by_id_unique l f : NoDup (ids l) -> In f l -> node_by_id l (fid f) = Some f.
Proof.
  unfold node_by_id. induction l as [|g l IH]; simpl; intros N H; [contradiction|].
  inversion N as [|? ? Hn Hr]; subst. destruct H as [E | H].
  - subst. rewrite Nat.eqb_refl. reflexivity.
  - destruct (fid g =? fid f) eqn:E.
    + apply Nat.eqb_eq in E. exfalso. apply Hn. rewrite E. apply in_ids. exact H.
    + apply IH; assumption.
Qed.
Lemma node_by_id_present l d : In d (ids l) -> exists c, node_by_id l d = Some c.
Proof.
  intros H. destruct (node_by_id l d) as [c|] eqn:E; [exists c; reflexivity|].
  apply node_by_id_none in E. contradiction.
Qed.

(* ---- slices.Sort and slices.Compact ---- *)
Lemma insert_nat_in x y l : In y (insert_nat x l) <-> y = x \/ In y l.
Proof.
  induction l as [|z l IH]; simpl.
  - split; intros [H | H]; auto; contradiction.
  - destruct (x <=? z); simpl; [split; intros [H | H]; auto|].
    rewrite IH. split; intros H; tauto.
Qed.
Lemma sort_nat_in y l : In y (sort_nat l) <-> In y l.
Proof.
  induction l as [|x l IH]; simpl; [tauto|]. rewrite insert_nat_in, IH. split; intros [H | H]; auto.
Qed.
Lemma insert_nat_sorted x l : StronglySorted le l -> StronglySorted le (insert_nat x l).
Proof.
  induction 1 as [|z l S IH F]; simpl.
  - constructor; constructor.
  - destruct (x <=? z) eqn:E.
    + apply Nat.leb_le in E. constructor; [constructor; assumption|].
      constructor; [exact E|]. rewrite Forall_forall in *. intros w Hw. specialize (F w Hw). lia.
    + apply Nat.leb_gt in E. constructor; [exact IH|].
      rewrite Forall_forall in *. intros w Hw. apply insert_nat_in in Hw.
      destruct Hw as [Hw | Hw]; [subst; lia | apply F; exact Hw].
Qed.
Lemma sort_nat_sorted l : StronglySorted le (sort_nat l).
Proof. induction l; simpl; [constructor | apply insert_nat_sorted; assumption]. Qed.

Lemma compact_in y l : In y (compact l) <-> In y l.
Proof.
  induction l as [|x r IH]; [simpl; tauto|].
  destruct r as [|z r'].
  - simpl. tauto.
  - change (compact (x :: z :: r')) with (if x =? z then compact (z :: r') else x :: compact (z :: r')).
    destruct (x =? z) eqn:E.
    + apply Nat.eqb_eq in E. subst. rewrite IH. simpl. tauto.
    + simpl. simpl in IH. rewrite IH. tauto.
Qed.
Lemma compact_nodup l : StronglySorted le l -> NoDup (compact l).
Proof.
  induction 1 as [|x r S IH F]; [constructor|].
  destruct r as [|z r'].
  - simpl. constructor; [intros [] | constructor].
  - change (compact (x :: z :: r')) with (if x =? z then compact (z :: r') else x :: compact (z :: r')).
    destruct (x =? z) eqn:E; [exact IH|].
    apply Nat.eqb_neq in E. constructor; [|exact IH].
    intros Hin. rewrite compact_in in Hin. simpl in Hin.
    inversion S as [|? ? S' F']; subst. rewrite Forall_forall in F, F'.
    assert (x <= z) by (apply F; left; reflexivity).
    destruct Hin as [Hin | Hin]; [lia|]. specialize (F' x Hin). simpl in F'. lia.
Qed.

(* ---- transitive dependencies as a relation ---- *)
Inductive tdep (l : list fetch) : fetch -> nat -> Prop :=
| td_direct f x : In x (fdeps f) -> tdep l f x
| td_trans f d c x : In d (fdeps f) -> node_by_id l d = Some c -> tdep l c x -> tdep l f x.

Definition key_ok (l : list fetch) (k : keyed) : Prop :=
  NoDup (snd k) /\ forall x, In x (snd k) <-> tdep l (fst k) x.

Lemma deps_loop_spec l rec ds raw :
  (forall c r, rec c = Some r -> forall x, In x r <-> tdep l c x) ->
  deps_loop l rec ds = Some raw ->
  forall x, In x raw <-> (In x ds \/ exists d c, In d ds /\ node_by_id l d = Some c /\ tdep l c x).
Proof.
  intros Hrec. revert raw. induction ds as [|d r IH]; simpl; intros raw H x.
  - inversion H; subst. simpl. split; [tauto|]. intros [[] | [d [c [[] _]]]].
  - destruct (deps_loop l rec r) as [rest|] eqn:E; [|discriminate].
    specialize (IH rest eq_refl).
    destruct (node_by_id l d) as [c|] eqn:N.
    + destruct (rec c) as [cd|] eqn:R; [|discriminate]. inversion H; subst. clear H.
      simpl. rewrite in_app_iff, (Hrec c cd R x), (IH x). split.
      * intros [A | [A | [A | [d' [c' [A [B C]]]]]]].
        -- left. left. exact A.
        -- right. exists d, c. split; [left; reflexivity | split; assumption].
        -- left. right. exact A.
        -- right. exists d', c'. split; [right; exact A | split; assumption].
      * intros [[A | A] | [d' [c' [[A | A] [B C]]]]].
        -- left. exact A.
        -- right. right. left. exact A.
        -- subst d'. rewrite N in B. inversion B; subst. right. left. exact C.
        -- right. right. right. exists d', c'. split; [exact A | split; assumption].
    + inversion H; subst. clear H. simpl. rewrite (IH x). split.
      * intros [A | [A | [d' [c' [A [B C]]]]]].
        -- left. left. exact A.
        -- left. right. exact A.
        -- right. exists d', c'. split; [right; exact A | split; assumption].
      * intros [[A | A] | [d' [c' [[A | A] [B C]]]]].
        -- left. exact A.
        -- right. left. exact A.
        -- subst d'. rewrite N in B. discriminate.
        -- right. right. exists d', c'. split; [exact A | split; assumption].
Qed.

Lemma tdep_unfold l f x :
  tdep l f x <-> (In x (fdeps f) \/ exists d c, In d (fdeps f) /\ node_by_id l d = Some c /\ tdep l c x).
Proof.
  split.
  - intros H. inversion H; subst; [left; assumption|]. right. exists d, c. auto.
  - intros [H | [d [c [A [B C]]]]]; [apply td_direct; exact H | eapply td_trans; eassumption].
Qed.

Lemma node_depends_on_spec fuel l f r :
  node_depends_on fuel l f = Some r -> key_ok l (f, r).
Proof.
  revert f r. induction fuel as [|k IH]; simpl; intros f r H; [discriminate|].
  destruct (deps_loop l (node_depends_on k l) (fdeps f)) as [raw|] eqn:E; [|discriminate].
  simpl in H. inversion H; subst. clear H. split; simpl.
  - apply compact_nodup. apply sort_nat_sorted.
  - intros x. rewrite compact_in, sort_nat_in, tdep_unfold.
    eapply deps_loop_spec; [|exact E].
    intros c r' Hc. apply (IH c r' Hc).
Qed.

(* ---- acyclic plans: a rank bounded by the number of fetches ---- *)
Lemma filter_length_lt {A} (p q : A -> bool) (l : list A) g :
  (forall x, p x = true -> q x = true) -> In g l -> p g = false -> q g = true ->
  length (filter p l) < length (filter q l).
Proof.
  intros Hpq. assert (Hle : forall l, length (filter p l) <= length (filter q l)).
  { induction l0 as [|x l0 IH]; simpl; [lia|]. destruct (p x) eqn:P.
    - rewrite (Hpq x P). simpl. lia.
    - destruct (q x); simpl; lia. }
  induction l as [|x l IH]; simpl; intros Hin Hp Hq; [contradiction|].
  destruct Hin as [E | Hin].
  - subst. rewrite Hp, Hq. simpl. specialize (Hle l). lia.
  - specialize (IH Hin Hp Hq). destruct (p x) eqn:P.
    + rewrite (Hpq x P). simpl. lia.
    + destruct (q x); simpl; lia.
Qed.
Lemma filter_len_le {A} (p : A -> bool) (l : list A) : length (filter p l) <= length l.
Proof. induction l as [|x l IH]; simpl; [lia|]. destruct (p x); simpl; lia. Qed.
Lemma filter_length_lt_all {A} (p : A -> bool) (l : list A) g :
  In g l -> p g = false -> length (filter p l) < length l.
Proof.
  induction l as [|x l IH]; simpl; intros Hin Hp; [contradiction|].
  destruct Hin as [E | Hin].
  - subst. rewrite Hp. pose proof (filter_len_le p l). lia.
  - specialize (IH Hin Hp). destruct (p x); simpl; lia.
Qed.

Lemma acyclic_bounded l :
  acyclic l ->
  exists rank : nat -> nat,
    (forall f d, In f l -> In d (fdeps f) -> In d (ids l) -> rank d < rank (fid f)) /\
    (forall f, In f l -> rank (fid f) < length l).
Proof.
  intros [rank H].
  exists (fun x => length (filter (fun g => rank (fid g) <? rank x) l)). split.
  - intros f d Hf Hd Hk. specialize (H f d Hf Hd Hk).
    apply ids_in in Hk. destruct Hk as [g [Hg E]]. subst d.
    apply (filter_length_lt _ _ l g).
    + intros x P. apply Nat.ltb_lt in P. apply Nat.ltb_lt. lia.
    + exact Hg.
    + apply Nat.ltb_ge. lia.
    + apply Nat.ltb_lt. exact H.
  - intros f Hf. apply (filter_length_lt_all _ l f Hf). apply Nat.ltb_ge. lia.
Qed.

Section Acyclic.
  Variable l : list fetch.
  Variable rank : nat -> nat.
  Hypothesis Hrank : forall f d, In f l -> In d (fdeps f) -> In d (ids l) -> rank d < rank (fid f).
  Hypothesis Hbound : forall f, In f l -> rank (fid f) < length l.
  Hypothesis Huniq : NoDup (ids l).

  Lemma tdep_rank f x : In f l -> tdep l f x -> In x (ids l) -> rank x < rank (fid f).
  Proof.
    intros Hf H. induction H as [f x H | f d c x Hd Hc H IH]; intros Hx.
    - apply Hrank; assumption.
    - apply node_by_id_some in Hc. destruct Hc as [Hc E]. subst d.
      specialize (IH Hc Hx). assert (rank (fid c) < rank (fid f)).
      { apply Hrank; [exact Hf | exact Hd | apply in_ids; exact Hc]. }
      lia.
  Qed.
  Lemma tdep_irrefl f : In f l -> ~ tdep l f (fid f).
  Proof. intros Hf H. pose proof (tdep_rank f (fid f) Hf H (in_ids _ _ Hf)). lia. Qed.

  Lemma tdep_trans a b x : node_by_id l (fid a) = Some a -> tdep l b (fid a) -> tdep l a x -> tdep l b x.
  Proof.
    intros Ha H Hx. remember (fid a) as ia eqn:E. induction H as [b y H | b d c y Hd Hc H IH].
    - subst. eapply td_trans; eassumption.
    - eapply td_trans; [exact Hd | exact Hc | apply IH; assumption].
  Qed.

  (* fuel: rank + 1 levels of recursion are enough *)
  Lemma deps_loop_some rec ds :
    (forall d c, In d ds -> node_by_id l d = Some c -> rec c <> None) ->
    deps_loop l rec ds <> None.
  Proof.
    induction ds as [|d r IH]; simpl; intros H; [discriminate|].
    destruct (deps_loop l rec r) as [rest|] eqn:E.
    - destruct (node_by_id l d) as [c|] eqn:N; [|discriminate].
      destruct (rec c) eqn:R; [discriminate|]. exfalso. apply (H d c); auto.
    - exfalso. apply IH; [|reflexivity]. intros d' c' Hd'. apply H. right. exact Hd'.
  Qed.
  Lemma node_depends_on_some fuel f : In f l -> rank (fid f) < fuel -> node_depends_on fuel l f <> None.
  Proof.
    revert f. induction fuel as [|k IH]; intros f Hf Hr; [lia|]. simpl.
    destruct (deps_loop l (node_depends_on k l) (fdeps f)) eqn:E; [discriminate|].
    exfalso. revert E. apply deps_loop_some. intros d c Hd Hc.
    apply node_by_id_some in Hc. destruct Hc as [Hc E]. subst d. apply IH; [exact Hc|].
    assert (rank (fid c) < rank (fid f)) by (apply Hrank; [exact Hf | exact Hd | apply in_ids; exact Hc]).
    lia.
  Qed.

  Lemma keys_some fuel nodes : incl nodes l -> length l < fuel -> keys fuel l nodes <> None.
  Proof.
    induction nodes as [|f r IH]; simpl; intros Hi Hf; [discriminate|].
    destruct (node_depends_on fuel l f) eqn:E.
    - destruct (keys fuel l r) eqn:K; [discriminate|]. exfalso. apply IH; [|exact Hf|reflexivity].
      intros x Hx. apply Hi. right. exact Hx.
    - exfalso. revert E. apply node_depends_on_some; [apply Hi; left; reflexivity|].
      assert (rank (fid f) < length l) by (apply Hbound; apply Hi; left; reflexivity). lia.
  Qed.

  (* ---- the comparator ---- *)
  Definition klt (x y : keyed) : Prop :=
    length (snd x) < length (snd y) \/
    (length (snd x) = length (snd y) /\ fid (fst x) < fid (fst y)).
  Definition lex_cmp (x y : keyed) : comparison :=
    match length (snd x) ?= length (snd y) with
    | Eq => fid (fst x) ?= fid (fst y)
    | c => c
    end.

  Definition good (k : keyed) : Prop := In (fst k) l /\ key_ok l k.

  Lemma dep_shorter x y : good x -> good y -> In (fid (fst x)) (snd y) -> length (snd x) < length (snd y).
  Proof.
    intros [Hx [Nx Kx]] [Hy [Ny Ky]] Hin.
    assert (Hinc : incl (fid (fst x) :: snd x) (snd y)).
    { intros z [E | Hz]; [subst; exact Hin|].
      apply Ky. apply (tdep_trans (fst x)).
      - apply node_by_id_unique; assumption.
      - apply Ky. exact Hin.
      - apply Kx. exact Hz. }
    assert (Hnd : NoDup (fid (fst x) :: snd x)).
    { constructor; [|exact Nx]. intros H. apply Kx in H. revert H. apply tdep_irrefl. exact Hx. }
    pose proof (NoDup_incl_length Hnd Hinc) as L. simpl in L. lia.
  Qed.

  Lemma cmp_is_lex x y : good x -> good y -> go_cmp x y = lex_cmp x y.
  Proof.
    intros Gx Gy. unfold go_cmp, lex_cmp.
    destruct (list_nat_eqb (snd x) (snd y)) eqn:E.
    - apply list_nat_eqb_eq in E. rewrite E, Nat.compare_refl. reflexivity.
    - destruct (memb (fid (fst x)) (snd y)) eqn:M1.
      + apply memb_In in M1. pose proof (dep_shorter x y Gx Gy M1) as L.
        apply Nat.compare_lt_iff in L. rewrite L. reflexivity.
      + destruct (memb (fid (fst y)) (snd x)) eqn:M2.
        * apply memb_In in M2. pose proof (dep_shorter y x Gy Gx M2) as L.
          apply Nat.compare_gt_iff in L. rewrite L. reflexivity.
        * destruct (length (snd x) =? length (snd y)) eqn:L.
          -- apply Nat.eqb_eq in L. rewrite L, Nat.compare_refl. reflexivity.
          -- apply Nat.eqb_neq in L. destruct (length (snd x) ?= length (snd y)) eqn:C; try reflexivity.
             apply Nat.compare_eq in C. contradiction.
  Qed.

  Lemma lex_lt x y : lex_cmp x y = Lt <-> klt x y.
  Proof.
    unfold lex_cmp, klt. destruct (length (snd x) ?= length (snd y)) eqn:C.
    - apply Nat.compare_eq in C. rewrite Nat.compare_lt_iff. split; [intros; right; split; assumption|].
      intros [H | [_ H]]; [lia | exact H].
    - apply Nat.compare_lt_iff in C. split; [intros; left; exact C | reflexivity].
    - apply Nat.compare_gt_iff in C. split; [discriminate|]. intros [H | [H _]]; lia.
  Qed.
  Lemma lex_gt x y : lex_cmp x y = Gt <-> klt y x.
  Proof.
    unfold lex_cmp, klt. destruct (length (snd x) ?= length (snd y)) eqn:C.
    - apply Nat.compare_eq in C. rewrite Nat.compare_gt_iff. split; [intros; right; split; [symmetry|]; assumption|].
      intros [H | [_ H]]; [lia | exact H].
    - apply Nat.compare_lt_iff in C. split; [discriminate|]. intros [H | [H _]]; lia.
    - apply Nat.compare_gt_iff in C. split; [intros; left; exact C | reflexivity].
  Qed.
  Lemma lex_eq x y : lex_cmp x y = Eq -> fid (fst x) = fid (fst y).
  Proof.
    unfold lex_cmp. destruct (length (snd x) ?= length (snd y)) eqn:C; try discriminate.
    apply Nat.compare_eq.
  Qed.

  Lemma klt_trans x y z : klt x y -> klt y z -> klt x z.
  Proof. unfold klt. intros [A | [A B]] [C | [C D]]; try (left; lia). right. split; lia. Qed.
  Lemma klt_irrefl x : ~ klt x x.
  Proof. unfold klt. intros [A | [_ A]]; lia. Qed.
  Lemma klt_total x y : fid (fst x) <> fid (fst y) -> klt x y \/ klt y x.
  Proof. unfold klt. intros H. lia. Qed.

  (* a dependency has a strictly smaller key *)
  Lemma dep_klt x y : good x -> good y -> In (fid (fst x)) (fdeps (fst y)) -> klt x y.
  Proof.
    intros Gx Gy H. left. apply dep_shorter; try assumption.
    destruct Gy as [_ [_ Ky]]. apply Ky. apply td_direct. exact H.
  Qed.
End Acyclic.

(* ---- insertion sort ---- *)
Section Sorting.
  Context {A : Type} (cmp : A -> A -> comparison) (lt : A -> A -> Prop).
  Hypothesis lt_trans : forall x y z, lt x y -> lt y z -> lt x z.

  Lemma ins_rev_in x z racc : In z (ins_rev cmp x racc) <-> z = x \/ In z racc.
  Proof.
    induction racc as [|y r IH]; simpl.
    - split; intros [H | H]; auto; contradiction.
    - destruct (cmp x y); simpl; try (split; intros [H | H]; auto; fail).
      rewrite IH. split; intros H; tauto.
  Qed.
  Lemma ins_rev_perm x racc : Permutation (x :: racc) (ins_rev cmp x racc).
  Proof.
    induction racc as [|y r IH]; simpl; [apply Permutation_refl|].
    destruct (cmp x y); try apply Permutation_refl.
    eapply Permutation_trans; [apply perm_swap|]. constructor. exact IH.
  Qed.

  (* [ok]: the elements on which cmp is known to decide lt, pairwise distinct under lt *)
  Variable ok : A -> Prop.
  Hypothesis cmp_lt : forall x y, ok x -> ok y -> cmp x y = Lt -> lt x y.
  Hypothesis cmp_ge : forall x y, ok x -> ok y -> x <> y -> cmp x y <> Lt -> lt y x.

  Lemma ins_rev_sorted x racc :
    ok x -> Forall ok racc -> ~ In x racc ->
    StronglySorted (fun p q => lt q p) racc ->
    StronglySorted (fun p q => lt q p) (ins_rev cmp x racc).
  Proof.
    intros Hx Hok Hnin S. induction S as [|y r S IH F]; simpl.
    - constructor; constructor.
    - inversion Hok as [|? ? Hy Hr]; subst.
      destruct (cmp x y) eqn:C.
      + assert (lt y x) by (apply cmp_ge; try assumption; [intros E; apply Hnin; left; auto | congruence]).
        constructor; [constructor; assumption|]. constructor; [assumption|].
        rewrite Forall_forall in *. intros z Hz. eapply lt_trans; [apply F; exact Hz | assumption].
      + constructor.
        * apply IH; [exact Hr | intros Hin; apply Hnin; right; exact Hin].
        * rewrite Forall_forall in *. intros z Hz. apply ins_rev_in in Hz. destruct Hz as [E | Hz].
          -- subst. apply cmp_lt; assumption.
          -- apply F. exact Hz.
      + assert (lt y x) by (apply cmp_ge; try assumption; [intros E; apply Hnin; left; auto | congruence]).
        constructor; [constructor; assumption|]. constructor; [assumption|].
        rewrite Forall_forall in *. intros z Hz. eapply lt_trans; [apply F; exact Hz | assumption].
  Qed.

  Lemma fold_ins_rev l : forall racc,
    Forall ok l -> Forall ok racc -> NoDup (l ++ racc) ->
    StronglySorted (fun p q => lt q p) racc ->
    let out := fold_left (fun racc x => ins_rev cmp x racc) l racc in
    StronglySorted (fun p q => lt q p) out /\ Permutation (l ++ racc) out.
  Proof.
    induction l as [|x l IH]; simpl; intros racc Hl Hr N S.
    - split; [exact S | apply Permutation_refl].
    - inversion Hl as [|? ? Hx Hl']; subst. inversion N as [|? ? Hn N']; subst.
      assert (Hnr : ~ In x racc) by (intros H; apply Hn; apply in_or_app; right; exact H).
      destruct (IH (ins_rev cmp x racc)) as [S' P'].
      + exact Hl'.
      + rewrite Forall_forall in *. intros z Hz. apply ins_rev_in in Hz. destruct Hz; [subst; assumption | auto].
      + eapply Permutation_NoDup; [|exact N].
        eapply Permutation_trans; [apply Permutation_middle|]. apply Permutation_app_head. apply ins_rev_perm.
      + apply ins_rev_sorted; assumption.
      + split; [exact S'|]. eapply Permutation_trans; [|exact P'].
        eapply Permutation_trans; [apply Permutation_middle|]. apply Permutation_app_head. apply ins_rev_perm.
  Qed.

  Lemma sorted_rev l : StronglySorted (fun p q => lt q p) l -> StronglySorted lt (rev l).
  Proof.
    induction 1 as [|x l S IH F]; simpl; [constructor|].
    (* rev l ++ [x]: every element of rev l is below x *)
    assert (G : forall a, StronglySorted lt a -> Forall (fun z => lt z x) a -> StronglySorted lt (a ++ [x])).
    { induction 1 as [|y a Sa IHa Fa]; simpl; intros Fx.
      - constructor; constructor.
      - inversion Fx; subst. constructor; [apply IHa; assumption|].
        apply Forall_app. split; [exact Fa | constructor; [assumption | constructor]]. }
    apply G; [exact IH|]. rewrite Forall_forall in *. intros z Hz. apply F. apply in_rev. exact Hz.
  Qed.

  Lemma go_sort_spec l :
    Forall ok l -> NoDup l -> StronglySorted lt (go_sort cmp l) /\ Permutation l (go_sort cmp l).
  Proof.
    intros Hl N. unfold go_sort.
    destruct (fold_ins_rev l []) as [S P]; try assumption.
    - constructor.
    - rewrite app_nil_r. exact N.
    - constructor.
    - split; [apply sorted_rev; exact S|].
      rewrite app_nil_r in P. eapply Permutation_trans; [exact P | apply Permutation_rev].
  Qed.

  (* two sorted arrangements of the same elements coincide *)
  Hypothesis lt_irrefl : forall x, ~ lt x x.
  Lemma sorted_unique a : forall b,
    StronglySorted lt a -> StronglySorted lt b -> Permutation a b -> a = b.
  Proof.
    induction a as [|x a IH]; intros b Sa Sb P.
    - apply Permutation_nil in P. subst. reflexivity.
    - destruct b as [|y b]; [apply Permutation_sym in P; apply Permutation_nil in P; discriminate|].
      inversion Sa as [|? ? Sa' Fa]; subst. inversion Sb as [|? ? Sb' Fb]; subst.
      rewrite Forall_forall in Fa, Fb.
      assert (E : x = y).
      { assert (Hx : In x (y :: b)) by (eapply Permutation_in; [exact P | left; reflexivity]).
        assert (Hy : In y (x :: a)) by (eapply Permutation_in; [apply Permutation_sym; exact P | left; reflexivity]).
        destruct Hx as [E | Hx]; [symmetry; exact E|]. destruct Hy as [E | Hy]; [exact E|].
        exfalso. apply (lt_irrefl x). eapply lt_trans; [apply Fa; exact Hy | apply Fb; exact Hx]. }
      subst y. f_equal. apply IH; try assumption. eapply Permutation_cons_inv. exact P.
  Qed.
End Sorting.

(* ---- order_sequence ---- *)
Lemma keys_spec fuel l nodes ks :
  keys fuel l nodes = Some ks ->
  map fst ks = nodes /\ Forall (fun k => node_depends_on fuel l (fst k) = Some (snd k)) ks.
Proof.
  revert ks. induction nodes as [|f r IH]; simpl; intros ks H.
  - inversion H; subst. split; [reflexivity | constructor].
  - destruct (node_depends_on fuel l f) as [d|] eqn:E; [|discriminate].
    destruct (keys fuel l r) as [ks'|] eqn:K; [|discriminate]. inversion H; subst. clear H.
    destruct (IH ks' eq_refl) as [A B]. split; [simpl; rewrite A; reflexivity|].
    constructor; [simpl; exact E | exact B].
Qed.

Lemma sorted_app_tail {A} (R : A -> A -> Prop) a x b y :
  StronglySorted R (a ++ x :: b) -> In y b -> R x y.
Proof.
  induction a as [|z a IH]; simpl; intros S H.
  - inversion S as [|? ? S' F]; subst. rewrite Forall_forall in F. apply F. exact H.
  - inversion S; subst. apply IH; assumption.
Qed.

Lemma map_injective_in {A B} (f : A -> B) l x y :
  NoDup (map f l) -> In x l -> In y l -> f x = f y -> x = y.
Proof.
  induction l as [|z l IH]; simpl; intros N Hx Hy E; [contradiction|].
  inversion N as [|? ? Hn N']; subst.
  destruct Hx as [Hx | Hx]; destruct Hy as [Hy | Hy]; subst.
  - reflexivity.
  - exfalso. apply Hn. rewrite E. apply in_map. exact Hy.
  - exfalso. apply Hn. rewrite <- E. apply in_map. exact Hx.
  - apply IH; assumption.
Qed.

(* everything that the theorems below need about the keyed list of an acyclic plan *)
Lemma keys_facts l :
  acyclic l -> unique_ids l ->
  exists ks, keys (S (length l)) l l = Some ks /\ map fst ks = l /\ NoDup ks /\
    NoDup (map (fun k => fid (fst k)) ks) /\
    (forall k, In k ks -> In (fst k) l /\ key_ok l k) /\
    (forall x y, In x ks -> In y ks -> go_cmp x y = lex_cmp x y) /\
    (forall x y, In x ks -> In y ks -> In (fid (fst x)) (fdeps (fst y)) -> klt x y).
Proof.
  intros Hac Hu. destruct (acyclic_bounded l Hac) as [rank [Hrank Hbound]].
  destruct (keys (S (length l)) l l) as [ks|] eqn:K.
  2:{ exfalso. revert K. apply (keys_some l rank Hrank Hbound); [apply incl_refl | lia]. }
  exists ks. destruct (keys_spec _ _ _ _ K) as [M F]. rewrite Forall_forall in F.
  assert (G : forall k, In k ks -> In (fst k) l /\ key_ok l k).
  { intros k Hk. split.
    - rewrite <- M. apply in_map. exact Hk.
    - pose proof (node_depends_on_spec _ _ _ _ (F k Hk)) as Q. destruct k; exact Q. }
  assert (N2 : NoDup (map (fun k => fid (fst k)) ks)).
  { rewrite <- (map_map fst fid). rewrite M. exact Hu. }
  split; [reflexivity|]. split; [exact M|]. split; [eapply nodup_map_inv; exact N2|].
  split; [exact N2|]. split; [exact G|]. split.
  - intros x y Hx Hy. apply (cmp_is_lex l rank Hrank Hu); [apply G; exact Hx | apply G; exact Hy].
  - intros x y Hx Hy. apply (dep_klt l rank Hrank Hu); [apply G; exact Hx | apply G; exact Hy].
Qed.

Lemma keyed_sort_spec ks :
  NoDup ks -> NoDup (map (fun k => fid (fst k)) ks) ->
  (forall x y, In x ks -> In y ks -> go_cmp x y = lex_cmp x y) ->
  StronglySorted klt (go_sort go_cmp ks) /\ Permutation ks (go_sort go_cmp ks).
Proof.
  intros N N2 C.
  apply (go_sort_spec go_cmp klt klt_trans (fun k => In k ks)).
  - intros x y Hx Hy E. rewrite (C x y Hx Hy) in E. apply lex_lt. exact E.
  - intros x y Hx Hy Hne E. rewrite (C x y Hx Hy) in E.
    destruct (lex_cmp x y) eqn:L; [| congruence |].
    + exfalso. apply Hne. apply (map_injective_in (fun k => fid (fst k)) ks); try assumption.
      apply lex_eq. exact L.
    + apply lex_gt. exact L.
  - rewrite Forall_forall. auto.
  - exact N.
Qed.

Lemma order_sequence_ok l :
  acyclic l -> unique_ids l ->
  exists s, order_sequence l = Some s /\ Permutation l s /\ topological l s.
Proof.
  intros Hac Hu. destruct (keys_facts l Hac Hu) as [ks [K [M [N [N2 [G [C D]]]]]]].
  destruct (keyed_sort_spec ks N N2 C) as [S P].
  exists (map fst (go_sort go_cmp ks)). unfold order_sequence. rewrite K.
  split; [reflexivity|]. split.
  - rewrite <- M. apply Permutation_map. exact P.
  - intros pre f post E d Hd Hk.
    apply map_eq_app in E. destruct E as [kpre [krest [E1 [E2 E3]]]].
    apply map_eq_cons in E3. destruct E3 as [kf [kpost [E3 [E4 E5]]]]. subst pre krest f post.
    apply ids_in in Hk. destruct Hk as [g [Hg Eg]]. rewrite <- M in Hg.
    apply in_map_iff in Hg. destruct Hg as [kg [Egk Hkg]]. subst g d.
    assert (Hkf : In kf ks).
    { eapply Permutation_in; [apply Permutation_sym; exact P|]. rewrite E1. apply in_or_app. right. left. reflexivity. }
    pose proof (D kg kf Hkg Hkf Hd) as L.
    assert (Hin : In kg (kpre ++ kf :: kpost)) by (rewrite <- E1; eapply Permutation_in; [exact P | exact Hkg]).
    apply in_app_or in Hin. destruct Hin as [Hin | [Hin | Hin]].
    + unfold ids. rewrite map_map. apply in_map_iff. exists kg. split; [reflexivity | exact Hin].
    + subst. exfalso. revert L. apply klt_irrefl.
    + exfalso. rewrite E1 in S. pose proof (sorted_app_tail klt _ _ _ _ S Hin) as L2.
      apply (klt_irrefl kf). eapply klt_trans; eassumption.
Qed.

(* the sorted order is unique: whatever algorithm slices.SortFunc runs, any arrangement of the
   nodes in which no element compares greater than a later one is the model's *)
Lemma sort_unique l :
  acyclic l -> unique_ids l ->
  forall ks, keys (S (length l)) l l = Some ks ->
  forall ks', Permutation ks ks' -> StronglySorted (fun x y => go_cmp x y <> Gt) ks' ->
  ks' = go_sort go_cmp ks.
Proof.
  intros Hac Hu ks K ks' P S.
  destruct (keys_facts l Hac Hu) as [ks0 [K0 [M [N [N2 [G [C D]]]]]]].
  rewrite K in K0. inversion K0; subst ks0. clear K0.
  destruct (keyed_sort_spec ks N N2 C) as [S0 P0].
  apply (sorted_unique klt klt_trans klt_irrefl).
  - (* not-greater between distinct elements is less *)
    assert (N' : NoDup (map (fun k => fid (fst k)) ks')) by (eapply Permutation_NoDup; [apply Permutation_map; exact P | exact N2]).
    assert (I' : forall k, In k ks' -> In k ks) by (intros k Hk; eapply Permutation_in; [apply Permutation_sym; exact P | exact Hk]).
    clear P. induction S as [|x r S IH F]; [constructor|].
    simpl in N'. inversion N' as [|? ? Hn Nr]; subst. constructor.
    + apply IH; [exact Nr | intros k Hk; apply I'; right; exact Hk].
    + rewrite Forall_forall in *. intros y Hy. specialize (F y Hy).
      rewrite (C x y) in F; [| apply I'; left; reflexivity | apply I'; right; exact Hy].
      destruct (lex_cmp x y) eqn:L; [| apply lex_lt; exact L | congruence].
      exfalso. apply Hn. apply lex_eq in L. rewrite L. apply in_map_iff. exists y. split; [reflexivity | exact Hy].
  - exact S0.
  - eapply Permutation_trans; [apply Permutation_sym; exact P | exact P0].
Qed.

(* the comparator of the Go code, on the nodes of an acyclic plan with unique ids, is the
   lexicographic order on (number of transitive dependencies, id) *)
Lemma cmp_is_lex_plan l :
  acyclic l -> unique_ids l ->
  forall a b ra rb, In a l -> In b l ->
  node_depends_on (S (length l)) l a = Some ra ->
  node_depends_on (S (length l)) l b = Some rb ->
  go_cmp (a, ra) (b, rb) = lex_cmp (a, ra) (b, rb).
Proof.
  intros Hac Hu a b ra rb Ha Hb Ea Eb.
  destruct (acyclic_bounded l Hac) as [rank [Hrank Hbound]].
  apply (cmp_is_lex l rank Hrank Hu); split; simpl; try assumption.
  - apply (node_depends_on_spec _ _ _ _ Ea).
  - apply (node_depends_on_spec _ _ _ _ Eb).
Qed.
