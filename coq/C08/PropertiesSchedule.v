(* C08 (schedule half) property theorems: statements only; every proof is [exact lemma].
   The structural half is in Properties.v.  Model: C08/ProofsSchedule.v (the loader's run as a fold
   of [step] over a linearisation of Prepare/Merge events; rpos/wpos = positions a fetch reads
   when it is prepared / may write when it is merged; resp/errs = pointwise subgraph oracle). *)
From Gv Require Import C08.Model C08.Spec C08.ProofsSpec C08.ProofsSchedule C09.ProofsCommute C09.ProofsSchedule.
From Coq Require Import List Arith Bool Permutation.
Import ListNotations.

(* (5) The final response does not depend on the completion order of concurrently running
   requests: for every tree that respects its dependencies, under the two plan hypotheses
   (booleans, evaluated on every dumped real plan by harness/cmd/c08e) and oracle agreement on
   the shared positions, ANY two executions (linearisations of Prepare/Merge events consistent
   with Sequence/Parallel) end with identical data, the same multiset of requests and the same
   multiset of errors -- for every oracle, every read/write layout and every initial state. *)
Theorem c08_completion_order_irrelevant :
  forall (rpos wpos : nat -> list nat) (resp : nat -> request -> list (nat * nat))
         (errs : nat -> request -> list nat) (shared : list nat) (canon : nat -> nat)
         (t : tree),
  NoDup (tree_ids t) -> tree_respects t ->
  deps_cover_reads_b rpos wpos (tree_fetches t) = true ->
  writes_compatible_b wpos shared (tree_fetches t) = true ->
  shared_agree resp shared canon ->
  forall s1 s2, lin t s1 -> lin t s2 -> forall st,
    sdata (loader_run rpos wpos resp errs st s1) = sdata (loader_run rpos wpos resp errs st s2) /\
    Permutation (requests_sent (loader_run rpos wpos resp errs st s1)) (requests_sent (loader_run rpos wpos resp errs st s2)) /\
    serr (loader_run rpos wpos resp errs st s1) = serr (loader_run rpos wpos resp errs st s2).
Proof. exact completion_order_irrelevant_proof. Qed.
Print Assumptions c08_completion_order_irrelevant.

(* the same with the whole state: every fetch sends the same request in both executions *)
Theorem c08_completion_order_irrelevant_state :
  forall rpos wpos resp errs shared canon (t : tree),
  NoDup (tree_ids t) -> tree_respects t ->
  deps_cover_reads_b rpos wpos (tree_fetches t) = true ->
  writes_compatible_b wpos shared (tree_fetches t) = true ->
  shared_agree resp shared canon ->
  forall s1 s2, lin t s1 -> lin t s2 -> forall st,
    loader_run rpos wpos resp errs st s1 = loader_run rpos wpos resp errs st s2.
Proof. exact completion_order_irrelevant_state. Qed.
Print Assumptions c08_completion_order_irrelevant_state.

(* across trees: whatever tree post-processing builds over one plan (waves, scheduler, any tree
   accepted by validateSchedule), every execution of either gives the same final state *)
Theorem c08_tree_choice_irrelevant :
  forall rpos wpos resp errs shared canon (l : list fetch),
  deps_cover_reads_b rpos wpos l = true -> writes_compatible_b wpos shared l = true ->
  shared_agree resp shared canon -> unique_ids l ->
  forall t1 t2, plan_respects t1 l -> exactly_once t1 l -> plan_respects t2 l -> exactly_once t2 l ->
  forall s1 s2, lin t1 s1 -> lin t2 s2 -> forall st,
    loader_run rpos wpos resp errs st s1 = loader_run rpos wpos resp errs st s2.
Proof. exact plan_runs_agree. Qed.
Print Assumptions c08_tree_choice_irrelevant.

(* the commutation hypothesis of C09.ProofsCommute.linearization_independent holds for the
   loader's step: events unordered by the precedence relation of the plan commute in every state *)
Theorem c08_unordered_events_commute :
  forall rpos wpos resp errs shared canon (l : list fetch),
  deps_cover_reads_b rpos wpos l = true -> writes_compatible_b wpos shared l = true ->
  shared_agree resp shared canon ->
  forall st a b, In a (events_of l) -> In b (events_of l) -> a <> b ->
  indep event (events_of l) (event_ord l) a b ->
  step rpos wpos resp errs (step rpos wpos resp errs st a) b =
  step rpos wpos resp errs (step rpos wpos resp errs st b) a.
Proof. exact events_commute. Qed.
Print Assumptions c08_unordered_events_commute.

(* the error component is a multiset: a merge adds exactly the errors of its response *)
Theorem c08_errors_multiset :
  forall rpos wpos resp errs st f rq,
  nth_error (sreq st) f = Some (Some rq) ->
  Permutation (serr (step rpos wpos resp errs st (Merge f))) (errs f rq ++ serr st).
Proof. exact merge_errors_multiset. Qed.
Print Assumptions c08_errors_multiset.

(* neither plan hypothesis can be dropped *)
Theorem c08_deps_cover_reads_needed :
  exists rpos wpos resp errs shared t st s1 s2,
    NoDup (tree_ids t) /\ tree_respects t /\ writes_compatible_b wpos shared (tree_fetches t) = true /\
    lin t s1 /\ lin t s2 /\
    sdata (loader_run rpos wpos resp errs st s1) <> sdata (loader_run rpos wpos resp errs st s2).
Proof.
  exists ex_rpos, ex_wpos, ex_resp, ex_errs, ex_shared, bad_tree, ex_st0, (run_lr bad_tree), (run_rl bad_tree).
  destruct deps_cover_reads_needed as [A [B [C [_ [D [E F]]]]]]. repeat split; assumption.
Qed.
Print Assumptions c08_deps_cover_reads_needed.

Theorem c08_writes_compatible_needed :
  exists rpos wpos resp errs t st s1 s2,
    NoDup (tree_ids t) /\ tree_respects t /\ deps_cover_reads_b rpos wpos (tree_fetches t) = true /\
    lin t s1 /\ lin t s2 /\
    sdata (loader_run rpos wpos resp errs st s1) <> sdata (loader_run rpos wpos resp errs st s2).
Proof.
  exists (fun _ => []), clash_wpos, clash_resp, (fun _ _ => []), clash_tree,
    (mkstate [None] [None; None; None] []), (run_lr clash_tree), (run_rl clash_tree).
  destruct writes_compatible_needed as [A [B [C [_ D]]]].
  repeat split; try assumption; [apply run_lr_lin | apply run_rl_lin].
Qed.
Print Assumptions c08_writes_compatible_needed.
