(* C08 (schedule half) property theorems: statements only; every proof is [exact lemma].
   The structural half is in Properties.v.  Model: C08/ProofsSchedule.v (the loader's run as a fold
   of [step] over a linearisation of Prepare/Merge events; rpos/wpos = positions a fetch reads
   when it is prepared / may write when it is merged; resp/errs = pointwise subgraph oracle). *)
From Gv Require Import C08.Model C08.Spec C08.ProofsSpec C08.ProofsSchedule C08.ProofsFlags C09.ProofsCommute C09.ProofsSchedule.
From Coq Require Import List Arith Bool Permutation.
Import ListNotations.

(* (5) The final response does not depend on the completion order of concurrently running
   requests: for every tree that respects its dependencies, under the two plan hypotheses
   (booleans, evaluated on every dumped real plan by harness/cmd/c08e) and oracle agreement on
   the shared positions, ANY two executions (linearisations of Prepare/Merge events consistent
   with Sequence/Parallel) end with identical data, the same multiset of requests and the same
   multiset of errors -- for every oracle, every read/write layout and every initial state. *)
Theorem c08_completion_order_irrelevant :
  forall (rpos wpos : nat -> list nat) (resp : nat -> request -> list (nat * nat))
         (errs : nat -> request -> list nat) (shared : list nat) (canon : nat -> nat)
         (t : tree),
  NoDup (tree_ids t) -> tree_respects t ->
  deps_cover_reads_b rpos wpos (tree_fetches t) = true ->
  writes_compatible_b wpos shared (tree_fetches t) = true ->
  shared_agree resp shared canon ->
  forall s1 s2, lin t s1 -> lin t s2 -> forall st,
    sdata (loader_run rpos wpos resp errs st s1) = sdata (loader_run rpos wpos resp errs st s2) /\
    Permutation (requests_sent (loader_run rpos wpos resp errs st s1)) (requests_sent (loader_run rpos wpos resp errs st s2)) /\
    serr (loader_run rpos wpos resp errs st s1) = serr (loader_run rpos wpos resp errs st s2).
Proof. exact completion_order_irrelevant_proof. Qed.
Print Assumptions c08_completion_order_irrelevant.

(* the same with the whole state: every fetch sends the same request in both executions *)
Theorem c08_completion_order_irrelevant_state :
  forall rpos wpos resp errs shared canon (t : tree),
  NoDup (tree_ids t) -> tree_respects t ->
  deps_cover_reads_b rpos wpos (tree_fetches t) = true ->
  writes_compatible_b wpos shared (tree_fetches t) = true ->
  shared_agree resp shared canon ->
  forall s1 s2, lin t s1 -> lin t s2 -> forall st,
    loader_run rpos wpos resp errs st s1 = loader_run rpos wpos resp errs st s2.
Proof. exact completion_order_irrelevant_state. Qed.
Print Assumptions c08_completion_order_irrelevant_state.

(* across trees: whatever tree post-processing builds over one plan (waves, scheduler, any tree
   accepted by validateSchedule), every execution of either gives the same final state *)
Theorem c08_tree_choice_irrelevant :
  forall rpos wpos resp errs shared canon (l : list fetch),
  deps_cover_reads_b rpos wpos l = true -> writes_compatible_b wpos shared l = true ->
  shared_agree resp shared canon -> unique_ids l ->
  forall t1 t2, plan_respects t1 l -> exactly_once t1 l -> plan_respects t2 l -> exactly_once t2 l ->
  forall s1 s2, lin t1 s1 -> lin t2 s2 -> forall st,
    loader_run rpos wpos resp errs st s1 = loader_run rpos wpos resp errs st s2.
Proof. exact plan_runs_agree. Qed.
Print Assumptions c08_tree_choice_irrelevant.

(* the commutation hypothesis of C09.ProofsCommute.linearization_independent holds for the
   loader's step: events unordered by the precedence relation of the plan commute in every state *)
Theorem c08_unordered_events_commute :
  forall rpos wpos resp errs shared canon (l : list fetch),
  deps_cover_reads_b rpos wpos l = true -> writes_compatible_b wpos shared l = true ->
  shared_agree resp shared canon ->
  forall st a b, In a (events_of l) -> In b (events_of l) -> a <> b ->
  indep event (events_of l) (event_ord l) a b ->
  step rpos wpos resp errs (step rpos wpos resp errs st a) b =
  step rpos wpos resp errs (step rpos wpos resp errs st b) a.
Proof. exact events_commute. Qed.
Print Assumptions c08_unordered_events_commute.

(* the error component is a multiset: a merge adds exactly the errors of its response *)
Theorem c08_errors_multiset :
  forall rpos wpos resp errs st f rq,
  nth_error (sreq st) f = Some (Some rq) ->
  Permutation (serr (step rpos wpos resp errs st (Merge f))) (errs f rq ++ serr st).
Proof. exact merge_errors_multiset. Qed.
Print Assumptions c08_errors_multiset.

(* neither plan hypothesis can be dropped *)
Theorem c08_deps_cover_reads_needed :
  exists rpos wpos resp errs shared t st s1 s2,
    NoDup (tree_ids t) /\ tree_respects t /\ writes_compatible_b wpos shared (tree_fetches t) = true /\
    lin t s1 /\ lin t s2 /\
    sdata (loader_run rpos wpos resp errs st s1) <> sdata (loader_run rpos wpos resp errs st s2).
Proof.
  exists ex_rpos, ex_wpos, ex_resp, ex_errs, ex_shared, bad_tree, ex_st0, (run_lr bad_tree), (run_rl bad_tree).
  destruct deps_cover_reads_needed as [A [B [C [_ [D [E F]]]]]]. repeat split; assumption.
Qed.
Print Assumptions c08_deps_cover_reads_needed.

Theorem c08_writes_compatible_needed :
  exists rpos wpos resp errs t st s1 s2,
    NoDup (tree_ids t) /\ tree_respects t /\ deps_cover_reads_b rpos wpos (tree_fetches t) = true /\
    lin t s1 /\ lin t s2 /\
    sdata (loader_run rpos wpos resp errs st s1) <> sdata (loader_run rpos wpos resp errs st s2).
Proof.
  exists (fun _ => []), clash_wpos, clash_resp, (fun _ _ => []), clash_tree,
    (mkstate [None] [None; None; None] []), (run_lr clash_tree), (run_rl clash_tree).
  destruct writes_compatible_needed as [A [B [C [_ D]]]].
  repeat split; try assumption; [apply run_lr_lin | apply run_rl_lin].
Qed.
Print Assumptions c08_writes_compatible_needed.

(* ---- loader-wide flags written in the merge phase, in completion order (C08/ProofsFlags.v) ----

   (5, flags) loader.go keeps cross-fetch state next to the data: skipValueCompletion (raised in
   the no-data branch of mergeResult), erroredFetchIDs (recordErroredFetchIDLocked), taintedObjs.
   With the state extended by these flags ([xstate] = state * flags; a merge JOINS the
   contribution [flagc f rq] of the response into them: boolean or / set insertion), any two
   executions of a tree still end in the same extended state -- same data, requests and errors AND
   the same skipvc, errored set and tainted set -- under the same hypotheses as
   c08_completion_order_irrelevant, for every contribution oracle and every initial flags. *)
Theorem c08_completion_order_irrelevant_flags :
  forall (rpos wpos : nat -> list nat) (resp : nat -> request -> list (nat * nat))
         (errs : nat -> request -> list nat) (shared : list nat) (canon : nat -> nat)
         (flagc : nat -> request -> contrib) (t : tree),
  NoDup (tree_ids t) -> tree_respects t ->
  deps_cover_reads_b rpos wpos (tree_fetches t) = true ->
  writes_compatible_b wpos shared (tree_fetches t) = true ->
  shared_agree resp shared canon ->
  forall s1 s2, lin t s1 -> lin t s2 -> forall x : xstate,
    xrun rpos wpos resp errs flagc x s1 = xrun rpos wpos resp errs flagc x s2.
Proof. exact completion_order_irrelevant_flags_proof. Qed.
Print Assumptions c08_completion_order_irrelevant_flags.

(* the flags ride along: the data/requests/errors of the extended run are those of loader_run
   (in this model no flag feeds back into a merge) *)
Theorem c08_flags_do_not_influence_state :
  forall rpos wpos resp errs flagc s (x : xstate),
    fst (xrun rpos wpos resp errs flagc x s) = loader_run rpos wpos resp errs (fst x) s.
Proof. exact xrun_fst. Qed.
Print Assumptions c08_flags_do_not_influence_state.

(* what makes it true: the update loader.go applies in mergeResult
   ([if cond { l.skipValueCompletion = true }], [l.erroredFetchIDs[id] = struct{}{}],
   [l.taintedObjs.add(obj)]) only ever raises/adds (sticky), two updates can be swapped, and
   repeating one changes nothing *)
Theorem c08_flag_updates_monotone :
  (forall x a, skipvc x = true -> skipvc (join x a) = true) /\
  (forall x a i, In i (errored x) -> In i (errored (join x a))) /\
  (forall x a i, In i (tainted x) -> In i (tainted (join x a))) /\
  (forall x a b, join (join x a) b = join (join x b) a) /\
  (forall x a, join (join x a) a = join x a).
Proof. exact flag_updates_monotone. Qed.
Print Assumptions c08_flag_updates_monotone.

(* along ANY event sequence (no plan hypothesis at all): once skipValueCompletion is raised it
   stays raised, once a fetch id is in erroredFetchIDs / an object in taintedObjs it stays there *)
Theorem c08_flags_monotone_along_runs :
  forall rpos wpos resp errs flagc s (x : xstate),
    (skipvc (snd x) = true -> skipvc (snd (xrun rpos wpos resp errs flagc x s)) = true) /\
    (forall i, In i (errored (snd x)) -> In i (errored (snd (xrun rpos wpos resp errs flagc x s)))) /\
    (forall i, In i (tainted (snd x)) -> In i (tainted (snd (xrun rpos wpos resp errs flagc x s)))).
Proof. exact flags_monotone_run. Qed.
Print Assumptions c08_flags_monotone_along_runs.

(* seeded/C08-m6: with [l.skipValueCompletion = hasErrors && flag] (assignment, last writer wins;
   xstep_assign / xrun_assign) the statement is FALSE: one Parallel node with two independent
   fetches, one coming back with errors and no data, one with neither; every hypothesis of
   c08_completion_order_irrelevant_flags holds, data/requests/errors agree, and the two executions
   end with different skipValueCompletion (extensions.valueCompletion present or absent) *)
Theorem c08_skipvc_assignment_refuted :
  exists rpos wpos resp errs flagc t (x : xstate) s1 s2,
    NoDup (tree_ids t) /\ tree_respects t /\
    deps_cover_reads_b rpos wpos (tree_fetches t) = true /\
    writes_compatible_b wpos [] (tree_fetches t) = true /\
    shared_agree resp [] (fun _ => 0) /\
    lin t s1 /\ lin t s2 /\
    fst (xrun_assign rpos wpos resp errs flagc x s1) = fst (xrun_assign rpos wpos resp errs flagc x s2) /\
    skipvc (snd (xrun_assign rpos wpos resp errs flagc x s1)) <>
    skipvc (snd (xrun_assign rpos wpos resp errs flagc x s2)).
Proof. exact skipvc_assignment_refuted. Qed.
Print Assumptions c08_skipvc_assignment_refuted.
