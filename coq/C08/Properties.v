(* C08 (structural part) property theorems: statements only; every proof is [exact lemma]. *)
From Gv Require Import C08.Model C08.Spec C08.ProofsSpec C08.ProofsSort C08.ProofsWaves
  C08.ProofsOrganize C08.ProofsMember C08.ProofsMulti C08.ProofsExamples C08.ProofsComplete
  C08.ModelPaths C08.SpecPaths C08.ProofsPaths C08.ProofsUnion.
From Coq Require Import List Arith Bool Permutation Sorted.
Import ListNotations.

(* (1a) On the nodes of an acyclic plan with unique ids the comparator of
   orderSequenceByDependencies is the lexicographic order on
   (number of transitive dependencies, fetch id): a strict total order. *)
Theorem c08_cmp_is_lex :
  forall l, acyclic l -> unique_ids l ->
  forall a b ra rb, In a l -> In b l ->
  node_depends_on (S (length l)) l a = Some ra ->
  node_depends_on (S (length l)) l b = Some rb ->
  go_cmp (a, ra) (b, rb) =
  match length ra ?= length rb with
  | Eq => fid a ?= fid b
  | c => c
  end.
Proof. exact cmp_is_lex_plan. Qed.
Print Assumptions c08_cmp_is_lex.

(* (1b) the sort never runs out of fuel and its result is a topological order of the plan *)
Theorem c08_sorted_topological :
  forall l, acyclic l -> unique_ids l ->
  exists s, order_sequence l = Some s /\ Permutation l s /\ topological l s.
Proof. exact order_sequence_ok. Qed.
Print Assumptions c08_sorted_topological.

(* (1c) any arrangement of the nodes in which no element compares greater than a later one
   (what a correct sorting algorithm returns for a consistent comparator) is the model's list *)
Theorem c08_sort_unique :
  forall l, acyclic l -> unique_ids l ->
  forall ks, keys (S (length l)) l l = Some ks ->
  forall ks', Permutation ks ks' -> StronglySorted (fun x y => go_cmp x y <> Gt) ks' ->
  ks' = go_sort go_cmp ks.
Proof. exact sort_unique. Qed.
Print Assumptions c08_sort_unique.

(* (2) legacy pipeline: every execution of createParallelNodes (sort l) merges d before it
   prepares f for every dependency d of f that is in the list; every fetch exactly once *)
Theorem c08_waves_respect_deps :
  forall l, acyclic l -> unique_ids l ->
  exists t, organize_in_waves l = Some t /\
            Permutation (tree_fetches t) l /\ plan_respects t l /\ exactly_once t l.
Proof. exact waves_respect_deps_proof. Qed.
Print Assumptions c08_waves_respect_deps.

(* (3) validateSchedule t dag = ok implies the two facts for t *)
Theorem c08_validate_sound :
  forall l t, NoDup (ids l) -> validate_schedule l (Some t) = true ->
  tree_respects t /\ Permutation (tree_ids t) (ids l) /\
  (forall s, lin t s -> NoDup s /\ Permutation s (events_of (tree_fetches t))).
Proof. exact validate_sound_proof. Qed.
Print Assumptions c08_validate_sound.

(* (4) whatever organizeFetchTree returns without the MultiFetch stage -- scheduler output if it
   validated, else the legacy waves; with or without a subscription trigger: the nodes of the tree
   are the planner's fetches *)
Theorem c08_organize_respects_deps :
  forall sched trigger l t, acyclic l -> unique_ids l ->
  organize sched false trigger l = Done t ->
  Permutation (tree_fetches t) l /\ plan_respects t l /\ exactly_once t l.
Proof. exact organize_respects_deps_proof. Qed.
Print Assumptions c08_organize_respects_deps.

(* (5) every configuration, including createMultiFetch (merge in waves, or merge - flatten -
   schedule - validate, or its fallback): a node stands for the planned fetches merged into it;
   every execution merges the node holding d before it prepares the node M, for every dependency
   d that the PLANNER declared for any MEMBER of M (not the list written on the merged node);
   every planned fetch is a member of exactly one node and every node runs exactly once *)
Theorem c08_multi_respects_member_deps :
  forall sched multi trigger l t, acyclic l -> unique_ids l -> plain l ->
  organize sched multi trigger l = Done t ->
  member_respects t l /\ members_once t l.
Proof. exact multi_respects_member_deps_proof. Qed.
Print Assumptions c08_multi_respects_member_deps.

(* one merge step of createMultiFetch (any group of any wave) keeps the plan covered: unique ids,
   every planned dependency of every member represented on the node, waves ordered *)
Theorem c08_merge_group_keeps_cover :
  forall l k gids s, inv l s -> inv l (merge_group k gids s).
Proof. exact merge_group_inv. Qed.
Print Assumptions c08_merge_group_keeps_cover.

(* the member-level checkers run on the implementation's trees are sound *)
Theorem c08_member_checkers_sound :
  forall t l, NoDup (ids l) -> members_once_b t l = true -> respects_member_deps_b t l = true ->
  member_respects t l /\ members_once t l.
Proof. exact member_checkers_sound. Qed.
Print Assumptions c08_member_checkers_sound.

Theorem c08_organize_waves_total :
  forall multi trigger l, acyclic l -> unique_ids l ->
  exists t, organize false multi trigger l = Done t.
Proof. exact organize_waves_total. Qed.
Print Assumptions c08_organize_waves_total.

(* the decidable checkers that the driver runs on the implementation's trees are sound *)
Theorem c08_checkers_sound :
  forall t l, exactly_once_b t l = true -> respects_deps_b t = true ->
  plan_respects t l /\ exactly_once t l.
Proof. exact spec_b_sound. Qed.
Print Assumptions c08_checkers_sound.

(* on a tree with unique ids the structural check is exact: it fails only if some execution
   prepares a fetch before one of its in-tree dependencies is merged *)
Theorem c08_structural_check_exact :
  forall t, NoDup (tree_ids t) -> (respects_deps_b t = true <-> tree_respects t).
Proof. exact respects_deps_b_exact. Qed.
Print Assumptions c08_structural_check_exact.

Theorem c08_plan_checks_sound :
  forall l, unique_ids_b l = true -> acyclic_b l = true -> acyclic l /\ unique_ids l.
Proof. exact plan_checks_sound. Qed.
Print Assumptions c08_plan_checks_sound.

Theorem c08_plain_check_sound : forall l, plain_b l = true -> plain l.
Proof. exact plain_b_sound. Qed.
Print Assumptions c08_plain_check_sound.

(* every tree has executions: the universally quantified statements above are not vacuous *)
Theorem c08_executions_exist : forall t, lin t (run_lr t) /\ lin t (run_rl t).
Proof. exact executions_exist. Qed.
Print Assumptions c08_executions_exist.

(* ---- the stage that completes the dependency relation (addMissingNestedDependencies) and the
   data-flow relation: ModelPaths.v / SpecPaths.v ---- *)

(* (6a) what the stage does, exactly: positions, ids, paths and merge attributes are kept; a fetch
   that is a root or has a declared dependency is untouched; a nested fetch without declared
   dependencies receives the ids of the OTHER fetches (by position) whose provided path
   (ResponsePath + "." + MergePath, string level) is a string prefix of its response path, in
   list order *)
Theorem c08_add_missing_spec :
  forall l1 f l2,
    length (add_missing (l1 ++ f :: l2)) = length (l1 ++ f :: l2) /\
    exists f', nth_error (add_missing (l1 ++ f :: l2)) (length l1) = Some f' /\
      fid (pf f') = fid (pf f) /\ fsrc (pf f') = fsrc (pf f) /\ fmerged (pf f') = fmerged (pf f) /\
      prp f' = prp f /\ pmp f' = pmp f /\
      (eligible f = false -> f' = f) /\
      (eligible f = true ->
       fdeps (pf f') = map (fun g => fid (pf g)) (filter (fun g => provides g f) (l1 ++ l2))).
Proof. exact add_missing_spec_proof. Qed.
Print Assumptions c08_add_missing_spec.

(* (6b) the string-prefix test of the stage covers the segment-wise relation "g merges its result
   at the object f is prepared from, or above it": no such provider is ever missed *)
Theorem c08_prefix_test_covers_parents :
  forall g f, (forall seg, In seg (prp g) -> seg <> []) ->
  writes_above g f -> provides g f = true.
Proof. exact prefix_test_covers_parents. Qed.
Print Assumptions c08_prefix_test_covers_parents.

(* (6c) "the string test IS the segment-wise relation" is false: "a.b" is a string prefix of
   "a.bc", so a fetch nested at a.bc also waits for the fetch that provides a.b -- an additional
   edge (it costs parallelism, it cannot make a fetch start early) *)
Theorem c08_prefix_test_exact_refuted :
  exists g f, (forall seg, In seg (prp g ++ pmp g ++ prp f) -> seg <> []) /\
              eligible f = true /\ provides g f = true /\ ~ writes_above g f.
Proof. exact prefix_test_not_exact. Qed.
Print Assumptions c08_prefix_test_exact_refuted.

(* (6d) the completed relation stays acyclic when providers precede dependants: no declared
   dependency points at a fetch with a longer response path (the added edges always point at a
   strictly shorter one) *)
Theorem c08_completion_keeps_acyclic :
  forall pl, unique_ids (declared pl) -> acyclic (declared pl) -> path_monotone pl ->
  acyclic (completed pl).
Proof. exact completion_keeps_acyclic_proof. Qed.
Print Assumptions c08_completion_keeps_acyclic.

(* (7) the whole pipeline (complete, then organise in any configuration) against the DATA-FLOW
   relation: every execution of the tree merges the node holding g before it prepares the node
   holding f whenever f declares g OR g writes above f's response path; every planned fetch is a
   member of exactly one node, every node runs once.  [covers]: for a fetch WITH declared
   dependencies the planner is responsible (every writer above is among its transitive
   dependencies); for every other nested fetch the stage is, by (6a) and (6b). *)
Theorem c08_pipeline_respects_dataflow :
  forall sched multi trigger pl t,
  acyclic (completed pl) -> unique_ids (declared pl) -> plain (declared pl) ->
  segments_ok pl -> covers pl ->
  pipeline sched multi trigger pl = Done t ->
  member_respects t (declared pl) /\ members_once t (declared pl) /\
  member_respects t (completed pl) /\ reads_respected t pl.
Proof. exact pipeline_respects_dataflow_proof. Qed.
Print Assumptions c08_pipeline_respects_dataflow.

(* (7a) without any hypothesis on what the planner declared: declared dependencies are respected
   and every fetch the planner left WITHOUT dependencies is sequenced after every fetch that
   writes above its response path *)
Theorem c08_pipeline_completes_reads :
  forall sched multi trigger pl t,
  acyclic (completed pl) -> unique_ids (declared pl) -> plain (declared pl) ->
  segments_ok pl ->
  pipeline sched multi trigger pl = Done t ->
  member_respects t (declared pl) /\ members_once t (declared pl) /\ stage_reads_respected t pl.
Proof. exact pipeline_completes_reads_proof. Qed.
Print Assumptions c08_pipeline_completes_reads.

(* (7') without the MultiFetch stage, in plain terms *)
Theorem c08_pipeline_reads_single :
  forall sched trigger pl t,
  acyclic (completed pl) -> unique_ids (declared pl) -> plain (declared pl) ->
  segments_ok pl -> covers pl ->
  pipeline sched false trigger pl = Done t ->
  Permutation (tree_fetches t) (completed pl) /\
  forall s, lin t s -> forall f g, In f pl -> In g pl -> fid (pf g) <> fid (pf f) ->
    (In (fid (pf g)) (fdeps (pf f)) \/ writes_above g f) ->
    before (Merge (fid (pf g))) (Prepare (fid (pf f))) s.
Proof. exact pipeline_reads_single_proof. Qed.
Print Assumptions c08_pipeline_reads_single.

(* the path checker run on the implementation's trees, and the plan-side checks, are sound *)
Theorem c08_dataflow_checker_sound :
  forall sel t pl, NoDup (ids (declared pl)) -> members_once_b t (declared pl) = true ->
  reads_b_on sel t pl = true ->
  reads_respected_on sel t pl /\ members_once t (declared pl).
Proof. exact reads_b_on_sound. Qed.
Print Assumptions c08_dataflow_checker_sound.

Theorem c08_path_checks_sound :
  forall pl, (segments_ok_b pl = true -> segments_ok pl) /\ (covers_b pl = true -> covers pl) /\
             (forall g f, writes_above_b g f = true <-> writes_above g f).
Proof.
  intros pl. split; [apply segments_ok_b_sound | split; [apply covers_b_sound | apply writes_above_b_spec]].
Qed.
Print Assumptions c08_path_checks_sound.

(* ---- unionDependencies (create_multi_fetch.go), exactly ---- *)

(* (8a) the dependency list written on a merged fetch is, as a set, the union of its members'
   dependencies minus the member ids, and it carries no entry twice *)
Theorem c08_union_dependencies_exact :
  forall members,
  (forall d, In d (union_deps members (ids members)) <->
             exists m, In m members /\ In d (fdeps m) /\ ~ In d (ids members)) /\
  NoDup (union_deps members (ids members)).
Proof. exact union_deps_exact. Qed.
Print Assumptions c08_union_dependencies_exact.

(* (8b) as a list: the non-member entries of the members' lists, concatenated in member order, each
   kept at its first occurrence (duplicates inside one member's list included) *)
Theorem c08_union_dependencies_order :
  forall members mids,
  union_deps members mids =
  union [] (filter (fun d => negb (memb d mids)) (flat_map fdeps members)).
Proof. exact union_deps_closed. Qed.
Print Assumptions c08_union_dependencies_order.

(* (8c) leaving the scan of a member's list at the first dependency that is already collected
   (`break` for `continue`) is not a correct unionDependencies: members depending on [0;1] and
   [0;2] give [0;1]; the dependency on 2 is lost *)
Theorem c08_union_dependencies_break_refuted :
  exists members,
    union_deps members (ids members) = [0; 1; 2] /\
    union_deps_break members (ids members) = [0; 1] /\
    ~ (forall d, In d (union_deps_break members (ids members)) <->
                 exists m, In m members /\ In d (fdeps m) /\ ~ In d (ids members)).
Proof. exact union_deps_break_loses. Qed.
Print Assumptions c08_union_dependencies_break_refuted.
