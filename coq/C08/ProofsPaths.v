(* C08: addMissingNestedDependencies -- what the stage guarantees, and the composition with the
   ordering / scheduling theorems: the organised tree respects the COMPLETED (data-flow) relation. *)
From Gv Require Import lib.Bytes C08.Model C08.Spec C08.ModelPaths C08.SpecPaths C08.ProofsSpec
  C08.ProofsSort C08.ProofsMember C08.ProofsMulti C08.ProofsOrganize C08.ProofsExamples.
From Coq Require Import List Arith Bool NArith Permutation Lia.
Import ListNotations.
Local Open Scope nat_scope.

(* ---- byte strings ---- *)
Lemma bytes_eqb_eq (a b : bytes) : bytes_eqb a b = true <-> a = b.
Proof.
  revert b. induction a as [|x a IH]; destruct b as [|y b]; simpl; split; intros H;
    try reflexivity; try discriminate.
  - apply andb_true_iff in H. destruct H as [H1 H2]. apply N.eqb_eq in H1. apply IH in H2. congruence.
  - inversion H; subst. apply andb_true_iff. split; [apply N.eqb_refl | apply IH; reflexivity].
Qed.

Lemma has_prefix_app (x y : bytes) : has_prefix (x ++ y) x = true.
Proof. induction x as [|b x IH]; simpl; [reflexivity|]. rewrite N.eqb_refl. exact IH. Qed.

Lemma has_prefix_length (s p : bytes) : has_prefix s p = true -> length p <= length s.
Proof.
  revert s. induction p as [|b p IH]; simpl; intros s H; [lia|].
  destruct s as [|c s]; [discriminate|]. apply andb_true_iff in H. destruct H as [_ H].
  apply IH in H. simpl. lia.
Qed.

Lemma join_dot_cons x r : r <> [] -> join_dot (x :: r) = x ++ dot :: join_dot r.
Proof. destruct r; [congruence | reflexivity]. Qed.

Lemma join_dot_app a b : a <> [] -> b <> [] -> join_dot (a ++ b) = join_dot a ++ dot :: join_dot b.
Proof.
  induction a as [|x r IH]; intros Ha Hb; [congruence|].
  destruct r as [|y r].
  - simpl app. rewrite (join_dot_cons x b Hb). reflexivity.
  - change ((x :: y :: r) ++ b) with (x :: ((y :: r) ++ b)).
    rewrite (join_dot_cons x ((y :: r) ++ b)) by (simpl; discriminate).
    rewrite IH by (try discriminate; assumption).
    rewrite (join_dot_cons x (y :: r)) by discriminate.
    rewrite <- app_assoc. reflexivity.
Qed.

Lemma join_dot_nonempty l : l <> [] -> (forall s, In s l -> s <> []) -> join_dot l <> [].
Proof.
  destruct l as [|x r]; intros Hl Hs; [congruence|].
  assert (Hx : x <> []) by (apply Hs; left; reflexivity).
  destruct r as [|y r]; simpl.
  - exact Hx.
  - destruct x; [congruence | discriminate].
Qed.

Lemma has_prefix_join a b : has_prefix (join_dot (a ++ b)) (join_dot a) = true.
Proof.
  destruct a as [|x a]; [reflexivity|].
  destruct b as [|y b].
  - rewrite app_nil_r. rewrite <- (app_nil_r (join_dot (x :: a))) at 1. apply has_prefix_app.
  - rewrite join_dot_app by discriminate. apply has_prefix_app.
Qed.

(* ---- the string test of the stage covers the segment-wise relation ---- *)
Lemma prefix_test_covers_parents g f :
  (forall seg, In seg (prp g) -> seg <> []) ->
  writes_above g f -> provides g f = true.
Proof.
  intros Hseg [[rest E] Hne]. unfold provides, provided_path, response_path. rewrite E.
  destruct (prp g) as [|x r] eqn:Pg.
  - simpl. apply has_prefix_join.
  - assert (Hrp : join_dot (x :: r) <> []) by (apply join_dot_nonempty; [discriminate | exact Hseg]).
    destruct (join_dot (x :: r)) as [|b rp] eqn:J; [congruence|]. rewrite <- J. clear J b rp Hrp.
    destruct (pmp g) as [|m ms] eqn:Pm.
    + rewrite app_nil_r. simpl join_dot at 3.
      destruct rest as [|y rest].
      * exfalso. apply Hne; [reflexivity|]. rewrite E, !app_nil_r. reflexivity.
      * rewrite join_dot_app by discriminate.
        change (join_dot (x :: r) ++ dot :: join_dot (y :: rest))
          with (join_dot (x :: r) ++ [dot] ++ join_dot (y :: rest)).
        rewrite app_assoc. apply has_prefix_app.
    + rewrite <- (join_dot_app (x :: r) (m :: ms)) by discriminate. apply has_prefix_join.
Qed.

(* the string test is NOT exact: "a.b" is a string prefix of "a.bc" *)
Definition ex_quirk_g : pfetch := {| pf := mkf 1 [0]; prp := [[97%N]]; pmp := [[98%N]] |}.
Definition ex_quirk_f : pfetch := {| pf := mkf 2 []; prp := [[97%N]; [98%N; 99%N]]; pmp := [] |}.
Lemma prefix_test_not_exact :
  exists g f, (forall seg, In seg (prp g ++ pmp g ++ prp f) -> seg <> []) /\
              eligible f = true /\ provides g f = true /\ ~ writes_above g f.
Proof.
  exists ex_quirk_g, ex_quirk_f. split; [|split; [reflexivity | split; [reflexivity|]]].
  - simpl. intros seg [H | [H | [H | [H | []]]]]; subst; discriminate.
  - intros [[rest E] _]. simpl in E. inversion E.
Qed.

(* ---- the boolean forms ---- *)
Lemma seg_prefix_spec p s : seg_prefix p s = true <-> exists rest, s = p ++ rest.
Proof.
  revert s. induction p as [|x p IH]; simpl; intros s.
  - split; [intros _; exists s; reflexivity | reflexivity].
  - destruct s as [|y s].
    + split; [discriminate | intros [rest E]; discriminate].
    + rewrite andb_true_iff, bytes_eqb_eq, IH. split.
      * intros [E [rest R]]. subst. exists rest. reflexivity.
      * intros [rest E]. inversion E; subst. split; [reflexivity | exists rest; reflexivity].
Qed.

Lemma segs_eqb_eq a b : segs_eqb a b = true <-> a = b.
Proof.
  revert b. induction a as [|x a IH]; destruct b as [|y b]; simpl; split; intros H;
    try reflexivity; try discriminate.
  - apply andb_true_iff in H. destruct H as [H1 H2]. apply bytes_eqb_eq in H1. apply IH in H2. congruence.
  - inversion H; subst. apply andb_true_iff. split; [apply bytes_eqb_eq | apply IH]; reflexivity.
Qed.

Lemma writes_above_b_spec g f : writes_above_b g f = true <-> writes_above g f.
Proof.
  unfold writes_above_b, writes_above. rewrite andb_true_iff, seg_prefix_spec, negb_true_iff. split.
  - intros [P H]. split; [exact P|]. intros Hm E. rewrite Hm in H. simpl in H.
    apply (proj2 (segs_eqb_eq _ _)) in E. congruence.
  - intros [P H]. split; [exact P|]. destruct (pmp g) as [|m ms]; [|reflexivity]. simpl.
    destruct (segs_eqb (prp g) (prp f)) eqn:E; [|reflexivity].
    apply segs_eqb_eq in E. exfalso. apply H; [reflexivity | exact E].
Qed.

Lemma segments_ok_b_sound pl : segments_ok_b pl = true -> segments_ok pl.
Proof.
  unfold segments_ok_b, segments_ok. intros H f seg Hf Hs.
  rewrite forallb_forall in H. specialize (H f Hf). rewrite forallb_forall in H.
  specialize (H seg Hs). destruct seg; [discriminate | discriminate].
Qed.

Lemma covers_b_sound pl : covers_b pl = true -> covers pl.
Proof.
  unfold covers_b, covers, covers_on. cbv zeta. intros H f g Hf Hg _ El Hne W.
  rewrite forallb_forall in H. specialize (H f Hf). rewrite El in H. rewrite orb_false_l in H.
  destruct (node_depends_on (S (length (completed pl))) (completed pl) (pf f)) as [r|] eqn:N;
    [|discriminate].
  rewrite forallb_forall in H. specialize (H g Hg).
  apply (proj2 (writes_above_b_spec g f)) in W. rewrite W in H. simpl in H.
  destruct (fid (pf g) =? fid (pf f)) eqn:E; [apply Nat.eqb_eq in E; congruence|]. simpl in H.
  apply memb_In in H. apply node_depends_on_spec in N. destruct N as [_ N]. simpl in N.
  apply N. exact H.
Qed.

(* ---- the stage ---- *)
Definition completed_fetch (others : list pfetch) (f : pfetch) : pfetch :=
  if eligible f then with_deps f (providers others f) else f.

Lemma amnd_from_length pre post : length (amnd_from pre post) = length post.
Proof. revert pre. induction post as [|f r IH]; simpl; intros pre; [reflexivity | rewrite IH; reflexivity]. Qed.

Lemma amnd_from_nth pre l1 f l2 :
  nth_error (amnd_from pre (l1 ++ f :: l2)) (length l1) = Some (completed_fetch (pre ++ l1 ++ l2) f).
Proof.
  revert pre. induction l1 as [|a l1 IH]; intros pre; simpl.
  - reflexivity.
  - rewrite IH. rewrite <- app_assoc. reflexivity.
Qed.

Lemma add_missing_nth l1 f l2 :
  nth_error (add_missing (l1 ++ f :: l2)) (length l1) = Some (completed_fetch (l1 ++ l2) f).
Proof. unfold add_missing. apply (amnd_from_nth [] l1 f l2). Qed.

Lemma add_missing_spec_proof :
  forall l1 f l2,
    length (add_missing (l1 ++ f :: l2)) = length (l1 ++ f :: l2) /\
    exists f', nth_error (add_missing (l1 ++ f :: l2)) (length l1) = Some f' /\
      fid (pf f') = fid (pf f) /\ fsrc (pf f') = fsrc (pf f) /\ fmerged (pf f') = fmerged (pf f) /\
      prp f' = prp f /\ pmp f' = pmp f /\
      (eligible f = false -> f' = f) /\
      (eligible f = true ->
       fdeps (pf f') = map (fun g => fid (pf g)) (filter (fun g => provides g f) (l1 ++ l2))).
Proof.
  intros l1 f l2. split; [apply amnd_from_length|].
  exists (completed_fetch (l1 ++ l2) f). split; [apply add_missing_nth|].
  unfold completed_fetch. destruct (eligible f); simpl; repeat split; intros; try reflexivity; discriminate.
Qed.

Lemma completed_fetch_fid o f : fid (pf (completed_fetch o f)) = fid (pf f).
Proof. unfold completed_fetch. destruct (eligible f); reflexivity. Qed.
Lemma completed_fetch_fmerged o f : fmerged (pf (completed_fetch o f)) = fmerged (pf f).
Proof. unfold completed_fetch. destruct (eligible f); reflexivity. Qed.
Lemma completed_fetch_rp o f : response_path (completed_fetch o f) = response_path f.
Proof. unfold completed_fetch. destruct (eligible f); reflexivity. Qed.

Lemma amnd_from_map {B} (k : pfetch -> B) :
  (forall o f, k (completed_fetch o f) = k f) ->
  forall pre post, map k (amnd_from pre post) = map k post.
Proof.
  intros Hk pre post. revert pre. induction post as [|f r IH]; simpl; intros pre; [reflexivity|].
  rewrite IH. f_equal. apply (Hk (pre ++ r) f).
Qed.

Lemma completed_ids pl : ids (completed pl) = ids (declared pl).
Proof.
  unfold ids, completed, declared, add_missing. rewrite !map_map.
  apply (amnd_from_map (fun f => fid (pf f))). apply completed_fetch_fid.
Qed.

Lemma completed_plain pl : plain (declared pl) -> plain (completed pl).
Proof.
  unfold plain, completed, declared. intros H x Hx.
  assert (E : map fmerged (map pf (add_missing pl)) = map fmerged (map pf pl)).
  { unfold add_missing. rewrite !map_map.
    apply (amnd_from_map (fun f => fmerged (pf f))). apply completed_fetch_fmerged. }
  apply (in_map fmerged) in Hx. rewrite E in Hx. apply in_map_iff in Hx.
  destruct Hx as [y [Ey Hy]]. rewrite <- Ey. apply H. exact Hy.
Qed.

(* from the plan to the completed list *)
Lemma completed_of pl f :
  In f pl ->
  exists others, (forall g, In g pl -> g <> f -> In g others) /\ incl others pl /\
                 In (completed_fetch others f) (add_missing pl).
Proof.
  intros Hf. destruct (in_split f pl Hf) as [l1 [l2 E]]. subst pl.
  exists (l1 ++ l2). split; [|split].
  - intros g Hg Hne. apply in_app_or in Hg. apply in_or_app.
    destruct Hg as [Hg | [Hg | Hg]]; [left; exact Hg | congruence | right; exact Hg].
  - intros g Hg. apply in_app_or in Hg. apply in_or_app.
    destruct Hg as [Hg | Hg]; [left; exact Hg | right; right; exact Hg].
  - eapply nth_error_In. apply add_missing_nth.
Qed.

(* and back *)
Lemma completed_inv pl x :
  In x (add_missing pl) ->
  exists f others, In f pl /\ incl others pl /\ x = completed_fetch others f.
Proof.
  intros Hx. apply In_nth_error in Hx. destruct Hx as [i Hi].
  assert (Hlt : i < length pl).
  { unfold add_missing in Hi. rewrite <- (amnd_from_length [] pl). apply nth_error_Some. congruence. }
  destruct (nth_error pl i) as [f|] eqn:Nf; [|apply nth_error_None in Nf; lia].
  destruct (nth_error_split pl i Nf) as [l1 [l2 [E L]]]. subst pl i.
  rewrite add_missing_nth in Hi. inversion Hi; subst.
  exists f, (l1 ++ l2). split; [|split; [|reflexivity]].
  - apply in_or_app. right. left. reflexivity.
  - intros g Hg. apply in_app_or in Hg. apply in_or_app.
    destruct Hg as [Hg | Hg]; [left; exact Hg | right; right; exact Hg].
Qed.

(* ---- order facts on executions ---- *)
Lemma nodup_split_unique {A} (x : A) l1 l2 l1' l2' :
  NoDup (l1 ++ x :: l2) -> l1 ++ x :: l2 = l1' ++ x :: l2' -> l1 = l1' /\ l2 = l2'.
Proof.
  revert l1'. induction l1 as [|a l1 IH]; intros l1' N E; destruct l1' as [|b l1']; simpl in *.
  - inversion E. split; reflexivity.
  - inversion E; subst. inversion N as [|? ? Hn _]; subst. exfalso. apply Hn.
    apply in_or_app. right. left. reflexivity.
  - inversion E; subst. inversion N as [|? ? Hn _]; subst. exfalso. apply Hn.
    apply in_or_app. right. left. reflexivity.
  - inversion E; subst. inversion N; subst.
    destruct (IH l1') as [E1 E2]; [assumption | assumption|]. subst. split; reflexivity.
Qed.

Lemma before_trans (a b c : event) s :
  NoDup s -> before a b s -> before b c s -> before a c s.
Proof.
  intros N [s1 [s2 [s3 E1]]] [t1 [t2 [t3 E2]]].
  assert (E1' : s = (s1 ++ a :: s2) ++ b :: s3) by (rewrite E1, <- app_assoc; reflexivity).
  rewrite E1' in N. rewrite E1' in E2.
  destruct (nodup_split_unique b _ _ _ _ N E2) as [_ E3].
  exists s1, (s2 ++ b :: t2), t3. rewrite E1, E3. rewrite <- app_assoc. reflexivity.
Qed.

Lemma prepare_before_merge_all :
  (forall t s, lin t s -> forall f, In f (tree_fetches t) ->
               before (Prepare (fid f)) (Merge (fid f)) s) /\
  (forall ts s, lin_seq ts s -> forall f, In f (flat_map tree_fetches ts) ->
               before (Prepare (fid f)) (Merge (fid f)) s) /\
  (forall ts s, lin_par ts s -> forall f, In f (flat_map tree_fetches ts) ->
               before (Prepare (fid f)) (Merge (fid f)) s).
Proof.
  apply lin_mutind.
  - intros f0 f [E | []]. subst. exists [], [], []. reflexivity.
  - intros ts s _ IH f Hf. apply IH. exact Hf.
  - intros ts s _ IH f Hf. apply IH. exact Hf.
  - intros f [].
  - intros t ts s1 s2 _ IH1 _ IH2 f Hf.
    change (flat_map tree_fetches (t :: ts)) with (tree_fetches t ++ flat_map tree_fetches ts) in Hf.
    apply in_app_or in Hf. destruct Hf as [Hf | Hf].
    + apply before_app_l. apply IH1. exact Hf.
    + apply before_app_r. apply IH2. exact Hf.
  - intros f [].
  - intros t ts s1 s2 s _ IH1 _ IH2 I f Hf.
    change (flat_map tree_fetches (t :: ts)) with (tree_fetches t ++ flat_map tree_fetches ts) in Hf.
    apply in_app_or in Hf. destruct Hf as [Hf | Hf].
    + eapply before_interleave_l; [exact I | apply IH1; exact Hf].
    + eapply before_interleave_r; [exact I | apply IH2; exact Hf].
Qed.
Lemma prepare_before_merge t s f :
  lin t s -> In f (tree_fetches t) -> before (Prepare (fid f)) (Merge (fid f)) s.
Proof. intros L. apply (proj1 prepare_before_merge_all t s L). Qed.

(* a tree that respects the direct dependencies respects the transitive ones *)
Lemma tdep_node_before t l :
  member_respects t l -> members_once t l ->
  forall s, lin t s ->
  forall f x, tdep l f x -> In f l -> In x (ids l) ->
  forall M, In M (tree_fetches t) -> In (fid f) (planned_ids M) ->
  exists D, In D (tree_fetches t) /\ In x (planned_ids D) /\
            before (Merge (fid D)) (Prepare (fid M)) s.
Proof.
  intros MR MO s L f x T. induction T as [f x Hx | f d c x Hd Hc T IH]; intros Hf Hk M HM Hm.
  - apply (MR s L M (fid f) f x); auto.
  - destruct (node_by_id_some l d c Hc) as [Hcl Ec].
    assert (Hdk : In d (ids l)) by (rewrite <- Ec; apply in_ids; exact Hcl).
    destruct (MR s L M (fid f) f d HM Hm Hf eq_refl Hd Hdk) as [D1 [HD1 [Hd1 B1]]].
    rewrite <- Ec in Hd1.
    destruct (IH Hcl Hk D1 HD1 Hd1) as [D [HD [HxD B2]]].
    exists D. split; [exact HD | split; [exact HxD|]].
    destruct MO as [_ MO]. destruct (MO s L) as [N _].
    eapply before_trans; [exact N | exact B2|].
    eapply before_trans; [exact N | | exact B1].
    apply (prepare_before_merge t s D1 L HD1).
Qed.

(* ---- composition ---- *)
Lemma pf_of_completed_deps o f d : In d (fdeps (pf f)) -> In d (fdeps (pf (completed_fetch o f))).
Proof.
  unfold completed_fetch, eligible. intros H.
  destruct (fdeps (pf f)) eqn:E; [contradiction|]. rewrite andb_false_r. rewrite E. exact H.
Qed.

Lemma covers_on_eligible pl : covers_on eligible pl.
Proof. intros f g _ _ E1 E2. congruence. Qed.

Lemma pipeline_respects_on sel sched multi trigger pl t :
  acyclic (completed pl) -> unique_ids (declared pl) -> plain (declared pl) ->
  segments_ok pl -> covers_on sel pl ->
  pipeline sched multi trigger pl = Done t ->
  member_respects t (declared pl) /\ members_once t (declared pl) /\
  member_respects t (completed pl) /\ reads_respected_on sel t pl.
Proof.
  intros A U P SO CV H. unfold pipeline in H.
  assert (U' : unique_ids (completed pl)) by (unfold unique_ids; rewrite completed_ids; exact U).
  destruct (multi_respects_member_deps_proof sched multi trigger (completed pl) t A U'
              (completed_plain pl P) H) as [MR MO].
  assert (MO' : members_once t (declared pl)).
  { destruct MO as [M1 M2]. split; [rewrite <- completed_ids; exact M1|].
    intros s L. exact (M2 s L). }
  split; [|split; [exact MO' | split; [exact MR|]]].
  - (* declared dependencies are kept by the stage *)
    intros s L M m g d HM Hm Hg Eg Hd Hk.
    unfold declared in Hg. apply in_map_iff in Hg. destruct Hg as [f [Ef Hf]]. subst g.
    destruct (completed_of pl f Hf) as [o [_ [_ Hin]]].
    apply (MR s L M m (pf (completed_fetch o f)) d); auto.
    + unfold completed. apply in_map. exact Hin.
    + rewrite completed_fetch_fid. exact Eg.
    + apply pf_of_completed_deps. exact Hd.
    + rewrite completed_ids. exact Hk.
  - (* path-based reads *)
    intros s L M f g HM Hf Hsel Hm Hg Hne W.
    destruct (completed_of pl f Hf) as [o [Ho [_ Hin]]].
    assert (Hgk : In (fid (pf g)) (ids (completed pl))).
    { rewrite completed_ids. unfold ids, declared. rewrite map_map.
      apply (in_map (fun x => fid (pf x))). exact Hg. }
    assert (T : tdep (completed pl) (pf (completed_fetch o f)) (fid (pf g))).
    { unfold completed_fetch. destruct (eligible f) eqn:El.
      - apply td_direct. simpl. unfold providers.
        apply (in_map (fun x => fid (pf x))). apply filter_In. split.
        + apply Ho; [exact Hg | congruence].
        + apply prefix_test_covers_parents; [intros seg; apply (SO g seg Hg) | exact W].
      - apply CV; assumption. }
    apply (tdep_node_before t (completed pl) MR MO s L _ _ T); auto.
    + unfold completed. apply in_map. exact Hin.
    + rewrite completed_fetch_fid. exact Hm.
Qed.

Lemma pipeline_respects_dataflow_proof sched multi trigger pl t :
  acyclic (completed pl) -> unique_ids (declared pl) -> plain (declared pl) ->
  segments_ok pl -> covers pl ->
  pipeline sched multi trigger pl = Done t ->
  member_respects t (declared pl) /\ members_once t (declared pl) /\
  member_respects t (completed pl) /\ reads_respected t pl.
Proof. apply pipeline_respects_on. Qed.

(* without any hypothesis on what the planner declared: the fetches it left to the stage *)
Lemma pipeline_completes_reads_proof sched multi trigger pl t :
  acyclic (completed pl) -> unique_ids (declared pl) -> plain (declared pl) ->
  segments_ok pl ->
  pipeline sched multi trigger pl = Done t ->
  member_respects t (declared pl) /\ members_once t (declared pl) /\ stage_reads_respected t pl.
Proof.
  intros A U P SO H.
  destruct (pipeline_respects_on eligible sched multi trigger pl t A U P SO (covers_on_eligible pl) H)
    as [H1 [H2 [_ H3]]].
  split; [exact H1 | split; [exact H2 | exact H3]].
Qed.

(* the path checker run on the implementation's trees *)
Lemma writers_plan_ids sel pl : ids (writers_plan_on sel pl) = ids (declared pl).
Proof. unfold ids, writers_plan_on, declared. rewrite !map_map. reflexivity. Qed.

Lemma reads_b_on_sound sel t pl :
  NoDup (ids (declared pl)) -> members_once_b t (declared pl) = true -> reads_b_on sel t pl = true ->
  reads_respected_on sel t pl /\ members_once t (declared pl).
Proof.
  intros N MO R.
  assert (MO' : members_once_b t (writers_plan_on sel pl) = true).
  { unfold members_once_b in *. rewrite writers_plan_ids.
    unfold writers_plan_on. rewrite map_length. unfold declared in MO. rewrite map_length in MO. exact MO. }
  destruct (member_checkers_sound t (writers_plan_on sel pl)) as [MR _];
    [rewrite writers_plan_ids; exact N | exact MO' | exact R|].
  split; [|apply members_once_b_sound; exact MO].
  intros s L M f g HM Hf Hsel Hm Hg Hne W.
  set (wf := {| fid := fid (pf f); fdeps := if sel f then writers pl f else []; fsrc := fsrc (pf f);
                fmerged := fmerged (pf f) |}).
  apply (MR s L M (fid (pf f)) wf (fid (pf g))); auto.
  - unfold writers_plan_on. apply (in_map (fun f => {| fid := fid (pf f);
      fdeps := if sel f then writers pl f else [];
      fsrc := fsrc (pf f); fmerged := fmerged (pf f) |}) pl f Hf).
  - simpl. rewrite Hsel. unfold writers. apply (in_map (fun x => fid (pf x))). apply filter_In. split; [exact Hg|].
    apply andb_true_iff. split; [apply writes_above_b_spec; exact W|].
    apply negb_true_iff. apply Nat.eqb_neq. exact Hne.
  - rewrite writers_plan_ids. unfold ids, declared. rewrite map_map.
    apply (in_map (fun x => fid (pf x))). exact Hg.
Qed.

(* ---- the completed relation stays acyclic when providers precede dependants ---- *)
Lemma find_unique {A} (k : A -> nat) l f :
  NoDup (map k l) -> In f l -> find (fun x => k x =? k f) l = Some f.
Proof.
  induction l as [|a l IH]; simpl; intros N Hf; [contradiction|].
  inversion N as [|? ? Hn N']; subst.
  destruct Hf as [E | Hf].
  - subst. rewrite Nat.eqb_refl. reflexivity.
  - destruct (k a =? k f) eqn:E.
    + apply Nat.eqb_eq in E. exfalso. apply Hn. rewrite E. apply in_map. exact Hf.
    + apply IH; assumption.
Qed.

Lemma provides_shorter g f :
  eligible f = true -> provides g f = true ->
  length (response_path g) < length (response_path f).
Proof.
  unfold eligible, provides, provided_path. intros El H.
  apply andb_true_iff in El. destruct El as [El _].
  apply has_prefix_length in H.
  destruct (response_path g) as [|b rp] eqn:R.
  - destruct (response_path f); [discriminate | simpl; lia].
  - rewrite app_length in H. simpl in *. lia.
Qed.

Lemma list_max_ge l x : In x l -> x <= list_max l.
Proof.
  induction l as [|a l IH]; simpl; intros H; [contradiction|].
  destruct H as [E | H]; [subst; lia | specialize (IH H); lia].
Qed.

Lemma completion_keeps_acyclic_proof pl :
  unique_ids (declared pl) -> acyclic (declared pl) -> path_monotone pl -> acyclic (completed pl).
Proof.
  intros U [rank Hr] PM.
  set (key := fun f : pfetch => fid (pf f)).
  assert (U' : NoDup (map key pl)).
  { unfold unique_ids, ids, declared in U. rewrite map_map in U. exact U. }
  set (len := fun id => match find (fun x => key x =? id) pl with
                        | Some f => length (response_path f) | None => 0 end).
  assert (Hlen : forall f, In f pl -> len (key f) = length (response_path f)).
  { intros f Hf. unfold len. rewrite (find_unique key pl f U' Hf). reflexivity. }
  set (R := S (list_max (map (fun f => rank (key f)) pl))).
  assert (HR : forall f, In f pl -> rank (key f) < R).
  { intros f Hf. unfold R. apply Nat.lt_succ_r. apply list_max_ge.
    apply (in_map (fun f => rank (key f))). exact Hf. }
  exists (fun id => len id * R + rank id).
  intros x d Hx Hd Hk.
  unfold completed in Hx. apply in_map_iff in Hx. destruct Hx as [x' [Ex Hx']]. subst x.
  destruct (completed_inv pl x' Hx') as [f [o [Hf [Ho E]]]]. subst x'.
  rewrite completed_fetch_fid.
  rewrite completed_ids in Hk. unfold ids, declared in Hk. rewrite map_map in Hk.
  apply in_map_iff in Hk. destruct Hk as [g [Eg Hg]].
  fold (key f). rewrite (Hlen f Hf).
  assert (Hgl : len d = length (response_path g)) by (rewrite <- Eg; apply (Hlen g Hg)).
  assert (Hgr : rank d < R) by (rewrite <- Eg; apply (HR g Hg)).
  rewrite Hgl.
  unfold completed_fetch in Hd. destruct (eligible f) eqn:El.
  - simpl in Hd. unfold providers in Hd. apply in_map_iff in Hd. destruct Hd as [g' [Eg' Hg']].
    apply filter_In in Hg'. destruct Hg' as [Hg'o Pv].
    assert (g' = g).
    { assert (Hg'l : In g' pl) by (apply Ho; exact Hg'o).
      pose proof (find_unique key pl g' U' Hg'l) as F1.
      pose proof (find_unique key pl g U' Hg) as F2.
      unfold key in *. rewrite Eg' in F1. rewrite Eg in F2. congruence. }
    subst g'. pose proof (provides_shorter g f El Pv) as Hlt.
    nia.
  - assert (Hdecl : In (fid (pf g)) (fdeps (pf f))) by (rewrite Eg; exact Hd).
    pose proof (PM f g Hf Hg Hdecl) as Hle.
    assert (Hlt : rank d < rank (key f)).
    { apply (Hr (pf f) d).
      - unfold declared. apply in_map. exact Hf.
      - exact Hd.
      - unfold ids, declared. rewrite map_map. rewrite <- Eg.
        apply (in_map (fun x => fid (pf x))). exact Hg. }
    nia.
Qed.

(* single (unmerged) fetches: the plain form of [reads_respected] *)
Lemma pipeline_reads_single_proof sched trigger pl t :
  acyclic (completed pl) -> unique_ids (declared pl) -> plain (declared pl) ->
  segments_ok pl -> covers pl ->
  pipeline sched false trigger pl = Done t ->
  Permutation (tree_fetches t) (completed pl) /\
  forall s, lin t s -> forall f g, In f pl -> In g pl -> fid (pf g) <> fid (pf f) ->
    (In (fid (pf g)) (fdeps (pf f)) \/ writes_above g f) ->
    before (Merge (fid (pf g))) (Prepare (fid (pf f))) s.
Proof.
  intros A U P SO CV H.
  destruct (pipeline_respects_dataflow_proof sched false trigger pl t A U P SO CV H)
    as [MD [_ [_ RR]]].
  assert (U' : unique_ids (completed pl)) by (unfold unique_ids; rewrite completed_ids; exact U).
  destruct (organize_respects_deps_proof sched trigger (completed pl) t A U' H)
    as [Perm _].
  split; [exact Perm|].
  intros s L f g Hf Hg Hne Hdep.
  destruct (completed_of pl f Hf) as [o [_ [_ Hin]]].
  set (M := pf (completed_fetch o f)).
  assert (HM : In M (tree_fetches t)).
  { eapply Permutation_in; [apply Permutation_sym; exact Perm|]. unfold completed. apply in_map. exact Hin. }
  assert (PlM : forall X, In X (tree_fetches t) -> planned_ids X = [fid X]).
  { intros X HX. apply planned_ids_plain. apply (completed_plain pl P).
    eapply Permutation_in; [exact Perm | exact HX]. }
  assert (Hm : In (fid (pf f)) (planned_ids M)).
  { rewrite (PlM M HM). left. unfold M. apply completed_fetch_fid. }
  assert (EM : fid M = fid (pf f)) by (unfold M; apply completed_fetch_fid).
  destruct Hdep as [Hd | W].
  - destruct (MD s L M (fid (pf f)) (pf f) (fid (pf g))) as [D [HD [HgD B]]]; auto.
    + unfold declared. apply in_map. exact Hf.
    + unfold ids, declared. rewrite map_map. apply (in_map (fun x => fid (pf x))). exact Hg.
    + rewrite (PlM D HD) in HgD. destruct HgD as [E | []]. rewrite E, EM in B. exact B.
  - destruct (RR s L M f g HM Hf eq_refl Hm Hg Hne W) as [D [HD [HgD B]]].
    rewrite (PlM D HD) in HgD. destruct HgD as [E | []]. rewrite E, EM in B. exact B.
Qed.

(* ---- a non-trivial plan satisfying every hypothesis ----
   0 root; 1 nested at a with an EMPTY merge path (depends on 0); 2 at a.b and 3 at a.bc without
   declared dependencies; 4 at a with merge path [b] (provides "a.b": a string prefix of "a.bc");
   5 at a.b.@.c with the declared dependency 2 (0, 1, 4 are covered transitively). *)
Definition seg_a : bytes := [97%N].
Definition seg_b : bytes := [98%N].
Definition seg_bc : bytes := [98%N; 99%N].
Definition seg_c : bytes := [99%N].
Definition seg_at : bytes := [64%N].
Definition ex_paths : list pfetch :=
  [ {| pf := mkf 2 []; prp := [seg_a; seg_b]; pmp := [] |};
    {| pf := mkf 0 []; prp := []; pmp := [] |};
    {| pf := mkf 5 [2]; prp := [seg_a; seg_b; seg_at; seg_c]; pmp := [] |};
    {| pf := mkf 1 [0]; prp := [seg_a]; pmp := [] |};
    {| pf := mkf 3 []; prp := [seg_a; seg_bc]; pmp := [] |};
    {| pf := mkf 4 [0]; prp := [seg_a]; pmp := [seg_b] |} ].

Example ex_paths_completed :
  completed ex_paths = [ mkf 2 [0; 1; 4]; mkf 0 []; mkf 5 [2]; mkf 1 [0]; mkf 3 [0; 1; 4]; mkf 4 [0] ].
Proof. vm_compute. reflexivity. Qed.

Example ex_paths_hyps :
  acyclic (completed ex_paths) /\ unique_ids (declared ex_paths) /\ plain (declared ex_paths) /\
  segments_ok ex_paths /\ covers ex_paths /\ path_monotone ex_paths /\ acyclic (declared ex_paths).
Proof.
  assert (A : acyclic (completed ex_paths) /\ unique_ids (completed ex_paths))
    by (apply plan_checks_sound; vm_compute; reflexivity).
  assert (B : acyclic (declared ex_paths) /\ unique_ids (declared ex_paths))
    by (apply plan_checks_sound; vm_compute; reflexivity).
  repeat split; try tauto.
  - apply plain_b_sound. vm_compute. reflexivity.
  - apply segments_ok_b_sound. vm_compute. reflexivity.
  - apply covers_b_sound. vm_compute. reflexivity.
  - intros f g Hf Hg Hd. simpl in Hf, Hg.
    repeat (destruct Hf as [Hf | Hf]; [subst f|]); try contradiction;
    repeat (destruct Hg as [Hg | Hg]; [subst g|]); try contradiction;
    vm_compute in Hd; vm_compute; intuition (try discriminate; try lia).
Qed.

Example ex_paths_tree :
  exists t, pipeline true false false ex_paths = Done t /\ reads_b t ex_paths = true /\
            stage_reads_b t ex_paths = true /\ members_once_b t (declared ex_paths) = true.
Proof. eexists. split; [vm_compute; reflexivity | repeat split; vm_compute; reflexivity]. Qed.

(* the tree the seeded slip produces for the demo plan of seeded/C08-m3 is rejected by the
   path checker: 2 (at a.b) runs next to 1 (nested at a, empty merge path) *)
Definition ex_m3_plan : list pfetch :=
  [ {| pf := mkf 0 []; prp := []; pmp := [] |};
    {| pf := mkf 1 [0]; prp := [seg_a]; pmp := [] |};
    {| pf := mkf 2 []; prp := [seg_a; seg_b]; pmp := [] |} ].
Example ex_m3_rejected :
  stage_reads_b (Sequence [Single (mkf 0 []); Parallel [Single (mkf 1 [0]); Single (mkf 2 [0])]]) ex_m3_plan = false /\
  pipeline false false false ex_m3_plan =
    Done (Sequence [Single (mkf 0 []); Single (mkf 1 [0]); Single (mkf 2 [0; 1])]).
Proof. split; vm_compute; reflexivity. Qed.
