(* C08, schedule half: "the final response does not depend on the completion order of concurrently
   running requests (data identical; errors the same multiset)".

   The loader's run over a fetch tree is a fold over a linearisation of [Prepare f] / [Merge f]
   events (Spec.lin; resolve/loader.go resolveSingle: preparePhase and mergePhase run under the
   data lock, loadPhase outside it):

     Prepare f   reads the items at f's fetch path from the CURRENT data ([rpos f]: the positions
                 selectItemsForPath + the representation templates look at) and fixes f's request;
     Merge f     merges f's response -- a function of that request: pointwise oracle [resp] --
                 at f's positions ([wpos f]: mergeResult writes only below f's path/merge path)
                 and adds the errors of the response ([errs]) to the error multiset.

   Data is a finite map from positions to values (a list indexed by position), merge overwrites.
   The request table (indexed by fetch id) and the error multiset (kept as a sorted list) are
   part of the state, so that "same final state" gives data, the requests sent and the errors.

   Two boolean hypotheses on the plan, checkable on a dumped plan:
     deps_cover_reads_b   whatever Prepare f reads is written only by fetches ordered with f by
                          the dependency relation (in deps*(f), or depending on f);
     writes_compatible_b  two fetches unordered by the dependency relation write disjoint
                          positions, except positions declared [shared];
   and one hypothesis on the oracle: at a shared position every response carries the same value
   (shareable fields are backed by one value; with [shared = []] it is vacuous).

   Under them unordered events commute, which is the hypothesis of
   C09.ProofsCommute.linearization_independent / C09.ProofsSchedule.tree_runs_agree. *)
From Gv Require Import C08.Model C08.Spec C08.ProofsSpec C09.ProofsCommute C09.ProofsSchedule.
From Coq Require Import List Arith Bool Permutation Lia Relations.
Import ListNotations.

(* ---------------------------------------------------------------- total list update *)
Section Upd.
  Context {A : Type}.
  (* out of range: no change *)
  Fixpoint upd (l : list A) (i : nat) (x : A) : list A :=
    match l with
    | [] => []
    | y :: r => match i with 0 => x :: r | S j => y :: upd r j x end
    end.

  Lemma upd_comm l : forall i j x y, i <> j -> upd (upd l i x) j y = upd (upd l j y) i x.
  Proof.
    induction l as [|a l IH]; intros [|i] [|j] x y H; simpl; try reflexivity; try congruence.
    f_equal. apply IH. congruence.
  Qed.

  Lemma nth_error_upd_neq l : forall i j x, i <> j -> nth_error (upd l i x) j = nth_error l j.
  Proof.
    induction l as [|a l IH]; intros [|i] [|j] x H; simpl; try reflexivity; try congruence.
    apply IH. congruence.
  Qed.

  Lemma nth_error_upd_eq l : forall i x, i < length l -> nth_error (upd l i x) i = Some x.
  Proof.
    induction l as [|a l IH]; intros [|i] x H; simpl in *; try lia; try reflexivity.
    apply IH. lia.
  Qed.

  Lemma upd_length l : forall i x, length (upd l i x) = length l.
  Proof. induction l as [|a l IH]; intros [|i] x; simpl; try reflexivity. f_equal. apply IH. Qed.
End Upd.

(* ---------------------------------------------------------------- data: positions -> values *)
Definition data := list (option nat).
Definition get (d : data) (p : nat) : option nat :=
  match nth_error d p with Some (Some v) => Some v | _ => None end.
Definition apply_writes (d : data) (w : list (nat * nat)) : data :=
  fold_left (fun d pv => upd d (fst pv) (Some (snd pv))) w d.

Lemma get_upd_neq d i j x : i <> j -> get (upd d i x) j = get d j.
Proof. intros H. unfold get. rewrite nth_error_upd_neq by exact H. reflexivity. Qed.

Lemma get_upd_eq d i v : i < length d -> get (upd d i (Some v)) i = Some v.
Proof. intros H. unfold get. rewrite nth_error_upd_eq by exact H. reflexivity. Qed.

Lemma get_apply_writes_notin : forall w d p,
  ~ In p (map fst w) -> get (apply_writes d w) p = get d p.
Proof.
  induction w as [|[q u] w IH]; intros d p H; simpl in *.
  - reflexivity.
  - unfold apply_writes in *. simpl. rewrite IH.
    + apply get_upd_neq. intros E. apply H. left. exact E.
    + intros E. apply H. right. exact E.
Qed.

Lemma upd_apply_comm : forall w d p v,
  (forall q u, In (q, u) w -> q <> p \/ u = v) ->
  upd (apply_writes d w) p (Some v) = apply_writes (upd d p (Some v)) w.
Proof.
  induction w as [|[q u] w IH]; intros d p v H.
  - reflexivity.
  - unfold apply_writes in *. simpl.
    rewrite IH by (intros q' u' Hin; apply H; right; exact Hin).
    f_equal.
    destruct (Nat.eq_dec q p) as [E | E].
    + subst q. destruct (H p u (or_introl eq_refl)) as [N | ->]; [congruence | reflexivity].
    + apply upd_comm. exact E.
Qed.

Lemma apply_writes_comm : forall w1 w2 d,
  (forall p v q u, In (p, v) w1 -> In (q, u) w2 -> q <> p \/ u = v) ->
  apply_writes (apply_writes d w1) w2 = apply_writes (apply_writes d w2) w1.
Proof.
  induction w1 as [|[p v] w1 IH]; intros w2 d H.
  - reflexivity.
  - change (apply_writes d ((p, v) :: w1)) with (apply_writes (upd d p (Some v)) w1).
    change (apply_writes (apply_writes d w2) ((p, v) :: w1))
      with (apply_writes (upd (apply_writes d w2) p (Some v)) w1).
    rewrite IH by (intros p' v' q u H1 H2; apply (H p' v' q u); [right; exact H1 | exact H2]).
    f_equal. symmetry. apply upd_apply_comm.
    intros q u Hin. apply (H p v q u); [left; reflexivity | exact Hin].
Qed.

(* ---------------------------------------------------------------- error multiset: sorted list *)
Fixpoint insert (x : nat) (l : list nat) : list nat :=
  match l with
  | [] => [x]
  | y :: r => if y <? x then y :: insert x r else x :: y :: r
  end.
Definition insert_all (l xs : list nat) : list nat := fold_left (fun l x => insert x l) xs l.

Ltac ltb_cases :=
  repeat (match goal with
          | |- context [?u <? ?v] =>
            let E := fresh "E" in
            destruct (u <? v) eqn:E; [apply Nat.ltb_lt in E | apply Nat.ltb_ge in E]
          end; simpl).

Lemma insert_comm x y l : insert x (insert y l) = insert y (insert x l).
Proof.
  induction l as [|a r IH]; simpl.
  - ltb_cases; try reflexivity; try lia. assert (x = y) by lia. subst. reflexivity.
  - ltb_cases; try reflexivity; try lia; try (rewrite IH; reflexivity).
    all: assert (x = y) by lia; subst; reflexivity.
Qed.

Lemma insert_insert_all x : forall xs l, insert x (insert_all l xs) = insert_all (insert x l) xs.
Proof.
  induction xs as [|a xs IH]; intros l; unfold insert_all in *; simpl.
  - reflexivity.
  - rewrite IH. rewrite insert_comm. reflexivity.
Qed.

Lemma insert_all_comm : forall xs ys l,
  insert_all (insert_all l xs) ys = insert_all (insert_all l ys) xs.
Proof.
  induction xs as [|a xs IH]; intros ys l.
  - reflexivity.
  - change (insert_all l (a :: xs)) with (insert_all (insert a l) xs).
    change (insert_all (insert_all l ys) (a :: xs)) with (insert_all (insert a (insert_all l ys)) xs).
    rewrite IH. rewrite insert_insert_all. reflexivity.
Qed.

Lemma insert_perm x l : Permutation (insert x l) (x :: l).
Proof.
  induction l as [|a r IH]; simpl.
  - apply Permutation_refl.
  - destruct (a <? x).
    + apply Permutation_trans with (a :: x :: r); [apply perm_skip; exact IH | apply perm_swap].
    + apply Permutation_refl.
Qed.

Lemma insert_all_perm : forall xs l, Permutation (insert_all l xs) (xs ++ l).
Proof.
  induction xs as [|a xs IH]; intros l.
  - apply Permutation_refl.
  - change (insert_all l (a :: xs)) with (insert_all (insert a l) xs).
    apply Permutation_trans with (xs ++ insert a l); [apply IH |].
    apply Permutation_trans with (xs ++ a :: l).
    + apply Permutation_app_head. apply insert_perm.
    + apply Permutation_sym. simpl. apply Permutation_middle.
Qed.

(* ---------------------------------------------------------------- the loader's run *)
Definition request := list (option nat).
Record state := mkstate { sdata : data; sreq : list (option request); serr : list nat }.

Definition overlap (a b : list nat) : bool := existsb (fun x => memb x b) a.

(* g is a transitive in-plan dependency of f *)
Fixpoint reach_b (fuel : nat) (l : list fetch) (g f : nat) : bool :=
  match fuel with
  | 0 => false
  | S n =>
    existsb (fun h => (fid h =? f) &&
                      existsb (fun d => memb d (ids l) && ((d =? g) || reach_b n l g d)) (fdeps h)) l
  end.
Definition ordered_b (l : list fetch) (f g : nat) : bool :=
  reach_b (S (length l)) l g f || reach_b (S (length l)) l f g.

Section Loader.
  Variable rpos : nat -> list nat.                       (* positions Prepare f reads *)
  Variable wpos : nat -> list nat.                       (* positions Merge f may write *)
  Variable resp : nat -> request -> list (nat * nat).    (* subgraph oracle: response of f to a request *)
  Variable errs : nat -> request -> list nat.            (* errors that response carries *)
  Variable shared : list nat.                            (* positions several fetches may write *)
  Variable canon : nat -> nat.                           (* the one value of a shared position *)

  Definition writes (f : nat) (rq : request) : list (nat * nat) :=
    filter (fun pv => memb (fst pv) (wpos f)) (resp f rq).

  Definition step (st : state) (e : event) : state :=
    match e with
    | Prepare f =>
      mkstate (sdata st) (upd (sreq st) f (Some (map (get (sdata st)) (rpos f)))) (serr st)
    | Merge f =>
      match nth_error (sreq st) f with
      | Some (Some rq) =>
        mkstate (apply_writes (sdata st) (writes f rq)) (sreq st) (insert_all (serr st) (errs f rq))
      | _ => st
      end
    end.

  Definition loader_run (st : state) (s : list event) : state := fold_left step s st.

  (* the two plan hypotheses *)
  Definition deps_cover_reads_b (l : list fetch) : bool :=
    forallb (fun f => forallb (fun g =>
      (fid f =? fid g) || negb (overlap (rpos (fid f)) (wpos (fid g))) || ordered_b l (fid f) (fid g)) l) l.
  Definition writes_compatible_b (l : list fetch) : bool :=
    forallb (fun f => forallb (fun g =>
      (fid f =? fid g) || ordered_b l (fid f) (fid g) ||
      forallb (fun p => negb (memb p (wpos (fid g))) || memb p shared) (wpos (fid f))) l) l.
  (* the oracle hypothesis: "or equal values" *)
  Definition shared_agree : Prop :=
    forall f rq p v, In (p, v) (resp f rq) -> In p shared -> v = canon p.

  Lemma writes_in f rq p v : In (p, v) (writes f rq) -> In p (wpos f) /\ In (p, v) (resp f rq).
  Proof.
    unfold writes. rewrite filter_In. simpl. intros [H1 H2]. apply memb_In in H2. split; assumption.
  Qed.

  Section Plan.
    Variable l : list fetch.
    Let U := events_of l.
    Let D := dep event U (event_ord l).

    Lemma ord_pm h : In h l -> ordU event U (event_ord l) (Prepare (fid h)) (Merge (fid h)).
    Proof.
      intros Hh. split; [| split].
      - left. exists h. repeat split; assumption.
      - apply events_of_in_prepare. exact Hh.
      - apply events_of_in_merge. apply in_ids. exact Hh.
    Qed.

    Lemma ord_mp h d : In h l -> In d (fdeps h) -> In d (ids l) ->
      ordU event U (event_ord l) (Merge d) (Prepare (fid h)).
    Proof.
      intros Hh Hd Hdl. split; [| split].
      - right. exists h, d. repeat split; assumption.
      - apply events_of_in_merge. exact Hdl.
      - apply events_of_in_prepare. exact Hh.
    Qed.

    Lemma reach_dep : forall n g f, reach_b n l g f = true -> D (Merge g) (Prepare f).
    Proof.
      induction n as [|n IH]; intros g f H; simpl in H; [discriminate |].
      apply existsb_exists in H. destruct H as [h [Hh H]].
      apply andb_true_iff in H. destruct H as [Hid H]. apply Nat.eqb_eq in Hid. subst f.
      apply existsb_exists in H. destruct H as [d [Hd H]].
      apply andb_true_iff in H. destruct H as [Hdl H]. apply memb_In in Hdl.
      apply orb_true_iff in H. destruct H as [H | H].
      - apply Nat.eqb_eq in H. subst d. apply t_step. apply ord_mp; assumption.
      - apply IH in H. destruct (ids_in l d Hdl) as [h' [Hh' Hid']]. subst d.
        eapply t_trans; [exact H |].
        eapply t_trans; [apply t_step; apply ord_pm; exact Hh' |].
        apply t_step. apply ord_mp; assumption.
    Qed.

    Lemma events_merge_inv id : In (Merge id) U -> exists f, In f l /\ fid f = id.
    Proof.
      unfold U, events_of. intros H. apply in_flat_map in H. destruct H as [f [Hf H]].
      destruct H as [H | [H | []]]; [discriminate | injection H as <-]. now exists f.
    Qed.

    (* g in deps+(f), both fetches of the plan: every event of g precedes every event of f *)
    Lemma reach_all n g f : reach_b n l g f = true ->
      (exists hf, In hf l /\ fid hf = f) -> (exists hg, In hg l /\ fid hg = g) ->
      D (Merge g) (Prepare f) /\ D (Prepare g) (Merge f) /\ D (Merge g) (Merge f).
    Proof.
      intros H [hf [Hhf <-]] [hg [Hhg <-]]. apply reach_dep in H.
      assert (A : D (Merge (fid hg)) (Merge (fid hf))).
      { eapply t_trans; [exact H | apply t_step; apply ord_pm; exact Hhf]. }
      split; [exact H | split; [| exact A]].
      eapply t_trans; [apply t_step; apply ord_pm; exact Hhg | exact A].
    Qed.

    Hypothesis Hreads : deps_cover_reads_b l = true.
    Hypothesis Hwrites : writes_compatible_b l = true.
    Hypothesis Hshared : shared_agree.

    Lemma pair_facts f g :
      (exists hf, In hf l /\ fid hf = f) -> (exists hg, In hg l /\ fid hg = g) -> f <> g ->
      ordered_b l f g = false ->
      (forall p, In p (rpos f) -> ~ In p (wpos g)) /\
      (forall p, In p (wpos f) -> In p (wpos g) -> In p shared).
    Proof.
      intros [hf [Hhf Ef]] [hg [Hhg Eg]] Hne Hord. subst f g. split.
      - unfold deps_cover_reads_b in Hreads. rewrite forallb_forall in Hreads.
        specialize (Hreads hf Hhf). rewrite forallb_forall in Hreads. specialize (Hreads hg Hhg).
        rewrite Hord in Hreads. rewrite orb_false_r in Hreads.
        apply orb_true_iff in Hreads. destruct Hreads as [E | E].
        + apply Nat.eqb_eq in E. contradiction.
        + apply negb_true_iff in E. intros p Hp Hw.
          assert (T : overlap (rpos (fid hf)) (wpos (fid hg)) = true).
          { unfold overlap. apply existsb_exists. exists p. split; [exact Hp | apply memb_In; exact Hw]. }
          congruence.
      - unfold writes_compatible_b in Hwrites. rewrite forallb_forall in Hwrites.
        specialize (Hwrites hf Hhf). rewrite forallb_forall in Hwrites. specialize (Hwrites hg Hhg).
        rewrite Hord in Hwrites. rewrite orb_false_r in Hwrites.
        apply orb_true_iff in Hwrites. destruct Hwrites as [E | E].
        + apply Nat.eqb_eq in E. contradiction.
        + rewrite forallb_forall in E. intros p Hp Hw. specialize (E p Hp).
          apply orb_true_iff in E. destruct E as [E | E].
          * apply negb_true_iff in E. apply memb_false in E. contradiction.
          * apply memb_In. exact E.
    Qed.

    (* unordered by the event precedence => unordered by the dependency relation *)
    Lemma indep_unordered a b f g :
      indep event U (event_ord l) a b ->
      (exists hf, In hf l /\ fid hf = f) -> (exists hg, In hg l /\ fid hg = g) ->
      (a = Prepare f /\ b = Merge g) \/ (a = Merge f /\ b = Merge g) ->
      ordered_b l f g = false.
    Proof.
      intros [N1 N2] Hf Hg Hab. unfold ordered_b.
      destruct (reach_b (S (length l)) l g f) eqn:R1.
      - exfalso. destruct (reach_all _ _ _ R1 Hf Hg) as [A [_ C]].
        destruct Hab as [[-> ->] | [-> ->]]; [apply N2; exact A | apply N2; exact C].
      - destruct (reach_b (S (length l)) l f g) eqn:R2; [| reflexivity].
        exfalso. destruct (reach_all _ _ _ R2 Hg Hf) as [_ [B C]].
        destruct Hab as [[-> ->] | [-> ->]]; [apply N1; exact B | apply N1; exact C].
    Qed.

    Lemma prepare_merge_commute st f g :
      f <> g -> (forall p, In p (rpos f) -> ~ In p (wpos g)) ->
      step (step st (Prepare f)) (Merge g) = step (step st (Merge g)) (Prepare f).
    Proof.
      intros Hne Hdis. unfold step. cbn [sdata sreq serr].
      rewrite nth_error_upd_neq by exact Hne.
      destruct (nth_error (sreq st) g) as [[rq |] |] eqn:E; cbn [sdata sreq serr]; try reflexivity.
      assert (M : map (get (apply_writes (sdata st) (writes g rq))) (rpos f) = map (get (sdata st)) (rpos f)).
      { apply map_ext_in. intros p Hp. apply get_apply_writes_notin.
        intros Hin. apply in_map_iff in Hin. destruct Hin as [[q u] [Eq Hin]]. simpl in Eq. subst q.
        apply writes_in in Hin. destruct Hin as [Hw _]. exact (Hdis p Hp Hw). }
      rewrite M. reflexivity.
    Qed.

    Lemma merge_merge_commute st f g :
      f <> g -> (forall p, In p (wpos f) -> In p (wpos g) -> In p shared) ->
      step (step st (Merge f)) (Merge g) = step (step st (Merge g)) (Merge f).
    Proof.
      intros Hne Hsh. unfold step.
      destruct (nth_error (sreq st) f) as [[rf |] |] eqn:Ef;
        destruct (nth_error (sreq st) g) as [[rg |] |] eqn:Eg;
        cbn [sdata sreq serr]; rewrite ?Ef, ?Eg; try reflexivity.
      f_equal.
      - apply apply_writes_comm. intros p v q u H1 H2.
        destruct (Nat.eq_dec q p) as [E | E]; [right | left; exact E]. subst q.
        apply writes_in in H1. apply writes_in in H2. destruct H1 as [W1 R1], H2 as [W2 R2].
        assert (S := Hsh p W1 W2).
        rewrite (Hshared f rf p v R1 S), (Hshared g rg p u R2 S). reflexivity.
      - apply insert_all_comm.
    Qed.

    (* THE commutation hypothesis of C09.ProofsCommute, discharged *)
    Lemma events_commute :
      forall st a b, In a U -> In b U -> a <> b -> indep event U (event_ord l) a b ->
      step (step st a) b = step (step st b) a.
    Proof.
      intros st a b Ha Hb Hne Hind.
      assert (Hind' : indep event U (event_ord l) b a) by (destruct Hind; split; assumption).
      destruct a as [f | f], b as [g | g].
      - (* Prepare, Prepare *)
        assert (f <> g) by congruence.
        unfold step. cbn [sdata sreq serr]. f_equal. apply upd_comm. assumption.
      - (* Prepare f, Merge g *)
        assert (Hf := events_prepare_inv l f Ha). assert (Hg := events_merge_inv g Hb).
        destruct (Nat.eq_dec f g) as [E | E].
        + subst g. exfalso. destruct Hf as [h [Hh <-]]. destruct Hind as [N _]. apply N.
          apply t_step. apply ord_pm. exact Hh.
        + assert (O := indep_unordered _ _ f g Hind Hf Hg (or_introl (conj eq_refl eq_refl))).
          destruct (pair_facts f g Hf Hg E O) as [R _].
          apply prepare_merge_commute; assumption.
      - (* Merge f, Prepare g *)
        assert (Hf := events_merge_inv f Ha). assert (Hg := events_prepare_inv l g Hb).
        destruct (Nat.eq_dec g f) as [E | E].
        + subst g. exfalso. destruct Hg as [h [Hh <-]]. destruct Hind as [_ N]. apply N.
          apply t_step. apply ord_pm. exact Hh.
        + assert (O := indep_unordered _ _ g f Hind' Hg Hf (or_introl (conj eq_refl eq_refl))).
          destruct (pair_facts g f Hg Hf E O) as [R _].
          symmetry. apply prepare_merge_commute; assumption.
      - (* Merge, Merge *)
        assert (E : f <> g) by congruence.
        assert (Hf := events_merge_inv f Ha). assert (Hg := events_merge_inv g Hb).
        assert (O := indep_unordered _ _ f g Hind Hf Hg (or_intror (conj eq_refl eq_refl))).
        destruct (pair_facts f g Hf Hg E O) as [_ W].
        apply merge_merge_commute; assumption.
    Qed.

    (* any two trees over the plan that respect it (the scheduler's, the wave tree, ...), any two
       linearisations: the same final state *)
    Theorem plan_runs_agree :
      unique_ids l -> forall t1 t2,
      plan_respects t1 l -> exactly_once t1 l -> plan_respects t2 l -> exactly_once t2 l ->
      forall s1 s2, lin t1 s1 -> lin t2 s2 -> forall st, loader_run st s1 = loader_run st s2.
    Proof.
      intros Hu t1 t2 P1 E1 P2 E2 s1 s2 L1 L2 st. unfold loader_run.
      exact (tree_runs_agree state step l events_commute Hu t1 t2 P1 E1 P2 E2 s1 s2 L1 L2 st).
    Qed.
  End Plan.

  Definition requests_sent (st : state) : list request :=
    flat_map (fun o => match o with Some rq => [rq] | None => [] end) (sreq st).

  (* the statement of the property's second sentence *)
  Theorem completion_order_irrelevant_proof :
    forall t, NoDup (tree_ids t) -> tree_respects t ->
    deps_cover_reads_b (tree_fetches t) = true ->
    writes_compatible_b (tree_fetches t) = true ->
    shared_agree ->
    forall s1 s2, lin t s1 -> lin t s2 -> forall st,
      sdata (loader_run st s1) = sdata (loader_run st s2) /\
      Permutation (requests_sent (loader_run st s1)) (requests_sent (loader_run st s2)) /\
      serr (loader_run st s1) = serr (loader_run st s2).
  Proof.
    intros t Hnd Hresp Hr Hw Hs s1 s2 L1 L2 st.
    assert (E : loader_run st s1 = loader_run st s2).
    { assert (P : plan_respects t (tree_fetches t))
        by (apply perm_plan_respects; [apply Permutation_refl | exact Hresp]).
      assert (X : exactly_once t (tree_fetches t))
        by (apply perm_exactly_once; [exact Hnd | apply Permutation_refl]).
      exact (plan_runs_agree (tree_fetches t) Hr Hw Hs Hnd t t P X P X s1 s2 L1 L2 st). }
    rewrite E. repeat split. apply Permutation_refl.
  Qed.

  (* stronger: the whole state, request table included (each fetch sends the same request) *)
  Theorem completion_order_irrelevant_state :
    forall t, NoDup (tree_ids t) -> tree_respects t ->
    deps_cover_reads_b (tree_fetches t) = true ->
    writes_compatible_b (tree_fetches t) = true ->
    shared_agree ->
    forall s1 s2, lin t s1 -> lin t s2 -> forall st, loader_run st s1 = loader_run st s2.
  Proof.
    intros t Hnd Hresp Hr Hw Hs s1 s2 L1 L2 st.
    assert (P : plan_respects t (tree_fetches t))
      by (apply perm_plan_respects; [apply Permutation_refl | exact Hresp]).
    assert (X : exactly_once t (tree_fetches t))
      by (apply perm_exactly_once; [exact Hnd | apply Permutation_refl]).
    exact (plan_runs_agree (tree_fetches t) Hr Hw Hs Hnd t t P X P X s1 s2 L1 L2 st).
  Qed.

  (* the error component is the sorted form of what the merges added: a multiset *)
  Lemma merge_errors_multiset st f rq :
    nth_error (sreq st) f = Some (Some rq) ->
    Permutation (serr (step st (Merge f))) (errs f rq ++ serr st).
  Proof. intros E. unfold step. rewrite E. cbn [serr]. apply insert_all_perm. Qed.
End Loader.

(* ---------------------------------------------------------------- examples *)
(* a diamond: 0 writes the keys, 1 and 2 read one key each and write a field plus one SHARED
   position (4), 3 reads what 1 and 2 wrote *)
Definition ex_sum (rq : request) : nat :=
  fold_right (fun o acc => match o with Some v => v + acc | None => acc end) 0 rq.
Definition ex_rpos (f : nat) : list nat :=
  match f with 1 => [0] | 2 => [1] | 3 => [2; 3] | _ => [] end.
Definition ex_wpos (f : nat) : list nat :=
  match f with 0 => [0; 1] | 1 => [2; 4] | 2 => [3; 4] | 3 => [5] | _ => [] end.
Definition ex_resp (f : nat) (rq : request) : list (nat * nat) :=
  match f with
  | 0 => [(0, 1); (1, 2)]
  | 1 => [(2, ex_sum rq + 10); (4, 7)]
  | 2 => [(3, ex_sum rq + 20); (4, 7)]
  | 3 => [(5, ex_sum rq)]
  | _ => []
  end.
Definition ex_errs (f : nat) (rq : request) : list nat :=
  match f with 1 => [30] | 2 => [20; 40] | _ => [] end.
Definition ex_shared : list nat := [4].
Definition ex_canon (_ : nat) : nat := 7.
Definition ex_tree : tree :=
  Sequence [Single (mkf 0 []); Parallel [Single (mkf 1 [0]); Single (mkf 2 [0])]; Single (mkf 3 [1; 2])].
Definition ex_st0 : state := mkstate (repeat None 6) (repeat None 4) [].

Example ex_hypotheses :
  NoDup (tree_ids ex_tree) /\ tree_respects ex_tree /\
  deps_cover_reads_b ex_rpos ex_wpos (tree_fetches ex_tree) = true /\
  writes_compatible_b ex_wpos ex_shared (tree_fetches ex_tree) = true /\
  shared_agree ex_resp ex_shared ex_canon.
Proof.
  split; [apply has_dup_false; reflexivity |].
  split; [apply respects_deps_b_sound; reflexivity |].
  split; [reflexivity |]. split; [reflexivity |].
  intros f rq p v Hin Hs. destruct Hs as [<- | []].
  destruct f as [|[|[|[|f]]]]; simpl in Hin;
    repeat (destruct Hin as [Hin | Hin]; [inversion Hin; subst; try reflexivity; try discriminate |]);
    try contradiction.
Qed.

(* the two canonical executions differ as event lists and end in the same, non-trivial state *)
Example ex_runs :
  run_lr ex_tree <> run_rl ex_tree /\
  loader_run ex_rpos ex_wpos ex_resp ex_errs ex_st0 (run_lr ex_tree) =
  mkstate [Some 1; Some 2; Some 11; Some 22; Some 7; Some 33]
          [Some []; Some [Some 1]; Some [Some 2]; Some [Some 11; Some 22]] [20; 30; 40] /\
  loader_run ex_rpos ex_wpos ex_resp ex_errs ex_st0 (run_rl ex_tree) =
  loader_run ex_rpos ex_wpos ex_resp ex_errs ex_st0 (run_lr ex_tree).
Proof. split; [discriminate | split; reflexivity]. Qed.

(* without deps_cover_reads the statement is false: fetch 3 reads position 3 (written by 2) but
   only declares the dependency on 1; the tree respects the declared dependencies, and two of its
   executions end with different data and different requests *)
Definition bad_tree : tree :=
  Sequence [Single (mkf 0 []); Parallel [Sequence [Single (mkf 1 [0]); Single (mkf 3 [1])]; Single (mkf 2 [0])]].

Example deps_cover_reads_needed :
  NoDup (tree_ids bad_tree) /\ tree_respects bad_tree /\
  writes_compatible_b ex_wpos ex_shared (tree_fetches bad_tree) = true /\
  deps_cover_reads_b ex_rpos ex_wpos (tree_fetches bad_tree) = false /\
  lin bad_tree (run_lr bad_tree) /\ lin bad_tree (run_rl bad_tree) /\
  sdata (loader_run ex_rpos ex_wpos ex_resp ex_errs ex_st0 (run_lr bad_tree)) <>
  sdata (loader_run ex_rpos ex_wpos ex_resp ex_errs ex_st0 (run_rl bad_tree)).
Proof.
  split; [apply has_dup_false; reflexivity |].
  split; [apply respects_deps_b_sound; reflexivity |].
  split; [reflexivity |]. split; [reflexivity |].
  split; [apply run_lr_lin |]. split; [apply run_rl_lin |].
  discriminate.
Qed.

(* without writes_compatible it is false as well: two unordered fetches writing one position with
   different values *)
Definition clash_resp (f : nat) (rq : request) : list (nat * nat) :=
  match f with 1 => [(0, 1)] | 2 => [(0, 2)] | _ => [] end.
Definition clash_wpos (f : nat) : list nat := match f with 1 => [0] | 2 => [0] | _ => [] end.
Definition clash_tree : tree := Parallel [Single (mkf 1 []); Single (mkf 2 [])].

Example writes_compatible_needed :
  NoDup (tree_ids clash_tree) /\ tree_respects clash_tree /\
  deps_cover_reads_b (fun _ => []) clash_wpos (tree_fetches clash_tree) = true /\
  writes_compatible_b clash_wpos [] (tree_fetches clash_tree) = false /\
  sdata (loader_run (fun _ => []) clash_wpos clash_resp (fun _ _ => []) (mkstate [None] [None; None; None] []) (run_lr clash_tree)) <>
  sdata (loader_run (fun _ => []) clash_wpos clash_resp (fun _ _ => []) (mkstate [None] [None; None; None] []) (run_rl clash_tree)).
Proof.
  split; [apply has_dup_false; reflexivity |].
  split; [apply respects_deps_b_sound; reflexivity |].
  split; [reflexivity |]. split; [reflexivity |]. discriminate.
Qed.
