(* C08 (structural part): executable model of the post-processing that turns the flat list of
   fetches into the fetch tree:
     v2/pkg/engine/postprocess/order_sequence_by_dependencies.go   [order_sequence]
     v2/pkg/engine/postprocess/create_parallel_nodes.go            [create_parallel_nodes]
     v2/pkg/engine/postprocess/schedule_fetches.go                 [process_fetch_tree] and below
     v2/pkg/engine/postprocess/create_multi_fetch.go               [create_multi_fetch]
     v2/pkg/engine/postprocess/postprocess.go organizeFetchTree,
       organizeFetchTreeInWaves, flattenFetchTree                  [organize]
     v2/pkg/engine/resolve/fetchtree.go                            [tree]
   Fetch ids are non-negative Go ints (schedule_fetches.go: "Fetch IDs are non-negative").
   No proofs here. *)
From Coq Require Import List Arith Bool.
Import ListNotations.

(* A node of the fetch tree as far as ordering is concerned.
   fsrc: Some (datasource, envelope) when the fetch is a merge candidate of createMultiFetch
         (createMultiFetch.isCandidate: an entity / batch entity SingleFetch with a well-formed
         SubgraphOperation); the envelope stands for (method, url, header).
   fmerged: MultiEntityFetch.MergedFetchIDs; [] for every fetch that the planner emitted. *)
Record fetch := { fid : nat; fdeps : list nat; fsrc : option (nat * nat); fmerged : list nat }.
Definition mkf (id : nat) (deps : list nat) : fetch :=
  {| fid := id; fdeps := deps; fsrc := None; fmerged := [] |}.

Inductive tree :=
| Single (f : fetch)
| Sequence (l : list tree)
| Parallel (l : list tree).

Definition memb (x : nat) (l : list nat) : bool := existsb (Nat.eqb x) l.
Definition ids (l : list fetch) : list nat := map fid l.

(* nodeByFetchID: the first child with that id *)
Definition node_by_id (l : list fetch) (id : nat) : option fetch :=
  find (fun f => fid f =? id) l.

(* ---- slices.Sort / slices.Compact / slices.Equal on []int ---- *)
Fixpoint insert_nat (x : nat) (l : list nat) : list nat :=
  match l with
  | [] => [x]
  | y :: r => if x <=? y then x :: l else y :: insert_nat x r
  end.
Definition sort_nat (l : list nat) : list nat := fold_right insert_nat [] l.
Fixpoint compact (l : list nat) : list nat :=
  match l with
  | [] => []
  | x :: r =>
    match r with
    | [] => [x]
    | y :: _ => if x =? y then compact r else x :: compact r
    end
  end.
Fixpoint list_nat_eqb (a b : list nat) : bool :=
  match a, b with
  | [], [] => true
  | x :: a', y :: b' => (x =? y) && list_nat_eqb a' b'
  | _, _ => false
  end.

(* slices.SortFunc on at most 12 elements is insertionSortCmpFunc: element i moves left while it
   is strictly less than its left neighbour.  [racc] is the sorted prefix, reversed.  For longer
   slices Go runs pdqsort; theorem [c08_sort_unique] shows that on the inputs of the property
   every sorting algorithm returns this same list. *)
Section GoSort.
  Context {A : Type} (cmp : A -> A -> comparison).
  Fixpoint ins_rev (x : A) (racc : list A) : list A :=
    match racc with
    | [] => [x]
    | y :: r => match cmp x y with Lt => y :: ins_rev x r | _ => x :: racc end
    end.
  Definition go_sort (l : list A) : list A := rev (fold_left (fun racc x => ins_rev x racc) l []).
End GoSort.

(* ---- order_sequence_by_dependencies.go ---- *)
(* nodeDependsOn: the recursion of the Go code has no cycle guard (it overflows the stack on a
   cyclic dependency list); here it has fuel and None = out of fuel. *)
Definition deps_loop (l : list fetch) (rec : fetch -> option (list nat)) : list nat -> option (list nat) :=
  fix go (ds : list nat) : option (list nat) :=
    match ds with
    | [] => Some []
    | d :: r =>
      match go r with
      | None => None
      | Some rest =>
        match node_by_id l d with
        | None => Some (d :: rest)
        | Some c =>
          match rec c with
          | None => None
          | Some cd => Some (d :: cd ++ rest)
          end
        end
      end
    end.
Fixpoint node_depends_on (fuel : nat) (l : list fetch) (f : fetch) : option (list nat) :=
  match fuel with
  | 0 => None
  | S k => option_map (fun r => compact (sort_nat r)) (deps_loop l (node_depends_on k l) (fdeps f))
  end.

Definition keyed := (fetch * list nat)%type.

(* the comparator closure of ProcessFetchTree, on (node, nodeDependsOn node) pairs *)
Definition go_cmp (x y : keyed) : comparison :=
  let a := fid (fst x) in
  let b := fid (fst y) in
  let aDeps := snd x in
  let bDeps := snd y in
  if list_nat_eqb aDeps bDeps then a ?= b
  else if memb a bDeps then Lt
  else if memb b aDeps then Gt
  else if length aDeps =? length bDeps then a ?= b
  else length aDeps ?= length bDeps.

Fixpoint keys (fuel : nat) (l : list fetch) (nodes : list fetch) : option (list keyed) :=
  match nodes with
  | [] => Some []
  | f :: r =>
    match node_depends_on fuel l f, keys fuel l r with
    | Some d, Some ks => Some ((f, d) :: ks)
    | _, _ => None
    end
  end.

Definition order_sequence (l : list fetch) : option (list fetch) :=
  match keys (S (length l)) l l with
  | None => None
  | Some ks => Some (map fst (go_sort go_cmp ks))
  end.

(* ---- create_parallel_nodes.go ---- *)
Definition deps_provided (provided : list nat) (f : fetch) : bool :=
  forallb (fun d => memb d provided) (fdeps f).

(* one iteration of the outer loop per call: [provided] = resolveProvidedFetchIDs(children[:i]),
   x = children[i]; the inner loop moves every later child whose dependencies are ALL provided
   (dependencies on ids that are not in the list are never provided) into the Parallel node. *)
Fixpoint waves (fuel : nat) (provided : list nat) (nodes : list fetch) : option (list tree) :=
  match nodes with
  | [] => Some []
  | x :: rest =>
    match fuel with
    | 0 => None
    | S k =>
      let taken := filter (deps_provided provided) rest in
      let remaining := filter (fun f => negb (deps_provided provided f)) rest in
      let node := match taken with
                  | [] => Single x
                  | _ => Parallel (Single x :: map Single taken)
                  end in
      match waves k (provided ++ fid x :: ids taken) remaining with
      | None => None
      | Some ws => Some (node :: ws)
      end
    end
  end.

Definition create_parallel_nodes (l : list fetch) : option (list tree) := waves (length l) [] l.

(* organizeFetchTreeInWaves on the flat Sequence root *)
Definition organize_in_waves (l : list fetch) : option tree :=
  match order_sequence l with
  | None => None
  | Some sorted =>
    match create_parallel_nodes sorted with
    | None => None
    | Some ws => Some (Sequence ws)
    end
  end.

(* flattenFetchTree: in-order list of the Single nodes *)
Fixpoint tree_fetches (t : tree) : list fetch :=
  match t with
  | Single f => [f]
  | Sequence ts => flat_map tree_fetches ts
  | Parallel ts => flat_map tree_fetches ts
  end.
Definition tree_ids (t : tree) : list nat := ids (tree_fetches t).

(* ---- schedule_fetches.go ---- *)
Fixpoint has_dup (l : list nat) : bool :=
  match l with
  | [] => false
  | x :: r => memb x r || has_dup r
  end.

(* newFetchDAG fails on a duplicate id and on a fetch that lists itself *)
Definition new_fetch_dag_ok (l : list fetch) : bool :=
  negb (has_dup (ids l)) && negb (existsb (fun f => memb (fid f) (fdeps f)) l).

Definition parents (l : list fetch) (id : nat) : list nat :=
  match node_by_id l id with
  | Some f => filter (fun d => memb d (ids l)) (fdeps f)
  | None => []
  end.
Definition children (l : list fetch) (id : nat) : list nat :=
  ids (filter (fun f => memb id (fdeps f)) l).

Definition union (a b : list nat) : list nat :=
  fold_left (fun acc x => if memb x acc then acc else acc ++ [x]) b a.

(* The Go code explores the graph with work queues fed by map iteration (random order) and then
   sorts or only uses membership, so the searches are modelled at the level of sets:
   [grow n step s] adds [step] of the current set until nothing new appears, at most n times
   (a set of at most n ids is complete after n rounds). *)
Fixpoint grow (n : nat) (step : list nat -> list nat) (s : list nat) : list nat :=
  match n with
  | 0 => s
  | S k => let s' := union s (step s) in
           if length s' =? length s then s else grow k step s'
  end.

Section Dag.
  Variable l : list fetch.

  Definition node (id : nat) : option tree := option_map Single (node_by_id l id).

  (* weaklyConnectedComponents: [nodes] is sorted; components in order of their least id, sorted *)
  Definition component (allowed : list nat) (id : nat) : list nat :=
    sort_nat (grow (length allowed)
                (fun s => filter (fun x => memb x allowed)
                            (flat_map (fun c => parents l c ++ children l c) s)) [id]).
  Fixpoint wcc_from (allowed : list nat) (nodes : list nat) (seen : list nat) : list (list nat) :=
    match nodes with
    | [] => []
    | id :: r =>
      if memb id seen then wcc_from allowed r seen
      else let c := component allowed id in c :: wcc_from allowed r (c ++ seen)
    end.
  Definition wcc (nodes : list nat) : list (list nat) := wcc_from nodes nodes [].

  Definition has_parent_in (id : nat) (set : list nat) : bool :=
    existsb (fun p => memb p set) (parents l id).

  (* colorExclusive: a fetch is coloured with root r when r is the only root that reaches it
     along dependency edges whose targets all lie in [inset]; reached by several: shared. *)
  Definition reach_from (inset : list nat) (root : nat) : list nat :=
    let inside := filter (fun x => memb x inset) in
    grow (length inset) (fun s => inside (flat_map (children l) s)) (union [] (inside (children l root))).
  Definition exclusive_of (reaches : list (nat * list nat)) (root : nat) (x : nat) : bool :=
    match filter (fun rr => memb x (snd rr)) reaches with
    | [rr] => fst rr =? root
    | _ => false
    end.

  (* minReachableFetchID; None stands for math.MaxInt *)
  Definition omin (a b : option nat) : option nat :=
    match a, b with
    | None, _ => b
    | _, None => a
    | Some x, Some y => Some (if y <? x then y else x)
    end.
  Fixpoint min_id (t : tree) : option nat :=
    match t with
    | Single f => Some (fid f)
    | Sequence ts => fold_left omin (map min_id ts) None
    | Parallel ts => fold_left omin (map min_id ts) None
    end.
  Definition cmp_min (a b : tree) : comparison :=
    match min_id a, min_id b with
    | Some x, Some y => x ?= y
    | Some _, None => Lt
    | None, Some _ => Gt
    | None, None => Eq
    end.

  (* combineOf / sequenceOf / parallelOf; None = nil *)
  Definition combine_of (par : bool) (cs : list (option tree)) : option tree :=
    let out := flat_map (fun c =>
                 match c with
                 | None => []
                 | Some t =>
                   match par, t with
                   | true, Parallel xs => xs
                   | false, Sequence xs => xs
                   | _, _ => [t]
                   end
                 end) cs in
    match out with
    | [] => None
    | [t] => Some t
    | _ => Some (if par then Parallel (go_sort cmp_min out) else Sequence out)
    end.
  Definition sequence_of := combine_of false.
  Definition parallel_of := combine_of true.

  Inductive sres :=
  | SOk (t : option tree)
  | SErr                      (* "cycle detected in fetch dependency graph" *)
  | SFuel.                    (* the model ran out of fuel (no counterpart in Go) *)

  (* run [f] over the items in order, stop at the first failure *)
  Fixpoint sched_all {A : Type} (f : A -> sres) (xs : list A) : sres + list (option tree) :=
    match xs with
    | [] => inr []
    | x :: r =>
      match f x with
      | SOk t => match sched_all f r with inr ts => inr (t :: ts) | inl e => inl e end
      | e => inl e
      end
    end.

  Fixpoint schedule (fuel : nat) (inline : bool) (set : list nat) : sres :=
    match fuel with
    | 0 => SFuel
    | S k =>
      let ss := sort_nat set in
      match ss with
      | [] => SOk None
      | [x] => SOk (node x)
      | _ =>
        let comps := wcc ss in
        if 1 <? length comps then
          match sched_all (schedule k inline) comps with
          | inr branches => SOk (parallel_of branches)
          | inl e => e
          end
        else
          let roots := filter (fun id => negb (has_parent_in id ss)) ss in
          match roots with
          | [] => SErr
          | _ =>
            let reaches := if inline then map (fun r => (r, reach_from ss r)) roots else [] in
            let excl := fun r => filter (exclusive_of reaches r) ss in
            let scheduled := roots ++ flat_map excl roots in
            (* one branch per root, with the root's exclusive descendants inlined behind it *)
            let branch := fun r =>
              match excl r with
              | [] => SOk (node r)
              | members =>
                match schedule k inline members with
                | SOk sub => SOk (sequence_of [node r; sub])
                | e => e
                end
              end in
            match sched_all branch roots with
            | inl e => e
            | inr branches =>
              let rest := filter (fun id => negb (memb id scheduled)) ss in
              match schedule k inline rest with
              | SOk rest_tree => SOk (sequence_of [parallel_of branches; rest_tree])
              | e => e
              end
            end
          end
      end
    end.

  (* treePredecessors: (ids of the subtree in order, recorded entries in visiting order) *)
  Fixpoint preds_walk (before : list nat) (t : tree) : list nat * list (nat * list nat) :=
    match t with
    | Single f => ([fid f], [(fid f, before)])
    | Parallel ts =>
      fold_left (fun acc c => let r := preds_walk before c in (fst acc ++ fst r, snd acc ++ snd r))
                ts ([], [])
    | Sequence ts =>
      let res :=
        fold_left (fun (acc : list nat * (list nat * list (nat * list nat))) c =>
                     let r := preds_walk (fst acc) c in
                     (fst acc ++ fst r, (fst (snd acc) ++ fst r, snd (snd acc) ++ snd r)))
                  ts (before, ([], [])) in
      snd res
    end.
  Definition tree_predecessors (t : option tree) : list (nat * list nat) :=
    match t with
    | None => []
    | Some t => snd (preds_walk [] t)
    end.
  (* map semantics: a later entry for the same id replaces an earlier one *)
  Definition pred_lookup (m : list (nat * list nat)) (id : nat) : option (list nat) :=
    option_map snd (find (fun e => fst e =? id) (rev m)).
  Fixpoint distinct (l : list nat) : list nat :=
    match l with
    | [] => []
    | x :: r => if memb x r then distinct r else x :: distinct r
    end.
  Definition dominates (a b : option tree) : bool :=
    let pa := tree_predecessors a in
    let pb := tree_predecessors b in
    let ka := distinct (map fst pa) in
    (length ka =? length (distinct (map fst pb))) &&
    forallb (fun id =>
               match pred_lookup pa id, pred_lookup pb id with
               | Some wa, Some wb => forallb (fun w => memb w wb) wa
               | _, _ => false
               end) ka.

  (* validateSchedule.  walk: None = error, Some ids = the fetch ids of the subtree in order.
     [before] only grows by prepending, membership is all that is used.  The two loops over
     ChildNodes are [vwalk_par] and [vwalk_seq]. *)
  Definition vwalk_par (w : tree -> option (list nat)) : list tree -> option (list nat) :=
    fix go (ts : list tree) : option (list nat) :=
      match ts with
      | [] => Some []
      | c :: r =>
        match w c with
        | None => None
        | Some a => match go r with None => None | Some b => Some (a ++ b) end
        end
      end.
  Definition vwalk_seq (w : list nat -> tree -> option (list nat))
    : list nat -> list tree -> option (list nat) :=
    fix go (available : list nat) (ts : list tree) : option (list nat) :=
      match ts with
      | [] => Some []
      | c :: r =>
        match w available c with
        | None => None
        | Some a => match go (a ++ available) r with None => None | Some b => Some (a ++ b) end
        end
      end.
  Fixpoint vwalk (before : list nat) (t : tree) : option (list nat) :=
    match t with
    | Single f =>
      if negb (memb (fid f) (ids l)) then None
      else if forallb (fun d => negb (memb d (ids l)) || memb d before) (fdeps f)
           then Some [fid f] else None
    | Parallel ts => vwalk_par (vwalk before) ts
    | Sequence ts => vwalk_seq vwalk before ts
    end.
  Definition validate_schedule (t : option tree) : bool :=
    match (match t with None => Some [] | Some t => vwalk [] t end) with
    | None => false
    | Some seen => negb (has_dup seen) && forallb (fun id => memb id seen) (ids l)
    end.

  (* buildScheduleTree *)
  Definition build_schedule_tree : sres :=
    let fuel := S (length l) in
    let comps := wcc (sort_nat (ids l)) in
    match sched_all (fun c =>
             match schedule fuel false c with
             | SOk w =>
               match schedule fuel true c with
               | SOk i => SOk (if dominates i w then i else w)
               | e => e
               end
             | e => e
             end) comps with
    | inl e => e
    | inr winners =>
      let winner := parallel_of winners in
      if validate_schedule winner then SOk winner else SErr
    end.
End Dag.

(* scheduleFetches.ProcessFetchTree on the flat root.  [trigger]: the root carries a
   subscription Trigger.  inl = the stage returned an error / ran out of fuel. *)
Definition process_fetch_tree (trigger : bool) (l : list fetch) : sres + tree :=
  if negb (new_fetch_dag_ok l) then inl SErr else
  match build_schedule_tree l with
  | SOk None => inr (Sequence [])
  | SOk (Some t) =>
    inr (match t with
         | Sequence _ => t
         | _ => if trigger then Sequence [t] else t
         end)
  | e => inl e
  end.

Inductive outcome :=
| Done (t : tree)
| OutOfFuel.

Definition of_option (o : option tree) : outcome :=
  match o with Some t => Done t | None => OutOfFuel end.

(* ---- create_multi_fetch.go ----
   The stage only ever receives the wave tree built by organizeFetchTreeInWaves: a Sequence whose
   children are Single nodes or Parallel nodes of Single nodes.  Such a tree is a list of waves
   (a wave = the fetches of one child, in order); createMultiFetch.walk visits the children of
   the root in order and merges inside every Parallel child (its deeper recursion finds nothing). *)
Definition wave_tree (w : list fetch) : tree :=
  match w with
  | [x] => Single x            (* "if len(child.ChildNodes) == 1" collapse; an untouched Single *)
  | _ => Parallel (map Single w)
  end.
Definition waves_of (t : tree) : list (list fetch) :=
  match t with
  | Sequence ws => map tree_fetches ws
  | _ => [tree_fetches t]
  end.
Definition tree_of_waves (s : list (list fetch)) : tree := Sequence (map wave_tree s).

Definition src_eqb (a b : option (nat * nat)) : bool :=
  match a, b with
  | Some (d1, e1), Some (d2, e2) => (d1 =? d2) && (e1 =? e2)
  | None, None => true
  | _, _ => false
  end.
Definition is_cand (f : fetch) : bool := match fsrc f with Some _ => true | None => false end.
Definition ds_of (f : fetch) : option nat := option_map fst (fsrc f).

(* groupCandidatesByDataSource: candidates bucketed by datasource in first-seen order, buckets
   of at least two; a group is given by the fetch ids of its members *)
Fixpoint first_seen (l : list nat) (seen : list nat) : list nat :=
  match l with
  | [] => []
  | x :: r => if memb x seen then first_seen r seen else x :: first_seen r (x :: seen)
  end.
Definition groups_of (w : list fetch) : list (list nat) :=
  let cands := filter is_cand w in
  let dss := first_seen (flat_map (fun f => match ds_of f with Some d => [d] | None => [] end) cands) [] in
  filter (fun g => 2 <=? length g)
         (map (fun d => ids (filter (fun f => match ds_of f with Some d' => d' =? d | None => false end) cands)) dss).

(* the members of a group inside the (current) wave *)
Definition sel (gids : list nat) (f : fetch) : bool := memb (fid f) gids && is_cand f.

(* unionDependencies *)
Definition union_deps (members : list fetch) (mids : list nat) : list nat :=
  fold_left (fun deps m =>
               fold_left (fun deps d => if memb d mids then deps
                                        else if memb d deps then deps else deps ++ [d])
                         (fdeps m) deps) members [].

(* the multi node replaces the first member met in the parent, the other members are dropped *)
Fixpoint merge_in_wave (gids : list nat) (mu : fetch) (w : list fetch) : list fetch :=
  match w with
  | [] => []
  | x :: r => if sel gids x then mu :: filter (fun y => negb (sel gids y)) r
              else x :: merge_in_wave gids mu r
  end.

(* replaceDependsOnFetchID for every merged id other than the survivor's: the survivor id is not
   among the replaced ones, so the successive in-place replacements amount to one substitution *)
Definition redirect (mids : list nat) (mu : nat) (f : fetch) : fetch :=
  {| fid := fid f; fdeps := map (fun d => if memb d mids then mu else d) (fdeps f);
     fsrc := fsrc f; fmerged := fmerged f |}.

Fixpoint set_nth {A} (k : nat) (x : A) (l : list A) : list A :=
  match l, k with
  | [], _ => []
  | _ :: r, 0 => x :: r
  | y :: r, S k' => y :: set_nth k' x r
  end.

Definition cmp_fid (a b : fetch) : comparison := fid a ?= fid b.

(* mergeGroup for the group [gids] of wave k; a failed precondition leaves the tree untouched.
   Of the preconditions only the envelope comparison is modelled (see the harness: documents are
   always mergeable). *)
Definition merge_group (k : nat) (gids : list nat) (s : list (list fetch)) : list (list fetch) :=
  let w := nth k s [] in
  let members := go_sort cmp_fid (filter (sel gids) w) in
  match members with
  | base :: _ :: _ =>
    if forallb (fun m => src_eqb (fsrc m) (fsrc base)) members then
      let mids := ids members in
      let mu := {| fid := fid base; fdeps := union_deps members mids; fsrc := None; fmerged := mids |} in
      map (map (redirect mids (fid base))) (set_nth k (merge_in_wave gids mu w) s)
    else s
  | _ => s
  end.

Definition process_wave (k : nat) (s : list (list fetch)) : list (list fetch) :=
  fold_left (fun s g => merge_group k g s) (groups_of (nth k s [])) s.

(* "for i := range node.ChildNodes" *)
Fixpoint cmf_from (n k : nat) (s : list (list fetch)) : list (list fetch) :=
  match n with
  | 0 => s
  | S n' => cmf_from n' (S k) (process_wave k s)
  end.
Definition create_multi_fetch (t : tree) : tree :=
  let s := waves_of t in tree_of_waves (cmf_from (length s) 0 s).

(* organizeFetchTree.  [sched] = EnableScheduleFetches, [multi] = the MultiFetch stage is on. *)
Definition organize (sched multi trigger : bool) (l : list fetch) : outcome :=
  if sched then
    if multi then
      (* merge-before-schedule: waves, merge, flatten, schedule the merged DAG *)
      match organize_in_waves l with
      | None => OutOfFuel
      | Some w =>
        let flat := tree_fetches (create_multi_fetch w) in
        match process_fetch_tree trigger flat with
        | inr t => Done t
        | inl SFuel => OutOfFuel
        | inl _ => of_option (organize_in_waves flat)
        end
      end
    else
      match process_fetch_tree trigger l with
      | inr t => Done t
      | inl SFuel => OutOfFuel
      | inl _ => of_option (organize_in_waves l)
      end
  else
    match organize_in_waves l with
    | None => OutOfFuel
    | Some w => Done (if multi then create_multi_fetch w else w)
    end.
