(* C08 (structural part): the stage that COMPLETES the dependency relation before the tree is
   organised:
     v2/pkg/engine/postprocess/add_missing_nested_dependencies.go   [add_missing]
     v2/pkg/engine/postprocess/postprocess.go processFlatFetchTree, Process  [pipeline]
   A planned fetch carries, next to the ordering record of Model.v, the two path attributes the
   stage reads: FetchItem.ResponsePath (a Go string) and PostProcessing.MergePath ([]string).
   The planner builds ResponsePath as strings.Join(ResponsePathElements, ".")
   (plan/path_builder_visitor.go responsePath / responsePathElements), so the model takes the
   ELEMENTS as input and derives the string; every test of the stage is made on the byte strings,
   exactly as the Go code does (strings.HasPrefix), including its quirks.
   No proofs here. *)
From Gv Require Import lib.Bytes C08.Model.
From Coq Require Import List Arith Bool NArith.
Import ListNotations.
Local Open Scope nat_scope.

Record pfetch := { pf : fetch; prp : list bytes; pmp : list bytes }.

Definition dot : byte := 46%N.

(* strings.Join(l, ".") *)
Fixpoint join_dot (l : list bytes) : bytes :=
  match l with
  | [] => []
  | x :: r => match r with [] => x | _ => x ++ dot :: join_dot r end
  end.

(* strings.HasPrefix(s, p) *)
Fixpoint has_prefix (s p : bytes) {struct p} : bool :=
  match p with
  | [] => true
  | b :: p' => match s with
               | [] => false
               | c :: s' => N.eqb b c && has_prefix s' p'
               end
  end.

Definition is_nil {A} (l : list A) : bool := match l with [] => true | _ => false end.

(* FetchItem.ResponsePath *)
Definition response_path (f : pfetch) : bytes := join_dot (prp f).

(* providedPathByNode: ResponsePath + "." + Join(MergePath, ".") for a nested fetch (the dot is
   there even when the merge path is empty), Join(MergePath, ".") for a root fetch *)
Definition provided_path (g : pfetch) : bytes :=
  let mp := join_dot (pmp g) in
  match response_path g with
  | [] => mp
  | rp => rp ++ dot :: mp
  end.

(* strings.HasPrefix(node.Item.ResponsePath, a.providedPathByNode(otherNode)) *)
Definition provides (g f : pfetch) : bool := has_prefix (response_path f) (provided_path g).

(* the two "continue" tests of the outer loop: only a nested fetch that the planner left without
   any DependsOnFetchIDs is completed *)
Definition eligible (f : pfetch) : bool :=
  negb (is_nil (response_path f)) && is_nil (fdeps (pf f)).

Definition with_deps (f : pfetch) (ds : list nat) : pfetch :=
  {| pf := {| fid := fid (pf f); fdeps := ds; fsrc := fsrc (pf f); fmerged := fmerged (pf f) |};
     prp := prp f; pmp := pmp f |}.

(* the fetch ids of the other children (by POSITION, "if i == j continue") whose provided path is a
   string prefix of the response path, in list order *)
Definition providers (others : list pfetch) (f : pfetch) : list nat :=
  map (fun g => fid (pf g)) (filter (fun g => provides g f) others).

(* ProcessFetchTree: [pre] = children before position i, [post] = children from i on.  The stage
   writes DependsOnFetchIDs in place while it iterates, but of the OTHER nodes it only reads
   ResponsePath, MergePath and FetchID, and the eligibility of node i is tested before its own
   list is touched: the in-place loop is this map. *)
Fixpoint amnd_from (pre post : list pfetch) : list pfetch :=
  match post with
  | [] => []
  | f :: r =>
    (if eligible f then with_deps f (providers (pre ++ r) f) else f) :: amnd_from (pre ++ [f]) r
  end.
Definition add_missing (pl : list pfetch) : list pfetch := amnd_from [] pl.

(* the dependency lists that organizeFetchTree works from *)
Definition completed (pl : list pfetch) : list fetch := map pf (add_missing pl).

(* Processor.Process on a plan whose fetches are pairwise different (deduplication is the
   identity) as far as the tree is concerned: processFlatFetchTree, then organizeFetchTree *)
Definition pipeline (sched multi trigger : bool) (pl : list pfetch) : outcome :=
  organize sched multi trigger (completed pl).
