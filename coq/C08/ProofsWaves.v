(* C08: createParallelNodes on a topologically ordered list yields waves in which every fetch
   comes strictly after the fetches it depends on. *)
From Gv Require Import C08.Model C08.Spec C08.ProofsSpec C08.ProofsSort.
From Coq Require Import List Arith Bool Permutation Lia.
Import ListNotations.

Lemma sc_plan_respects t l :
  Permutation (tree_fetches t) l -> sc (ids l) [] t = true -> plan_respects t l.
Proof.
  intros P H s L f d Hf Hd Hk.
  destruct (proj1 sc_sound_all t s L (ids l) [] H f d) as [[] | R]; try assumption.
  eapply Permutation_in; [apply Permutation_sym; exact P | exact Hf].
Qed.

Lemma filter_partition_perm {A} (p : A -> bool) l :
  Permutation (filter p l ++ filter (fun x => negb (p x)) l) l.
Proof.
  induction l as [|x l IH]; simpl; [constructor|].
  destruct (p x); simpl.
  - constructor. exact IH.
  - eapply Permutation_trans; [apply Permutation_sym; apply Permutation_middle|]. constructor. exact IH.
Qed.

Lemma filter_split {A} (q : A -> bool) l pre f post :
  filter q l = pre ++ f :: post ->
  exists pre0 post0, l = pre0 ++ f :: post0 /\ filter q pre0 = pre /\ filter q post0 = post.
Proof.
  revert pre. induction l as [|x l IH]; simpl; intros pre H.
  - destruct pre; discriminate.
  - destruct (q x) eqn:Q.
    + destruct pre as [|y pre]; simpl in H.
      * injection H as Hx Hl. exists [], l. simpl. rewrite Hx. auto.
      * injection H as Hx Hl. destruct (IH pre Hl) as [pre0 [post0 [E1 [E2 E3]]]].
        exists (x :: pre0), post0. simpl. rewrite Q, E1, E2, E3, Hx. auto.
    + destruct (IH pre H) as [pre0 [post0 [E1 [E2 E3]]]].
      exists (x :: pre0), post0. simpl. rewrite Q, E1, E2, E3. auto.
Qed.

(* every fetch's constraining dependencies are provided or stand earlier in the list *)
Definition ordered (known provided : list nat) (nodes : list fetch) : Prop :=
  forall pre f post, nodes = pre ++ f :: post ->
  forall d, In d (fdeps f) -> In d known -> In d provided \/ In d (ids pre).

Lemma waves_some fuel provided nodes : length nodes <= fuel -> waves fuel provided nodes <> None.
Proof.
  revert provided nodes. induction fuel as [|k IH]; intros provided nodes H.
  - destruct nodes; simpl in *; [discriminate | lia].
  - destruct nodes as [|x rest]; simpl; [discriminate|].
    destruct (waves k _ _) eqn:E; [discriminate|]. exfalso. revert E. apply IH.
    simpl in H. pose proof (filter_len_le (fun f => negb (deps_provided provided f)) rest). lia.
Qed.

Definition wave_node (x : fetch) (taken : list fetch) : tree :=
  match taken with
  | [] => Single x
  | _ => Parallel (Single x :: map Single taken)
  end.
Lemma wave_node_fetches x taken : tree_fetches (wave_node x taken) = x :: taken.
Proof.
  destruct taken as [|y r]; [reflexivity|].
  unfold wave_node. simpl. f_equal. f_equal. induction r; simpl; [reflexivity | f_equal; assumption].
Qed.
Lemma wave_node_sc known B x taken :
  (forall g, In g (x :: taken) -> sc known B (Single g) = true) ->
  sc known B (wave_node x taken) = true.
Proof.
  intros H. destruct taken as [|y r]; [apply H; left; reflexivity|].
  unfold wave_node. change (forallb (sc known B) (map Single (x :: y :: r)) = true).
  apply forallb_forall. intros t Ht. apply in_map_iff in Ht. destruct Ht as [g [E Hg]]. subst.
  apply H. exact Hg.
Qed.

Lemma waves_perm fuel provided nodes ws :
  waves fuel provided nodes = Some ws -> Permutation (flat_map tree_fetches ws) nodes.
Proof.
  revert provided nodes ws. induction fuel as [|k IH]; intros provided nodes ws H.
  - destruct nodes; simpl in H; [|discriminate]. inversion H; subst. constructor.
  - destruct nodes as [|x rest]; simpl in H; [inversion H; subst; constructor|].
    destruct (waves k _ _) as [ws'|] eqn:E; [|discriminate]. inversion H; subst. clear H.
    change (Permutation (tree_fetches (wave_node x (filter (deps_provided provided) rest)) ++ flat_map tree_fetches ws') (x :: rest)).
    rewrite wave_node_fetches. simpl. constructor.
    eapply Permutation_trans; [apply Permutation_app_head; apply (IH _ _ _ E)|].
    apply filter_partition_perm.
Qed.

Lemma waves_sc fuel provided nodes ws :
  waves fuel provided nodes = Some ws ->
  forall known B, ordered known provided nodes -> incl provided B ->
  sc_seq (sc known) B ws = true.
Proof.
  revert provided nodes ws. induction fuel as [|k IH]; intros provided nodes ws H known B O I.
  - destruct nodes; simpl in H; [|discriminate]. inversion H; subst. reflexivity.
  - destruct nodes as [|x rest]; simpl in H; [inversion H; subst; reflexivity|].
    destruct (waves k _ _) as [ws'|] eqn:E; [|discriminate]. inversion H; subst. clear H.
    set (taken := filter (deps_provided provided) rest) in *.
    set (remaining := filter (fun f => negb (deps_provided provided f)) rest) in *.
    change (sc known B (wave_node x taken) && sc_seq (sc known) (tree_ids (wave_node x taken) ++ B) ws' = true).
    apply andb_true_iff. split.
    + apply wave_node_sc. intros g Hg. simpl. apply forallb_forall. intros d Hd.
      destruct (memb d known) eqn:K; [|reflexivity]. simpl. apply memb_In. apply I.
      apply memb_In in K. destruct Hg as [Eg | Hg].
      * subst g. destruct (O [] x rest eq_refl d Hd K) as [R | []]. exact R.
      * unfold taken in Hg. apply filter_In in Hg. destruct Hg as [_ P].
        unfold deps_provided in P. rewrite forallb_forall in P. apply memb_In. apply P. exact Hd.
    + apply (IH _ _ _ E).
      * (* the remaining list is still ordered, relative to the enlarged provided set *)
        intros pre f post Esplit d Hd K.
        destruct (filter_split _ _ _ _ _ Esplit) as [pre0 [post0 [E1 [E2 E3]]]].
        destruct (O (x :: pre0) f post0) with (d := d) as [R | R]; try assumption.
        { rewrite E1. reflexivity. }
        { left. apply in_or_app. left. exact R. }
        simpl in R. destruct R as [R | R].
        { left. apply in_or_app. right. left. exact R. }
        apply ids_in in R. destruct R as [g [Hg Eg]].
        destruct (deps_provided provided g) eqn:P.
        { left. apply in_or_app. right. right. rewrite <- Eg. apply in_ids. unfold taken.
          apply filter_In. split; [|exact P]. rewrite E1. apply in_or_app. left. exact Hg. }
        { right. rewrite <- Eg. apply in_ids. rewrite <- E2. apply filter_In. split; [exact Hg|].
          rewrite P. reflexivity. }
      * unfold tree_ids. rewrite wave_node_fetches. intros z Hz. apply in_app_or in Hz.
        destruct Hz as [Hz | Hz]; [apply in_or_app; right; apply I; exact Hz|].
        apply in_or_app. left. exact Hz.
Qed.

Lemma topological_ordered l s : topological l s -> ordered (ids l) [] s.
Proof. intros T pre f post E d Hd K. right. eapply T; eassumption. Qed.

Lemma perm_acyclic l l' : Permutation l l' -> acyclic l -> acyclic l'.
Proof.
  intros P [rank H]. exists rank. intros f d Hf Hd Hk. apply H.
  - eapply Permutation_in; [apply Permutation_sym; exact P | exact Hf].
  - exact Hd.
  - eapply Permutation_in; [|exact Hk]. unfold ids. apply Permutation_map. apply Permutation_sym. exact P.
Qed.
Lemma perm_unique_ids l l' : Permutation l l' -> unique_ids l -> unique_ids l'.
Proof. unfold unique_ids, ids. intros P. apply Permutation_NoDup. apply Permutation_map. exact P. Qed.
Lemma perm_ids l l' : Permutation l l' -> forall d, In d (ids l) <-> In d (ids l').
Proof.
  intros P d. unfold ids. split; apply Permutation_in; [|apply Permutation_sym]; apply Permutation_map; exact P.
Qed.

Lemma plan_respects_perm t l l' : Permutation l l' -> plan_respects t l -> plan_respects t l'.
Proof.
  intros P H s L f d Hf Hd Hk. apply (H s L f d).
  - eapply Permutation_in; [apply Permutation_sym; exact P | exact Hf].
  - exact Hd.
  - apply (perm_ids l l' P). exact Hk.
Qed.
Lemma exactly_once_perm t l l' : Permutation l l' -> exactly_once t l -> exactly_once t l'.
Proof.
  intros P H s L. destruct (H s L) as [N Q]. split; [exact N|].
  eapply Permutation_trans; [exact Q | apply events_of_perm; exact P].
Qed.

(* the legacy pipeline: orderSequenceByDependencies then createParallelNodes *)
Lemma waves_respect_deps_proof l :
  acyclic l -> unique_ids l ->
  exists t, organize_in_waves l = Some t /\
            Permutation (tree_fetches t) l /\ plan_respects t l /\ exactly_once t l.
Proof.
  intros Hac Hu. destruct (order_sequence_ok l Hac Hu) as [s [Es [P T]]].
  unfold organize_in_waves. rewrite Es. unfold create_parallel_nodes.
  destruct (waves (length s) [] s) as [ws|] eqn:W.
  2:{ exfalso. revert W. apply waves_some. lia. }
  exists (Sequence ws).
  assert (Pt : Permutation (tree_fetches (Sequence ws)) l).
  { simpl. eapply Permutation_trans; [apply (waves_perm _ _ _ _ W) | apply Permutation_sym; exact P]. }
  split; [reflexivity|]. split; [exact Pt|]. split.
  - apply sc_plan_respects; [exact Pt|].
    change (sc_seq (sc (ids l)) [] ws = true).
    apply (waves_sc _ _ _ _ W); [apply topological_ordered; exact T | apply incl_refl].
  - apply perm_exactly_once; [exact Hu | exact Pt].
Qed.
