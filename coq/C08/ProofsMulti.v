(* C08: createMultiFetch keeps the plan covered.  Every merge step preserves an invariant of the
   wave list: unique ids, the nodes cover the plan (ProofsMember.cover: every planned dependency
   of every member is represented in the node's own list -- this is what unionDependencies must
   guarantee), and every node's in-tree dependencies sit in strictly earlier waves. *)
From Gv Require Import C08.Model C08.Spec C08.ProofsSpec C08.ProofsSort C08.ProofsWaves
  C08.ProofsOrganize C08.ProofsMember.
From Coq Require Import List Arith Bool Permutation Lia.
Import ListNotations.

Lemma nodup_app {A} (a b : list A) :
  NoDup (a ++ b) -> NoDup a /\ NoDup b /\ (forall x, In x a -> ~ In x b).
Proof.
  induction a as [|x a IH]; simpl; intros H.
  - split; [constructor | split; [exact H | intros x []]].
  - inversion H as [|? ? Hn Hr]; subst. destruct (IH Hr) as [A1 [A2 A3]]. split; [|split].
    + constructor; [|exact A1]. intros Hin. apply Hn. apply in_or_app. left. exact Hin.
    + exact A2.
    + intros y [E | Hy]; [subst; intros Hb; apply Hn; apply in_or_app; right; exact Hb | apply A3; exact Hy].
Qed.

(* ---- waves ---- *)
Fixpoint wok (P prov : list nat) (s : list (list fetch)) : Prop :=
  match s with
  | [] => True
  | w :: r => (forall f d, In f w -> In d (fdeps f) -> In d P -> In d prov) /\ wok P (ids w ++ prov) r
  end.

Lemma wok_ext P P' prov prov' s :
  (forall d, In d P' -> In d P) -> (forall d, In d prov -> In d prov') ->
  wok P prov s -> wok P' prov' s.
Proof.
  revert prov prov'. induction s as [|w r IH]; simpl; intros prov prov' HP Hp H; [exact I|].
  destruct H as [H1 H2]. split.
  - intros f d Hf Hd Hk. apply Hp. apply (H1 f d Hf Hd). apply HP. exact Hk.
  - apply (IH (ids w ++ prov)); try assumption.
    intros d Hin. apply in_app_or in Hin. apply in_or_app. destruct Hin; auto.
Qed.

Lemma wok_app P prov x y :
  wok P prov (x ++ y) <-> wok P prov x /\ wok P (ids (concat (rev x)) ++ prov) y.
Proof.
  revert prov. induction x as [|w r IH]; intros prov; simpl.
  - tauto.
  - rewrite IH. rewrite concat_app, ids_app. simpl. rewrite app_nil_r, <- app_assoc. tauto.
Qed.

Lemma in_ids_concat_rev (x : list (list fetch)) d : In d (ids (concat (rev x))) <-> In d (ids (concat x)).
Proof.
  unfold ids. rewrite !in_map_iff. split; intros [f [E H]]; exists f; (split; [exact E|]);
    apply in_concat in H; destruct H as [w [Hw Hf]]; apply in_concat; exists w; (split; [|exact Hf]).
  - apply in_rev. exact Hw.
  - apply -> in_rev. exact Hw.
Qed.

Lemma wave_tree_fetches w : tree_fetches (wave_tree w) = w.
Proof.
  destruct w as [|x [|y r]]; try reflexivity.
  - unfold wave_tree. simpl. f_equal. f_equal. induction r; simpl; [reflexivity | f_equal; assumption].
Qed.
Lemma tree_of_waves_fetches s : tree_fetches (tree_of_waves s) = concat s.
Proof.
  unfold tree_of_waves. simpl. induction s as [|w r IH]; simpl; [reflexivity|].
  rewrite wave_tree_fetches, IH. reflexivity.
Qed.

Lemma wave_tree_sc P B w :
  (forall f d, In f w -> In d (fdeps f) -> In d P -> In d B) -> sc P B (wave_tree w) = true.
Proof.
  intros H.
  assert (G : forall f, In f w -> sc P B (Single f) = true).
  { intros f Hf. simpl. apply forallb_forall. intros d Hd.
    destruct (memb d P) eqn:K; [|reflexivity]. simpl. apply memb_In.
    apply (H f d Hf Hd). apply memb_In. exact K. }
  destruct w as [|x [|y r]].
  - reflexivity.
  - apply G. left. reflexivity.
  - unfold wave_tree. change (forallb (sc P B) (map Single (x :: y :: r)) = true).
    apply forallb_forall. intros t Ht. apply in_map_iff in Ht. destruct Ht as [g [E Hg]]. subst. apply G. exact Hg.
Qed.

Lemma wok_sc P B s : wok P B s -> sc_seq (sc P) B (map wave_tree s) = true.
Proof.
  revert B. induction s as [|w r IH]; simpl; intros B H; [reflexivity|].
  destruct H as [H1 H2]. rewrite (wave_tree_sc P B w H1). simpl.
  unfold tree_ids. rewrite wave_tree_fetches. apply IH. exact H2.
Qed.

(* the waves of createParallelNodes *)
Lemma waves_wok fuel provided nodes ws :
  waves fuel provided nodes = Some ws ->
  forall known B, ordered known provided nodes -> incl provided B ->
  wok known B (map tree_fetches ws).
Proof.
  revert provided nodes ws. induction fuel as [|k IH]; intros provided nodes ws H known B O I.
  - destruct nodes; simpl in H; [|discriminate]. inversion H; subst. exact Logic.I.
  - destruct nodes as [|x rest]; simpl in H; [inversion H; subst; exact Logic.I|].
    destruct (waves k _ _) as [ws'|] eqn:E; [|discriminate]. inversion H; subst. clear H.
    set (taken := filter (deps_provided provided) rest) in *.
    change (wok known B (tree_fetches (wave_node x taken) :: map tree_fetches ws')).
    rewrite wave_node_fetches. split.
    + intros g d Hg Hd K. apply I. destruct Hg as [Eg | Hg].
      * subst g. destruct (O [] x rest eq_refl d Hd K) as [R | []]. exact R.
      * unfold taken in Hg. apply filter_In in Hg. destruct Hg as [_ P].
        unfold deps_provided in P. rewrite forallb_forall in P. apply memb_In. apply P. exact Hd.
    + apply (IH _ _ _ E).
      * intros pre f post Esplit d Hd K.
        destruct (filter_split _ _ _ _ _ Esplit) as [pre0 [post0 [E1 [E2 E3]]]].
        destruct (O (x :: pre0) f post0) with (d := d) as [R | R]; try assumption.
        { rewrite E1. reflexivity. }
        { left. apply in_or_app. left. exact R. }
        simpl in R. destruct R as [R | R].
        { left. apply in_or_app. right. left. exact R. }
        apply ids_in in R. destruct R as [g [Hg Eg]].
        destruct (deps_provided provided g) eqn:P.
        { left. apply in_or_app. right. right. rewrite <- Eg. apply in_ids. unfold taken.
          apply filter_In. split; [|exact P]. rewrite E1. apply in_or_app. left. exact Hg. }
        { right. rewrite <- Eg. apply in_ids. rewrite <- E2. apply filter_In. split; [exact Hg|].
          rewrite P. reflexivity. }
      * intros z Hz. apply in_app_or in Hz.
        destruct Hz as [Hz | Hz]; [apply in_or_app; right; apply I; exact Hz|].
        apply in_or_app. left. exact Hz.
Qed.

(* a wave list whose dependencies point to earlier waves is acyclic *)
Fixpoint windex (s : list (list fetch)) (x : nat) : nat :=
  match s with
  | [] => 0
  | w :: r => if memb x (ids w) then 0 else S (windex r x)
  end.

Lemma wok_rank P s : forall prov,
  wok P prov s -> NoDup (ids (concat s)) ->
  forall f d, In f (concat s) -> In d (fdeps f) -> In d P ->
  In d prov \/ windex s d < windex s (fid f).
Proof.
  induction s as [|w r IH]; simpl; intros prov H N f d Hf Hd Hk; [contradiction|].
  destruct H as [H1 H2]. rewrite ids_app in N. apply in_app_or in Hf. destruct Hf as [Hf | Hf].
  - left. apply (H1 f d Hf Hd Hk).
  - destruct (nodup_app _ _ N) as [_ [Nr Dj]].
    assert (Hnw : memb (fid f) (ids w) = false).
    { apply memb_false. intros Hin. apply (Dj _ Hin). apply in_ids. exact Hf. }
    rewrite Hnw. destruct (memb d (ids w)) eqn:Mw; [right; lia|].
    destruct (IH (ids w ++ prov) H2 Nr f d Hf Hd Hk) as [R | R].
    + apply in_app_or in R. destruct R as [R | R]; [|left; exact R].
      apply memb_In in R. congruence.
    + right. lia.
Qed.

Lemma wok_acyclic s : NoDup (ids (concat s)) -> wok (ids (concat s)) [] s -> acyclic (concat s).
Proof.
  intros N H. exists (windex s). intros f d Hf Hd Hk.
  destruct (wok_rank _ s [] H N f d Hf Hd Hk) as [[] | R]. exact R.
Qed.

(* ---- ingredients of one merge ---- *)
Lemma nth_set_split (s : list (list fetch)) : forall k,
  k < length s ->
  exists a w b, s = a ++ w :: b /\ length a = k /\ nth k s [] = w /\
                forall w', set_nth k w' s = a ++ w' :: b.
Proof.
  induction s as [|x s IH]; intros k H; simpl in H; [lia|].
  destruct k as [|k].
  - exists [], x, s. simpl. auto.
  - destruct (IH k) as [a [w [b [E1 [E2 [E3 E4]]]]]]; [lia|].
    exists (x :: a), w, b. simpl. rewrite E1 at 1. split; [reflexivity|]. split; [lia|].
    split; [exact E3|]. intros w'. rewrite E4. reflexivity.
Qed.

Lemma go_sort_perm {A} (cmp : A -> A -> comparison) (l : list A) : Permutation l (go_sort cmp l).
Proof.
  unfold go_sort.
  assert (G : forall racc, Permutation (l ++ racc) (fold_left (fun racc x => ins_rev cmp x racc) l racc)).
  { induction l as [|x l IH]; simpl; intros racc; [apply Permutation_refl|].
    eapply Permutation_trans; [|apply IH].
    eapply Permutation_trans; [apply Permutation_middle|]. apply Permutation_app_head. apply ins_rev_perm. }
  specialize (G []). rewrite app_nil_r in G.
  eapply Permutation_trans; [exact G | apply Permutation_rev].
Qed.

Lemma union_deps_in members mids x :
  In x (union_deps members mids) <-> exists m, In m members /\ In x (fdeps m) /\ ~ In x mids.
Proof.
  unfold union_deps.
  assert (Inner : forall ds acc, In x (fold_left (fun deps d => if memb d mids then deps
                                  else if memb d deps then deps else deps ++ [d]) ds acc)
                               <-> In x acc \/ (In x ds /\ ~ In x mids)).
  { induction ds as [|d ds IH]; intros acc; simpl; [tauto|].
    rewrite IH. destruct (memb d mids) eqn:M1.
    - apply memb_In in M1. split; [tauto|]. intros [H | [[H | H] Hn]]; try tauto. subst. contradiction.
    - apply memb_false in M1. destruct (memb d acc) eqn:M2.
      + apply memb_In in M2. split; [tauto|]. intros [H | [[H | H] Hn]]; try tauto. subst. tauto.
      + rewrite in_app_iff. simpl. split.
        * intros [[H | [H | []]] | H]; try tauto. subst. tauto.
        * intros [H | [[H | H] Hn]]; tauto. }
  assert (Outer : forall ms acc, In x (fold_left (fun deps m => fold_left (fun deps d => if memb d mids then deps
                                  else if memb d deps then deps else deps ++ [d]) (fdeps m) deps) ms acc)
                               <-> In x acc \/ exists m, In m ms /\ In x (fdeps m) /\ ~ In x mids).
  { induction ms as [|m ms IH]; intros acc; simpl.
    - split; [tauto|]. intros [H | [m [[] _]]]. exact H.
    - rewrite IH, Inner. split.
      + intros [[H | [H Hn]] | [m' [Hm' H]]]; [left; exact H | |].
        * right. exists m. tauto.
        * right. exists m'. split; [right; exact Hm' | exact H].
      + intros [H | [m' [[E | Hm'] [H Hn]]]]; [left; left; exact H | |].
        * subst. left. right. tauto.
        * right. exists m'. tauto. }
  rewrite Outer. simpl. split; [intros [[] | H]; exact H | intros H; right; exact H].
Qed.

Lemma merge_in_wave_perm gids mu w :
  (exists x, In x w /\ sel gids x = true) ->
  Permutation (merge_in_wave gids mu w) (mu :: filter (fun y => negb (sel gids y)) w).
Proof.
  induction w as [|x r IH]; intros [y [Hy Sy]]; simpl; [contradiction|].
  destruct (sel gids x) eqn:Sx; simpl.
  - apply Permutation_refl.
  - destruct Hy as [E | Hy]; [subst; congruence|].
    eapply Permutation_trans; [apply perm_skip; apply IH; exists y; auto|]. apply perm_swap.
Qed.

Lemma redirect_fid mids mu f : fid (redirect mids mu f) = fid f.
Proof. reflexivity. Qed.
Lemma redirect_planned mids mu f : planned_ids (redirect mids mu f) = planned_ids f.
Proof. reflexivity. Qed.
Lemma ids_map_redirect mids mu l : ids (map (redirect mids mu) l) = ids l.
Proof. unfold ids. rewrite map_map. reflexivity. Qed.
Lemma planned_map_redirect mids mu l :
  flat_map planned_ids (map (redirect mids mu) l) = flat_map planned_ids l.
Proof. induction l as [|x l IH]; simpl; [reflexivity | rewrite IH; reflexivity]. Qed.

(* ---- the invariant ---- *)
Definition inv (l : list fetch) (s : list (list fetch)) : Prop :=
  NoDup (ids (concat s)) /\
  cover l (concat s) /\
  wok (ids (concat s)) [] s /\
  (forall N, In N (concat s) -> In (fid N) (planned_ids N) /\ (is_cand N = true -> fmerged N = [])).

(* ---- one merge preserves the invariant ---- *)
Section Step.
  Variable l : list fetch.
  Variables (a : list (list fetch)) (w : list fetch) (b : list (list fetch)) (gids : list nat).
  Variables (members : list fetch) (base : fetch).
  Let Mem := filter (sel gids) w.
  Let Non := filter (fun y => negb (sel gids y)) w.
  Hypothesis Hperm : Permutation Mem members.
  Hypothesis Hbase : In base members.
  Let mids := ids members.
  Let mu := fid base.
  Let Mu := {| fid := mu; fdeps := union_deps members mids; fsrc := None; fmerged := mids |}.
  Let rf := redirect mids mu.
  Let Rest := concat a ++ Non ++ concat b.
  Hypothesis Hinv : inv l (a ++ w :: b).

  Let S' := map (map rf) (a ++ merge_in_wave gids Mu w :: b).

  Lemma step_P1 : Permutation (concat (a ++ w :: b)) (Mem ++ Rest).
  Proof.
    rewrite concat_app. simpl. unfold Rest.
    eapply Permutation_trans; [|apply Permutation_app_swap_app].
    apply Permutation_app_head. rewrite app_assoc. apply Permutation_app_tail.
    apply Permutation_sym. apply filter_partition_perm.
  Qed.

  Lemma mem_exists : exists x, In x w /\ sel gids x = true.
  Proof.
    assert (H : In base Mem) by (eapply Permutation_in; [apply Permutation_sym; exact Hperm | exact Hbase]).
    unfold Mem in H. apply filter_In in H. exists base. exact H.
  Qed.

  Lemma step_P2 : Permutation (concat S') (map rf (Mu :: Rest)).
  Proof.
    unfold S'. rewrite <- concat_map. apply Permutation_map.
    rewrite concat_app. simpl. unfold Rest.
    eapply Permutation_trans; [|apply Permutation_sym; apply Permutation_middle].
    apply Permutation_app_head.
    change (Mu :: Non ++ concat b) with ((Mu :: Non) ++ concat b). apply Permutation_app_tail.
    apply merge_in_wave_perm. exact mem_exists.
  Qed.

  Let N0 : NoDup (ids (concat (a ++ w :: b))) := proj1 Hinv.
  Let C0 : cover l (concat (a ++ w :: b)) := proj1 (proj2 Hinv).
  Let W0 : wok (ids (concat (a ++ w :: b))) [] (a ++ w :: b) := proj1 (proj2 (proj2 Hinv)).
  Let E0 := proj2 (proj2 (proj2 Hinv)).

  Lemma in_flat a0 : In a0 (concat (a ++ w :: b)) <-> In a0 Mem \/ In a0 Rest.
  Proof.
    split; intros H.
    - apply in_app_or. eapply Permutation_in; [apply step_P1 | exact H].
    - eapply Permutation_in; [apply Permutation_sym; apply step_P1 | apply in_or_app; exact H].
  Qed.

  Lemma nodup_split : NoDup (ids Mem ++ ids Rest).
  Proof.
    rewrite <- ids_app. eapply Permutation_NoDup; [|exact N0].
    unfold ids. apply Permutation_map. apply step_P1.
  Qed.

  Lemma mids_mem x : In x mids <-> In x (ids Mem).
  Proof.
    unfold mids, ids. split; apply Permutation_in; [apply Permutation_sym|]; apply Permutation_map; exact Hperm.
  Qed.
  Lemma mu_in_mids : In mu mids.
  Proof. unfold mu, mids. apply in_ids. exact Hbase. Qed.

  Lemma planned_Mu : planned_ids (rf Mu) = mids.
  Proof.
    unfold planned_ids. change (fmerged (rf Mu)) with mids.
    pose proof mu_in_mids as H. destruct mids; [destruct H | reflexivity].
  Qed.

  Lemma rest_not_mid D : In D Rest -> ~ In (fid D) mids.
  Proof.
    intros HD Hm. apply mids_mem in Hm.
    destruct (nodup_app _ _ nodup_split) as [_ [_ Dj]]. apply (Dj _ Hm). apply in_ids. exact HD.
  Qed.
  Lemma mem_mid D : In D Mem -> In (fid D) mids.
  Proof. intros HD. apply mids_mem. apply in_ids. exact HD. Qed.

  Lemma mem_facts x : In x Mem -> In x w /\ planned_ids x = [fid x].
  Proof.
    intros H. unfold Mem in H. apply filter_In in H. destruct H as [Hw Hs]. split; [exact Hw|].
    pose proof Hs as Hs'. unfold sel in Hs'. apply andb_true_iff in Hs'. destruct Hs' as [_ Hc].
    apply planned_ids_plain. apply (E0 x); [|exact Hc].
    apply in_flat. left. unfold Mem. apply filter_In. split; assumption.
  Qed.

  (* dependencies of a fetch of wave w that are in the tree lie in the waves before w *)
  Lemma wave_deps f d : In f w -> In d (fdeps f) -> In d (ids (concat (a ++ w :: b))) -> In d (ids (concat a)).
  Proof.
    intros Hf Hd Hk. pose proof W0 as H. apply wok_app in H. destruct H as [_ H]. simpl in H.
    destruct H as [H _]. specialize (H f d Hf Hd Hk). rewrite app_nil_r in H.
    apply in_ids_concat_rev. exact H.
  Qed.

  Lemma w_not_before D : In D w -> ~ In (fid D) (ids (concat a)).
  Proof.
    intros HD Hin. pose proof N0 as N. rewrite concat_app, ids_app in N. simpl in N. rewrite ids_app in N.
    destruct (nodup_app _ _ N) as [_ [_ Dj]]. apply (Dj _ Hin). apply in_or_app. left. apply in_ids. exact HD.
  Qed.

  (* members of a group do not depend on one another *)
  Lemma independent mem D : In mem Mem -> In D Mem -> ~ In (fid D) (fdeps mem).
  Proof.
    intros Hm HD Hin. destruct (mem_facts mem Hm) as [Hw _]. destruct (mem_facts D HD) as [HDw _].
    apply (w_not_before D HDw). apply (wave_deps mem (fid D) Hw Hin).
    apply in_ids. apply in_flat. left. exact HD.
  Qed.

  Lemma rd_fdeps f x : In x (fdeps f) -> In (if memb x mids then mu else x) (fdeps (rf f)).
  Proof. intros H. unfold rf, redirect. simpl. apply in_map_iff. exists x. split; [reflexivity | exact H]. Qed.

  Lemma in_S' X : In X (concat S') <-> X = rf Mu \/ exists N, In N Rest /\ X = rf N.
  Proof.
    split; intros H.
    - pose proof (Permutation_in _ step_P2 H) as H'. simpl in H'. destruct H' as [E | H'].
      + left. symmetry. exact E.
      + right. apply in_map_iff in H'. destruct H' as [N [E HN]]. exists N. split; [exact HN | symmetry; exact E].
    - eapply Permutation_in; [apply Permutation_sym; apply step_P2|]. simpl.
      destruct H as [E | [N [HN E]]]; [left; symmetry; exact E | right; subst; apply in_map; exact HN].
  Qed.

  Lemma ids_S' : forall x, In x (ids (concat S')) <-> x = mu \/ In x (ids Rest).
  Proof.
    intros x. assert (P : Permutation (ids (concat S')) (mu :: ids Rest)).
    { unfold ids. eapply Permutation_trans; [apply Permutation_map; apply step_P2|]. simpl.
      rewrite map_map. apply Permutation_refl. }
    split; intros H.
    - pose proof (Permutation_in _ P H) as H'. simpl in H'. destruct H' as [E | H']; [left; symmetry; exact E | right; exact H'].
    - eapply Permutation_in; [apply Permutation_sym; exact P|]. simpl. destruct H; [left; symmetry; assumption | right; assumption].
  Qed.

  Lemma ids_S'_sub x : In x (ids (concat S')) -> In x (ids (concat (a ++ w :: b))).
  Proof.
    intros H. apply ids_S' in H. destruct H as [E | H].
    - subst. pose proof mu_in_mids as Hm. apply mids_mem in Hm. apply ids_in in Hm.
      destruct Hm as [f [Hf E]]. rewrite <- E. apply in_ids. apply in_flat. left. exact Hf.
    - apply ids_in in H. destruct H as [f [Hf E]]. rewrite <- E. apply in_ids. apply in_flat. right. exact Hf.
  Qed.

  Lemma step_nodup : NoDup (ids (concat S')).
  Proof.
    eapply Permutation_NoDup.
    - unfold ids. apply Permutation_map. apply Permutation_sym. apply step_P2.
    - simpl. fold (ids (map rf Rest)). unfold rf. rewrite ids_map_redirect.
      destruct (nodup_app _ _ nodup_split) as [_ [Nr Dj]]. constructor; [|exact Nr].
      intros Hin. apply (Dj mu); [apply mids_mem; exact mu_in_mids | exact Hin].
  Qed.

  Lemma step_cover : cover l (concat S').
  Proof.
    destruct C0 as [CA CB]. split.
    - eapply Permutation_trans; [apply Permutation_flat_map; apply step_P2|].
      assert (Eq : flat_map planned_ids (map rf (Mu :: Rest)) = mids ++ flat_map planned_ids Rest).
      { change (map rf (Mu :: Rest)) with (rf Mu :: map rf Rest). simpl flat_map.
        rewrite planned_Mu. unfold rf. rewrite planned_map_redirect. reflexivity. }
      rewrite Eq. clear Eq.
      eapply Permutation_trans; [|exact CA].
      eapply Permutation_trans; [|apply Permutation_flat_map; apply Permutation_sym; apply step_P1].
      rewrite flat_map_app. apply Permutation_app_tail.
      assert (E : flat_map planned_ids Mem = ids Mem).
      { assert (G : forall xs, (forall x, In x xs -> planned_ids x = [fid x]) -> flat_map planned_ids xs = ids xs).
        { induction xs as [|x xs IH]; simpl; intros H; [reflexivity|].
          rewrite (H x (or_introl eq_refl)). simpl. f_equal. apply IH. intros y Hy. apply H. right. exact Hy. }
        apply G. intros x Hx. apply (mem_facts x Hx). }
      rewrite E. unfold mids, ids. apply Permutation_map. apply Permutation_sym. exact Hperm.
    - intros M' m g d HM' Hm Hg Eg Hd Hk. apply in_S' in HM'. destruct HM' as [E | [M [HM E]]]; subst M'.
      + (* the merged node *)
        rewrite planned_Mu in Hm.
        apply mids_mem in Hm. apply ids_in in Hm. destruct Hm as [mem [Hmem Emem]].
        destruct (mem_facts mem Hmem) as [Hw Hpl].
        destruct (CB mem m g d) as [D [D1 [D2 D3]]]; try assumption.
        { apply in_flat. left. exact Hmem. }
        { rewrite Hpl. left. exact Emem. }
        apply in_flat in D1. destruct D1 as [D1 | D1].
        { exfalso. apply (independent mem D Hmem D1 D3). }
        exists (rf D). split; [apply in_S'; right; exists D; split; [exact D1 | reflexivity]|].
        split; [exact D2|].
        pose proof (rest_not_mid D D1) as Hnm.
        assert (Hu : In (fid D) (fdeps Mu)).
        { simpl. apply union_deps_in. exists mem. split; [|split; [exact D3 | exact Hnm]].
          eapply Permutation_in; [exact Hperm | exact Hmem]. }
        pose proof (rd_fdeps Mu (fid D) Hu) as R. apply memb_false in Hnm. rewrite Hnm in R. exact R.
      + (* an untouched node, redirected *)
        change (planned_ids (rf M)) with (planned_ids M) in Hm.
        destruct (CB M m g d) as [D [D1 [D2 D3]]]; try assumption.
        { apply in_flat. right. exact HM. }
        apply in_flat in D1. destruct D1 as [D1 | D1].
        * destruct (mem_facts D D1) as [_ Hpl]. rewrite Hpl in D2. destruct D2 as [D2 | []].
          exists (rf Mu). split; [apply in_S'; left; reflexivity|]. split.
          { rewrite planned_Mu. rewrite <- D2. apply mem_mid. exact D1. }
          pose proof (rd_fdeps M (fid D) D3) as R.
          pose proof (mem_mid D D1) as Hin. apply memb_In in Hin. rewrite Hin in R. exact R.
        * exists (rf D). split; [apply in_S'; right; exists D; split; [exact D1 | reflexivity]|].
          split; [exact D2|].
          pose proof (rd_fdeps M (fid D) D3) as R.
          pose proof (rest_not_mid D D1) as Hnm. apply memb_false in Hnm. rewrite Hnm in R. exact R.
  Qed.

  Lemma step_nodes N : In N (concat S') -> In (fid N) (planned_ids N) /\ (is_cand N = true -> fmerged N = []).
  Proof.
    intros H. apply in_S' in H. destruct H as [E | [M [HM E]]]; subst N.
    - split; [|intros Hc; discriminate]. rewrite planned_Mu.
      change (fid (rf Mu)) with mu. exact mu_in_mids.
    - apply (E0 M). apply in_flat. right. exact HM.
  Qed.
  (* ---- the waves stay ordered ---- *)
  Let rd := fun d => if memb d mids then mu else d.

  Lemma ids_concat_map X : ids (concat (map (map rf) X)) = ids (concat X).
  Proof. rewrite <- concat_map. unfold rf. apply ids_map_redirect. Qed.

  Lemma mids_present x : In x mids -> In x (ids (concat (a ++ w :: b))).
  Proof.
    intros H. apply mids_mem in H. apply ids_in in H. destruct H as [f [Hf E]]. rewrite <- E.
    apply in_ids. apply in_flat. left. exact Hf.
  Qed.

  Lemma wok_redirect X : forall prov prov',
    (forall x, In x prov -> In (rd x) prov') ->
    (forall f, In f (concat X) -> ~ In (fid f) mids) ->
    wok (ids (concat (a ++ w :: b))) prov X ->
    wok (ids (concat S')) prov' (map (map rf) X).
  Proof.
    induction X as [|w1 X IH]; simpl; intros prov prov' R Hn H; [exact I|].
    destruct H as [H1 H2]. split.
    - intros f' d' Hf' Hd' Hk'. apply in_map_iff in Hf'. destruct Hf' as [f [E Hf]]. subst f'.
      simpl in Hd'. apply in_map_iff in Hd'. destruct Hd' as [d [E Hd]].
      destruct (memb d mids) eqn:M.
      + subst d'. apply memb_In in M.
        pose proof (R d (H1 f d Hf Hd (mids_present d M))) as Q. unfold rd in Q.
        apply memb_In in M. rewrite M in Q. exact Q.
      + subst d'. pose proof (R d (H1 f d Hf Hd (ids_S'_sub d Hk'))) as Q. unfold rd in Q.
        rewrite M in Q. exact Q.
    - apply (IH (ids w1 ++ prov)).
      + intros x Hx. apply in_app_or in Hx. apply in_or_app. destruct Hx as [Hx | Hx].
        * left. unfold rf. rewrite ids_map_redirect.
          assert (Hnm : ~ In x mids).
          { apply ids_in in Hx. destruct Hx as [f [Hf E]]. rewrite <- E. apply Hn. apply in_or_app. left. exact Hf. }
          unfold rd. apply memb_false in Hnm. rewrite Hnm. exact Hx.
        * right. apply R. exact Hx.
      + intros f Hf. apply Hn. apply in_or_app. right. exact Hf.
      + exact H2.
  Qed.

  Lemma in_rest_a f : In f (concat a) -> In f Rest.
  Proof. intros H. unfold Rest. apply in_or_app. left. exact H. Qed.
  Lemma in_rest_b f : In f (concat b) -> In f Rest.
  Proof. intros H. unfold Rest. apply in_or_app. right. apply in_or_app. right. exact H. Qed.
  Lemma in_rest_non f : In f Non -> In f Rest.
  Proof. intros H. unfold Rest. apply in_or_app. right. apply in_or_app. left. exact H. Qed.

  Lemma w_split f : In f w -> In f Mem \/ In f Non.
  Proof.
    intros H. destruct (sel gids f) eqn:Sf.
    - left. unfold Mem. apply filter_In. split; assumption.
    - right. unfold Non. apply filter_In. split; [exact H | rewrite Sf; reflexivity].
  Qed.

  Lemma in_merged f : In f (merge_in_wave gids Mu w) <-> f = Mu \/ In f Non.
  Proof.
    pose proof (merge_in_wave_perm gids Mu w mem_exists) as P. split; intros H.
    - pose proof (Permutation_in _ P H) as H'. simpl in H'. destruct H' as [E | H']; [left; symmetry; exact E | right; exact H'].
    - eapply Permutation_in; [apply Permutation_sym; exact P|]. simpl.
      destruct H as [E | H]; [left; symmetry; exact E | right; exact H].
  Qed.

  Lemma prov_a x : In x (ids (concat (rev (map (map rf) a))) ++ []) <-> In x (ids (concat a)).
  Proof. rewrite app_nil_r, in_ids_concat_rev, ids_concat_map. reflexivity. Qed.

  Lemma step_wok : wok (ids (concat S')) [] S'.
  Proof.
    pose proof W0 as H. apply wok_app in H. destruct H as [Ha Hwb]. simpl in Hwb. destruct Hwb as [_ Hb].
    set (P' := ids (concat S')).
    assert (ES : S' = map (map rf) a ++ map rf (merge_in_wave gids Mu w) :: map (map rf) b)
      by (unfold S'; rewrite map_app; reflexivity).
    rewrite ES. apply wok_app. split.
    - apply (wok_redirect a [] []); [intros x [] | | exact Ha].
      intros f Hf. apply rest_not_mid. apply in_rest_a. exact Hf.
    - simpl. split.
      + (* the wave of the merge *)
        intros f' d' Hf' Hd' Hk'. apply prov_a.
        apply in_map_iff in Hf'. destruct Hf' as [f [E Hf]]. subst f'.
        simpl in Hd'. apply in_map_iff in Hd'. destruct Hd' as [d [E Hd]].
        apply in_merged in Hf. destruct Hf as [Ef | Hf].
        * subst f. simpl in Hd. apply union_deps_in in Hd. destruct Hd as [mem [Hmem [Hd Hnm]]].
          apply memb_false in Hnm. rewrite Hnm in E. subst d'.
          assert (Hm : In mem Mem) by (eapply Permutation_in; [apply Permutation_sym; exact Hperm | exact Hmem]).
          destruct (mem_facts mem Hm) as [Hw _].
          apply (wave_deps mem d Hw Hd). apply ids_S'_sub. exact Hk'.
        * assert (Hw : In f w) by (unfold Non in Hf; apply filter_In in Hf; apply Hf).
          destruct (memb d mids) eqn:M.
          -- exfalso. apply memb_In in M. pose proof (wave_deps f d Hw Hd (mids_present d M)) as Q.
             apply mids_mem in M. apply ids_in in M. destruct M as [D [HD ED]]. rewrite <- ED in Q.
             destruct (mem_facts D HD) as [HDw _]. apply (w_not_before D HDw Q).
          -- subst d'. apply (wave_deps f d Hw Hd). apply ids_S'_sub. exact Hk'.
      + apply (wok_redirect b (ids w ++ ids (concat (rev a)) ++ [])); [| | exact Hb].
        * intros x Hx. apply in_app_or in Hx. apply in_or_app. destruct Hx as [Hx | Hx].
          -- left. unfold rf. rewrite ids_map_redirect.
             apply ids_in in Hx. destruct Hx as [f [Hf E]]. destruct (w_split f Hf) as [Hm | Hn].
             ++ pose proof (mem_mid f Hm) as Q. rewrite E in Q. apply memb_In in Q. unfold rd. rewrite Q.
                change mu with (fid Mu). apply in_ids. apply in_merged. left. reflexivity.
             ++ pose proof (rest_not_mid f (in_rest_non f Hn)) as Q. rewrite E in Q. apply memb_false in Q.
                unfold rd. rewrite Q. rewrite <- E. apply in_ids. apply in_merged. right. exact Hn.
          -- right. apply prov_a. rewrite app_nil_r in Hx. rewrite in_ids_concat_rev in Hx.
             assert (Hnm : ~ In x mids).
             { apply ids_in in Hx. destruct Hx as [f [Hf E]]. rewrite <- E.
               apply rest_not_mid. apply in_rest_a. exact Hf. }
             apply memb_false in Hnm. unfold rd. rewrite Hnm. exact Hx.
        * intros f Hf. apply rest_not_mid. apply in_rest_b. exact Hf.
  Qed.

  Lemma step_inv : inv l S'.
  Proof.
    split; [exact step_nodup|]. split; [exact step_cover|]. split; [exact step_wok | exact step_nodes].
  Qed.
End Step.

(* ---- the whole stage ---- *)
Lemma merge_group_inv l k gids s : inv l s -> inv l (merge_group k gids s).
Proof.
  intros H. unfold merge_group.
  destruct (Nat.lt_ge_cases k (length s)) as [Hk | Hk].
  - destruct (nth_set_split s k Hk) as [a [w [b [E1 [E2 [E3 E4]]]]]]. rewrite E3.
    pose proof (go_sort_perm cmp_fid (filter (sel gids) w)) as P.
    destruct (go_sort cmp_fid (filter (sel gids) w)) as [|base [|m2 r]] eqn:G; try exact H.
    destruct (forallb _ _); [|exact H].
    rewrite E4. subst s.
    apply (step_inv l a w b gids (base :: m2 :: r) base P); [left; reflexivity | exact H].
  - rewrite (nth_overflow s [] Hk). simpl. exact H.
Qed.

Lemma process_wave_inv l k s : inv l s -> inv l (process_wave k s).
Proof.
  unfold process_wave. generalize (groups_of (nth k s [])). intros gs. revert s.
  induction gs as [|g gs IH]; simpl; intros s H; [exact H|].
  apply IH. apply merge_group_inv. exact H.
Qed.

Lemma cmf_from_inv l n : forall k s, inv l s -> inv l (cmf_from n k s).
Proof.
  induction n as [|n IH]; simpl; intros k s H; [exact H|].
  apply IH. apply process_wave_inv. exact H.
Qed.

Lemma ordered_ext known known' provided nodes :
  (forall d, In d known' -> In d known) -> ordered known provided nodes -> ordered known' provided nodes.
Proof. intros Hk O pre f post E d Hd K. apply (O pre f post E d Hd). apply Hk. exact K. Qed.

(* the legacy waves of an acyclic plan satisfy the invariant *)
Lemma waves_inv l :
  acyclic l -> unique_ids l -> plain l ->
  exists ws, organize_in_waves l = Some (Sequence ws) /\ inv l (map tree_fetches ws).
Proof.
  intros Hac Hu Hp. destruct (order_sequence_ok l Hac Hu) as [s [Es [P T]]].
  unfold organize_in_waves. rewrite Es. unfold create_parallel_nodes.
  destruct (waves (length s) [] s) as [ws|] eqn:W.
  2:{ exfalso. revert W. apply waves_some. lia. }
  exists ws. split; [reflexivity|].
  assert (Pc : Permutation (concat (map tree_fetches ws)) l).
  { rewrite <- flat_map_concat_map.
    eapply Permutation_trans; [apply (waves_perm _ _ _ _ W) | apply Permutation_sym; exact P]. }
  assert (Pi : forall d, In d (ids (concat (map tree_fetches ws))) <-> In d (ids l)).
  { intros d. apply perm_ids. exact Pc. }
  split; [|split; [|split]].
  - eapply Permutation_NoDup; [|exact Hu]. unfold ids. apply Permutation_map. apply Permutation_sym. exact Pc.
  - eapply cover_perm; [apply Permutation_sym; exact Pc|]. apply cover_refl; assumption.
  - apply (waves_wok _ _ _ _ W); [|apply incl_refl].
    eapply ordered_ext; [|apply topological_ordered; exact T]. intros d Hd. apply Pi. exact Hd.
  - intros N HN. assert (HN' : In N l) by (eapply Permutation_in; [exact Pc | exact HN]).
    pose proof (Hp N HN') as Hm. split; [|intros _; exact Hm].
    rewrite (planned_ids_plain N Hm). left. reflexivity.
Qed.

Lemma inv_tree l s :
  inv l s ->
  let t := tree_of_waves s in
  tree_fetches t = concat s /\ plan_respects t (concat s) /\ NoDup (ids (concat s)) /\
  cover l (concat s) /\ acyclic (concat s).
Proof.
  intros [N [C [W E]]] t. pose proof (tree_of_waves_fetches s) as F. split; [exact F|]. split; [|split; [exact N|split; [exact C|]]].
  - apply sc_plan_respects; [unfold t; rewrite F; apply Permutation_refl|].
    change (sc_seq (sc (ids (concat s))) [] (map wave_tree s) = true). apply wok_sc. exact W.
  - apply wok_acyclic; assumption.
Qed.

(* for the tree produced by organize in every configuration: every execution merges d before it
   prepares M for every dependency d that the PLANNER declared for any member of M *)
Lemma multi_respects_member_deps_proof sched multi trigger l t :
  acyclic l -> unique_ids l -> plain l ->
  organize sched multi trigger l = Done t ->
  member_respects t l /\ members_once t l.
Proof.
  intros Hac Hu Hp. destruct multi.
  2:{ intros H. destruct (organize_respects_deps_proof sched trigger l t Hac Hu H) as [P [R _]].
      apply (cover_transfer l l t); try assumption. apply cover_refl; assumption. }
  destruct (waves_inv l Hac Hu Hp) as [ws [Ew I0]].
  set (s := cmf_from (length (map tree_fetches ws)) 0 (map tree_fetches ws)).
  assert (Is : inv l s) by (apply cmf_from_inv; exact I0).
  destruct (inv_tree l s Is) as [F [R [N [C A]]]].
  assert (Ecm : create_multi_fetch (Sequence ws) = tree_of_waves s) by reflexivity.
  unfold organize. rewrite Ew. destruct sched.
  - rewrite Ecm, F.
    destruct (process_fetch_tree trigger (concat s)) as [e|t'] eqn:E.
    + destruct e; try discriminate; unfold of_option;
        destruct (organize_in_waves (concat s)) as [t'|] eqn:W2; try discriminate;
        intros H; inversion H; subst t';
        destruct (organize_in_waves_ok _ _ A N W2) as [P [R' _]];
        apply (cover_transfer l (concat s) t); assumption.
    + intros H. inversion H; subst t'. destruct (process_fetch_tree_ok _ _ _ E) as [P [R' _]].
      apply (cover_transfer l (concat s) t); assumption.
  - intros H. inversion H; subst t. rewrite Ecm.
    apply (cover_transfer l (concat s)); try assumption. rewrite F. apply Permutation_refl.
Qed.
