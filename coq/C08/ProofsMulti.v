(* C08: createMultiFetch keeps the plan covered.  Every merge step preserves an invariant of the
   wave list: unique ids, the nodes cover the plan (ProofsMember.cover: every planned dependency
   of every member is represented in the node's own list -- this is what unionDependencies must
   guarantee), and every node's in-tree dependencies sit in strictly earlier waves. *)
From Gv Require Import C08.Model C08.Spec C08.ProofsSpec C08.ProofsSort C08.ProofsWaves
  C08.ProofsOrganize C08.ProofsMember.
From Coq Require Import List Arith Bool Permutation Lia.
Import ListNotations.

Lemma nodup_app {A} (a b : list A) :
  NoDup (a ++ b) -> NoDup a /\ NoDup b /\ (forall x, In x a -> ~ In x b).
Proof.
  induction a as [|x a IH]; simpl; intros H.
  - split; [constructor | split; [exact H | intros x []]].
  - inversion H as [|? ? Hn Hr]; subst. destruct (IH Hr) as [A1 [A2 A3]]. split; [|split].
    + constructor; [|exact A1]. intros Hin. apply Hn. apply in_or_app. left. exact Hin.
    + exact A2.
    + intros y [E | Hy]; [subst; intros Hb; apply Hn; apply in_or_app; right; exact Hb | apply A3; exact Hy].
Qed.

(* ---- waves ---- *)
Fixpoint wok (P prov : list nat) (s : list (list fetch)) : Prop :=
  match s with
  | [] => True
  | w :: r => (forall f d, In f w -> In d (fdeps f) -> In d P -> In d prov) /\ wok P (ids w ++ prov) r
  end.

Lemma wok_ext P P' prov prov' s :
  (forall d, In d P' -> In d P) -> (forall d, In d prov -> In d prov') ->
  wok P prov s -> wok P' prov' s.
Proof.
  revert prov prov'. induction s as [|w r IH]; simpl; intros prov prov' HP Hp H; [exact I|].
  destruct H as [H1 H2]. split.
  - intros f d Hf Hd Hk. apply Hp. apply (H1 f d Hf Hd). apply HP. exact Hk.
  - apply (IH (ids w ++ prov)); try assumption.
    intros d Hin. apply in_app_or in Hin. apply in_or_app. destruct Hin; auto.
Qed.

Lemma wok_app P prov x y :
  wok P prov (x ++ y) <-> wok P prov x /\ wok P (ids (concat (rev x)) ++ prov) y.
Proof.
  revert prov. induction x as [|w r IH]; intros prov; simpl.
  - tauto.
  - rewrite IH. rewrite concat_app, ids_app. simpl. rewrite app_nil_r, <- app_assoc. tauto.
Qed.

Lemma in_ids_concat_rev (x : list (list fetch)) d : In d (ids (concat (rev x))) <-> In d (ids (concat x)).
Proof.
  unfold ids. rewrite !in_map_iff. split; intros [f [E H]]; exists f; (split; [exact E|]);
    apply in_concat in H; destruct H as [w [Hw Hf]]; apply in_concat; exists w; (split; [|exact Hf]).
  - apply in_rev. exact Hw.
  - apply -> in_rev. exact Hw.
Qed.

Lemma wave_tree_fetches w : tree_fetches (wave_tree w) = w.
Proof.
  destruct w as [|x [|y r]]; try reflexivity.
  - unfold wave_tree. simpl. f_equal. f_equal. induction r; simpl; [reflexivity | f_equal; assumption].
Qed.
Lemma tree_of_waves_fetches s : tree_fetches (tree_of_waves s) = concat s.
Proof.
  unfold tree_of_waves. simpl. induction s as [|w r IH]; simpl; [reflexivity|].
  rewrite wave_tree_fetches, IH. reflexivity.
Qed.

Lemma wave_tree_sc P B w :
  (forall f d, In f w -> In d (fdeps f) -> In d P -> In d B) -> sc P B (wave_tree w) = true.
Proof.
  intros H.
  assert (G : forall f, In f w -> sc P B (Single f) = true).
  { intros f Hf. simpl. apply forallb_forall. intros d Hd.
    destruct (memb d P) eqn:K; [|reflexivity]. simpl. apply memb_In.
    apply (H f d Hf Hd). apply memb_In. exact K. }
  destruct w as [|x [|y r]].
  - reflexivity.
  - apply G. left. reflexivity.
  - unfold wave_tree. change (forallb (sc P B) (map Single (x :: y :: r)) = true).
    apply forallb_forall. intros t Ht. apply in_map_iff in Ht. destruct Ht as [g [E Hg]]. subst. apply G. exact Hg.
Qed.

Lemma wok_sc P B s : wok P B s -> sc_seq (sc P) B (map wave_tree s) = true.
Proof.
  revert B. induction s as [|w r IH]; simpl; intros B H; [reflexivity|].
  destruct H as [H1 H2]. rewrite (wave_tree_sc P B w H1). simpl.
  unfold tree_ids. rewrite wave_tree_fetches. apply IH. exact H2.
Qed.

(* the waves of createParallelNodes *)
Lemma waves_wok fuel provided nodes ws :
  waves fuel provided nodes = Some ws ->
  forall known B, ordered known provided nodes -> incl provided B ->
  wok known B (map tree_fetches ws).
Proof.
  revert provided nodes ws. induction fuel as [|k IH]; intros provided nodes ws H known B O I.
  - destruct nodes; simpl in H; [|discriminate]. inversion H; subst. exact Logic.I.
  - destruct nodes as [|x rest]; simpl in H; [inversion H; subst; exact Logic.I|].
    destruct (waves k _ _) as [ws'|] eqn:E; [|discriminate]. inversion H; subst. clear H.
    set (taken := filter (deps_provided provided) rest) in *.
    change (wok known B (tree_fetches (wave_node x taken) :: map tree_fetches ws')).
    rewrite wave_node_fetches. split.
    + intros g d Hg Hd K. apply I. destruct Hg as [Eg | Hg].
      * subst g. destruct (O [] x rest eq_refl d Hd K) as [R | []]. exact R.
      * unfold taken in Hg. apply filter_In in Hg. destruct Hg as [_ P].
        unfold deps_provided in P. rewrite forallb_forall in P. apply memb_In. apply P. exact Hd.
    + apply (IH _ _ _ E).
      * intros pre f post Esplit d Hd K.
        destruct (filter_split _ _ _ _ _ Esplit) as [pre0 [post0 [E1 [E2 E3]]]].
        destruct (O (x :: pre0) f post0) with (d := d) as [R | R]; try assumption.
        { rewrite E1. reflexivity. }
        { left. apply in_or_app. left. exact R. }
        simpl in R. destruct R as [R | R].
        { left. apply in_or_app. right. left. exact R. }
        apply ids_in in R. destruct R as [g [Hg Eg]].
        destruct (deps_provided provided g) eqn:P.
        { left. apply in_or_app. right. right. rewrite <- Eg. apply in_ids. unfold taken.
          apply filter_In. split; [|exact P]. rewrite E1. apply in_or_app. left. exact Hg. }
        { right. rewrite <- Eg. apply in_ids. rewrite <- E2. apply filter_In. split; [exact Hg|].
          rewrite P. reflexivity. }
      * intros z Hz. apply in_app_or in Hz.
        destruct Hz as [Hz | Hz]; [apply in_or_app; right; apply I; exact Hz|].
        apply in_or_app. left. exact Hz.
Qed.

(* a wave list whose dependencies point to earlier waves is acyclic *)
Fixpoint windex (s : list (list fetch)) (x : nat) : nat :=
  match s with
  | [] => 0
  | w :: r => if memb x (ids w) then 0 else S (windex r x)
  end.

Lemma wok_rank P s : forall prov,
  wok P prov s -> NoDup (ids (concat s)) ->
  forall f d, In f (concat s) -> In d (fdeps f) -> In d P ->
  In d prov \/ windex s d < windex s (fid f).
Proof.
  induction s as [|w r IH]; simpl; intros prov H N f d Hf Hd Hk; [contradiction|].
  destruct H as [H1 H2]. rewrite ids_app in N. apply in_app_or in Hf. destruct Hf as [Hf | Hf].
  - left. apply (H1 f d Hf Hd Hk).
  - destruct (nodup_app _ _ N) as [_ [Nr Dj]].
    assert (Hnw : memb (fid f) (ids w) = false).
    { apply memb_false. intros Hin. apply (Dj _ Hin). apply in_ids. exact Hf. }
    rewrite Hnw. destruct (memb d (ids w)) eqn:Mw; [right; lia|].
    destruct (IH (ids w ++ prov) H2 Nr f d Hf Hd Hk) as [R | R].
    + apply in_app_or in R. destruct R as [R | R]; [|left; exact R].
      apply memb_In in R. congruence.
    + right. lia.
Qed.

Lemma wok_acyclic s : NoDup (ids (concat s)) -> wok (ids (concat s)) [] s -> acyclic (concat s).
Proof.
  intros N H. exists (windex s). intros f d Hf Hd Hk.
  destruct (wok_rank _ s [] H N f d Hf Hd Hk) as [[] | R]. exact R.
Qed.
