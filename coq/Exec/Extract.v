From Gv Require Import lib.Bytes lib.Json lib.Gql lib.Exec lib.ExtractAnchor.
Require Import ExtrOcamlBasic.
Extraction Language OCaml.
Extraction "model.ml" extraction_anchor execute_default execute json_eqb jmarshal.
