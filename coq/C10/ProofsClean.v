(* C10: on data that needs no completion (strict_clean) the completion semantics of the plan
   without defer marks (C02.Spec.complete) reports no error and returns the plain projection
   [proj keep_all] -- the tree the layers of the deferred delivery add up to. *)
From Coq Require Import ZArith Lia.
From Gv Require Import lib.Bytes lib.Json C02.Model C02.Spec C10.Model C10.Spec C10.ProofsRecon.
Open Scope N_scope.

Local Arguments typename_of : simpl never.
Local Arguments skip_field : simpl never.
Local Arguments nonnull_error : simpl never.

Lemma scalar_both : forall path p nl k k' (acc acc' : json -> bool) parent,
  scalar_ok p nl acc parent = true -> (forall x, acc x = true -> acc' x = true) ->
  exists v, scalar_complete path p nl k acc parent = (Some v, []) /\
            leaf_scalar [] p nl k' acc' parent = (Some v, []).
Proof.
  intros path p nl k k' acc acc' parent H Hacc. unfold scalar_ok, scalar_complete, leaf_scalar in *.
  destruct (get_path p parent) as [x |].
  - destruct x; try (rewrite H; rewrite (Hacc _ H); eexists; split; reflexivity).
    subst. eexists; split; reflexivity.
  - subst. eexists; split; reflexivity.
Qed.

Lemma leaf_complete : forall l parent path tns,
  leaf_ok l parent = true ->
  complete (fun _ _ => false) l parent path tns = (Some (proj keep_all (DLeaf l) parent tns), []).
Proof.
  intros l parent path tns H. unfold proj.
  destruct l as [? ? ? ? ? ? ? | ? ? ? | p nl | p nl | p nl | p nl | p nl | p nl | p nl ty vals inacc | | ? | | ];
    simpl in H; try discriminate; try reflexivity.
  - simpl. destruct (scalar_both path p nl EK_STRING EK_STRING is_jstr is_jstr parent H (fun x h => h)) as [v [E1 E2]].
    rewrite E1, E2. reflexivity.
  - simpl. destruct (scalar_both path p nl EK_BOOL EK_BOOL is_jbool is_jbool parent H (fun x h => h)) as [v [E1 E2]].
    rewrite E1, E2. reflexivity.
  - simpl. destruct (scalar_both path p nl EK_INT EK_INT is_jnum is_jnum parent H (fun x h => h)) as [v [E1 E2]].
    rewrite E1, E2. reflexivity.
  - simpl. destruct (scalar_both path p nl EK_FLOAT EK_FLOAT is_jnum (fun _ => true) parent H (fun x h => eq_refl)) as [v [E1 E2]].
    rewrite E1, E2. reflexivity.
  - simpl. destruct (scalar_both path p nl 0 0 (fun _ => true) (fun _ => true) parent H (fun x h => h)) as [v [E1 E2]].
    rewrite E1, E2. reflexivity.
  - simpl. destruct (scalar_both path p nl 0 0 (fun _ => true) (fun _ => true) parent H (fun x h => h)) as [v [E1 E2]].
    rewrite E1, E2. reflexivity.
  - (* NEnum *) simpl. destruct (get_path p parent) as [x |].
    + destruct x; try discriminate.
      * subst. reflexivity.
      * apply andb_true_iff in H. destruct H as [H1 H2]. rewrite H1. apply negb_true_iff in H2. rewrite H2. simpl. reflexivity.
    + subst. reflexivity.
Qed.

Lemma tn_bad_same : forall ty poss tn, C02.Spec.tn_bad ty poss tn = C10.Model.tn_bad ty poss tn.
Proof. reflexivity. Qed.

Fixpoint erase_fields (fs : list dfield) : list field :=
  match fs with
  | [] => []
  | DFld nm on pon _ v :: r => Fld nm on pon None (erase v) :: erase_fields r
  end.
Lemma erase_obj : forall p nl ty poss fs, erase (DObj p nl ty poss fs) = NObj p nl ty poss [] false (erase_fields fs).
Proof.
  intros. simpl. reflexivity.
Qed.

(* the two inner loops of C02.Spec.complete, named *)
Section Loops.
  Let deny : bytes -> bytes -> bool := fun _ _ => false.

  Definition loopC (item : node) (path' : rpath) (tns : list (option bytes)) :=
    fix loop (items : list json) (i : N) : option (list json) * list gerr :=
      match items with
      | [] => (Some [], [])
      | it :: rest =>
        match complete deny item it (path' ++ [PIdx i]) tns with
        | (Some t, e) =>
          let '(r, e2) := loop rest (i + 1) in
          (match r with Some l => Some (t :: l) | None => None end, e ++ e2)
        | (None, e) =>
          if absorbs_item_error item then
            let '(r, e2) := loop rest (i + 1) in
            (match r with Some l => Some (JNull :: l) | None => None end, e ++ e2)
          else (None, e)
        end
      end.

  Lemma complete_arr_eq : forall p nl item parent path tns,
    complete deny (NArr p nl item) parent path tns =
    match get_path p parent with
    | None | Some JNull => if nl then (Some JNull, []) else (None, nonnull_error path p parent)
    | Some (JArr items) =>
      match loopC item (push_names path p) tns items 0 with
      | (Some l, e) => (Some (JArr l), e)
      | (None, e) => (if nl && (match p with [] => false | _ => true end) then Some JNull else None, e)
      end
    | Some _ => (None, [{| ge_kind := EK_ARRAY; ge_path := push_names path p |}])
    end.
  Proof. reflexivity. Qed.

  Definition floopC (tn : option bytes) (value : json) (path' : rpath) (tns' : list (option bytes)) :=
    fix floop (fs : list field) : option (list (bytes * json)) * list gerr :=
      match fs with
      | [] => (Some [], [])
      | Fld name on parent_on auth child :: rest =>
        if skip_field on parent_on tns' then floop rest
        else
          let denied :=
            match auth with
            | Some a => deny (match tn with Some t => t | None => au_parent_type a end) (au_field a)
            | None => false
            end in
          if denied then
            let e := [{| ge_kind := EK_UNAUTHORIZED; ge_path := push_names path' (node_path child) |}] in
            if node_nullable child then
              let '(r, e2) := floop rest in
              (match r with Some l => Some ((name, JNull) :: l) | None => None end, e ++ e2)
            else (None, e)
          else
            match complete deny child value path' tns' with
            | (Some t, e) =>
              let '(r, e2) := floop rest in
              (match r with Some l => Some ((name, t) :: l) | None => None end, e ++ e2)
            | (None, e) => (None, e)
            end
      end.

  Lemma complete_obj_eq : forall p nl ty poss inacc fs parent path tns,
    complete deny (NObj p nl ty poss inacc false fs) parent path tns =
    match get_path p parent with
    | None | Some JNull => if nl then (Some JNull, []) else (None, nonnull_error path p parent)
    | Some (JObj m) =>
      let value := JObj m in
      let path' := push_names path p in
      let tn := typename_of value in
      if C02.Spec.tn_bad ty poss tn then
        (if nl then Some JNull else None, [{| ge_kind := EK_TYPENAME; ge_path := path' |}])
      else
        let tns' := tn :: tns in
        let absorb := nl && (match p with [] => false | _ => true end) in
        match floopC tn value path' tns' fs with
        | (Some l, e) => (Some (JObj l), e)
        | (None, e) => (if absorb then Some JNull else None, e)
        end
    | Some _ => (None, [{| ge_kind := EK_NOTOBJECT; ge_path := push_names path p |}])
    end.
  Proof. reflexivity. Qed.
End Loops.

Lemma complete_of_strict_clean : forall n parent path tns,
  strict_clean n parent tns = true ->
  complete (fun _ _ => false) (erase n) parent path tns = (Some (proj keep_all n parent tns), []).
Proof.
  induction n using dnode_ind'; intros parent path tns Hc.
  - apply leaf_complete. exact Hc.
  - (* list *)
    simpl in Hc. change (erase (DArr p nl n)) with (NArr p nl (erase n)). rewrite complete_arr_eq.
    simpl proj.
    destruct (get_path p parent) as [x |] eqn:Hg.
    + destruct x; try discriminate; try (subst; reflexivity).
      assert (Hl : forall items i, forallb (fun it => strict_clean n it tns) items = true ->
                loopC (erase n) (push_names path p) tns items i = (Some (map (fun it => proj keep_all n it tns) items), [])).
      { induction items0 as [| it rest IH]; intros i Hf; [reflexivity |].
        simpl in Hf. apply andb_true_iff in Hf. destruct Hf as [H1 H2].
        simpl. rewrite (IHn it (push_names path p ++ [PIdx i]) tns H1).
        fold (loopC (erase n) (push_names path p) tns). rewrite (IH (i + 1) H2). reflexivity. }
      rewrite (Hl items 0 Hc). reflexivity.
    + subst. reflexivity.
  - (* object *)
    rewrite erase_obj. rewrite complete_obj_eq. simpl in Hc. simpl proj.
    destruct (get_path p parent) as [x |] eqn:Hg.
    + destruct x; try discriminate; try (subst; reflexivity).
      apply andb_true_iff in Hc. destruct Hc as [Ht Hf]. apply negb_true_iff in Ht.
      cbv zeta. rewrite tn_bad_same, Ht.
      set (value := JObj members) in *. set (tns' := typename_of value :: tns) in *.
      set (path' := push_names path p).
      assert (Hl : floopC (typename_of value) value path' tns' (erase_fields fields) =
                   (Some ((fix go (fs : list dfield) : list (bytes * json) :=
                             match fs with
                             | [] => []
                             | DFld name on pon df child :: r =>
                               if skip_field on pon tns' then go r
                               else if keep_all df then (name, proj keep_all child value tns') :: go r
                               else go r
                             end) fields), [])).
      { clear Hg. induction fields as [| [nm on pon df v] r IH]; [reflexivity |].
        simpl in Hf. apply andb_true_iff in Hf. destruct Hf as [H1 H2].
        simpl. destruct (skip_field on pon tns') eqn:Es.
        - apply IH; [apply (Forall_inv_tail H) | exact H2].
        - pose proof (Forall_inv H value path' tns' H1) as Hv. simpl in Hv. rewrite Hv.
          fold (floopC (typename_of value) value path' tns').
          rewrite (IH (Forall_inv_tail H) H2). reflexivity. }
      rewrite Hl. reflexivity.
    + subst. reflexivity.
Qed.
