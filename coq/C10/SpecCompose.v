(* C10 specification, composition of the layers: the orders in which the defers may complete
   (a defer completes after its parent, each at most once), the descriptors of such an order, and
   the completion order a frame sequence shows.  Definitions only. *)
From Coq Require Import ZArith.
From Gv Require Import lib.Bytes lib.Json C02.Model C02.Spec C10.Model C10.Spec.
Open Scope N_scope.

Section Orders.
  Variable descs : list ddesc.

  (* [seen]: the ids completed so far, in completion order *)
  Fixpoint adm_b (seen ids : list N) : bool :=
    match ids with
    | [] => true
    | g :: r =>
      mem_N g (map dd_id descs) && negb (mem_N g seen) &&
      ((parent_of descs g =? 0) || mem_N (parent_of descs g) seen) &&
      adm_b (seen ++ [g]) r
    end.

  (* a completion order that respects the ancestor relation *)
  Definition admissible (ids : list N) : bool := adm_b [] ids.

  Definition order_of (ids : list N) : list ddesc :=
    flat_map (fun g => match find_desc descs g with Some d => [d] | None => [] end) ids.

  (* every defer of the plan completes *)
  Definition covers (ids : list N) : bool := forallb (fun d => mem_N (dd_id d) ids) descs.
End Orders.

(* the ids completed by a frame sequence, in the order of the frames *)
Definition completed_ids (frames : list frame) : list N :=
  flat_map (fun f => f_completed (fr_sum f)) frames.
