(* C10: composition of the reconstruction across layers, part 5: defers that never complete.
   If every defer that does not complete has no item to deliver on the data at hand (a dead anchor:
   the executor never announces it), the reconstruction of an admissible order is still the whole
   response: the remaining defers are appended in id order (parents are older than children), and
   merging an empty layer changes nothing. *)
From Coq Require Import ZArith Lia ZifyN ZifyNat ZifyBool Permutation.
From Gv Require Import lib.Bytes lib.Json C02.Model C02.Spec C10.Model C10.Spec C10.SpecCompose
  C10.ProofsBasic C10.ProofsTask C10.ProofsStream C10.ProofsRecon C10.ProofsCompose C10.ProofsComposeAll C10.ProofsComposeExec.
Open Scope N_scope.

Definition no_items (descs : list ddesc) (root : dnode) (data : json) (d : ddesc) : bool :=
  match c_items descs d root data with [] => true | _ => false end.

(* every defer outside [ids] has nothing to deliver *)
Definition undelivered_empty (descs : list ddesc) (root : dnode) (data : json) (ids : list N) : bool :=
  forallb (fun d => mem_N (dd_id d) ids || no_items descs root data d) descs.

Definition rest_ids (descs : list ddesc) (ids : list N) : list N :=
  filter (fun g => negb (mem_N g ids)) (map dd_id descs).

Lemma adm_app : forall descs a seen b,
  adm_b descs seen (a ++ b) = adm_b descs seen a && adm_b descs (seen ++ a) b.
Proof.
  intros descs. induction a as [| x a IH]; intros seen b.
  - cbn [app adm_b]. rewrite app_nil_r. reflexivity.
  - cbn [app adm_b]. rewrite IH. rewrite <- !app_assoc. cbn [app]. rewrite <- !andb_assoc. reflexivity.
Qed.

Lemma sorted_N_tail : forall x r, sorted_N (x :: r) = true -> sorted_N r = true.
Proof. intros x [| y r] H; [reflexivity |]. cbn [sorted_N] in H. apply andb_true_iff in H. tauto. Qed.

Lemma sorted_N_app_r : forall a b, sorted_N (a ++ b) = true -> sorted_N b = true.
Proof.
  induction a as [| x a IH]; intros b H; [exact H |]. apply IH. apply (sorted_N_tail x). exact H.
Qed.

Lemma sorted_N_app_lt : forall a x b, sorted_N (a ++ x :: b) = true -> forall y, In y a -> y < x.
Proof.
  induction a as [| z a IH]; intros x b H y Hy; [contradiction |].
  destruct Hy as [<- | Hy].
  - apply (sorted_N_head (a ++ x :: b) z H). apply in_or_app. right. left. reflexivity.
  - apply (IH x b); [| exact Hy]. apply (sorted_N_tail z). exact H.
Qed.

Section Rest.
  Variable descs : list ddesc.
  Hypothesis Hwf : descs_wf descs = true.

  Lemma wf_sorted : sorted_N (map dd_id descs) = true.
  Proof. unfold descs_wf in Hwf. apply andb_true_iff in Hwf. tauto. Qed.
  Lemma wf_ids : NoDup (map dd_id descs).
  Proof. apply sorted_N_NoDup. exact wf_sorted. Qed.

  Lemma wf_parent : forall g, In g (map dd_id descs) ->
    parent_of descs g < g /\ (parent_of descs g = 0 \/ In (parent_of descs g) (map dd_id descs)).
  Proof.
    intros g Hg. apply in_map_iff in Hg. destruct Hg as [d [Hd1 Hd2]]. subst g.
    unfold parent_of. rewrite (find_desc_unique descs wf_ids d Hd2).
    unfold descs_wf in Hwf. apply andb_true_iff in Hwf. destruct Hwf as [_ Hall].
    rewrite forallb_forall in Hall. specialize (Hall d Hd2).
    apply andb_true_iff in Hall. destruct Hall as [Hall Hk]. apply andb_true_iff in Hall. destruct Hall as [_ Hlt].
    apply N.ltb_lt in Hlt. split; [exact Hlt |].
    apply orb_true_iff in Hk. destruct Hk as [Hk | Hk]; [left; apply N.eqb_eq; exact Hk | right; apply mem_N_In; exact Hk].
  Qed.

  (* the defers not in [ids], in id order, on top of a list that holds ids and all older defers *)
  Lemma adm_rest_gen : forall ids suf pre seen,
    map dd_id descs = pre ++ suf ->
    (forall x, In x pre -> In x seen) -> (forall x, In x ids -> In x seen) ->
    (forall x, In x seen -> In x ids \/ In x pre) ->
    adm_b descs seen (filter (fun g => negb (mem_N g ids)) suf) = true.
  Proof.
    intros ids. induction suf as [| g suf IH]; intros pre seen Hall Hpre Hids Hseen; [reflexivity |].
    assert (Hall' : map dd_id descs = (pre ++ [g]) ++ suf) by (rewrite <- app_assoc; exact Hall).
    cbn [filter]. destruct (mem_N g ids) eqn:Eg; cbn [negb].
    - apply mem_N_In in Eg. apply (IH (pre ++ [g]) seen Hall').
      + intros x Hx. apply in_app_or in Hx. destruct Hx as [Hx | [<- | []]]; [apply Hpre; exact Hx | apply Hids; exact Eg].
      + exact Hids.
      + intros x Hx. destruct (Hseen x Hx) as [H | H]; [left; exact H | right; apply in_or_app; left; exact H].
    - apply mem_N_false in Eg. cbn [adm_b].
      assert (Hg : In g (map dd_id descs)). { rewrite Hall. apply in_or_app. right. left. reflexivity. }
      pose proof wf_ids as Hnd. rewrite Hall in Hnd.
      assert (Hgpre : ~ In g pre).
      { intros Hin. apply NoDup_remove_2 in Hnd. apply Hnd. apply in_or_app. left. exact Hin. }
      assert (Hgseen : ~ In g seen). { intros Hin. destruct (Hseen g Hin); contradiction. }
      destruct (wf_parent g Hg) as [Hlt Hk].
      assert (Hp : parent_of descs g = 0 \/ In (parent_of descs g) seen).
      { destruct Hk as [Hk | Hk]; [left; exact Hk | right]. apply Hpre.
        rewrite Hall in Hk. apply in_app_or in Hk. destruct Hk as [Hk | [Hk | Hk]]; [exact Hk | lia |].
        exfalso. pose proof wf_sorted as Hs. rewrite Hall in Hs. apply sorted_N_app_r in Hs.
        pose proof (sorted_N_head suf g Hs _ Hk). lia. }
      apply (proj2 (mem_N_In g _)) in Hg. apply (proj2 (mem_N_false g seen)) in Hgseen.
      rewrite Hg, Hgseen. cbn [negb andb].
      assert (Hpb : (parent_of descs g =? 0) || mem_N (parent_of descs g) seen = true).
      { destruct Hp as [Hp | Hp]; [rewrite Hp; reflexivity |]. apply (proj2 (mem_N_In _ _)) in Hp. rewrite Hp. apply orb_true_r. }
      rewrite Hpb. cbn [andb].
      apply (IH (pre ++ [g]) (seen ++ [g]) Hall').
      + intros x Hx. apply in_or_app. apply in_app_or in Hx. destruct Hx as [Hx | Hx]; [left; apply Hpre; exact Hx | right; exact Hx].
      + intros x Hx. apply in_or_app. left. apply Hids. exact Hx.
      + intros x Hx. apply in_app_or in Hx. destruct Hx as [Hx | Hx].
        * destruct (Hseen x Hx) as [H | H]; [left; exact H | right; apply in_or_app; left; exact H].
        * right. apply in_or_app. right. exact Hx.
  Qed.

  Lemma adm_rest : forall ids, admissible descs ids = true -> admissible descs (ids ++ rest_ids descs ids) = true.
  Proof.
    intros ids Ha. unfold admissible in *. rewrite adm_app, Ha. cbn [andb app].
    apply (adm_rest_gen ids (map dd_id descs) [] ids); auto.
    intros x [].
  Qed.

  Lemma covers_rest : forall ids, covers descs (ids ++ rest_ids descs ids) = true.
  Proof.
    intros ids. unfold covers. apply forallb_forall. intros d Hd. apply mem_N_In.
    destruct (mem_N (dd_id d) ids) eqn:E.
    - apply in_or_app. left. apply mem_N_In. exact E.
    - apply in_or_app. right. unfold rest_ids. apply filter_In. split; [apply in_map; exact Hd | rewrite E; reflexivity].
  Qed.

  Variable root : dnode.
  Variable data : json.

  Lemma fold_empty_layers : forall order t,
    (forall d, In d order -> c_items descs d root data = []) ->
    fold_left (fun acc d => merge_layer descs d root data acc) order t = t.
  Proof.
    induction order as [| d r IH]; intros t H; [reflexivity |].
    cbn [fold_left]. unfold merge_layer at 2. rewrite (H d (or_introl eq_refl)).
    unfold apply_items. cbn [fold_left]. apply IH. intros x Hx. apply H. right. exact Hx.
  Qed.

  Lemma client_result_rest : forall ids,
    undelivered_empty descs root data ids = true ->
    client_result descs root data (order_of descs (ids ++ rest_ids descs ids)) =
    client_result descs root data (order_of descs ids).
  Proof.
    intros ids Hu. unfold client_result, order_of. rewrite flat_map_app, fold_left_app.
    apply fold_empty_layers. intros d Hd.
    apply in_flat_map in Hd. destruct Hd as [g [Hg Hd]].
    unfold find_desc in Hd. destruct (find (fun d0 => dd_id d0 =? g) descs) as [d' |] eqn:Hf; [| contradiction].
    destruct Hd as [<- | []]. apply find_some in Hf. destruct Hf as [Hin He]. apply N.eqb_eq in He.
    unfold rest_ids in Hg. apply filter_In in Hg. destruct Hg as [_ Hg]. apply negb_true_iff in Hg.
    unfold undelivered_empty in Hu. rewrite forallb_forall in Hu. specialize (Hu d' Hin).
    rewrite He, Hg in Hu. cbn [orb] in Hu. unfold no_items in Hu.
    destruct (c_items descs d' root data); [reflexivity | discriminate].
  Qed.
End Rest.

(* the composed statement for an admissible order whose missing defers are empty *)
Lemma reconstruct_partial_order_lemma : forall descs root tree data ids,
  defer_plan_wf descs root tree = true ->
  admissible descs ids = true -> undelivered_empty descs root data ids = true ->
  exists v, client_result descs root data (order_of descs ids) = Some v /\
            jeq v (proj keep_all root data []) /\
            (strict_clean root data [] = true ->
             exists r, complete_root (fun _ _ => false) (erase root) data = (Some r, []) /\ jeq v r).
Proof.
  intros descs root tree data ids Hwf Ha Hu.
  unfold defer_plan_wf in Hwf.
  apply andb_true_iff in Hwf. destruct Hwf as [Hwf Hnames].
  apply andb_true_iff in Hwf. destruct Hwf as [Hwf Hpaths].
  apply andb_true_iff in Hwf. destruct Hwf as [Hwf Hscope].
  apply andb_true_iff in Hwf. destruct Hwf as [Hwf Hroot].
  apply andb_true_iff in Hwf. destruct Hwf as [Hwf _].
  apply andb_true_iff in Hwf. destruct Hwf as [Hdw _].
  destruct (reconstruct_all_lemma descs root data Hscope Hpaths Hnames Hroot (ids ++ rest_ids descs ids)
              (adm_rest descs Hdw ids Ha) (covers_rest descs ids)) as [v [H1 H2]].
  rewrite (client_result_rest descs root data ids Hu) in H1.
  exists v. split; assumption.
Qed.
