(* C10: composition of the reconstruction across layers, part 4: the completion order of every run
   of the defer-tree executor is admissible (a defer completes after its parent, at most once). *)
From Coq Require Import ZArith Lia ZifyN ZifyNat ZifyBool Permutation.
From Gv Require Import lib.Bytes lib.Json C02.Model C10.Model C10.Spec C10.SpecCompose
  C10.ProofsBasic C10.ProofsTask C10.ProofsStream.
Open Scope N_scope.

Lemma scan_acc_comp : forall fs a c a' c',
  scan_acc fs a c = Some (a', c') -> c' = c ++ flat_map f_completed fs.
Proof.
  induction fs as [| f r IH]; intros a c a' c' H; cbn [scan_acc] in H.
  - inversion H; subst. cbn [flat_map]. rewrite app_nil_r. reflexivity.
  - destruct (frame_checks f a c); [| discriminate]. apply IH in H. subst c'.
    cbn [flat_map]. rewrite app_assoc. reflexivity.
Qed.

Lemma completed_ids_sum : forall frames, completed_ids frames = flat_map f_completed (map fr_sum frames).
Proof. induction frames as [| f r IH]; [reflexivity |]. unfold completed_ids in *. simpl. rewrite IH. reflexivity. Qed.

Lemma completed_ids_app : forall a b, completed_ids (a ++ b) = completed_ids a ++ completed_ids b.
Proof. intros. unfold completed_ids. apply flat_map_app. Qed.

Lemma adm_snoc : forall descs ids seen g,
  adm_b descs seen (ids ++ [g]) =
  adm_b descs seen ids &&
  (mem_N g (map dd_id descs) && negb (mem_N g (seen ++ ids)) &&
   ((parent_of descs g =? 0) || mem_N (parent_of descs g) (seen ++ ids))).
Proof.
  intros descs. induction ids as [| x r IH]; intros seen g.
  - cbn [app adm_b]. rewrite app_nil_r, andb_true_r. reflexivity.
  - cbn [app adm_b]. rewrite IH. rewrite <- !app_assoc. cbn [app].
    rewrite <- !andb_assoc. reflexivity.
Qed.

Section ExecOrder.
  Variable descs : list ddesc.
  Variable root : dnode.
  Hypothesis Hids : NoDup (map dd_id descs).
  Hypothesis Hpos : forall d, In d descs -> 0 < dd_id d.

  Definition inv2 (k : task) (G : gstate) : Prop :=
    inv descs k G /\ adm_b descs [] (completed_ids (g_frames G)) = true.

  Lemma inv2_step : forall k G a k' G' fin,
    inv2 k G -> tstep descs root a k G = Some (k', G', fin) -> inv2 k' G'.
  Proof.
    intros k G a k' G' fin [Hi Ha] Hs.
    split; [eapply inv_step; eauto |].
    destruct (tstep_char descs root Hids _ _ _ _ _ _ (i_kwf _ _ _ Hi) (i_nodup _ _ _ Hi) (i_desc _ _ _ Hi) Hs)
      as [_ [_ [_ K4]]].
    destruct K4 as [[E1 _] | [g [L [G1 [_ [G3 _]]]]]].
    - subst G'. exact Ha.
    - assert (Hg : In g (map dd_id descs)). { apply (i_desc _ _ _ Hi). apply owed_all_ids. exact G1. }
      destruct (do_render_facts descs root Hids _ _ _ _ Hg G3) as [f [F1 [_ [F3 _]]]].
      destruct (i_scan _ _ _ Hi) as [ann [comp [S1 [S2 [_ [S4 S5]]]]]].
      pose proof (scan_acc_comp _ _ _ _ _ S1) as Hc. cbn [app] in Hc.
      rewrite <- completed_ids_sum in Hc.
      rewrite F1, completed_ids_app. unfold completed_ids at 2. cbn [flat_map]. rewrite F3. cbn [app].
      rewrite adm_snoc, Ha. cbn [app andb]. rewrite <- Hc.
      assert (Hgann : In g ann).
      { eapply Permutation_in; [apply Permutation_sym; exact S2 |]. apply in_or_app. right. exact G1. }
      assert (Hgcomp : ~ In g comp). { apply S5. apply owed_all_ids. exact G1. }
      apply (proj2 (mem_N_In g _)) in Hg. apply (proj2 (mem_N_false g comp)) in Hgcomp.
      rewrite Hg, Hgcomp. cbn [negb andb].
      destruct (S4 g Hgann) as [H0 | Hp].
      + rewrite H0. reflexivity.
      + apply (proj2 (mem_N_In _ _)) in Hp. rewrite Hp. apply orb_true_r.
  Qed.

  Lemma inv2_run : forall tr k G k' G', inv2 k G -> run descs root tr k G = Some (k', G') -> inv2 k' G'.
  Proof.
    induction tr as [| a r IH]; intros k G k' G' Hi Hr; cbn [run] in Hr.
    - inversion Hr; subst. exact Hi.
    - destruct (tstep descs root a k G) as [[[k1 G1] fin] |] eqn:Hs; [| discriminate].
      eapply IH; [| exact Hr]. eapply inv2_step; eauto.
  Qed.

  Lemma init_frames : forall tree data k G, init_state descs root tree data = (k, G) -> exists f, g_frames G = [f].
  Proof.
    intros tree data k G. unfold init_state.
    destruct (render_initial descs root data) as [[f data'] live].
    destruct tree as [t |]; [destruct (prune (map dd_id live) t) |];
      intros H; inversion H; subst; exists f; reflexivity.
  Qed.

  Lemma inv2_init : forall tree data k G,
    shape_ok descs tree = true -> group_ids_nodup tree = true ->
    init_state descs root tree data = (k, G) -> inv2 k G.
  Proof.
    intros tree data k G Hsh Hgn Hi.
    pose proof (inv_init descs root Hids tree data k G Hsh Hgn Hi) as Hinv.
    split; [exact Hinv |].
    destruct (init_frames _ _ _ _ Hi) as [f Hf].
    destruct (i_first _ _ _ Hinv) as [f0 [rest [H1 [_ H3]]]].
    rewrite Hf in H1. inversion H1; subst f0 rest.
    rewrite Hf. unfold completed_ids. cbn [flat_map]. rewrite H3. reflexivity.
  Qed.
End ExecOrder.

Theorem exec_order_admissible_lemma : forall descs root tree data tr frames,
  defer_plan_wf descs root tree = true ->
  exec descs root tree data tr = Some frames ->
  admissible descs (completed_ids frames) = true.
Proof.
  intros descs root tree data tr frames Hwf Hex.
  unfold defer_plan_wf in Hwf.
  apply andb_true_iff in Hwf. destruct Hwf as [Hwf _].
  apply andb_true_iff in Hwf. destruct Hwf as [Hwf _].
  apply andb_true_iff in Hwf. destruct Hwf as [Hwf _].
  apply andb_true_iff in Hwf. destruct Hwf as [Hwf _].
  apply andb_true_iff in Hwf. destruct Hwf as [Hwf Hgn].
  apply andb_true_iff in Hwf. destruct Hwf as [Hdw Hshape].
  unfold descs_wf in Hdw. apply andb_true_iff in Hdw. destruct Hdw as [Hsorted Hall].
  assert (Hids : NoDup (map dd_id descs)) by (apply sorted_N_NoDup; exact Hsorted).
  assert (Hpos : forall d, In d descs -> 0 < dd_id d).
  { intros d Hd. rewrite forallb_forall in Hall. specialize (Hall d Hd).
    apply andb_true_iff in Hall. destruct Hall as [Hall _]. apply andb_true_iff in Hall. destruct Hall as [Hp _].
    apply N.ltb_lt. exact Hp. }
  unfold exec in Hex.
  destruct (init_state descs root tree data) as [k G] eqn:Hi.
  destruct (run descs root tr k G) as [[k' G'] |] eqn:Hr; [| discriminate].
  destruct (task_done k') eqn:Hd; [| discriminate]. inversion Hex; subst.
  unfold admissible.
  apply (inv2_run descs root Hids Hpos tr k G k' G'); [| exact Hr].
  eapply inv2_init; eauto.
Qed.
