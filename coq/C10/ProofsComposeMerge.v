(* C10: composition of the reconstruction across layers, part 2: the exact merge step.
   For a defer d whose ancestors are all in the delivered list L, that is not in L itself and none
   of whose descendants is in L:  merging the items of d into [projo L] gives [projo (L ++ [d])]. *)
From Coq Require Import ZArith Lia ZifyN ZifyNat ZifyBool Permutation.
From Gv Require Import lib.Bytes lib.Json C02.Model C02.Spec C10.Model C10.Spec C10.ProofsBasic C10.ProofsTask C10.ProofsRecon C10.ProofsCompose.
Open Scope N_scope.

Local Arguments typename_of : simpl never.
Local Arguments skip_field : simpl never.
Local Arguments classify : simpl never.
Local Arguments is_ancestor : simpl never.

Section MergeO.
  Variable descs : list ddesc.
  Variable d : ddesc.
  Notation did := (dd_id d).
  Hypothesis Hfind : parent_of descs did = dd_parent d.
  Variable L : list N.
  Hypothesis HL0 : NoDup L.
  Hypothesis HX1 : ~ In did L.
  Hypothesis HX2 : forall c, is_ancestor descs c (dd_parent d) = true -> In c L.
  Hypothesis HX3 : forall c, In c L -> is_ancestor descs did (parent_of descs c) = false.

  Notation ks := (None :: map Some L).

  Lemma ks_app : None :: map Some (L ++ [did]) = ks ++ [Some did].
  Proof. rewrite map_app. reflexivity. Qed.

  Lemma NoDup_ks_L : NoDup ks.
  Proof. apply NoDup_ks. exact HL0. Qed.

  Lemma in_ks : forall c, In (Some c) ks <-> In c L.
  Proof.
    intros c. split.
    - intros [H | H]; [discriminate |]. apply in_map_iff in H. destruct H as [x [Hx1 Hx2]]. congruence.
    - intros H. right. apply in_map. exact H.
  Qed.

  (* inside the scope of d only the fields of d and of its descendants occur *)
  Lemma inside_o : forall n stack parent tns,
    scope_ok descs stack n = true -> In did stack ->
    projo (L ++ [did]) n parent tns = proj (keep_layer (Some did)) n parent tns.
  Proof.
    induction n using dnode_ind'; intros stack parent tns Hs Hin.
    - reflexivity.
    - cbn [projo proj]. cbn [scope_ok] in Hs. destruct (get_path p parent) as [[| | | |items |] |]; auto.
      f_equal. apply map_ext. intros it. eapply IHn; eauto.
    - destruct (get_path p parent) as [[| | | | |m] |] eqn:Hg;
        try (cbn [projo proj]; rewrite Hg; reflexivity).
      rewrite (projo_obj _ _ _ _ _ _ _ _ _ Hg), (proj_obj _ _ _ _ _ _ _ _ _ Hg). f_equal.
      set (tns' := typename_of (JObj m) :: tns).
      rewrite scope_ok_obj in Hs. rewrite forallb_forall in Hs. rewrite Forall_forall in H.
      assert (Hm : forall f, In f fields -> exists c0, fmark f = Some c0 /\ (c0 = did \/ is_ancestor descs did (parent_of descs c0) = true)).
      { intros f Hf. specialize (Hs f Hf). unfold field_scope in Hs. apply andb_true_iff in Hs. destruct Hs as [Hs1 _].
        destruct (fmark f) as [c0 |] eqn:Em.
        - exists c0. split; [reflexivity |]. simpl in Hs1. apply andb_true_iff in Hs1. destruct Hs1 as [_ Hs1].
          rewrite forallb_forall in Hs1. specialize (Hs1 did Hin). apply orb_true_iff in Hs1.
          destruct Hs1 as [He | Ha]; [left; apply N.eqb_eq; exact He | right; exact Ha].
        - simpl in Hs1. destruct stack; [contradiction | discriminate]. }
      rewrite ks_app, grouped_app, grouped_one.
      assert (He : grouped tns' (fun f => projo (L ++ [did]) (fvalue f) (JObj m) tns') fields ks = []).
      { unfold grouped, ofields. rewrite flat_map_none; [reflexivity |].
        intros k Hk. apply filter_none. intros f Hf.
        destruct (selk tns' k f) eqn:E; [| reflexivity]. exfalso.
        apply selk_mark in E. destruct E as [_ E]. destruct (Hm f Hf) as [c0 [M1 M2]].
        rewrite M1 in E. subst k. apply in_ks in Hk.
        destruct M2 as [-> | M2]; [contradiction | rewrite (HX3 c0 Hk) in M2; discriminate]. }
      rewrite He. cbn [app]. apply members_cong. intros f Hf. split; [reflexivity |].
      intros Hsel. specialize (Hs f Hf). unfold field_scope in Hs. apply andb_true_iff in Hs. destruct Hs as [_ Hs2].
      eapply (H f Hf); [exact Hs2 |].
      destruct (Hm f Hf) as [c0 [M1 _]]. rewrite M1. simpl. right. exact Hin.
  Qed.

  (* a subtree without a field of d *)
  Lemma no_mark_o : forall n parent tns,
    no_mark d n = true -> projo (L ++ [did]) n parent tns = projo L n parent tns.
  Proof.
    induction n using dnode_ind'; intros parent tns Hn.
    - reflexivity.
    - cbn [no_mark] in Hn. cbn [projo]. destruct (get_path p parent) as [[| | | |items |] |]; auto.
      f_equal. apply map_ext. intros it. apply IHn. exact Hn.
    - pose proof (no_mark_obj d _ _ _ _ _ Hn) as Hf. clear Hn.
      destruct (get_path p parent) as [[| | | | |m] |] eqn:Hg;
        try (cbn [projo]; rewrite Hg; reflexivity).
      rewrite !(projo_obj _ _ _ _ _ _ _ _ _ Hg). f_equal.
      set (tns' := typename_of (JObj m) :: tns).
      rewrite Forall_forall in H, Hf.
      rewrite ks_app, grouped_app, grouped_one.
      assert (He : members (selk tns' (Some did)) (fun f => projo (L ++ [did]) (fvalue f) (JObj m) tns') fields = []).
      { unfold members. rewrite filter_none; [reflexivity |]. intros f Hfi.
        destruct (selk tns' (Some did) f) eqn:E; [| reflexivity]. exfalso.
        apply selk_mark in E. destruct E as [_ E]. destruct (Hf f Hfi) as [Hm _]. rewrite E in Hm.
        simpl in Hm. rewrite N.eqb_refl in Hm. discriminate. }
      rewrite He, app_nil_r. apply grouped_ext. intros f Hfi.
      apply ofields_In in Hfi. destruct Hfi as [k [_ [Hfi _]]].
      apply (H f Hfi). apply (Hf f Hfi).
  Qed.

  (* ---- lists ---- *)
  Lemma arr_merge_o : forall (item : dnode) (tns : list (option bytes)) (fX fXd : json -> json),
    (forall it, apply_rel (r_items descs d item it tns) (Some (fX it)) = Some (fXd it)) ->
    forall items done i, N.to_nat i = length done ->
      apply_rel (arr_items descs d item tns items i) (Some (JArr (done ++ map fX items)))
      = Some (JArr (done ++ map fXd items)).
  Proof.
    intros item tns fX fXd Hit. induction items as [| it rest IH]; intros done i Hi.
    - reflexivity.
    - cbn [arr_items map]. rewrite apply_rel_app.
      assert (Hn : nth_error (done ++ fX it :: map fX rest) (N.to_nat i) = Some (fX it)).
      { rewrite Hi. rewrite nth_error_app2 by lia. rewrite Nat.sub_diag. reflexivity. }
      rewrite (apply_rel_arr_prefix i _ _ _ _ Hn (Hit it)).
      rewrite Hi, set_nth_app.
      specialize (IH (done ++ [fXd it]) (i + 1)).
      rewrite <- !app_assoc in IH. cbn [app] in IH. apply IH.
      rewrite app_length. simpl. lia.
  Qed.

  (* ---- the pass-through fields of one object, merged one after the other (exact form) ---- *)
  Lemma fields_fold_o : forall (value : json) (tns' : list (option bytes)) (fields : list dfield)
      (C : (dfield -> json) -> list (bytes * json)) (valX valXd : dfield -> json),
    NoDup (map fname fields) ->
    (forall val f, In f fields -> sel_seek descs d tns' f = true -> obj_get (fname f) (C val) = Some (val f)) ->
    (forall val f v, In f fields -> sel_seek descs d tns' f = true -> obj_set (fname f) v (C val) = C (upd val f v)) ->
    (forall f, In f fields -> sel_seek descs d tns' f = true ->
       node_names (fvalue f) = [PName (fname f)] /\
       apply_rel (r_items descs d (fvalue f) value tns') (Some (valX f)) = Some (valXd f)) ->
    forall fs pre val, fields = pre ++ fs -> (forall g, In g fs -> val g = valX g) ->
      exists val',
        apply_rel (flat_map (seek_group descs d value tns') fs) (Some (JObj (C val))) = Some (JObj (C val')) /\
        (forall g, In g fields ->
           (sel_seek descs d tns' g = true -> In g fs -> val' g = valXd g) /\
           ((sel_seek descs d tns' g = false \/ ~ In g fs) -> val' g = val g)).
  Proof.
    intros value tns' fields C valX valXd Hnd Cget Cset Hseek.
    induction fs as [| f r IH]; intros pre val Hfs Hval.
    - exists val. split; [reflexivity |]. intros g Hg. split; [intros _ [] | auto].
    - assert (Hf : In f fields). { rewrite Hfs. apply in_or_app. right. left. reflexivity. }
      assert (Hfr : ~ In f r).
      { intros Hin. rewrite Hfs in Hnd. rewrite map_app in Hnd. apply NoDup_app_split_r in Hnd.
        simpl in Hnd. inversion Hnd as [| ? ? Hx _]; subst. apply Hx. apply in_map. exact Hin. }
      assert (Hname : forall g, In g fields -> fname g = fname f -> g = f).
      { intros g Hg He. eapply NoDup_map_inj; eauto. }
      cbn [flat_map]. unfold seek_group at 1. destruct (sel_seek descs d tns' f) eqn:Es.
      + destruct (Hseek f Hf Es) as [Hnn Hv1].
        rewrite apply_rel_app. rewrite Hnn.
        rewrite <- (Hval f (or_introl eq_refl)) in Hv1.
        rewrite (apply_rel_obj_prefix _ _ _ _ _ (Cget val f Hf Es) Hv1).
        rewrite (Cset val f _ Hf Es).
        destruct (IH (pre ++ [f]) (upd val f (valXd f))) as [val' [R1 R2]].
        * rewrite <- app_assoc. exact Hfs.
        * intros g Hg. unfold upd. destruct (bytes_eqb (fname g) (fname f)) eqn:E.
          -- exfalso. apply beqb_eq in E. apply Hfr. rewrite <- (Hname g); auto.
             rewrite Hfs. apply in_or_app. right. right. exact Hg.
          -- apply Hval. right. exact Hg.
        * exists val'. split; [exact R1 |].
          intros g Hg. destruct (R2 g Hg) as [A1 A2]. split.
          -- intros Hsg [<- | Hin]; [| apply A1; assumption].
             rewrite (A2 (or_intror Hfr)). unfold upd. rewrite beqb_refl. reflexivity.
          -- intros Hc.
             assert (Hgf : g <> f).
             { intros ->. destruct Hc as [Hc | Hc]; [congruence | apply Hc; left; reflexivity]. }
             rewrite A2.
             ++ unfold upd. destruct (bytes_eqb (fname g) (fname f)) eqn:E; auto.
                exfalso. apply Hgf. apply Hname; auto. apply beqb_eq. exact E.
             ++ destruct Hc as [Hc | Hc]; [left; exact Hc | right; intros Hin; apply Hc; right; exact Hin].
      + cbn [app]. destruct (IH (pre ++ [f]) val) as [val' [R1 R2]].
        * rewrite <- app_assoc. exact Hfs.
        * intros g Hg. apply Hval. right. exact Hg.
        * exists val'. split; [exact R1 |].
          intros g Hg. destruct (R2 g Hg) as [A1 A2]. split.
          -- intros Hsg [<- | Hin]; [congruence | apply A1; assumption].
          -- intros Hc. apply A2. destruct Hc as [Hc | Hc]; [left; exact Hc | right; intros Hin; apply Hc; right; exact Hin].
  Qed.

  (* ---- the layer of d merged into the response that holds the layers L, exactly ---- *)
  Lemma seek_merge_o : forall n stack parent tns,
    scope_ok descs stack n = true -> names_ok n = true ->
    (forall e, In e stack -> is_ancestor descs e (dd_parent d) = true) ->
    apply_rel (r_items descs d n parent tns) (Some (projo L n parent tns)) = Some (projo (L ++ [did]) n parent tns).
  Proof.
    induction n using dnode_ind'; intros stack parent tns Hs Hn Hst.
    - reflexivity.
    - (* list *)
      destruct (get_path p parent) as [[| | | |items |] |] eqn:Hg;
        try (cbn [r_items projo]; rewrite Hg; reflexivity).
      rewrite (r_items_arr _ _ _ _ _ _ _ _ Hg). cbn [projo]. rewrite Hg.
      cbn [scope_ok] in Hs. cbn [names_ok] in Hn. apply andb_true_iff in Hn. destruct Hn as [_ Hn].
      apply (arr_merge_o n tns (fun it => projo L n it tns) (fun it => projo (L ++ [did]) n it tns)
                         (fun it => IHn stack it tns Hs Hn Hst) items [] 0 eq_refl).
    - (* object *)
      destruct (get_path p parent) as [[| | | | |m] |] eqn:Hg;
        try (cbn [r_items projo]; rewrite Hg; reflexivity).
      set (value := JObj m). set (tns' := typename_of value :: tns).
      rewrite (r_items_obj _ _ _ _ _ _ _ _ _ _ Hg). fold value. fold tns'.
      rewrite !(projo_obj _ _ _ _ _ _ _ _ _ Hg). fold value. fold tns'.
      rewrite scope_ok_obj in Hs. rewrite forallb_forall in Hs.
      rewrite names_ok_obj in Hn. apply andb_true_iff in Hn. destruct Hn as [Hnd Hnf].
      apply names_nodup_NoDup in Hnd. rewrite forallb_forall in Hnf.
      rewrite Forall_forall in H.
      set (selL := sel_keep (keep_layer (Some did)) tns').
      set (valL := fun f => projo L (fvalue f) value tns').
      set (valLd := fun f => projo (L ++ [did]) (fvalue f) value tns').
      set (valP := fun f => proj (keep_layer (Some did)) (fvalue f) value tns').
      set (ms_d := members selL valP fields).
      (* facts about one field *)
      assert (Hfield : forall f, In f fields -> fskip tns' f = false ->
                match classify descs (Some d) (fmark f) (fvalue f) with
                | FRender => fmark f = Some did /\ valP f = valLd f
                | FSeek => In (fmark f) ks /\ node_names (fvalue f) = [PName (fname f)] /\
                           apply_rel (r_items descs d (fvalue f) value tns') (Some (valL f)) = Some (valLd f)
                | FSkip => fmark f <> Some did /\ valL f = valLd f
                end).
      { intros f Hf Hsk. specialize (Hs f Hf). unfold field_scope in Hs. apply andb_true_iff in Hs. destruct Hs as [Hs1 Hs2].
        specialize (Hnf f Hf). apply andb_true_iff in Hnf. destruct Hnf as [Hn1 Hn2].
        pose proof (classify_cases descs d (fmark f) (fvalue f)) as Hc.
        destruct (classify descs (Some d) (fmark f) (fvalue f)).
        - split; [exact Hc |]. unfold valP, valLd. symmetry. eapply inside_o; [exact Hs2 |].
          rewrite Hc. simpl. left. reflexivity.
        - destruct Hc as [Ha [Hd Hm]]. split; [| split].
          + destruct Hm as [-> | [c [-> Hc]]]; [left; reflexivity |]. apply in_ks. apply HX2. exact Hc.
          + apply child_named_names; assumption.
          + unfold valL, valLd. eapply (H f Hf); [exact Hs2 | exact Hn2 |].
            intros e He. destruct Hm as [Hm | [c [Hm Hc]]]; rewrite Hm in He; simpl in He.
            * apply Hst. exact He.
            * destruct He as [<- | He]; [exact Hc | apply Hst; exact He].
        - destruct Hc as [Hd Hm]. split; [exact Hd |]. unfold valL, valLd.
          assert (Hnm : no_mark d (fvalue f) = true).
          { destruct Hm as [Ha | [c [Hm Hc]]].
            - apply no_seek_no_mark. exact Ha.
            - eapply (scope_no_mark descs d Hfind); [exact Hs2 |].
              exists c. rewrite Hm. simpl. split; [left; reflexivity |]. split; [congruence | exact Hc]. }
          symmetry. apply no_mark_o. exact Hnm. }
      (* the target *)
      rewrite ks_app, grouped_app, grouped_one.
      assert (Hms : members (selk tns' (Some did)) valLd fields = ms_d).
      { unfold ms_d. apply members_cong. intros f Hf. split; [reflexivity |]. intros Hsel.
        apply selk_mark in Hsel. destruct Hsel as [Hk Hm]. pose proof (Hfield f Hf Hk) as Hff.
        pose proof (classify_cases descs d (fmark f) (fvalue f)) as Hc.
        destruct (classify descs (Some d) (fmark f) (fvalue f)).
        - destruct Hff as [_ F2]. symmetry. exact F2.
        - destruct Hc as [_ [Hd _]]. contradiction.
        - destruct Hc as [Hd _]. contradiction. }
      rewrite Hms.
      (* the item of this object, then the pass-through fields *)
      rewrite apply_rel_app.
      match goal with
      | |- context [apply_rel ?a (Some (JObj (grouped tns' valL fields ks)))] =>
        replace (apply_rel a (Some (JObj (grouped tns' valL fields ks))))
          with (Some (JObj (grouped tns' valL fields ks ++ ms_d)))
          by (unfold ms_d, selL; destruct (members (sel_keep (keep_layer (Some did)) tns') valP fields);
              simpl; [rewrite app_nil_r |]; reflexivity)
      end.
      assert (Hseekf : forall f, In f fields -> sel_seek descs d tns' f = true ->
                fskip tns' f = false /\ In (fmark f) ks /\ node_names (fvalue f) = [PName (fname f)] /\
                apply_rel (r_items descs d (fvalue f) value tns') (Some (valL f)) = Some (valLd f)).
      { intros f Hf Hsf. unfold sel_seek in Hsf. apply andb_true_iff in Hsf. destruct Hsf as [Hk Hc].
        apply negb_true_iff in Hk. pose proof (Hfield f Hf Hk) as Hff.
        destruct (classify descs (Some d) (fmark f) (fvalue f)); try discriminate.
        destruct Hff as [F1 [F2 F3]]. auto. }
      destruct (fields_fold_o value tns' fields (fun val => grouped tns' val fields ks ++ ms_d) valL valLd Hnd)
        with (fs := fields) (pre := @nil dfield) (val := valL) as [val' [R1 R2]]; auto.
      { intros val f Hf Hsf. destruct (Hseekf f Hf Hsf) as [S1 [S2 _]].
        apply grouped_get; auto. apply NoDup_ks_L. }
      { intros val f v Hf Hsf. destruct (Hseekf f Hf Hsf) as [S1 [S2 _]].
        apply grouped_set; auto. apply NoDup_ks_L. }
      { intros f Hf Hsf. destruct (Hseekf f Hf Hsf) as [_ [_ [S3 S4]]]. auto. }
      unfold seek_group in R1. rewrite R1. f_equal. f_equal. f_equal.
      apply grouped_ext. intros f Hfo.
      apply ofields_In in Hfo. destruct Hfo as [k [Hk [Hf Hsel]]].
      apply selk_mark in Hsel. destruct Hsel as [Hsk Hm].
      destruct (R2 f Hf) as [A1 A2].
      destruct (sel_seek descs d tns' f) eqn:Es.
      + apply A1; auto.
      + rewrite (A2 (or_introl eq_refl)).
        pose proof (Hfield f Hf Hsk) as Hff.
        unfold sel_seek in Es. rewrite Hsk in Es. simpl in Es.
        destruct (classify descs (Some d) (fmark f) (fvalue f)); try discriminate.
        * destruct Hff as [F1 _]. exfalso. rewrite F1 in Hm. subst k. apply in_ks in Hk. contradiction.
        * destruct Hff as [_ F2]. exact F2.
  Qed.
End MergeO.
