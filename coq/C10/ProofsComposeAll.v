(* C10: composition of the reconstruction across layers, part 3: every admissible completion order.
   Invariant of the fold over the order: the delivered list is duplicate free and closed under
   ancestors, and the accumulated data is EXACTLY [projo delivered]. *)
From Coq Require Import ZArith Lia ZifyN ZifyNat ZifyBool Permutation.
From Gv Require Import lib.Bytes lib.Json C02.Model C02.Spec C10.Model C10.Spec C10.SpecCompose
  C10.ProofsBasic C10.ProofsTask C10.ProofsRecon C10.ProofsPaths C10.ProofsClean C10.ProofsCompose C10.ProofsComposeMerge.
Open Scope N_scope.

Local Arguments typename_of : simpl never.
Local Arguments skip_field : simpl never.
Local Arguments classify : simpl never.
Local Arguments is_ancestor : simpl never.

(* ---- the ancestor test ---- *)
Lemma anc_fuel_mono : forall descs f c p b,
  is_ancestor_fuel descs f c p = Some b -> is_ancestor_fuel descs (S f) c p = Some b.
Proof.
  intros descs. induction f as [| f IH]; intros c p b H; [discriminate |].
  cbn [is_ancestor_fuel] in H. cbn [is_ancestor_fuel].
  destruct (p =? 0); [exact H |]. destruct (c =? p); [exact H |].
  apply IH in H. cbn [is_ancestor_fuel] in H. exact H.
Qed.

Lemma anc_zero : forall descs c, is_ancestor descs c 0 = false.
Proof. intros. unfold is_ancestor. cbn [is_ancestor_fuel]. rewrite N.eqb_refl. reflexivity. Qed.

Lemma anc_step : forall descs c p, is_ancestor descs c p = true ->
  p <> 0 /\ (c = p \/ is_ancestor descs c (parent_of descs p) = true).
Proof.
  intros descs c p H. unfold is_ancestor in H. cbn [is_ancestor_fuel] in H.
  destruct (p =? 0) eqn:E0; [discriminate |]. apply N.eqb_neq in E0.
  destruct (c =? p) eqn:E1.
  - apply N.eqb_eq in E1. auto.
  - split; [exact E0 |]. right.
    destruct (is_ancestor_fuel descs (length descs) c (parent_of descs p)) as [b |] eqn:Ef; [| discriminate].
    subst b. unfold is_ancestor. rewrite (anc_fuel_mono _ _ _ _ _ Ef). reflexivity.
Qed.

(* ---- the empty delivered list: the initial data ---- *)
Lemma projo_nil : forall n parent tns, projo [] n parent tns = proj (keep_layer None) n parent tns.
Proof.
  induction n using dnode_ind'; intros parent tns.
  - reflexivity.
  - cbn [projo proj]. destruct (get_path p parent) as [[| | | |items |] |]; auto.
    f_equal. apply map_ext. intros it. apply IHn.
  - destruct (get_path p parent) as [[| | | | |m] |] eqn:Hg; try (cbn [projo proj]; rewrite Hg; reflexivity).
    rewrite (projo_obj _ _ _ _ _ _ _ _ _ Hg), (proj_obj _ _ _ _ _ _ _ _ _ Hg). f_equal.
    cbn [map]. rewrite grouped_one. rewrite Forall_forall in H.
    apply members_cong. intros f Hf. split; [reflexivity | intros _; apply (H f Hf)].
Qed.

(* ---- when every defer of the plan is delivered nothing is left out ---- *)
Lemma proj_keep_marks : forall descs ids, (forall c, In c (map dd_id descs) -> In c ids) ->
  forall n stack parent tns, scope_ok descs stack n = true ->
    proj (keepX ids) n parent tns = proj keep_all n parent tns.
Proof.
  intros descs ids Hcov. induction n using dnode_ind'; intros stack parent tns Hs.
  - reflexivity.
  - cbn [proj]. cbn [scope_ok] in Hs. destruct (get_path p parent) as [[| | | |items |] |]; auto.
    f_equal. apply map_ext. intros it. eapply IHn; eauto.
  - destruct (get_path p parent) as [[| | | | |m] |] eqn:Hg; try (cbn [proj]; rewrite Hg; reflexivity).
    rewrite !(proj_obj _ _ _ _ _ _ _ _ _ Hg). f_equal.
    rewrite scope_ok_obj in Hs. rewrite forallb_forall in Hs. rewrite Forall_forall in H.
    apply members_cong. intros f Hf. specialize (Hs f Hf). unfold field_scope in Hs.
    apply andb_true_iff in Hs. destruct Hs as [Hs1 Hs2]. split.
    + unfold sel_keep, keep_all. f_equal. destruct (fmark f) as [c |]; [| reflexivity].
      simpl in Hs1. apply andb_true_iff in Hs1. destruct Hs1 as [Hs1 _].
      simpl. apply mem_N_In. apply Hcov. apply mem_N_In. exact Hs1.
    + intros _. eapply (H f Hf). exact Hs2.
Qed.

Section Compose.
  Variable descs : list ddesc.
  Variable root : dnode.
  Variable data : json.
  Hypothesis Hscope : scope_ok descs [] root = true.
  Hypothesis Hpaths : paths_ok descs [] None root = true.
  Hypothesis Hnames : names_ok root = true.
  Hypothesis Hroot : root_ok root = true.

  Definition closed (seen : list N) : Prop :=
    forall c, In c seen -> forall a, is_ancestor descs a (parent_of descs c) = true -> In a seen.

  Lemma find_desc_mem : forall g, In g (map dd_id descs) -> exists d, find_desc descs g = Some d /\ dd_id d = g.
  Proof.
    intros g Hg. unfold find_desc. destruct (find (fun d => dd_id d =? g) descs) as [d |] eqn:Hf.
    - apply find_some in Hf. destruct Hf as [_ H2]. apply N.eqb_eq in H2. eauto.
    - apply in_map_iff in Hg. destruct Hg as [d [Hd1 Hd2]].
      pose proof (find_none _ _ Hf d Hd2) as Hn. simpl in Hn. rewrite Hd1, N.eqb_refl in Hn. discriminate.
  Qed.

  Definition fold_layers (order : list ddesc) (t : option json) : option json :=
    fold_left (fun acc d => merge_layer descs d root data acc) order t.

  Lemma compose_fold : forall ids seen,
    adm_b descs seen ids = true -> NoDup seen -> closed seen ->
    fold_layers (order_of descs ids) (Some (projo seen root data [])) = Some (projo (seen ++ ids) root data []) /\
    NoDup (seen ++ ids) /\ closed (seen ++ ids).
  Proof.
    induction ids as [| g r IH]; intros seen Ha Hnd Hcl.
    - rewrite app_nil_r. auto.
    - cbn [adm_b] in Ha. apply andb_true_iff in Ha. destruct Ha as [Ha Hr].
      apply andb_true_iff in Ha. destruct Ha as [Ha Hpar].
      apply andb_true_iff in Ha. destruct Ha as [Hmem Hnew].
      apply mem_N_In in Hmem. apply negb_true_iff in Hnew. apply mem_N_false in Hnew.
      destruct (find_desc_mem g Hmem) as [d [Hfd Hid]].
      assert (Hfd' : find_desc descs (dd_id d) = Some d) by (rewrite Hid; exact Hfd).
      assert (Hfind : parent_of descs (dd_id d) = dd_parent d).
      { unfold parent_of. rewrite Hfd'. reflexivity. }
      assert (Hp : parent_of descs g = 0 \/ In (parent_of descs g) seen).
      { apply orb_true_iff in Hpar. destruct Hpar as [Hp | Hp]; [left; apply N.eqb_eq; exact Hp | right; apply mem_N_In; exact Hp]. }
      assert (HX2 : forall c, is_ancestor descs c (dd_parent d) = true -> In c seen).
      { intros c Hc. rewrite <- Hfind, Hid in Hc. apply anc_step in Hc. destruct Hc as [Hnz Hc].
        destruct Hp as [Hp | Hp]; [contradiction |].
        destruct Hc as [-> | Hc]; [exact Hp | apply (Hcl _ Hp _ Hc)]. }
      assert (HX3 : forall c, In c seen -> is_ancestor descs (dd_id d) (parent_of descs c) = false).
      { intros c Hc. destruct (is_ancestor descs (dd_id d) (parent_of descs c)) eqn:E; [| reflexivity].
        exfalso. apply Hnew. rewrite <- Hid. apply (Hcl _ Hc _ E). }
      assert (Hstep : merge_layer descs d root data (Some (projo seen root data [])) = Some (projo (seen ++ [g]) root data [])).
      { rewrite (merge_layer_rel descs d root data _ Hfd' Hpaths Hnames Hroot).
        rewrite <- Hid.
        apply (seek_merge_o descs d Hfind seen Hnd) with (stack := @nil N); auto.
        rewrite Hid. exact Hnew. }
      assert (Hnd' : NoDup (seen ++ [g])).
      { apply NoDup_app_join; auto.
        - constructor; [intros [] | constructor].
        - intros x Hx [<- | []]. contradiction. }
      assert (Hcl' : closed (seen ++ [g])).
      { intros c Hc a Hac. apply in_or_app. apply in_app_or in Hc. destruct Hc as [Hc | [<- | []]].
        - left. apply (Hcl _ Hc _ Hac).
        - left. apply HX2. rewrite <- Hfind, Hid. exact Hac. }
      destruct (IH (seen ++ [g]) Hr Hnd' Hcl') as [I1 [I2 I3]].
      rewrite <- app_assoc in I1, I2, I3. cbn [app] in I1, I2, I3.
      split; [| split; assumption].
      unfold order_of. cbn [flat_map]. rewrite Hfd. cbn [app].
      unfold fold_layers. cbn [fold_left]. rewrite Hstep. exact I1.
  Qed.

  Lemma closed_nil : closed [].
  Proof. intros c []. Qed.

  (* the client's fold over an admissible order, exactly *)
  Lemma client_result_exact : forall ids, admissible descs ids = true ->
    client_result descs root data (order_of descs ids) = Some (projo ids root data []) /\ NoDup ids.
  Proof.
    intros ids Ha. destruct (compose_fold ids [] Ha (NoDup_nil _) closed_nil) as [H1 [H2 _]].
    cbn [app] in H1, H2. split; [| exact H2].
    unfold client_result. rewrite <- projo_nil. exact H1.
  Qed.

  Lemma reconstruct_order_lemma : forall ids, admissible descs ids = true ->
    exists v, client_result descs root data (order_of descs ids) = Some v /\
              jeq v (proj (keepX ids) root data []).
  Proof.
    intros ids Ha. destruct (client_result_exact ids Ha) as [H1 H2].
    eexists. split; [exact H1 |]. apply projo_jeq. exact H2.
  Qed.

  Lemma covers_In : forall ids, covers descs ids = true -> forall c, In c (map dd_id descs) -> In c ids.
  Proof.
    intros ids Hc c Hin. unfold covers in Hc. rewrite forallb_forall in Hc.
    apply in_map_iff in Hin. destruct Hin as [d [Hd1 Hd2]]. subst c. apply mem_N_In. apply Hc. exact Hd2.
  Qed.

  Lemma reconstruct_all_lemma : forall ids,
    admissible descs ids = true -> covers descs ids = true ->
    exists v, client_result descs root data (order_of descs ids) = Some v /\
              jeq v (proj keep_all root data []) /\
              (strict_clean root data [] = true ->
               exists r, complete_root (fun _ _ => false) (erase root) data = (Some r, []) /\ jeq v r).
  Proof.
    intros ids Ha Hc. destruct (reconstruct_order_lemma ids Ha) as [v [H1 H2]].
    exists v. split; [exact H1 |].
    rewrite (proj_keep_marks descs ids (covers_In ids Hc) root [] data [] Hscope) in H2.
    split; [exact H2 |]. intros Hs. exists (proj keep_all root data []). split; [| exact H2].
    unfold complete_root. apply complete_of_strict_clean. exact Hs.
  Qed.

  (* two admissible orders that deliver the same defers reconstruct the same data *)
  Lemma order_independent_lemma : forall ids1 ids2,
    admissible descs ids1 = true -> admissible descs ids2 = true ->
    (forall x, In x ids1 <-> In x ids2) ->
    exists v1 v2, client_result descs root data (order_of descs ids1) = Some v1 /\
                  client_result descs root data (order_of descs ids2) = Some v2 /\ jeq v1 v2.
  Proof.
    intros ids1 ids2 H1 H2 Hs.
    destruct (reconstruct_order_lemma ids1 H1) as [v1 [A1 A2]].
    destruct (reconstruct_order_lemma ids2 H2) as [v2 [B1 B2]].
    exists v1, v2. split; [exact A1 |]. split; [exact B1 |].
    eapply jeq_trans; [exact A2 |]. apply jeq_sym.
    rewrite (proj_ext (keepX ids1) (keepX ids2)); [exact B2 |].
    intros [c |]; [| reflexivity]. simpl.
    destruct (mem_N c ids1) eqn:E1; destruct (mem_N c ids2) eqn:E2; auto.
    - apply mem_N_In in E1. apply Hs in E1. apply mem_N_In in E1. congruence.
    - apply mem_N_In in E2. apply Hs in E2. apply mem_N_In in E2. congruence.
  Qed.
End Compose.
