(* C10, plan level: lemmas about the descriptor path (DescPath.v). *)
From Coq Require Import List Bool Arith PeanoNat NArith Lia.
From Gv Require Import lib.Bytes C10.DescPath.
Import ListNotations.

Lemma beqb_true : forall a b, bytes_eqb a b = true -> a = b.
Proof.
  induction a as [|x a IH]; destruct b as [|y b]; simpl; intros H; try discriminate; auto.
  apply andb_true_iff in H. destruct H as [H1 H2]. apply N.eqb_eq in H1. subst. f_equal. auto.
Qed.

Lemma beqb_refl : forall a, bytes_eqb a a = true.
Proof. induction a; simpl; auto. rewrite N.eqb_refl. auto. Qed.

(* ---- alias independence ---- *)
Lemma idx_alias_indep : forall s c1 c2 parent idx,
  same_names c1 c2 = true ->
  outermost_list_idx s parent c1 idx = outermost_list_idx s parent c2 idx.
Proof.
  intros s c1. induction c1 as [|a c1 IH]; intros c2 parent idx H; destruct c2 as [|b c2]; simpl in H; try discriminate; auto.
  apply andb_true_iff in H. destruct H as [Hab Hr].
  destruct a as [al n| c |]; destruct b as [bl m| d |]; simpl in Hab; try discriminate.
  - apply beqb_true in Hab. subst m. simpl.
    destruct (field_def s parent n) as [fd|]; auto.
    destruct (fd_list fd); auto.
    destruct (find_type s (fd_base fd)); auto.
  - simpl. auto.
  - simpl. auto.
Qed.

Lemma candidate_length_alias_indep : forall c1 c2,
  same_names c1 c2 = true -> length (candidate c1) = length (candidate c2).
Proof.
  induction c1 as [|a c1 IH]; intros c2 H; destruct c2 as [|b c2]; simpl in H; try discriminate; auto.
  apply andb_true_iff in H. destruct H as [Hab Hr].
  destruct a; destruct b; simpl in Hab; try discriminate; simpl; auto.
Qed.

Lemma cut_at_firstn : forall i cand, cut_at i cand = firstn (length (cut_at i cand)) cand.
Proof.
  intros [i|] cand; unfold cut_at.
  - destruct (Nat.ltb (S i) (length cand)) eqn:E.
    + apply Nat.ltb_lt in E. rewrite firstn_length. rewrite Nat.min_l by lia. reflexivity.
    + rewrite firstn_all. reflexivity.
  - rewrite firstn_all. reflexivity.
Qed.

Lemma cut_at_length_indep : forall i (c1 c2 : list bytes),
  length c1 = length c2 -> length (cut_at i c1) = length (cut_at i c2).
Proof.
  intros [i|] c1 c2 H; unfold cut_at; auto.
  rewrite H. destruct (Nat.ltb (S i) (length c2)) eqn:E; auto.
  apply Nat.ltb_lt in E. rewrite !firstn_length. lia.
Qed.

Lemma alias_independent : forall s root c1 c2,
  same_names c1 c2 = true ->
  outermost_list_idx s root c1 O = outermost_list_idx s root c2 O /\
  kept s root c1 = kept s root c2 /\
  defer_path s root c2 = firstn (kept s root c1) (candidate c2).
Proof.
  intros s root c1 c2 H.
  pose proof (idx_alias_indep s c1 c2 root O H) as Hi.
  pose proof (candidate_length_alias_indep c1 c2 H) as Hl.
  assert (Hk : kept s root c1 = kept s root c2).
  { unfold kept, defer_path. rewrite Hi. apply cut_at_length_indep. exact Hl. }
  split; [exact Hi|]. split; [exact Hk|].
  rewrite Hk. unfold kept, defer_path. apply cut_at_firstn.
Qed.

(* ---- without narrowing the lookup succeeds: model = specification ---- *)
Lemma idx_static_eq_spec : forall s chain parent idx,
  chain_typed s parent chain = true ->
  no_narrowing s parent chain = true ->
  outermost_list_idx s parent chain idx = spec_list_idx s parent chain idx.
Proof.
  intros s chain. induction chain as [|a chain IH]; intros parent idx Ht Hn; simpl; auto.
  destruct a as [al n| c |]; simpl in *.
  - destruct (field_def s parent n) as [fd|]; auto.
    destruct (fd_list fd); auto.
    destruct (find_type s (fd_base fd)); try discriminate.
    apply IH; auto.
  - apply andb_true_iff in Hn. destruct Hn as [Hc Hn].
    destruct c as [|x c].
    + apply IH; auto.
    + apply beqb_true in Hc. rewrite Hc in *. apply IH; auto.
  - apply IH; auto.
Qed.

Lemma truncated_partial : forall s root chain,
  chain_typed s root chain = true ->
  no_narrowing s root chain = true ->
  outermost_list_idx s root chain O = spec_list_idx s root chain O /\
  defer_path s root chain = spec_path s root chain /\
  static_gives_up s root chain = false.
Proof.
  intros s root chain Ht Hn.
  pose proof (idx_static_eq_spec s chain root O Ht Hn) as H.
  split; [exact H|]. split.
  - unfold defer_path, spec_path. rewrite H. reflexivity.
  - unfold static_gives_up. rewrite H. destruct (spec_list_idx s root chain O); reflexivity.
Qed.

(* on a typed chain the specification index is the first list-typed field: nothing before it is a list *)
Lemma spec_idx_ge : forall s chain parent idx i,
  spec_list_idx s parent chain idx = Some i -> (idx <= i)%nat.
Proof.
  intros s chain. induction chain as [|a chain IH]; intros parent idx i H; simpl in H; try discriminate.
  destruct a as [al n| c |].
  - destruct (field_def s parent n) as [fd|]; try discriminate.
    destruct (fd_list fd).
    + inversion H. lia.
    + apply IH in H. lia.
  - apply IH in H. exact H.
  - apply IH in H. exact H.
Qed.

(* the checker used on the implementation's descriptors decides the specification *)
Lemma path_eqb_eq : forall a b, path_eqb a b = true <-> a = b.
Proof.
  induction a as [|x a IH]; destruct b as [|y b]; simpl; split; intros H; try discriminate; auto.
  - apply andb_true_iff in H. destruct H as [H1 H2]. apply beqb_true in H1. apply IH in H2. subst. reflexivity.
  - inversion H. subst. rewrite beqb_refl. simpl. apply IH. reflexivity.
Qed.

Lemma desc_path_ok_sound : forall s root chain impl,
  desc_path_ok_b s root chain impl = true <-> impl = spec_path s root chain.
Proof. intros. unfold desc_path_ok_b. apply path_eqb_eq. Qed.

(* ---- the witness of the quirk: { node { ... on Pet { owner { friends { alt { ... @defer } } } } } } ---- *)
Definition b_Query : bytes := [81;117;101;114;121]%N.
Definition b_Node : bytes := [78;111;100;101]%N.
Definition b_Pet : bytes := [80;101;116]%N.
Definition b_User : bytes := [85;115;101;114]%N.
Definition b_Info : bytes := [73;110;102;111]%N.
Definition b_ID : bytes := [73;68]%N.
Definition b_node : bytes := [110;111;100;101]%N.
Definition b_users : bytes := [117;115;101;114;115]%N.
Definition b_id : bytes := [105;100]%N.
Definition b_owner : bytes := [111;119;110;101;114]%N.
Definition b_friends : bytes := [102;114;105;101;110;100;115]%N.
Definition b_alt : bytes := [97;108;116]%N.
Definition b_info : bytes := [105;110;102;111]%N.
Definition b_list : bytes := [108;105;115;116]%N.

Definition ex_schema : schema :=
  [ {| td_name := b_Query; td_fields := [ {| fd_name := b_node; fd_list := false; fd_base := b_Node |};
                                           {| fd_name := b_users; fd_list := true; fd_base := b_User |} ] |};
    {| td_name := b_Node; td_fields := [ {| fd_name := b_id; fd_list := false; fd_base := b_ID |} ] |};
    {| td_name := b_Pet; td_fields := [ {| fd_name := b_id; fd_list := false; fd_base := b_ID |};
                                         {| fd_name := b_owner; fd_list := false; fd_base := b_User |} ] |};
    {| td_name := b_User; td_fields := [ {| fd_name := b_id; fd_list := false; fd_base := b_ID |};
                                          {| fd_name := b_friends; fd_list := true; fd_base := b_User |};
                                          {| fd_name := b_alt; fd_list := false; fd_base := b_Info |};
                                          {| fd_name := b_info; fd_list := false; fd_base := b_Info |} ] |};
    {| td_name := b_Info; td_fields := [] |};
    {| td_name := b_ID; td_fields := [] |} ].

Definition ex_typed_chain : list anc :=
  [AOther; AField None b_node; AFrag b_Pet; AField None b_owner; AField None b_friends; AField None b_alt].

Lemma truncated_refuted :
  chain_typed ex_schema b_Query ex_typed_chain = true /\
  static_gives_up ex_schema b_Query ex_typed_chain = true /\
  defer_path ex_schema b_Query ex_typed_chain = [b_node; b_owner; b_friends; b_alt] /\
  spec_path ex_schema b_Query ex_typed_chain = [b_node; b_owner; b_friends].
Proof. vm_compute. repeat split; reflexivity. Qed.

Lemma truncated_refuted_exists : exists s root chain,
  chain_typed s root chain = true /\ static_gives_up s root chain = true /\
  defer_path s root chain <> spec_path s root chain.
Proof.
  exists ex_schema, b_Query, ex_typed_chain.
  destruct truncated_refuted as [H1 [H2 [H3 H4]]].
  split; [exact H1|]. split; [exact H2|]. rewrite H3, H4. discriminate.
Qed.

(* ---- anchors ---- *)
Lemma prefix_b_firstn : forall k (l : list bytes), prefix_b (firstn k l) l = true.
Proof.
  induction k as [|k IH]; intros [|x l]; simpl; auto.
  rewrite beqb_refl. simpl. apply IH.
Qed.

Lemma defer_path_prefix : forall s root chain, prefix_b (defer_path s root chain) (candidate chain) = true.
Proof.
  intros. unfold defer_path. rewrite cut_at_firstn. apply prefix_b_firstn.
Qed.

(* ---- prefixes ---- *)
Lemma prefix_b_nil : forall l, prefix_b [] l = true.
Proof. destruct l; reflexivity. Qed.

Lemma prefix_b_refl : forall l, prefix_b l l = true.
Proof. induction l; simpl; auto. rewrite beqb_refl. auto. Qed.

Lemma prefix_b_trans : forall a b c, prefix_b a b = true -> prefix_b b c = true -> prefix_b a c = true.
Proof.
  induction a as [|x a IH]; intros b c H1 H2; [apply prefix_b_nil|].
  destruct b as [|y b]; simpl in H1; try discriminate.
  destruct c as [|z c]; simpl in H2; try discriminate.
  apply andb_true_iff in H1. destruct H1 as [Hxy H1]. apply andb_true_iff in H2. destruct H2 as [Hyz H2].
  apply beqb_true in Hxy. apply beqb_true in Hyz. subst. simpl. rewrite beqb_refl. simpl. eapply IH; eauto.
Qed.

Lemma common_prefix_l : forall a b, prefix_b (common_prefix a b) a = true.
Proof.
  induction a as [|x a IH]; intros [|y b]; simpl; auto.
  destruct (bytes_eqb x y) eqn:E; simpl; auto. rewrite beqb_refl. simpl. apply IH.
Qed.

Lemma common_prefix_r : forall a b, prefix_b (common_prefix a b) b = true.
Proof.
  induction a as [|x a IH]; intros [|y b]; simpl; auto.
  destruct (bytes_eqb x y) eqn:E; simpl; auto. rewrite E. simpl. apply IH.
Qed.

Lemma fold_prefix_acc : forall (f : list anc -> list bytes) r acc,
  prefix_b (fold_left (fun a c => common_prefix a (f c)) r acc) acc = true.
Proof.
  intros f r. induction r as [|c r IH]; intros acc; simpl; [apply prefix_b_refl|].
  eapply prefix_b_trans; [apply IH | apply common_prefix_l].
Qed.

Lemma fold_prefix_each : forall (f : list anc -> list bytes) r acc c,
  In c r -> prefix_b (fold_left (fun a c => common_prefix a (f c)) r acc) (f c) = true.
Proof.
  intros f r. induction r as [|c0 r IH]; intros acc c Hin; simpl in *; [contradiction|].
  destruct Hin as [->|Hin].
  - eapply prefix_b_trans; [apply fold_prefix_acc | apply common_prefix_r].
  - apply IH. exact Hin.
Qed.

(* the recorded path is a prefix of the response position of EVERY selection set of the defer *)
Lemma anchor_consistent : forall s root chains, anchor_ok_b (collector_path s root chains) chains = true.
Proof.
  intros s root chains. unfold anchor_ok_b. apply forallb_forall. intros c Hin.
  destruct chains as [|c0 r]; [contradiction|]. simpl.
  eapply prefix_b_trans; [| apply (defer_path_prefix s root c)].
  destruct Hin as [<-|Hin].
  - apply fold_prefix_acc.
  - apply (fold_prefix_each (defer_path s root)). exact Hin.
Qed.

(* a defer whose fields sit in ONE selection set: both versions agree *)
Lemma anchor_single : forall s root chain,
  collector_path s root [chain] = defer_path s root chain /\ collector_path_v0 s root [chain] = defer_path s root chain.
Proof. intros. split; reflexivity. Qed.

(* { first { detail {text} extra {text} ... @defer { detail {note} extra {note} } } }: the fragment's fields
   surface in first.detail and first.extra; the first one is recorded *)
Definition b_first : bytes := [102;105;114;115;116]%N.
Definition b_detail : bytes := [100;101;116;97;105;108]%N.
Definition b_extra : bytes := [101;120;116;114;97]%N.
Definition b_Item : bytes := [73;116;101;109]%N.
Definition b_Detail : bytes := [68;101;116;97;105;108]%N.
Definition ex_schema2 : schema :=
  [ {| td_name := b_Query; td_fields := [ {| fd_name := b_first; fd_list := false; fd_base := b_Item |} ] |};
    {| td_name := b_Item; td_fields := [ {| fd_name := b_detail; fd_list := false; fd_base := b_Detail |};
                                          {| fd_name := b_extra; fd_list := false; fd_base := b_Detail |} ] |};
    {| td_name := b_Detail; td_fields := [] |} ].
Definition ex_chains2 : list (list anc) :=
  [ [AOther; AField None b_first; AField None b_detail]; [AOther; AField None b_first; AField None b_extra] ].

Lemma anchor_v0_refuted_exists : exists s root chains,
  forallb (chain_typed s root) chains = true /\
  forallb (no_narrowing s root) chains = true /\
  anchor_ok_b (collector_path_v0 s root chains) chains = false /\
  anchor_ok_b (collector_path s root chains) chains = true.
Proof. exists ex_schema2, b_Query, ex_chains2. vm_compute. repeat split; reflexivity. Qed.

(* symptom (b), still open: { maybe {id} ... @defer { maybe {name} ... @defer { first {id} } } } -- the outer
   fragment's only top-level field is also selected outside: its fields sit in the selection set of [maybe],
   the nested fragment's in the root selection set: the parent's path is not a prefix of the child's *)
Definition b_maybe : bytes := [109;97;121;98;101]%N.
Definition ex_schema3 : schema :=
  [ {| td_name := b_Query; td_fields := [ {| fd_name := b_first; fd_list := false; fd_base := b_Item |};
                                           {| fd_name := b_maybe; fd_list := false; fd_base := b_Item |} ] |};
    {| td_name := b_Item; td_fields := [] |} ].
Lemma parent_prefix_refuted_exists : exists s root parent_chains child_chains,
  forallb (chain_typed s root) (parent_chains ++ child_chains) = true /\
  prefix_b (collector_path s root parent_chains) (collector_path s root child_chains) = false.
Proof. exists ex_schema3, b_Query, [[AOther; AField None b_maybe]], [[AOther]]. vm_compute. split; reflexivity. Qed.

(* ---- several selection sets: the checker and the model = specification statement lift ---- *)
Lemma desc_paths_ok_sound : forall s root chains impl,
  desc_paths_ok_b s root chains impl = true <-> impl = spec_collector_path s root chains.
Proof. intros. unfold desc_paths_ok_b. apply path_eqb_eq. Qed.

Lemma fold_ext : forall (f g : list anc -> list bytes) r acc,
  (forall c, In c r -> f c = g c) ->
  fold_left (fun a c => common_prefix a (f c)) r acc = fold_left (fun a c => common_prefix a (g c)) r acc.
Proof.
  intros f g r. induction r as [|c r IH]; intros acc H; simpl; auto.
  rewrite (H c) by (left; reflexivity). apply IH. intros c' Hc. apply H. right. exact Hc.
Qed.

Lemma collector_truncated_partial : forall s root chains,
  (forall c, In c chains -> chain_typed s root c = true /\ no_narrowing s root c = true) ->
  collector_path s root chains = spec_collector_path s root chains.
Proof.
  intros s root [|c r] H; simpl; auto.
  assert (E : forall c', In c' (c :: r) -> defer_path s root c' = spec_path s root c').
  { intros c' Hc. destruct (H c' Hc) as [Ht Hn]. apply (truncated_partial s root c' Ht Hn). }
  rewrite (E c) by (left; reflexivity).
  apply fold_ext. intros c' Hc. apply E. right. exact Hc.
Qed.
