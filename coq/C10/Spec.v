(* C10 specification.
   1. [stream_ok_b]: the pending/completed protocol of the incremental stream as a boolean checker
      on frame summaries (run by the driver on the frames the real engine wrote).
   2. [defer_plan_wf]: what the planner / post-processor guarantee about a deferred plan: the
      descriptors form a forest with parents older than children, every descriptor has a fetch
      group and the Sequence/Parallel shape of the DeferTree is the ParentID relation
      (build_defer_tree.go), the defer ids of nested fields respect the ParentID chain, and every
      descriptor path is a prefix of the position of its fields (defer_info_collector.go).
   3. The reconstruction semantics: the completed response annotated with defer ids, its layers
      (what the initial frame and each incremental item must carry), the client-side merge at
      path ++ subPath, and equality of JSON trees up to member order. *)
From Coq Require Import ZArith.
From Gv Require Import lib.Bytes lib.Json C02.Model C02.Spec C10.Model.
Open Scope N_scope.

(* ---------------------------------------------------------------- 1. the stream protocol *)
Fixpoint nodup_N (l : list N) : bool :=
  match l with [] => true | x :: r => negb (mem_N x r) && nodup_N r end.
Definition subset_N (a b : list N) : bool := forallb (fun x => mem_N x b) a.

(* [ann] / [comp]: ids announced / completed by the frames before the current one *)
Fixpoint stream_scan (fs : list fsum) (ann comp : list N) : bool :=
  match fs with
  | [] => subset_N ann comp
  | f :: r =>
    let is_last := match r with [] => true | _ => false end in
    forallb (fun c => mem_N c ann && negb (mem_N c comp)) (f_completed f) && nodup_N (f_completed f) &&
    forallb (fun i => mem_N i ann && negb (mem_N i comp)) (f_incr f) &&
    forallb (fun p => negb (mem_N p ann)) (f_pending f) && nodup_N (f_pending f) &&
    Bool.eqb (f_hasnext f) (negb is_last) &&
    stream_scan r (ann ++ f_pending f) (comp ++ f_completed f)
  end.

Definition stream_ok_b (fs : list fsum) : bool :=
  match fs with
  | [] => false
  | f0 :: _ =>
    match f_incr f0, f_completed f0 with
    | [], [] => stream_scan fs [] []
    | _, _ => false
    end
  end.

(* Reading of [stream_scan fs ann comp] for the frame list fs = f0 :: f1 :: ... (ann / comp = the ids
   announced / completed by earlier frames):
   - every id completed by a frame was announced by an EARLIER frame and not completed before
     (so: completed after its announcement, exactly once; nothing completed for an unannounced id);
   - every incremental item belongs to an id announced by an earlier frame and not completed by an
     earlier frame (nothing delivered for an unannounced or finished id);
   - every id announced by a frame is new (announced at most once);
   - hasNext is true on every frame but the last and false on the last;
   - at the end every announced id has been completed.
   [stream_ok_b] additionally asks for at least one frame whose first frame delivers / completes nothing. *)

(* ---------------------------------------------------------------- 2. plan well-formedness *)
Definition children_ids (descs : list ddesc) (p : N) : list N :=
  map dd_id (filter (fun d => dd_parent d =? p) descs).

Fixpoint sorted_N (l : list N) : bool :=
  match l with
  | [] => true
  | x :: r => match r with [] => true | y :: _ => (x <? y) && sorted_N r end
  end.

(* ids positive, strictly increasing (so unique), parents older than children and known *)
Definition descs_wf (descs : list ddesc) : bool :=
  sorted_N (map dd_id descs) &&
  forallb (fun d => (0 <? dd_id d) && (dd_parent d <? dd_id d) &&
                    ((dd_parent d =? 0) || mem_N (dd_parent d) (map dd_id descs))) descs.

(* buildChain / buildDeferTree: a group without children is a Single; a group with children is
   Sequence(Single, subtree) where the subtree is the chain of the only child or the Parallel of
   the children's chains, in id order.  [fuel] bounds the nesting depth. *)
Fixpoint chain_ok (fuel : nat) (descs : list ddesc) (t : dtree) : bool :=
  match fuel with
  | O => false
  | S f =>
    match t with
    | TSingle g => match children_ids descs g with [] => true | _ => false end
    | TSeq [TSingle g; sub] =>
      match children_ids descs g with
      | [] => false
      | [c] => (match top_id sub with Some c' => c =? c' | None => false end) && chain_ok f descs sub
      | cs =>
        match sub with
        | TPar l =>
          (fix go (cs : list N) (l : list dtree) : bool :=
             match cs, l with
             | [], [] => true
             | c :: cs', t :: l' =>
               (match top_id t with Some c' => c =? c' | None => false end) && chain_ok f descs t && go cs' l'
             | _, _ => false
             end) cs l
        | _ => false
        end
      end
    | _ => false
    end
  end.

(* the whole DeferTree against the top-level descriptors; None = no deferred group at all *)
Definition shape_ok (descs : list ddesc) (tree : option dtree) : bool :=
  let fuel := S (length descs) in
  match children_ids descs 0, tree with
  | [], None => true
  | [c], Some t => (match top_id t with Some c' => c =? c' | None => false end) && chain_ok fuel descs t
  | (_ :: _ :: _) as cs, Some (TPar l) =>
    (fix go (cs : list N) (l : list dtree) : bool :=
       match cs, l with
       | [], [] => true
       | c :: cs', t :: l' =>
         (match top_id t with Some c' => c =? c' | None => false end) && chain_ok fuel descs t && go cs' l'
       | _, _ => false
       end) cs l
  | _, _ => false
  end.

(* defer ids of nested fields ([stack] = the marks of all enclosing fields, innermost first): a
   field without a mark sits only under fields without a mark; a field marked c sits only under
   fields marked c or marked with a proper ancestor of c (lexical nesting of the fragments) *)
Definition scope_field_ok (descs : list ddesc) (stack : list N) (df : option N) : bool :=
  match df with
  | None => match stack with [] => true | _ => false end
  | Some c =>
    mem_N c (map dd_id descs) &&
    forallb (fun e => (c =? e) || is_ancestor descs e (parent_of descs c)) stack
  end.

Definition opt_N_eqb (a b : option N) : bool :=
  match a, b with
  | None, None => true
  | Some x, Some y => x =? y
  | _, _ => false
  end.

Definition push_mark (df : option N) (stack : list N) : list N :=
  match df with Some c => c :: stack | None => stack end.

Fixpoint scope_ok (descs : list ddesc) (stack : list N) (n : dnode) : bool :=
  match n with
  | DLeaf l => is_leaf_node l
  | DArr _ _ item => scope_ok descs stack item
  | DObj _ _ _ _ fields =>
    (fix go (fs : list dfield) : bool :=
       match fs with
       | [] => true
       | DFld _ _ _ df v :: r =>
         scope_field_ok descs stack df && scope_ok descs (push_mark df stack) v && go r
       end) fields
  end.

(* response keys: distinct within an object, plain, and equal to the data key of an object or
   list valued field (the planner sends aliases upstream) *)
Fixpoint names_nodup (l : list bytes) : bool :=
  match l with [] => true | x :: r => negb (mem_bytes x r) && names_nodup r end.
Fixpoint names_ok (n : dnode) : bool :=
  match n with
  | DLeaf _ => true
  | DArr _ _ item => match item with DLeaf _ => true | DObj p _ _ _ _ | DArr p _ _ => match p with [] => true | _ => false end end
                     && names_ok item
  | DObj _ _ _ _ fields =>
    names_nodup (map (fun f => match f with DFld nm _ _ _ _ => nm end) fields) &&
    (fix go (fs : list dfield) : bool :=
       match fs with
       | [] => true
       | DFld nm _ _ _ v :: r =>
         (match v with
          | DLeaf _ => true
          | DObj p _ _ _ _ | DArr p _ _ => match p with [k] => bytes_eqb k nm | _ => false end
          end) && names_ok v && go r
       end) fields
  end.

(* a descriptor path is a prefix of the named position of every object that holds one of its
   fields, and does not reach below the outermost list on the way (defer_info_collector.go:
   deferPath) *)
Fixpoint is_prefix (a b : list bytes) : bool :=
  match a, b with
  | [], _ => true
  | x :: a', y :: b' => bytes_eqb x y && is_prefix a' b'
  | _, _ => false
  end.
(* [names]: field names from the root to the current object; [cut]: Some k when the outermost list
   was met after k names *)
Fixpoint paths_ok (descs : list ddesc) (names : list bytes) (cut : option nat) (n : dnode) : bool :=
  match n with
  | DLeaf _ => true
  | DArr p _ item =>
    paths_ok descs (names ++ p) (match cut with Some k => Some k | None => Some (length (names ++ p)) end) item
  | DObj p _ _ _ fields =>
    let here := names ++ p in
    (fix go (fs : list dfield) : bool :=
       match fs with
       | [] => true
       | DFld _ _ _ df v :: r =>
         (match df with
          | None => true
          | Some c =>
            match find_desc descs c with
            | Some d => is_prefix (dd_path d) here &&
                        match cut with Some k => Nat.leb (length (dd_path d)) k | None => true end
            | None => false
            end
          end) && paths_ok descs here cut v && go r
       end) fields
  end.

Definition group_ids_nodup (tree : option dtree) : bool :=
  match tree with
  | None => true
  | Some t =>
    nodup_N ((fix ids (t : dtree) : list N :=
                match t with
                | TSingle g => [g]
                | TSeq l | TPar l => (fix go (l : list dtree) : list N :=
                                        match l with [] => [] | c :: r => ids c ++ go r end) l
                end) t)
  end.

Definition root_ok (root : dnode) : bool :=
  match root with DObj [] false _ [] _ => true | _ => false end.

Definition defer_plan_wf (descs : list ddesc) (root : dnode) (tree : option dtree) : bool :=
  descs_wf descs && shape_ok descs tree && group_ids_nodup tree &&
  root_ok root && scope_ok descs [] root && paths_ok descs [] None root && names_ok root.

(* ---------------------------------------------------------------- 3. reconstruction *)
(* JSON trees up to the order of object members (the merge appends deferred members after the
   initial ones; a response object has no duplicate keys) *)
Fixpoint keys_nodup (m : list (bytes * json)) : bool :=
  match m with
  | [] => true
  | (k, _) :: r => (match obj_get k r with None => true | Some _ => false end) && keys_nodup r
  end.

Fixpoint jequiv_b (a b : json) {struct a} : bool :=
  match a, b with
  | JNull, JNull => true
  | JBool x, JBool y => Bool.eqb x y
  | JNum x, JNum y => bytes_eqb x y
  | JStr x, JStr y => bytes_eqb x y
  | JArr x, JArr y =>
    (fix go (x y : list json) : bool :=
       match x, y with
       | [], [] => true
       | a :: x', b :: y' => jequiv_b a b && go x' y'
       | _, _ => false
       end) x y
  | JObj x, JObj y =>
    (* identical members (a custom scalar may hold any JSON, duplicate keys included) or the same
       duplicate-free member set *)
    json_eqb (JObj x) (JObj y) ||
    Nat.eqb (length x) (length y) && keys_nodup x && keys_nodup y &&
    (fix go (x : list (bytes * json)) : bool :=
       match x with
       | [] => true
       | (k, v) :: x' => (match obj_get k y with Some w => jequiv_b v w | None => false end) && go x'
       end) x
  | _, _ => false
  end.

(* navigation by a runtime path: names index objects, numbers index lists *)
Fixpoint set_nth (i : nat) (v : json) (l : list json) : list json :=
  match l, i with
  | [], _ => []
  | _ :: r, O => v :: r
  | x :: r, S i' => x :: set_nth i' v r
  end.

(* add the members of an incremental item to the object at [p]; None = the path addresses no object *)
Fixpoint merge_at (p : rpath) (ms : list (bytes * json)) (t : json) : option json :=
  match p with
  | [] => match t with JObj m => Some (JObj (m ++ ms)) | _ => None end
  | PName k :: r =>
    match t with
    | JObj m => match obj_get k m with
                | Some c => match merge_at r ms c with Some c' => Some (JObj (obj_set k c' m)) | None => None end
                | None => None
                end
    | _ => None
    end
  | PIdx i :: r =>
    match t with
    | JArr l => match nth_error l (N.to_nat i) with
                | Some c => match merge_at r ms c with Some c' => Some (JArr (set_nth (N.to_nat i) c' l)) | None => None end
                | None => None
                end
    | _ => None
    end
  end.

(* what the client does with one item: path of the pending entry ++ subPath *)
Definition client_path (d : ddesc) (i : item) : rpath :=
  map PName (dd_path d) ++ sub_path (dd_path d) (it_path i).

Definition apply_items (d : ddesc) (items : list item) (t : option json) : option json :=
  fold_left (fun acc i => match acc with Some t => merge_at (client_path d i) (it_members i) t | None => None end) items t.

(* ---------------------------------------------------------------- 4. the renderer on data that needs no completion
   What resolvable.go prints in defer mode when the completion semantics reports no error
   ([clean_b]): no mutation, no error, no null bubbling; the initial frame carries the fields
   without a mark, an item of defer d carries the fields marked d of one object, found by seeking
   through unmarked fields and fields of the ancestors of d.  These functions are tied to the
   implementation by the same frame correspondence as the full model (driver: corr:C10/clean) and
   are what the reconstruction theorems talk about. *)
Definition clean_b (root : dnode) (data : json) : bool :=
  match complete_root (fun _ _ => false) (erase root) data with
  | (Some _, []) => true
  | _ => false
  end.

(* the completed value restricted to the fields whose mark satisfies [keep] *)
Fixpoint proj (keep : option N -> bool) (n : dnode) (parent : json) (tns : list (option bytes)) : json :=
  match n with
  | DLeaf l => match leaf_render l parent [] with (Some v, _) => v | (None, _) => JNull end
  | DArr p _ item =>
    match get_path p parent with
    | Some (JArr items) => JArr (map (fun it => proj keep item it tns) items)
    | _ => JNull
    end
  | DObj p _ _ _ fields =>
    match get_path p parent with
    | Some (JObj m) =>
      let value := JObj m in
      let tns' := typename_of value :: tns in
      JObj ((fix go (fs : list dfield) : list (bytes * json) :=
               match fs with
               | [] => []
               | DFld name on pon df child :: r =>
                 if skip_field on pon tns' then go r
                 else if keep df then (name, proj keep child value tns') :: go r
                 else go r
               end) fields)
    | _ => JNull
    end
  end.

Definition keep_layer (L : option N) (df : option N) : bool := opt_N_eqb df L.
Definition keep_all (_ : option N) : bool := true.

Section CleanRender.
  Variable descs : list ddesc.

  (* the items of defer d below node n, with paths relative to the value of n *)
  Fixpoint r_items (d : ddesc) (n : dnode) (parent : json) (tns : list (option bytes)) : list (rpath * list (bytes * json)) :=
    match n with
    | DLeaf _ => []
    | DArr p _ item =>
      match get_path p parent with
      | Some (JArr items) =>
        (fix loop (items : list json) (i : N) : list (rpath * list (bytes * json)) :=
           match items with
           | [] => []
           | it :: rest => map (fun x => (PIdx i :: fst x, snd x)) (r_items d item it tns) ++ loop rest (i + 1)
           end) items 0
      | _ => []
      end
    | DObj p _ _ _ fields =>
      match get_path p parent with
      | Some (JObj m) =>
        let value := JObj m in
        let tns' := typename_of value :: tns in
        let here :=
          (fix go (fs : list dfield) : list (bytes * json) :=
             match fs with
             | [] => []
             | DFld name on pon df child :: r =>
               if skip_field on pon tns' then go r
               else if keep_layer (Some (dd_id d)) df then (name, proj (keep_layer (Some (dd_id d))) child value tns') :: go r
               else go r
             end) fields in
        let deeper :=
          (fix go (fs : list dfield) : list (rpath * list (bytes * json)) :=
             match fs with
             | [] => []
             | DFld name on pon df child :: r =>
               if skip_field on pon tns' then go r
               else if fclass_eqb (classify descs (Some d) df child) FSeek
                    then map (fun x => (map PName (match child with DObj cp _ _ _ _ | DArr cp _ _ => cp | DLeaf _ => [] end) ++ fst x, snd x))
                             (r_items d child value tns') ++ go r
                    else go r
             end) fields in
        (match here with [] => [] | ms => [([], ms)] end) ++ deeper
      | _ => []
      end
    end.

  Definition c_items (d : ddesc) (root : dnode) (data : json) : list item :=
    map (fun x => {| it_path := fst x; it_members := snd x; it_errs := [] |}) (r_items d root data []).

  Definition c_initial (root : dnode) (data : json) : frame :=
    let live := live_children descs 0 data in
    {| fr_json := JObj ([(k_data, proj (keep_layer None) root data [])] ++ pending_members live
                          ++ [(k_hasnext, JBool (nonempty live))]);
       fr_sum := {| f_pending := map dd_id live; f_incr := []; f_completed := []; f_hasnext := nonempty live |};
       fr_torn := false |}.

  Definition c_batch (root : dnode) (data : json) (d : ddesc) (outstanding : Z) : frame * list ddesc * Z :=
    let items := c_items d root data in
    let live := live_children descs (dd_id d) data in
    let o' := (outstanding + Z.of_nat (length live) - 1)%Z in
    let hn := negb (o' =? 0)%Z in
    ({| fr_json := JObj ([(k_incremental, JArr (map (item_json d) items))]
                           ++ [(k_completed, JArr [JObj [(k_id, JStr (dec_of_N (dd_id d)))]])]
                           ++ pending_members live ++ [(k_hasnext, JBool hn)]);
        fr_sum := {| f_pending := map dd_id live; f_incr := map (fun _ => dd_id d) items;
                     f_completed := [dd_id d]; f_hasnext := hn |};
        fr_torn := false |}, live, o').

  (* the frames of a delivery order (descriptors in the order their groups render) *)
  Fixpoint c_frames (root : dnode) (data : json) (order : list ddesc) (o : Z) : list frame :=
    match order with
    | [] => []
    | d :: r => let '(f, _, o') := c_batch root data d o in f :: c_frames root data r o'
    end.
  Definition c_stream (root : dnode) (data : json) (order : list ddesc) : list frame :=
    c_initial root data :: c_frames root data order (Z.of_nat (length (live_children descs 0 data))).

  (* the client: initial data, then every item merged at the position the frame says *)
  Definition merge_layer (d : ddesc) (root : dnode) (data : json) (t : option json) : option json :=
    apply_items d (c_items d root data) t.
  Definition client_result (root : dnode) (data : json) (order : list ddesc) : option json :=
    fold_left (fun acc d => merge_layer d root data acc) order (Some (proj (keep_layer None) root data [])).
End CleanRender.

(* ---------------------------------------------------------------- 5. data that needs no completion at all
   [strict_clean]: every position the plan reads holds a value of the right kind, no null sits in
   a non-null position, every typename is a possible type.  On such data the completion
   semantics of the erased plan reports no error and returns the plain projection
   (ProofsClean: complete_of_strict_clean). *)
Definition scalar_ok (p : list bytes) (nl : bool) (accept : json -> bool) (parent : json) : bool :=
  match get_path p parent with
  | None | Some JNull => nl
  | Some x => accept x
  end.
Definition leaf_ok (l : node) (parent : json) : bool :=
  match l with
  | NNull | NStatic _ | NEmptyObj | NEmptyArr => true
  | NStr p nl => scalar_ok p nl is_jstr parent
  | NBool p nl => scalar_ok p nl is_jbool parent
  | NInt p nl => scalar_ok p nl is_jnum parent
  | NFloat p nl => scalar_ok p nl is_jnum parent
  | NBigInt p nl => scalar_ok p nl (fun _ => true) parent
  | NScalar p nl => scalar_ok p nl (fun _ => true) parent
  | NEnum p nl _ values inacc =>
    match get_path p parent with
    | None | Some JNull => nl
    | Some (JStr s) => mem_bytes s values && negb (mem_bytes s inacc)
    | Some _ => false
    end
  | _ => false
  end.

Fixpoint strict_clean (n : dnode) (parent : json) (tns : list (option bytes)) : bool :=
  match n with
  | DLeaf l => leaf_ok l parent
  | DArr p nl item =>
    match get_path p parent with
    | None | Some JNull => nl
    | Some (JArr items) => forallb (fun it => strict_clean item it tns) items
    | Some _ => false
    end
  | DObj p nl ty poss fields =>
    match get_path p parent with
    | None | Some JNull => nl
    | Some (JObj m) =>
      let value := JObj m in
      let tns' := typename_of value :: tns in
      negb (C10.Model.tn_bad ty poss (typename_of value)) &&
      (fix go (fs : list dfield) : bool :=
         match fs with
         | [] => true
         | DFld _ on pon _ child :: r =>
           (if skip_field on pon tns' then true else strict_clean child value tns') && go r
         end) fields
    | Some _ => false
    end
  end.

(* the errors one batch collects (pre-walk, then print walk unless the pre-walk found no deliverable data) *)
Definition batch_errors (descs : list ddesc) (root : dnode) (data : json) (d : ddesc) : list gerr :=
  let '(data1, _, _, st1) := dwalk descs (Some d) root data [] [] false false (wst0 []) in
  if ws_null st1 then ws_errs st1
  else let '(_, _, _, st2) := dwalk descs (Some d) root data1 [] [] true false (wst0 (ws_errs st1)) in ws_errs st2.
(* hasError of the pre-walk of the initial frame: "data":null is printed *)
Definition initial_failed (descs : list ddesc) (root : dnode) (data : json) : bool :=
  let '(_, s1, _, _) := dwalk descs None root data [] [] false false (wst0 []) in
  match s1 with WOk => false | _ => true end.

(* ---------------------------------------------------------------- 1b. Flush boundaries
   What the response writer is handed by each Flush call (the frames written between two Flush calls):
   exactly one frame per Flush -- never nothing, never two -- and no Flush after the frame that says
   hasNext:false (the final frame). *)
Fixpoint flushes_scan (fl : list (list fsum)) (final_seen : bool) : bool :=
  match fl with
  | [] => true
  | [f] :: r => negb final_seen && flushes_scan r (negb (f_hasnext f))
  | _ :: _ => false
  end.
Definition flushes_ok_b (fl : list (list fsum)) : bool := flushes_scan fl false.
