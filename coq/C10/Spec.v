(* C10 specification.
   1. [stream_ok_b]: the pending/completed protocol of the incremental stream as a boolean checker
      on frame summaries (run by the driver on the frames the real engine wrote), and its reading
      as a proposition [stream_ok] (ProofsStream: the checker implies the proposition).
   2. [defer_plan_wf]: what the planner / post-processor guarantee about a deferred plan: the
      descriptors form a forest with parents older than children, every descriptor has a fetch
      group and the Sequence/Parallel shape of the DeferTree is the ParentID relation
      (build_defer_tree.go), the defer ids of nested fields respect the ParentID chain, and every
      descriptor path is a prefix of the position of its fields (defer_info_collector.go).
   3. The reconstruction semantics: the completed response annotated with defer ids, its layers
      (what the initial frame and each incremental item must carry), the client-side merge at
      path ++ subPath, and equality of JSON trees up to member order. *)
From Coq Require Import ZArith.
From Gv Require Import lib.Bytes lib.Json C02.Model C10.Model.
Open Scope N_scope.

(* ---------------------------------------------------------------- 1. the stream protocol *)
Fixpoint nodup_N (l : list N) : bool :=
  match l with [] => true | x :: r => negb (mem_N x r) && nodup_N r end.
Definition subset_N (a b : list N) : bool := forallb (fun x => mem_N x b) a.

(* [ann] / [comp]: ids announced / completed by the frames before the current one *)
Fixpoint stream_scan (fs : list fsum) (ann comp : list N) : bool :=
  match fs with
  | [] => subset_N ann comp
  | f :: r =>
    let is_last := match r with [] => true | _ => false end in
    forallb (fun c => mem_N c ann && negb (mem_N c comp)) (f_completed f) && nodup_N (f_completed f) &&
    forallb (fun i => mem_N i ann && negb (mem_N i comp)) (f_incr f) &&
    forallb (fun p => negb (mem_N p ann)) (f_pending f) && nodup_N (f_pending f) &&
    Bool.eqb (f_hasnext f) (negb is_last) &&
    stream_scan r (ann ++ f_pending f) (comp ++ f_completed f)
  end.

Definition stream_ok_b (fs : list fsum) : bool :=
  match fs with
  | [] => false
  | f0 :: _ =>
    match f_incr f0, f_completed f0 with
    | [], [] => stream_scan fs [] []
    | _, _ => false
    end
  end.

(* the same, as a proposition about frame positions *)
Definition pending_at (fs : list fsum) (i : nat) (id : N) : Prop :=
  exists f, nth_error fs i = Some f /\ In id (f_pending f).
Definition completed_at (fs : list fsum) (i : nat) (id : N) : Prop :=
  exists f, nth_error fs i = Some f /\ In id (f_completed f).
Definition delivered_at (fs : list fsum) (i : nat) (id : N) : Prop :=
  exists f, nth_error fs i = Some f /\ In id (f_incr f).

Record stream_ok (fs : list fsum) : Prop := {
  (* the stream is not empty and ends: it is a finite list whose last frame says hasNext:false *)
  so_nonempty : fs <> [];
  (* every id announced as pending is completed, in a later frame *)
  so_completed : forall i id, pending_at fs i id -> exists j, (i < j)%nat /\ completed_at fs j id;
  (* ... and only once *)
  so_once : forall j1 j2 id, completed_at fs j1 id -> completed_at fs j2 id -> j1 = j2;
  so_once_frame : forall j f, nth_error fs j = Some f -> NoDup (f_completed f);
  (* an id is announced at most once *)
  so_announced_once : forall i1 i2 id, pending_at fs i1 id -> pending_at fs i2 id -> i1 = i2;
  (* nothing is completed or delivered for an id that was not announced before *)
  so_completed_announced : forall j id, completed_at fs j id -> exists i, (i < j)%nat /\ pending_at fs i id;
  so_delivered_announced : forall j id, delivered_at fs j id -> exists i, (i < j)%nat /\ pending_at fs i id;
  (* nothing is delivered after its id was completed *)
  so_delivered_open : forall j j' id, delivered_at fs j id -> completed_at fs j' id -> (j <= j')%nat;
  (* hasNext is false on the last frame and only there *)
  so_hasnext : forall i f, nth_error fs i = Some f -> (f_hasnext f = false <-> S i = length fs)
}.

(* ---------------------------------------------------------------- 2. plan well-formedness *)
Definition children_ids (descs : list ddesc) (p : N) : list N :=
  map dd_id (filter (fun d => dd_parent d =? p) descs).

Fixpoint sorted_N (l : list N) : bool :=
  match l with
  | [] => true
  | x :: r => match r with [] => true | y :: _ => (x <? y) && sorted_N r end
  end.

(* ids positive, strictly increasing (so unique), parents older than children and known *)
Definition descs_wf (descs : list ddesc) : bool :=
  sorted_N (map dd_id descs) &&
  forallb (fun d => (0 <? dd_id d) && (dd_parent d <? dd_id d) &&
                    ((dd_parent d =? 0) || mem_N (dd_parent d) (map dd_id descs))) descs.

(* buildChain / buildDeferTree: a group without children is a Single; a group with children is
   Sequence(Single, subtree) where the subtree is the chain of the only child or the Parallel of
   the children's chains, in id order.  [fuel] bounds the nesting depth. *)
Fixpoint chain_ok (fuel : nat) (descs : list ddesc) (t : dtree) : bool :=
  match fuel with
  | O => false
  | S f =>
    match t with
    | TSingle g => match children_ids descs g with [] => true | _ => false end
    | TSeq [TSingle g; sub] =>
      match children_ids descs g with
      | [] => false
      | [c] => (match top_id sub with Some c' => c =? c' | None => false end) && chain_ok f descs sub
      | cs =>
        match sub with
        | TPar l =>
          (fix go (cs : list N) (l : list dtree) : bool :=
             match cs, l with
             | [], [] => true
             | c :: cs', t :: l' =>
               (match top_id t with Some c' => c =? c' | None => false end) && chain_ok f descs t && go cs' l'
             | _, _ => false
             end) cs l
        | _ => false
        end
      end
    | _ => false
    end
  end.

(* the whole DeferTree against the top-level descriptors; None = no deferred group at all *)
Definition shape_ok (descs : list ddesc) (tree : option dtree) : bool :=
  let fuel := S (length descs) in
  match children_ids descs 0, tree with
  | [], None => true
  | [c], Some t => (match top_id t with Some c' => c =? c' | None => false end) && chain_ok fuel descs t
  | (_ :: _ :: _) as cs, Some (TPar l) =>
    (fix go (cs : list N) (l : list dtree) : bool :=
       match cs, l with
       | [], [] => true
       | c :: cs', t :: l' =>
         (match top_id t with Some c' => c =? c' | None => false end) && chain_ok fuel descs t && go cs' l'
       | _, _ => false
       end) cs l
  | _, _ => false
  end.

(* defer ids of nested fields: a field without a mark sits only under fields without a mark; a
   field marked c sits under fields marked c or marked with a proper ancestor of c
   ([ctx] = the mark of the nearest enclosing field) *)
Definition scope_field_ok (descs : list ddesc) (ctx df : option N) : bool :=
  match df with
  | None => match ctx with None => true | Some _ => false end
  | Some c =>
    mem_N c (map dd_id descs) &&
    match ctx with
    | None => true
    | Some e => (c =? e) || is_ancestor descs e (parent_of descs c)
    end
  end.

Definition opt_N_eqb (a b : option N) : bool :=
  match a, b with
  | None, None => true
  | Some x, Some y => x =? y
  | _, _ => false
  end.

(* [frozen]: inside the items of a list of lists no field may open or join another defer (the
   pass-through seek of the renderer does not enter nested lists: fieldNodeKindAllowsSeek) *)
Fixpoint scope_ok (descs : list ddesc) (ctx : option N) (frozen : bool) (n : dnode) : bool :=
  match n with
  | DLeaf l => is_leaf_node l
  | DArr _ _ item => scope_ok descs ctx (frozen || match item with DArr _ _ _ => true | _ => false end) item
  | DObj _ _ _ _ fields =>
    (fix go (fs : list dfield) : bool :=
       match fs with
       | [] => true
       | DFld _ _ _ df v :: r =>
         (if frozen then opt_N_eqb df ctx else scope_field_ok descs ctx df) && scope_ok descs df frozen v && go r
       end) fields
  end.

(* a descriptor path is a prefix of the named position of every object that holds one of its
   fields, and does not reach below the outermost list on the way (defer_info_collector.go:
   deferPath) *)
Fixpoint is_prefix (a b : list bytes) : bool :=
  match a, b with
  | [], _ => true
  | x :: a', y :: b' => bytes_eqb x y && is_prefix a' b'
  | _, _ => false
  end.
(* [names]: field names from the root to the current object; [cut]: Some k when the outermost list
   was met after k names *)
Fixpoint paths_ok (descs : list ddesc) (names : list bytes) (cut : option nat) (n : dnode) : bool :=
  match n with
  | DLeaf _ => true
  | DArr p _ item =>
    paths_ok descs (names ++ p) (match cut with Some k => Some k | None => Some (length (names ++ p)) end) item
  | DObj p _ _ _ fields =>
    let here := names ++ p in
    (fix go (fs : list dfield) : bool :=
       match fs with
       | [] => true
       | DFld _ _ _ df v :: r =>
         (match df with
          | None => true
          | Some c =>
            match find_desc descs c with
            | Some d => is_prefix (dd_path d) here &&
                        match cut with Some k => Nat.leb (length (dd_path d)) k | None => true end
            | None => false
            end
          end) && paths_ok descs here cut v && go r
       end) fields
  end.

Definition group_ids_nodup (tree : option dtree) : bool :=
  match tree with
  | None => true
  | Some t =>
    nodup_N ((fix ids (t : dtree) : list N :=
                match t with
                | TSingle g => [g]
                | TSeq l | TPar l => (fix go (l : list dtree) : list N :=
                                        match l with [] => [] | c :: r => ids c ++ go r end) l
                end) t)
  end.

Definition root_ok (root : dnode) : bool :=
  match root with DObj [] false _ [] _ => true | _ => false end.

Definition defer_plan_wf (descs : list ddesc) (root : dnode) (tree : option dtree) : bool :=
  descs_wf descs && shape_ok descs tree && group_ids_nodup tree &&
  root_ok root && scope_ok descs None false root && paths_ok descs [] None root.

(* ---------------------------------------------------------------- 3. reconstruction *)
(* JSON trees up to the order of object members (the merge appends deferred members after the
   initial ones; a response object has no duplicate keys) *)
Fixpoint keys_nodup (m : list (bytes * json)) : bool :=
  match m with
  | [] => true
  | (k, _) :: r => (match obj_get k r with None => true | Some _ => false end) && keys_nodup r
  end.

Fixpoint jequiv_b (a b : json) {struct a} : bool :=
  match a, b with
  | JNull, JNull => true
  | JBool x, JBool y => Bool.eqb x y
  | JNum x, JNum y => bytes_eqb x y
  | JStr x, JStr y => bytes_eqb x y
  | JArr x, JArr y =>
    (fix go (x y : list json) : bool :=
       match x, y with
       | [], [] => true
       | a :: x', b :: y' => jequiv_b a b && go x' y'
       | _, _ => false
       end) x y
  | JObj x, JObj y =>
    (* identical members (a custom scalar may hold any JSON, duplicate keys included) or the same
       duplicate-free member set *)
    json_eqb (JObj x) (JObj y) ||
    Nat.eqb (length x) (length y) && keys_nodup x && keys_nodup y &&
    (fix go (x : list (bytes * json)) : bool :=
       match x with
       | [] => true
       | (k, v) :: x' => (match obj_get k y with Some w => jequiv_b v w | None => false end) && go x'
       end) x
  | _, _ => false
  end.

(* navigation by a runtime path: names index objects, numbers index lists *)
Fixpoint set_nth (i : nat) (v : json) (l : list json) : list json :=
  match l, i with
  | [], _ => []
  | _ :: r, O => v :: r
  | x :: r, S i' => x :: set_nth i' v r
  end.

(* add the members of an incremental item to the object at [p]; None = the path addresses no object *)
Fixpoint merge_at (p : rpath) (ms : list (bytes * json)) (t : json) : option json :=
  match p with
  | [] => match t with JObj m => Some (JObj (m ++ ms)) | _ => None end
  | PName k :: r =>
    match t with
    | JObj m => match obj_get k m with
                | Some c => match merge_at r ms c with Some c' => Some (JObj (obj_set k c' m)) | None => None end
                | None => None
                end
    | _ => None
    end
  | PIdx i :: r =>
    match t with
    | JArr l => match nth_error l (N.to_nat i) with
                | Some c => match merge_at r ms c with Some c' => Some (JArr (set_nth (N.to_nat i) c' l)) | None => None end
                | None => None
                end
    | _ => None
    end
  end.

(* what the client does with one item: path of the pending entry ++ subPath *)
Definition client_path (d : ddesc) (i : item) : rpath :=
  map PName (dd_path d) ++ sub_path (dd_path d) (it_path i).

Definition apply_items (d : ddesc) (items : list item) (t : option json) : option json :=
  fold_left (fun acc i => match acc with Some t => merge_at (client_path d i) (it_members i) t | None => None end) items t.
