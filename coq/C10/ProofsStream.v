(* C10: stream_wellformed.  Every run of the defer-tree executor (any interleaving of "fetch phase
   of g finished" / "g renders and flushes" accepted by the transition system) over a plan that
   satisfies defer_plan_wf writes a frame sequence accepted by stream_ok_b.
   Invariant: outstanding = |announced \ completed| = number of ids the task tree still owes. *)
From Coq Require Import ZArith Lia ZifyN ZifyNat ZifyBool Permutation.
From Gv Require Import lib.Bytes lib.Json C02.Model C10.Model C10.Spec C10.ProofsBasic C10.ProofsTask.
Open Scope N_scope.

(* ---- scanning with accumulators; hasNext handled apart ---- *)
Definition frame_checks (f : fsum) (ann comp : list N) : bool :=
  forallb (fun c => mem_N c ann && negb (mem_N c comp)) (f_completed f) && nodup_N (f_completed f) &&
  forallb (fun i => mem_N i ann && negb (mem_N i comp)) (f_incr f) &&
  forallb (fun p => negb (mem_N p ann)) (f_pending f) && nodup_N (f_pending f).

Fixpoint scan_acc (fs : list fsum) (ann comp : list N) : option (list N * list N) :=
  match fs with
  | [] => Some (ann, comp)
  | f :: r => if frame_checks f ann comp then scan_acc r (ann ++ f_pending f) (comp ++ f_completed f) else None
  end.

(* every frame but the last says hasNext:true *)
Fixpoint init_true (fs : list fsum) : bool :=
  match fs with
  | [] => true
  | f :: r => match r with [] => true | _ => f_hasnext f && init_true r end
  end.
Fixpoint last_hn (fs : list fsum) : option bool :=
  match fs with
  | [] => None
  | f :: r => match r with [] => Some (f_hasnext f) | _ => last_hn r end
  end.

Lemma stream_scan_intro : forall fs a c a' c',
  scan_acc fs a c = Some (a', c') -> subset_N a' c' = true -> init_true fs = true ->
  last_hn fs = Some false -> stream_scan fs a c = true.
Proof.
  induction fs as [| f r IH]; intros a c a' c' Hs Hsub Hi Hl.
  - discriminate.
  - simpl in Hs. destruct (frame_checks f a c) eqn:Hc; [| discriminate].
    unfold frame_checks in Hc. simpl.
    destruct r as [| f2 r'].
    + simpl in Hs. inversion Hs; subst. simpl in Hl. inversion Hl as [Hn]. rewrite Hn.
      rewrite Hc. simpl. exact Hsub.
    + simpl in Hi. apply andb_true_iff in Hi. destruct Hi as [Hh Hi].
      rewrite Hc, Hh. simpl.
      eapply IH; eauto.
Qed.

Lemma scan_acc_app : forall fs f a c a' c',
  scan_acc fs a c = Some (a', c') ->
  scan_acc (fs ++ [f]) a c = if frame_checks f a' c' then Some (a' ++ f_pending f, c' ++ f_completed f) else None.
Proof.
  induction fs as [| x r IH]; intros f a c a' c' H; simpl in *.
  - inversion H; subst. destruct (frame_checks f a' c'); reflexivity.
  - destruct (frame_checks x a c); [| discriminate]. apply IH. exact H.
Qed.

Lemma init_true_app : forall fs f, fs <> [] ->
  init_true (fs ++ [f]) = init_true fs && match last_hn fs with Some b => b | None => true end.
Proof.
  induction fs as [| x r IH]; intros f Hne; [contradiction |].
  destruct r as [| y r'].
  - simpl. rewrite andb_true_r. reflexivity.
  - change ((x :: y :: r') ++ [f]) with (x :: (y :: r') ++ [f]).
    change (init_true (x :: (y :: r') ++ [f])) with
        (match (y :: r') ++ [f] with [] => true | _ => f_hasnext x && init_true ((y :: r') ++ [f]) end).
    simpl ((y :: r') ++ [f]). cbv iota.
    change (y :: r' ++ [f]) with ((y :: r') ++ [f]).
    rewrite IH by discriminate.
    change (init_true (x :: y :: r')) with (f_hasnext x && init_true (y :: r')).
    change (last_hn (x :: y :: r')) with (last_hn (y :: r')).
    rewrite andb_assoc. reflexivity.
Qed.

Lemma last_hn_app : forall fs f, last_hn (fs ++ [f]) = Some (f_hasnext f).
Proof.
  induction fs as [| x r IH]; intros f; [reflexivity |].
  change ((x :: r) ++ [f]) with (x :: (r ++ [f])).
  destruct (r ++ [f]) eqn:He.
  - destruct r; discriminate.
  - change (last_hn (x :: f0 :: l)) with (last_hn (f0 :: l)). rewrite <- He. apply IH.
Qed.

(* ---- permutations of duplicate-free lists ---- *)
Lemma filter_incl_perm : forall (l L : list N),
  NoDup l -> NoDup L -> incl L l -> Permutation (filter (fun x => mem_N x L) l) L.
Proof.
  intros l L Hl HL Hi.
  apply NoDup_Permutation.
  - apply NoDup_filter. exact Hl.
  - exact HL.
  - intros x. rewrite filter_In, mem_N_In. split; [tauto |]. intros Hx. split; [apply Hi; exact Hx | exact Hx].
Qed.

Ltac split4 := split; [| split; [| split]].

Section Stream.
  Variable descs : list ddesc.
  Variable root : dnode.
  Notation children := (children_ids descs).
  Hypothesis Hids : NoDup (map dd_id descs).
  Hypothesis Hpos : forall d, In d descs -> 0 < dd_id d.

  Lemma find_desc_In : forall g, In g (map dd_id descs) -> exists d, find_desc descs g = Some d /\ dd_id d = g /\ In d descs.
  Proof.
    intros g Hg. unfold find_desc. destruct (find (fun d => dd_id d =? g) descs) as [d |] eqn:Hf.
    - apply find_some in Hf. destruct Hf as [H1 H2]. apply N.eqb_eq in H2. eauto.
    - apply in_map_iff in Hg. destruct Hg as [d [Hd1 Hd2]].
      pose proof (find_none _ _ Hf d Hd2) as Hn. simpl in Hn. rewrite Hd1, N.eqb_refl in Hn. discriminate.
  Qed.

  Lemma find_desc_unique : forall d, In d descs -> find_desc descs (dd_id d) = Some d.
  Proof.
    intros d Hd. destruct (find_desc_In (dd_id d)) as [d' [H1 [H2 H3]]].
    { apply in_map. exact Hd. }
    rewrite H1. f_equal.
    clear H1. revert Hids Hd H2 H3. generalize descs. induction descs0 as [| x r IH]; simpl; intros Hn Hd H2 H3; [contradiction |].
    inversion Hn; subst.
    destruct Hd as [-> | Hd]; destruct H3 as [-> | H3]; auto.
    - exfalso. apply H1. rewrite <- H2. apply in_map. exact H3.
    - exfalso. apply H1. rewrite H2. apply in_map. exact Hd.
  Qed.

  Lemma children_In : forall g x, In x (children g) <-> exists d, In d descs /\ dd_id d = x /\ dd_parent d = g.
  Proof.
    intros. unfold children_ids. rewrite in_map_iff. split.
    - intros [d [H1 H2]]. apply filter_In in H2. destruct H2 as [H2 H3]. apply N.eqb_eq in H3. eauto.
    - intros [d [H1 [H2 H3]]]. exists d. split; [exact H2 |]. apply filter_In. split; [exact H1 | apply N.eqb_eq; exact H3].
  Qed.

  Lemma children_NoDup : forall g, NoDup (children g).
  Proof. intros. unfold children_ids. apply NoDup_map_filter. exact Hids. Qed.

  Lemma children_parent : forall g x, In x (children g) -> parent_of descs x = g /\ In x (map dd_id descs).
  Proof.
    intros g x H. apply children_In in H. destruct H as [d [H1 [H2 H3]]]. subst.
    unfold parent_of. rewrite (find_desc_unique d H1). split; [reflexivity | apply in_map; exact H1].
  Qed.

  (* ---- what a render does to the global state ---- *)
  Lemma do_render_facts : forall g G G' L,
    In g (map dd_id descs) -> do_render descs root g G = (G', L) ->
    exists f, g_frames G' = g_frames G ++ [f] /\
      f_pending (fr_sum f) = L /\ f_completed (fr_sum f) = [g] /\
      (forall x, In x (f_incr (fr_sum f)) -> x = g) /\
      f_hasnext (fr_sum f) = negb (g_outstanding G' =? 0)%Z /\
      g_outstanding G' = (g_outstanding G + Z.of_nat (length L) - 1)%Z /\
      incl L (children g) /\ NoDup L.
  Proof.
    intros g G G' L Hg. unfold do_render.
    destruct (find_desc_In g Hg) as [d [Hf [Hd Hin]]]. rewrite Hf.
    destruct (render_batch descs root (g_data G) d (g_outstanding G)) as [[[f data'] live] o'] eqn:Hr.
    intros H. inversion H; subst; clear H.
    destruct (render_batch_sum _ _ _ _ _ _ _ _ _ Hr) as [S1 [S2 [S3 [S4 [S5 [S6 _]]]]]].
    exists f. simpl. repeat split; auto.
    - rewrite S5, map_length. reflexivity.
    - intros x Hx. apply in_map_iff in Hx. destruct Hx as [d' [Hd1 Hd2]].
      destruct S6 as [S6 | S6]; rewrite S6 in Hd2; [| contradiction].
      apply live_children_In in Hd2. destruct Hd2 as [Hd2 Hd3]. apply children_In. exists d'. auto.
    - destruct S6 as [S6 | S6]; rewrite S6; [apply live_children_ids_NoDup; exact Hids | constructor].
  Qed.

  Definition render_ok (k : task) : Prop := forall g, In g (all_ids k) -> In g (map dd_id descs).

  Lemma top_id_in : forall t g, top_id t = Some g -> In g (tree_ids t).
  Proof.
    induction t using dtree_ind'; simpl; intros g0 Hg.
    - inversion Hg; subst. left. reflexivity.
    - destruct l as [| c r]; [discriminate |]. simpl. apply in_or_app. left.
      apply (Forall_inv H). exact Hg.
    - discriminate.
  Qed.
  Lemma tops_tree_ids : forall t, incl (tops t) (tree_ids t).
  Proof.
    induction t using dtree_ind'.
    - simpl. apply incl_refl.
    - change (tops (TSeq l)) with (match top_id (TSeq l) with Some g => [g] | None => [] end).
      destruct (top_id (TSeq l)) eqn:Ht; [| apply incl_nil_l].
      intros x [<- | []]. apply top_id_in. exact Ht.
    - simpl. induction l as [| c r IH]; simpl; [apply incl_refl |].
      apply incl_app_app; [apply (Forall_inv H) | apply IH; apply (Forall_inv_tail H)].
  Qed.
  Lemma tops_list_ids : forall l, incl (flat_map tops l) (flat_map tree_ids l).
  Proof.
    induction l as [| c r IH]; simpl; [apply incl_refl |]. apply incl_app_app; [apply tops_tree_ids | exact IH].
  Qed.

  Lemma owed_all_ids : forall k, incl (owed k) (all_ids k).
  Proof.
    induction k using task_ind'; simpl; try apply incl_refl.
    - apply incl_appl. exact IHk.
    - apply incl_app_app; [exact IHk |].
      intros x Hx. apply filter_In in Hx. apply tops_list_ids. tauto.
    - induction ts as [| t r IH]; simpl; [apply incl_refl |].
      apply incl_app_app; [apply (Forall_inv H) | apply IH; apply (Forall_inv_tail H)].
  Qed.

  Lemma owed_all_ids_list : forall ts, incl (flat_map owed ts) (flat_map all_ids ts).
  Proof.
    induction ts as [| t r IH]; simpl; [apply incl_refl |]. apply incl_app_app; [apply owed_all_ids | exact IH].
  Qed.

  Lemma done_owed : forall k, task_done k = true -> owed k = [].
  Proof.
    induction k using task_ind'; simpl; intros Hd; try discriminate; auto.
    induction ts as [| t r IH]; simpl in *; auto.
    apply andb_true_iff in Hd. destruct Hd as [H1 H2].
    rewrite (Forall_inv H H1). simpl. apply IH; [apply (Forall_inv_tail H) | exact H2].
  Qed.

  (* ---- one step of the executor ---- *)
  Lemma tstep_char : forall k a G k' G' fin,
    kwf descs k -> NoDup (all_ids k) -> render_ok k ->
    tstep descs root a k G = Some (k', G', fin) ->
    kwf descs k' /\ NoDup (all_ids k') /\ incl (all_ids k') (all_ids k) /\
    ( (G' = G /\ owed k' = owed k /\ task_done k' = false)
      \/ (exists g L, In g (owed k) /\ ~ In g (all_ids k') /\ do_render descs root g G = (G', L) /\
                      Permutation (g :: owed k') (owed k ++ L)) ).
  Proof.
    induction k using task_ind'; intros a G k' G' fin Hw Hnd Hok Hs.
    - (* KSingle *)
      simpl in Hs. destruct a as [g' | g']; [| discriminate].
      destruct (g =? g'); [| discriminate]. inversion Hs; subst; clear Hs.
      inversion Hw; subst.
      split; [constructor; assumption |]. split; [exact Hnd |]. split; [apply incl_refl |].
      left. simpl. auto.
    - (* KFetched *)
      simpl in Hs. destruct a as [g' | g']; [discriminate |].
      destruct (g =? g'); [| discriminate].
      destruct (do_render descs root g G) as [G1 live] eqn:Hr.
      inversion Hs; subst; clear Hs. inversion Hw; subst.
      assert (Hg : In g (map dd_id descs)) by (apply Hok; left; reflexivity).
      destruct (do_render_facts _ _ _ _ Hg Hr) as [f [_ [_ [_ [_ [_ [_ [Hi _]]]]]]]].
      rewrite H0 in Hi. destruct live as [| x l]; [| exfalso; apply (Hi x); left; reflexivity].
      split; [constructor |]. split; [constructor |]. split; [apply incl_nil_l |].
      right. exists g, []. simpl. split; [left; reflexivity |]. split; [intros [] |]. split; [exact Hr | apply Permutation_refl].
    - (* KSeqP *)
      inversion Hw as [| | p0 g rest0 Hp Hc Hf | | |]; subst.
      simpl in Hnd.
      destruct Hp as [-> | ->].
      + (* parent not fetched yet *)
        simpl in Hs. destruct a as [g' | g']; [| discriminate].
        destruct (g =? g'); [| discriminate]. inversion Hs; subst; clear Hs.
        split4.
        * eapply kwf_seqp; eauto.
        * exact Hnd.
        * apply incl_refl.
        * left. simpl. auto.
      + (* parent renders: the Sequence moves on to its children *)
        simpl in Hs. destruct a as [g' | g']; [discriminate |].
        destruct (g =? g'); [| discriminate].
        destruct (do_render descs root g G) as [G1 live] eqn:Hr.
        inversion Hs; subst; clear Hs.
        assert (Hg : In g (map dd_id descs)) by (apply Hok; left; reflexivity).
        destruct (do_render_facts _ _ _ _ Hg Hr) as [f [_ [_ [_ [_ [_ [_ [Hi HnL]]]]]]]].
        destruct (advance_props descs live rest Hf) as [A1 [A2 [A3 A4]]].
        simpl in Hnd. inversion Hnd as [| ? ? Hgn Hrest]; subst.
        split4.
        * exact A1.
        * apply A4. exact Hrest.
        * simpl. apply incl_tl. exact A3.
        * right. exists g, live. simpl. split4.
          -- left. reflexivity.
          -- intros Hin. apply Hgn. apply A3. exact Hin.
          -- exact Hr.
          -- rewrite A2, Hc. constructor.
             apply filter_incl_perm; auto. apply children_NoDup.
    - (* KSeqC *)
      inversion Hw as [| | | c0 rest0 live0 Hc Hcd Hf | |]; subst.
      simpl in Hs.
      destruct (tstep descs root a k G) as [[[c' G1] fin1] |] eqn:Hst; [| discriminate].
      simpl in Hnd. apply NoDup_app_split in Hnd. destruct Hnd as [Hn1 [Hn2 Hdj]].
      assert (Hok1 : render_ok k). { intros x Hx. apply Hok. simpl. apply in_or_app. left. exact Hx. }
      destruct (IHk _ _ _ _ _ Hc Hn1 Hok1 Hst) as [K1 [K2 [K3 K4]]].
      destruct (task_done c') eqn:Hd.
      + (* the running child is finished: next child of the Sequence *)
        inversion Hs; subst; clear Hs.
        destruct (advance_props descs live rest Hf) as [A1 [A2 [A3 A4]]].
        destruct K4 as [[_ [_ Hnd']] | [g [L [G1' [G2 [G3 G4]]]]]]; [congruence |].
        rewrite (done_owed _ Hd) in G4.
        split4.
        * exact A1.
        * apply A4. exact Hn2.
        * simpl. apply incl_appr. exact A3.
        * right. exists g, L. simpl. split4.
          -- apply in_or_app. left. exact G1'.
          -- intros Hin. apply A3 in Hin. eapply Hdj; [| exact Hin]. apply owed_all_ids. exact G1'.
          -- exact G3.
          -- rewrite A2.
             (* [g] ~ owed k ++ L  ==>  g :: F ~ (owed k ++ F) ++ L *)
             eapply Permutation_trans.
             ++ change (g :: filter (keep live) (flat_map tops rest)) with ([g] ++ filter (keep live) (flat_map tops rest)).
                apply Permutation_app_tail. exact G4.
             ++ rewrite <- !app_assoc. apply Permutation_app_head. apply Permutation_app_comm.
      + inversion Hs; subst; clear Hs.
        split4.
        * constructor; auto.
        * simpl. apply NoDup_app_join; auto. intros x Hx Hy. eapply Hdj; [apply K3; exact Hx | exact Hy].
        * simpl. apply incl_app_app; [exact K3 | apply incl_refl].
        * destruct K4 as [[E1 [E2 E3]] | [g [L [G1' [G2 [G3 G4]]]]]].
          -- left. simpl. rewrite E2. auto.
          -- right. exists g, L. simpl. split4.
             ++ apply in_or_app. left. exact G1'.
             ++ intros Hin. apply in_app_or in Hin. destruct Hin as [Hin | Hin]; [contradiction |].
                eapply Hdj; [| exact Hin]. apply owed_all_ids. exact G1'.
             ++ exact G3.
             ++ change (g :: owed c' ++ filter (fun x => mem_N x live) (flat_map tops rest))
                  with ((g :: owed c') ++ filter (fun x => mem_N x live) (flat_map tops rest)).
                eapply Permutation_trans; [apply Permutation_app_tail; exact G4 |].
                rewrite <- !app_assoc. apply Permutation_app_head. apply Permutation_app_comm.
    - (* KPar *)
      inversion Hw as [| | | | ts0 Hts |]; subst.
      simpl in Hs.
      match type of Hs with
      | match ?go ts with _ => _ end = _ => remember go as gof eqn:Hgo
      end.
      assert (Hgen : forall ts ts' G1, Forall (fun k => forall a G k' G' fin, kwf descs k -> NoDup (all_ids k) -> render_ok k ->
                                                   tstep descs root a k G = Some (k', G', fin) ->
                                                   kwf descs k' /\ NoDup (all_ids k') /\ incl (all_ids k') (all_ids k) /\
                                                   ((G' = G /\ owed k' = owed k /\ task_done k' = false) \/
                                                    (exists g L, In g (owed k) /\ ~ In g (all_ids k') /\ do_render descs root g G = (G', L) /\
                                                                 Permutation (g :: owed k') (owed k ++ L)))) ts ->
                 Forall (kwf descs) ts -> NoDup (flat_map all_ids ts) -> (forall g, In g (flat_map all_ids ts) -> In g (map dd_id descs)) ->
                 gof ts = Some (ts', G1) ->
                 Forall (kwf descs) ts' /\ NoDup (flat_map all_ids ts') /\ incl (flat_map all_ids ts') (flat_map all_ids ts) /\
                 ((G1 = G /\ flat_map owed ts' = flat_map owed ts /\ forallb task_done ts' = false) \/
                  (exists g L, In g (flat_map owed ts) /\ ~ In g (flat_map all_ids ts') /\ do_render descs root g G = (G1, L) /\
                               Permutation (g :: flat_map owed ts') (flat_map owed ts ++ L)))).
      { clear Hs H Hts Hnd Hok Hw. subst gof.
        intros ts0. induction ts0 as [| t r IHr]; intros ts' G1 HI Hkw Hnd Hok Hrun; [discriminate |].
        pose proof (Forall_inv HI) as Ht. pose proof (Forall_inv_tail HI) as HIr.
        pose proof (Forall_inv Hkw) as Hkt. pose proof (Forall_inv_tail Hkw) as Hkr.
        simpl in Hnd. apply NoDup_app_split in Hnd. destruct Hnd as [Hn1 [Hn2 Hdj]].
        destruct (tstep descs root a t G) as [[[t' G2] fin2] |] eqn:Hst.
        - inversion Hrun; subst; clear Hrun.
          assert (Hokt : render_ok t). { intros x Hx. apply Hok. simpl. apply in_or_app. left. exact Hx. }
          destruct (Ht _ _ _ _ _ Hkt Hn1 Hokt Hst) as [K1 [K2 [K3 K4]]].
          split4.
          + constructor; assumption.
          + simpl. apply NoDup_app_join; auto. intros x Hx Hy. eapply Hdj; [apply K3; exact Hx | exact Hy].
          + simpl. apply incl_app_app; [exact K3 | apply incl_refl].
          + destruct K4 as [[E1 [E2 E3]] | [g [L [G1' [G2' [G3 G4]]]]]].
            * left. simpl. rewrite E2, E3. auto.
            * right. exists g, L. simpl. split4.
              -- apply in_or_app. left. exact G1'.
              -- intros Hin. apply in_app_or in Hin. destruct Hin as [Hin | Hin]; [contradiction |].
                 eapply Hdj; [| exact Hin]. apply owed_all_ids. exact G1'.
              -- exact G3.
              -- change (g :: owed t' ++ flat_map owed r) with ((g :: owed t') ++ flat_map owed r).
                 eapply Permutation_trans; [apply Permutation_app_tail; exact G4 |].
                 rewrite <- !app_assoc. apply Permutation_app_head. apply Permutation_app_comm.
        - destruct ((fix go (ts : list task) : option (list task * gstate) :=
                       match ts with
                       | [] => None
                       | t :: r =>
                         match tstep descs root a t G with
                         | Some (t', G', _) => Some (t' :: r, G')
                         | None => match go r with Some (r', G') => Some (t :: r', G') | None => None end
                         end
                       end) r) as [[r' G3] |] eqn:Hgo; [| discriminate].
          inversion Hrun; subst; clear Hrun.
          assert (Hokr : forall g, In g (flat_map all_ids r) -> In g (map dd_id descs)).
          { intros x Hx. apply Hok. simpl. apply in_or_app. right. exact Hx. }
          destruct (IHr _ _ HIr Hkr Hn2 Hokr eq_refl) as [K1 [K2 [K3 K4]]].
          split4.
          + constructor; assumption.
          + simpl. apply NoDup_app_join; auto. intros x Hx Hy. eapply Hdj; [exact Hx | apply K3; exact Hy].
          + simpl. apply incl_app_app; [apply incl_refl | exact K3].
          + destruct K4 as [[E1 [E2 E3]] | [g [L [G1' [G2' [G3' G4]]]]]].
            * left. simpl. rewrite E2, E3. rewrite andb_false_r. auto.
            * right. exists g, L. simpl. split4.
              -- apply in_or_app. right. exact G1'.
              -- intros Hin. apply in_app_or in Hin. destruct Hin as [Hin | Hin]; [| contradiction].
                 eapply Hdj; [exact Hin |]. apply owed_all_ids_list. exact G1'.
              -- exact G3'.
              -- eapply Permutation_trans; [apply Permutation_middle |].
                 rewrite <- app_assoc. apply Permutation_app_head. exact G4. }
      destruct (gof ts) as [[ts' G1] |] eqn:Hrun; [| discriminate].
      inversion Hs; subst; clear Hs.
      simpl in Hnd.
      destruct (Hgen ts ts' G' H Hts Hnd Hok Hrun) as [K1 [K2 [K3 K4]]].
      split4; auto.
      constructor. exact K1.
    - discriminate.
    - discriminate.
  Qed.

  (* ---- the invariant ---- *)
  Record inv (k : task) (G : gstate) : Prop := {
    i_kwf : kwf descs k;
    i_nodup : NoDup (all_ids k);
    i_desc : render_ok k;
    i_out : g_outstanding G = Z.of_nat (length (owed k));
    i_first : exists f0 rest, g_frames G = f0 :: rest /\ f_incr (fr_sum f0) = [] /\ f_completed (fr_sum f0) = [];
    i_scan : exists ann comp, scan_acc (map fr_sum (g_frames G)) [] [] = Some (ann, comp) /\
               Permutation ann (comp ++ owed k) /\ NoDup ann /\
               (forall x, In x ann -> parent_of descs x = 0 \/ In (parent_of descs x) comp) /\
               (forall x, In x (all_ids k) -> ~ In x comp);
    i_init : init_true (map fr_sum (g_frames G)) = true;
    i_last : last_hn (map fr_sum (g_frames G)) = Some (negb (Nat.eqb (length (owed k)) 0))
  }.

  Lemma Zeqb_of_nat : forall n, (Z.of_nat n =? 0)%Z = Nat.eqb n 0.
  Proof. destruct n; reflexivity. Qed.

  Lemma inv_step : forall k G a k' G' fin,
    inv k G -> tstep descs root a k G = Some (k', G', fin) -> inv k' G'.
  Proof.
    intros k G a k' G' fin [Hw Hnd Hok Hout Hfirst Hscan Hinit Hlast] Hs.
    destruct (tstep_char _ _ _ _ _ _ Hw Hnd Hok Hs) as [K1 [K2 [K3 K4]]].
    assert (Hok' : render_ok k'). { intros x Hx. apply Hok. apply K3. exact Hx. }
    destruct K4 as [[E1 [E2 E3]] | [g [L [G1 [G2 [G3 G4]]]]]].
    - subst G'. constructor; auto.
      + rewrite E2. exact Hout.
      + destruct Hscan as [ann [comp [S1 [S2 [S3 [S4 S5]]]]]]. exists ann, comp. rewrite E2.
        repeat split; auto; try (intros x Hx; apply S5; apply K3; exact Hx).
      + rewrite E2. exact Hlast.
    - assert (Hg : In g (map dd_id descs)). { apply Hok. apply owed_all_ids. exact G1. }
      destruct (do_render_facts _ _ _ _ Hg G3) as [f [F1 [F2 [F3 [F4 [F5 [F6 [F7 F8]]]]]]]].
      destruct Hscan as [ann [comp [S1 [S2 [S3 [S4 S5]]]]]].
      assert (Hlen : (S (length (owed k')) = length (owed k) + length L)%nat).
      { apply Permutation_length in G4. simpl in G4. rewrite app_length in G4. exact G4. }
      assert (Hgann : In g ann).
      { eapply Permutation_in; [apply Permutation_sym; exact S2 |]. apply in_or_app. right. exact G1. }
      assert (Hgcomp : ~ In g comp). { apply S5. apply owed_all_ids. exact G1. }
      assert (Hfresh : forall x, In x L -> ~ In x ann).
      { intros x Hx Ha. destruct (children_parent g x (F7 x Hx)) as [Hp _].
        destruct (S4 x Ha) as [H0 | Hc].
        - rewrite Hp in H0. subst g. apply in_map_iff in Hg. destruct Hg as [d [Hd1 Hd2]].
          pose proof (Hpos d Hd2). lia.
        - rewrite Hp in Hc. contradiction. }
      assert (Hchk : frame_checks (fr_sum f) ann comp = true).
      { unfold frame_checks. rewrite F2, F3. simpl.
        apply (proj2 (mem_N_In g ann)) in Hgann. apply (proj2 (mem_N_false g comp)) in Hgcomp.
        rewrite Hgann, Hgcomp. simpl.
        assert (Hi : forallb (fun i => mem_N i ann && negb (mem_N i comp)) (f_incr (fr_sum f)) = true).
        { apply forallb_forall. intros x Hx. rewrite (F4 x Hx), Hgann, Hgcomp. reflexivity. }
        rewrite Hi. simpl.
        assert (Hp : forallb (fun p => negb (mem_N p ann)) L = true).
        { apply forallb_forall. intros x Hx. apply negb_true_iff. apply mem_N_false. apply Hfresh. exact Hx. }
        rewrite Hp. simpl. apply nodup_N_NoDup. exact F8. }
      constructor; auto.
      + rewrite F6, Hout. lia.
      + destruct Hfirst as [f0 [rest [H1 [H2 H3]]]]. exists f0, (rest ++ [f]). rewrite F1, H1. auto.
      + exists (ann ++ L), (comp ++ [g]).
        rewrite F1, map_app. simpl.
        rewrite (scan_acc_app _ _ _ _ _ _ S1), Hchk, F2, F3.
        split; [reflexivity |]. split; [| split; [| split]].
        * (* ann ++ L ~ (comp ++ [g]) ++ owed k' *)
          eapply Permutation_trans; [apply Permutation_app_tail; exact S2 |].
          rewrite <- !app_assoc. apply Permutation_app_head. simpl.
          apply Permutation_sym. exact G4.
        * apply NoDup_app_join; auto. intros x Hx Hy. exact (Hfresh x Hy Hx).
        * intros x Hx. apply in_app_or in Hx. destruct Hx as [Hx | Hx].
          -- destruct (S4 x Hx) as [H0 | Hc]; [left; exact H0 | right; apply in_or_app; left; exact Hc].
          -- right. destruct (children_parent g x (F7 x Hx)) as [Hp _]. rewrite Hp. apply in_or_app. right. left. reflexivity.
        * intros x Hx Hc. apply in_app_or in Hc. destruct Hc as [Hc | [<- | []]].
          -- eapply S5; [apply K3; exact Hx | exact Hc].
          -- contradiction.
      + rewrite F1, map_app. simpl. rewrite init_true_app.
        * rewrite Hinit, Hlast. simpl. destruct (owed k); [contradiction | reflexivity].
        * destruct Hfirst as [f0 [rest [H1 _]]]. rewrite H1. discriminate.
      + rewrite F1, map_app. simpl. rewrite last_hn_app. f_equal. rewrite F5.
        assert (Ho : g_outstanding G' = Z.of_nat (length (owed k'))). { rewrite F6, Hout. lia. }
        rewrite Ho, Zeqb_of_nat. reflexivity.
  Qed.

  Lemma inv_run : forall tr k G k' G', inv k G -> run descs root tr k G = Some (k', G') -> inv k' G'.
  Proof.
    induction tr as [| a r IH]; intros k G k' G' Hi Hr; simpl in Hr.
    - inversion Hr; subst. exact Hi.
    - destruct (tstep descs root a k G) as [[[k1 G1] fin] |] eqn:Hs; [| discriminate].
      eapply IH; [| exact Hr]. eapply inv_step; eauto.
  Qed.

  Lemma inv_final : forall k G, inv k G -> task_done k = true -> stream_ok_b (map fr_sum (g_frames G)) = true.
  Proof.
    intros k G [Hw Hnd Hok Hout Hfirst Hscan Hinit Hlast] Hd.
    rewrite (done_owed _ Hd) in *. simpl in Hlast.
    destruct Hfirst as [f0 [rest [H1 [H2 H3]]]].
    destruct Hscan as [ann [comp [S1 [S2 _]]]].
    unfold stream_ok_b. rewrite H1 in *. simpl map. cbv iota. rewrite H2, H3.
    eapply stream_scan_intro; eauto.
    apply subset_N_incl. intros x Hx. rewrite app_nil_r in S2. eapply Permutation_in; eauto.
  Qed.

  (* ---- the initial state ---- *)
  Lemma chain_ok_twf : forall fuel t, chain_ok fuel descs t = true -> twf descs t.
  Proof.
    induction fuel as [| f IH]; intros t H; [discriminate |].
    simpl in H. destruct t as [g | l | l]; try discriminate.
    - destruct (children g) eqn:Hc; [| discriminate]. constructor. exact Hc.
    - destruct l as [| x l]; [discriminate |]. destruct x as [g | |]; try discriminate.
      destruct l as [| sub l]; [discriminate |]. destruct l; [| discriminate].
      destruct (children g) as [| c cs] eqn:Hc; [discriminate |].
      destruct cs as [| c2 cs].
      + apply andb_true_iff in H. destruct H as [Ht Hs].
        destruct (top_id sub) as [c' |] eqn:Htop; [| discriminate]. apply N.eqb_eq in Ht. subst c'.
        constructor.
        * simpl. rewrite app_nil_r. rewrite Hc.
          apply tops_single_seq; [exact Htop |]. intros l0 He. subst. discriminate.
        * constructor; [apply IH; exact Hs | constructor].
      + destruct sub as [| | l]; try discriminate.
        assert (Hgo : forall cs l,
                  (fix go (cs : list N) (l : list dtree) : bool :=
                     match cs, l with
                     | [], [] => true
                     | c :: cs', t :: l' =>
                       (match top_id t with Some c' => c =? c' | None => false end) && chain_ok f descs t && go cs' l'
                     | _, _ => false
                     end) cs l = true ->
                  flat_map tops l = cs /\ Forall (twf descs) l /\ Forall (fun t => exists g, top_id t = Some g) l).
        { clear - IH. intros cs1; induction cs1 as [| c cs IHc]; intros l Hg; destruct l as [| t l]; try discriminate.
          - repeat split; constructor.
          - apply andb_true_iff in Hg. destruct Hg as [Hg Hr]. apply andb_true_iff in Hg. destruct Hg as [Ht Hc].
            destruct (top_id t) as [c' |] eqn:Htop; [| discriminate]. apply N.eqb_eq in Ht. subst c'.
            destruct (IHc l Hr) as [A [B C]]. repeat split.
            + simpl. rewrite A. rewrite (tops_single_seq t c Htop); [reflexivity |]. intros l0 He. subst. discriminate.
            + constructor; [apply IH; exact Hc | exact B].
            + constructor; [eexists; exact Htop | exact C]. }
        destruct (Hgo (c :: c2 :: cs) l H) as [A [B C]].
        constructor.
        * simpl. rewrite app_nil_r. rewrite Hc. exact A.
        * constructor; [constructor; assumption | constructor].
  Qed.

  Lemma twf_ids : forall t, twf descs t -> incl (tops t) (map dd_id descs) -> incl (tree_ids t) (map dd_id descs).
  Proof.
    induction t using dtree_ind'; intros Hw Ht.
    - simpl in *. exact Ht.
    - inversion Hw as [| g rest Hc Hf |]; subst. simpl.
      assert (Hg : In g (map dd_id descs)). { apply Ht. simpl. left. reflexivity. }
      intros x [<- | Hx]; [exact Hg |].
      assert (Hrest : incl (flat_map tops rest) (map dd_id descs)).
      { rewrite Hc. intros y Hy. apply (children_parent g y Hy). }
      pose proof (Forall_inv_tail H) as Hr. clear - Hr Hf Hrest Hx.
      induction rest as [| c r IH]; simpl in *; [contradiction |].
      apply in_app_or in Hx. destruct Hx as [Hx | Hx].
      + apply (Forall_inv Hr); [apply (Forall_inv Hf) | | exact Hx]. intros y Hy. apply Hrest. apply in_or_app. left. exact Hy.
      + apply IH; auto; try (apply (Forall_inv_tail Hr)); try (apply (Forall_inv_tail Hf));
          try (intros y Hy; apply Hrest; apply in_or_app; right; exact Hy).
    - inversion Hw as [| | l' Hf Htop]; subst. simpl in *.
      clear Hw Htop. induction l as [| c r IH]; simpl in *; [apply incl_nil_l |].
      apply incl_app.
      + apply (Forall_inv H); [apply (Forall_inv Hf) |]. intros y Hy. apply Ht. apply in_or_app. left. exact Hy.
      + apply IH; [apply (Forall_inv_tail H) | | apply (Forall_inv_tail Hf)].
        intros y Hy. apply Ht. apply in_or_app. right. exact Hy.
  Qed.

  Lemma shape_ok_twf : forall tree, shape_ok descs tree = true ->
    match tree with
    | None => children 0 = []
    | Some t => twf descs t /\ tops t = children 0
    end.
  Proof.
    intros tree H. unfold shape_ok in H.
    destruct (children 0) as [| c cs] eqn:Hc.
    - destruct tree; [discriminate | reflexivity].
    - destruct cs as [| c2 cs].
      + destruct tree as [t |]; [| discriminate].
        apply andb_true_iff in H. destruct H as [Ht Hs].
        destruct (top_id t) as [c' |] eqn:Htop; [| discriminate]. apply N.eqb_eq in Ht. subst c'.
        split; [eapply chain_ok_twf; exact Hs |].
        apply tops_single_seq; [exact Htop |]. intros l0 He. subst. discriminate.
      + destruct tree as [t |]; [| discriminate]. destruct t as [| | l]; try discriminate.
        assert (Hgo : forall cs l,
                  (fix go (cs : list N) (l : list dtree) : bool :=
                     match cs, l with
                     | [], [] => true
                     | c :: cs', t :: l' =>
                       (match top_id t with Some c' => c =? c' | None => false end) && chain_ok (S (length descs)) descs t && go cs' l'
                     | _, _ => false
                     end) cs l = true ->
                  flat_map tops l = cs /\ Forall (twf descs) l /\ Forall (fun t => exists g, top_id t = Some g) l).
        { clear. intros cs1; induction cs1 as [| c cs IHc]; intros l Hg; destruct l as [| t l]; try discriminate.
          - repeat split; constructor.
          - apply andb_true_iff in Hg. destruct Hg as [Hg Hr]. apply andb_true_iff in Hg. destruct Hg as [Ht Hc].
            destruct (top_id t) as [c' |] eqn:Htop; [| discriminate]. apply N.eqb_eq in Ht. subst c'.
            destruct (IHc l Hr) as [A [B C]]. repeat split.
            + simpl. rewrite A. rewrite (tops_single_seq t c Htop); [reflexivity |]. intros l0 He. subst. discriminate.
            + constructor; [eapply chain_ok_twf; exact Hc | exact B].
            + constructor; [eexists; exact Htop | exact C]. }
        destruct (Hgo (c :: c2 :: cs) l H) as [A [B C]]. split; [constructor; assumption | exact A].
  Qed.

  Lemma group_ids_tree_ids : forall t, group_ids_nodup (Some t) = true -> NoDup (tree_ids t).
  Proof.
    intros t H. unfold group_ids_nodup in H. apply nodup_N_NoDup in H.
    assert (He : forall t, (fix ids (t : dtree) : list N :=
                              match t with
                              | TSingle g => [g]
                              | TSeq l | TPar l => (fix go (l : list dtree) : list N :=
                                                      match l with [] => [] | c :: r => ids c ++ go r end) l
                              end) t = tree_ids t).
    { clear. intros t1. induction t1 using dtree_ind'; simpl; auto. }
    rewrite He in H. exact H.
  Qed.

  Lemma inv_init : forall tree data k G,
    shape_ok descs tree = true -> group_ids_nodup tree = true ->
    init_state descs root tree data = (k, G) -> inv k G.
  Proof.
    intros tree data k G Hshape Hgn Hinit. unfold init_state in Hinit.
    destruct (render_initial descs root data) as [[f data'] live] eqn:Hr.
    destruct (render_initial_sum _ _ _ _ _ _ Hr) as [R1 [R2 [R3 [R4 R5]]]].
    set (L := map dd_id live) in *.
    assert (HL : incl L (children 0) /\ NoDup L).
    { split.
      - intros x Hx. apply in_map_iff in Hx. destruct Hx as [d [Hd1 Hd2]].
        destruct R5 as [R5 | R5]; rewrite R5 in Hd2; [| contradiction].
        apply live_children_In in Hd2. apply children_In. exists d. tauto.
      - unfold L. destruct R5 as [R5 | R5]; rewrite R5; [apply live_children_ids_NoDup; exact Hids | constructor]. }
    destruct HL as [HL1 HL2].
    assert (Hpar0 : forall x, In x L -> parent_of descs x = 0).
    { intros x Hx. apply (children_parent 0 x (HL1 x Hx)). }
    (* the task and what it owes *)
    assert (Hk : kwf descs k /\ NoDup (all_ids k) /\ render_ok k /\ Permutation (owed k) L /\
                 G = {| g_outstanding := Z.of_nat (length live); g_data := data'; g_frames := [f] |}).
    { pose proof (shape_ok_twf tree Hshape) as Hs.
      destruct tree as [t |].
      - destruct Hs as [Hw Htops].
        pose proof (prune_props descs L t Hw) as Hp.
        destruct (prune L t) as [t' |].
        + destruct Hp as [P1 [P2 [P3 [P4 P5]]]]. inversion Hinit; subst; clear Hinit.
          destruct (start_kwf descs t' P1) as [[Hk Hd] | He]; [| contradiction].
          destruct (start_ids t') as [S1 S2].
          pose proof (group_ids_tree_ids t Hgn) as Hnd.
          split; [exact Hk |]. split; [apply S2; apply P5; exact Hnd |]. split.
          * intros x Hx. apply S1 in Hx. apply P4 in Hx.
            eapply twf_ids; [exact Hw | | exact Hx]. rewrite Htops. intros y Hy. apply (children_parent 0 y Hy).
          * split; [| reflexivity]. rewrite P3, Htops. apply filter_incl_perm; auto. apply children_NoDup.
        + inversion Hinit; subst; clear Hinit. rewrite Htops in Hp.
          assert (HLe : L = []).
          { pose proof (filter_incl_perm (children 0) L (children_NoDup 0) HL2 HL1) as Hperm.
            unfold keep in Hp. rewrite Hp in Hperm. apply Permutation_nil in Hperm. exact Hperm. }
          split; [constructor |]. split; [constructor |]. split; [intros x [] |].
          split; [rewrite HLe; constructor | reflexivity].
      - inversion Hinit; subst; clear Hinit. rewrite Hs in HL1.
        assert (HLe : L = []). { destruct L as [| x l]; auto. exfalso. apply (HL1 x). left. reflexivity. }
        split; [constructor |]. split; [constructor |]. split; [intros x [] |].
        split; [rewrite HLe; constructor | reflexivity]. }
    destruct Hk as [K1 [K2 [K3 [K4 K5]]]]. subst G.
    assert (Hlen : length (owed k) = length live).
    { apply Permutation_length in K4. unfold L in K4. rewrite map_length in K4. exact K4. }
    constructor; simpl; auto; try (rewrite Hlen; reflexivity).
    - exists f, []. auto.
    - exists L, []. unfold frame_checks. rewrite R1, R2, R3. simpl.
      assert (Hn : nodup_N (map dd_id live) = true). { apply nodup_N_NoDup. exact HL2. }
      fold L. fold L in Hn.
      assert (Hf : forallb (fun _ : N => true) L = true). { apply forallb_forall. intros; reflexivity. }
      rewrite Hf, Hn. simpl.
      split; [reflexivity |]. split; [apply Permutation_sym; exact K4 |]. split; [exact HL2 |].
      split; [intros x Hx; left; apply Hpar0; exact Hx | intros x _ Hfalse; exact Hfalse].
    - rewrite R4. f_equal. rewrite Hlen. unfold nonempty. destruct live; reflexivity.
  Qed.
End Stream.

(* ---- from the boolean well-formedness check ---- *)
Lemma sorted_N_head : forall r x, sorted_N (x :: r) = true -> forall y, In y r -> x < y.
Proof.
  induction r as [| z r IH]; intros x Hs y Hy; [contradiction |].
  simpl in Hs. apply andb_true_iff in Hs. destruct Hs as [Hlt Hs]. apply N.ltb_lt in Hlt.
  destruct Hy as [<- | Hy]; [exact Hlt |]. pose proof (IH z Hs y Hy). lia.
Qed.
Lemma sorted_N_NoDup : forall l, sorted_N l = true -> NoDup l.
Proof.
  induction l as [| x r IH]; intros Hs; [constructor |].
  constructor.
  - intros Hin. pose proof (sorted_N_head r x Hs x Hin). lia.
  - apply IH. destruct r as [| z r']; [reflexivity |]. simpl in Hs. apply andb_true_iff in Hs. tauto.
Qed.

Theorem stream_wellformed_b : forall descs root tree data tr frames,
  defer_plan_wf descs root tree = true ->
  exec descs root tree data tr = Some frames ->
  stream_ok_b (map fr_sum frames) = true.
Proof.
  intros descs root tree data tr frames Hwf Hex.
  unfold defer_plan_wf in Hwf.
  apply andb_true_iff in Hwf. destruct Hwf as [Hwf _].
  apply andb_true_iff in Hwf. destruct Hwf as [Hwf _].
  apply andb_true_iff in Hwf. destruct Hwf as [Hwf _].
  apply andb_true_iff in Hwf. destruct Hwf as [Hwf _].
  apply andb_true_iff in Hwf. destruct Hwf as [Hwf Hgn].
  apply andb_true_iff in Hwf. destruct Hwf as [Hdw Hshape].
  unfold descs_wf in Hdw. apply andb_true_iff in Hdw. destruct Hdw as [Hsorted Hall].
  assert (Hids : NoDup (map dd_id descs)) by (apply sorted_N_NoDup; exact Hsorted).
  assert (Hpos : forall d, In d descs -> 0 < dd_id d).
  { intros d Hd. rewrite forallb_forall in Hall. specialize (Hall d Hd).
    apply andb_true_iff in Hall. destruct Hall as [Hall _]. apply andb_true_iff in Hall. destruct Hall as [Hp _].
    apply N.ltb_lt. exact Hp. }
  unfold exec in Hex.
  destruct (init_state descs root tree data) as [k G] eqn:Hi.
  destruct (run descs root tr k G) as [[k' G'] |] eqn:Hr; [| discriminate].
  destruct (task_done k') eqn:Hd; [| discriminate]. inversion Hex; subst.
  eapply inv_final; [| exact Hd].
  eapply inv_run; [exact Hids | exact Hpos | | exact Hr].
  eapply inv_init; eauto.
Qed.

Lemma wf_run_kwf : forall descs root tree data tr k0 G0 k G,
  defer_plan_wf descs root tree = true ->
  init_state descs root tree data = (k0, G0) ->
  run descs root tr k0 G0 = Some (k, G) -> kwf descs k.
Proof.
  intros descs root tree data tr k0 G0 k G Hwf Hi Hr.
  unfold defer_plan_wf in Hwf.
  apply andb_true_iff in Hwf. destruct Hwf as [Hwf _].
  apply andb_true_iff in Hwf. destruct Hwf as [Hwf _].
  apply andb_true_iff in Hwf. destruct Hwf as [Hwf _].
  apply andb_true_iff in Hwf. destruct Hwf as [Hwf _].
  apply andb_true_iff in Hwf. destruct Hwf as [Hwf Hgn].
  apply andb_true_iff in Hwf. destruct Hwf as [Hdw Hshape].
  unfold descs_wf in Hdw. apply andb_true_iff in Hdw. destruct Hdw as [Hsorted Hall].
  assert (Hids : NoDup (map dd_id descs)) by (apply sorted_N_NoDup; exact Hsorted).
  assert (Hpos : forall d, In d descs -> 0 < dd_id d).
  { intros d Hd. rewrite forallb_forall in Hall. specialize (Hall d Hd).
    apply andb_true_iff in Hall. destruct Hall as [Hall _]. apply andb_true_iff in Hall. destruct Hall as [Hp _].
    apply N.ltb_lt. exact Hp. }
  eapply i_kwf. eapply inv_run; [exact Hids | exact Hpos | | exact Hr].
  eapply inv_init; eauto.
Qed.
