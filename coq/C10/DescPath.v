(* C10, plan level: the descriptor path of a @defer (v2/pkg/engine/plan/defer_info_collector.go).

   deferInfoCollector.EnterSelectionSet records, the first time a defer id is met on a direct field
   child of a selection set, the path of that selection set: [deferPath] builds the candidate from
   Walker.Path (the response keys -- alias or name -- of the field ancestors; fragments are skipped)
   and cuts it after the outermost list-typed field ancestor, whose index
   [outermostListFieldIndex] finds by walking Walker.Ancestors from the root operation type:
   for every FIELD ancestor the field definition is looked up BY FIELD NAME on the type reached so
   far (NodeFieldDefinitionByName(parentType, FieldNameBytes)); a failed lookup gives up (-1); a list
   type returns the index; otherwise the walk continues on the named type of the field (NodeByName;
   failure gives up).  Inline-fragment ancestors are skipped WITHOUT narrowing the parent type --
   the quirk behind the recorded finding defer-under-typed-list-dropped: a field that exists only on
   the type of a type condition is not found on the abstract static type and the path is not cut.

   The model works on the ancestor chain of the selection set (outermost first).  No proofs here. *)
From Coq Require Import List Bool NArith.
From Gv Require Import lib.Bytes.
Import ListNotations.

(* what the collector reads of the schema *)
Record fdef := { fd_name : bytes; fd_list : bool; fd_base : bytes }.
Record tdef := { td_name : bytes; td_fields : list fdef }.
Definition schema := list tdef.

Fixpoint find_type (s : schema) (n : bytes) : option tdef :=
  match s with
  | [] => None
  | t :: r => if bytes_eqb (td_name t) n then Some t else find_type r n
  end.

Fixpoint find_fdef (fs : list fdef) (n : bytes) : option fdef :=
  match fs with
  | [] => None
  | f :: r => if bytes_eqb (fd_name f) n then Some f else find_fdef r n
  end.

(* NodeFieldDefinitionByName(node of type p, name) *)
Definition field_def (s : schema) (p : bytes) (name : bytes) : option fdef :=
  match find_type s p with
  | None => None
  | Some t => find_fdef (td_fields t) name
  end.

(* one ancestor of the selection set: a field with its alias, an inline fragment with its type
   condition ([] = none), anything else (operation definition, selection set nodes) *)
Inductive anc :=
| AField (alias : option bytes) (name : bytes)
| AFrag (cond : bytes)
| AOther.

Definition resp_key (alias : option bytes) (name : bytes) : bytes :=
  match alias with Some a => a | None => name end.

(* Walker.Path restricted to FieldName items: the candidate path *)
Fixpoint candidate (chain : list anc) : list bytes :=
  match chain with
  | [] => []
  | AField al nm :: r => resp_key al nm :: candidate r
  | _ :: r => candidate r
  end.

(* outermostListFieldIndex: None = -1.  [idx] counts the field ancestors passed so far. *)
Fixpoint outermost_list_idx (s : schema) (parent : bytes) (chain : list anc) (idx : nat) : option nat :=
  match chain with
  | [] => None
  | AField _ name :: r =>
    match field_def s parent name with
    | None => None
    | Some fd =>
      if fd_list fd then Some idx
      else match find_type s (fd_base fd) with
           | None => None
           | Some _ => outermost_list_idx s (fd_base fd) r (S idx)
           end
    end
  | _ :: r => outermost_list_idx s parent r idx
  end.

Definition cut_at (i : option nat) (cand : list bytes) : list bytes :=
  match i with
  | Some i => if Nat.ltb (S i) (length cand) then firstn (S i) cand else cand
  | None => cand
  end.

(* deferPath *)
Definition defer_path (s : schema) (root : bytes) (chain : list anc) : list bytes :=
  cut_at (outermost_list_idx s root chain O) (candidate chain).

(* ---- the specification: the path must end at the outermost list field, where the type of every
   field is the one the validator uses: looked up by NAME on the enclosing type as NARROWED by the
   type conditions on the way ---- *)
Fixpoint spec_list_idx (s : schema) (parent : bytes) (chain : list anc) (idx : nat) : option nat :=
  match chain with
  | [] => None
  | AField _ name :: r =>
    match field_def s parent name with
    | None => None
    | Some fd => if fd_list fd then Some idx else spec_list_idx s (fd_base fd) r (S idx)
    end
  | AFrag c :: r => spec_list_idx s (match c with [] => parent | _ => c end) r idx
  | AOther :: r => spec_list_idx s parent r idx
  end.

Definition spec_path (s : schema) (root : bytes) (chain : list anc) : list bytes :=
  cut_at (spec_list_idx s root chain O) (candidate chain).

(* the chain is well typed (every field exists on its narrowed enclosing type and names a type of
   the schema): what validation guarantees of an operation *)
Fixpoint chain_typed (s : schema) (parent : bytes) (chain : list anc) : bool :=
  match chain with
  | [] => true
  | AField _ name :: r =>
    match field_def s parent name with
    | None => false
    | Some fd => match find_type s (fd_base fd) with
                 | None => false
                 | Some _ => chain_typed s (fd_base fd) r
                 end
    end
  | AFrag c :: r => chain_typed s (match c with [] => parent | _ => c end) r
  | AOther :: r => chain_typed s parent r
  end.

(* no ancestor fragment narrows the type: every type condition names the type reached so far *)
Fixpoint no_narrowing (s : schema) (parent : bytes) (chain : list anc) : bool :=
  match chain with
  | [] => true
  | AField _ name :: r =>
    match field_def s parent name with
    | None => true
    | Some fd => if fd_list fd then true else no_narrowing s (fd_base fd) r
    end
  | AFrag c :: r => match c with [] => true | _ => bytes_eqb c parent end && no_narrowing s parent r
  | AOther :: r => no_narrowing s parent r
  end.

(* two chains that differ in aliases only *)
Definition same_names_anc (a b : anc) : bool :=
  match a, b with
  | AField _ n, AField _ m => bytes_eqb n m
  | AFrag c, AFrag d => bytes_eqb c d
  | AOther, AOther => true
  | _, _ => false
  end.
Fixpoint same_names (a b : list anc) : bool :=
  match a, b with
  | [], [] => true
  | x :: r, y :: q => same_names_anc x y && same_names r q
  | _, _ => false
  end.

(* the truncation point: how many leading response keys of the candidate survive *)
Definition kept (s : schema) (root : bytes) (chain : list anc) : nat := length (defer_path s root chain).

(* checker used by the driver on the implementation's descriptor path *)
Fixpoint path_eqb (a b : list bytes) : bool :=
  match a, b with
  | [], [] => true
  | x :: r, y :: q => bytes_eqb x y && path_eqb r q
  | _, _ => false
  end.
Definition desc_path_ok_b (s : schema) (root : bytes) (chain : list anc) (impl : list bytes) : bool :=
  path_eqb impl (spec_path s root chain).

(* the modelled quirk: the un-narrowed lookup gives up although the path has to be cut *)
Definition static_gives_up (s : schema) (root : bytes) (chain : list anc) : bool :=
  match outermost_list_idx s root chain O, spec_list_idx s root chain O with
  | None, Some i => Nat.ltb (S i) (length (candidate chain))
  | _, _ => false
  end.

(* ---- the anchor must compose with the renderer's subPath ("runtime path minus the matched prefix of the
   descriptor path"): the descriptor path has to be a prefix of the response position of EVERY selection
   set that holds fields of the defer.  The collector records the FIRST such selection set only. ---- *)
Fixpoint prefix_b (p l : list bytes) : bool :=
  match p, l with
  | [], _ => true
  | x :: p', y :: l' => bytes_eqb x y && prefix_b p' l'
  | _ :: _, [] => false
  end.
Definition anchor_ok_b (impl : list bytes) (chains : list (list anc)) : bool :=
  forallb (fun c => prefix_b impl (candidate c)) chains.
(* commonPathPrefix *)
Fixpoint common_prefix (a b : list bytes) : list bytes :=
  match a, b with
  | x :: a', y :: b' => if bytes_eqb x y then x :: common_prefix a' b' else []
  | _, _ => []
  end.
(* the collector (EnterSelectionSet since 98fef79): the chains are the selection sets with a direct field
   child stamped with the defer id, in document order; the first records its path, every later one shrinks
   the recorded path to the common prefix *)
Definition collector_path (s : schema) (root : bytes) (chains : list (list anc)) : list bytes :=
  match chains with
  | [] => []
  | c :: r => fold_left (fun acc c' => common_prefix acc (defer_path s root c')) r (defer_path s root c)
  end.
(* before 98fef79: the path of the first chain only (finding defer-merged-mount-wrong-anchor (a)) *)
Definition collector_path_v0 (s : schema) (root : bytes) (chains : list (list anc)) : list bytes :=
  match chains with [] => [] | c :: _ => defer_path s root c end.
(* the specification of the same: every selection set's path cut at its outermost list (narrowed types) *)
Definition spec_collector_path (s : schema) (root : bytes) (chains : list (list anc)) : list bytes :=
  match chains with
  | [] => []
  | c :: r => fold_left (fun acc c' => common_prefix acc (spec_path s root c')) r (spec_path s root c)
  end.
Definition desc_paths_ok_b (s : schema) (root : bytes) (chains : list (list anc)) (impl : list bytes) : bool :=
  path_eqb impl (spec_collector_path s root chains).
