(* C10 property theorems: statements only; every proof is [exact lemma]. *)
From Coq Require Import ZArith.
From Gv Require Import lib.Bytes lib.Json C02.Model C10.Model C10.Spec C10.ProofsStream.
Open Scope N_scope.

(* Every complete run of the defer-tree executor -- any interleaving of "fetch phase of group g
   finished" (unlocked) and "group g renders and flushes" (atomic under the DataBuffer lock)
   accepted by the transition system -- over any plan satisfying defer_plan_wf and any data writes
   a frame sequence accepted by the protocol checker: every announced id is completed exactly once
   and later, nothing is delivered or completed for an unannounced id, hasNext is false on the last
   frame and only there. *)
Theorem stream_wellformed : forall descs root tree data tr frames,
  defer_plan_wf descs root tree = true ->
  exec descs root tree data tr = Some frames ->
  stream_ok_b (map fr_sum frames) = true.
Proof. exact stream_wellformed_b. Qed.
Print Assumptions stream_wellformed.

(* non-vacuity: { a  ... @defer { b { c ... @defer { d } } }  ... @defer { e } } with the tree
   Parallel(Sequence(Single 1, Single 2), Single 3); the run renders 3, then 1, then 2 *)
Definition ex_leaf (k : bytes) : dnode := DLeaf (NStr [k] true).
Definition ex_root : dnode :=
  DObj [] false [81] []
    [DFld [97] None None None (ex_leaf [97]);
     DFld [98] None None (Some 1)
       (DObj [[98]] true [66] []
          [DFld [99] None None (Some 1) (ex_leaf [99]);
           DFld [100] None None (Some 2) (ex_leaf [100])]);
     DFld [101] None None (Some 3) (ex_leaf [101])].
Definition ex_descs : list ddesc :=
  [{| dd_id := 1; dd_parent := 0; dd_label := []; dd_path := [] |};
   {| dd_id := 2; dd_parent := 1; dd_label := [76]; dd_path := [[98]] |};
   {| dd_id := 3; dd_parent := 0; dd_label := []; dd_path := [] |}].
Definition ex_tree : option dtree := Some (TPar [TSeq [TSingle 1; TSingle 2]; TSingle 3]).
Definition ex_data : json :=
  JObj [([97], JStr [120]); ([98], JObj [([99], JStr [121]); ([100], JStr [122])]); ([101], JNull)].
Definition ex_trace : list action := [AFetch 3; AFetch 1; ARender 3; ARender 1; AFetch 2; ARender 2].

Example stream_wellformed_nonvacuous :
  defer_plan_wf ex_descs ex_root ex_tree = true /\
  match exec ex_descs ex_root ex_tree ex_data ex_trace with
  | Some frames => length frames = 4%nat /\ stream_ok_b (map fr_sum frames) = true
  | None => False
  end.
Proof. vm_compute. split; [reflexivity | split; reflexivity]. Qed.

(* Without "every descriptor has a fetch group" the protocol is violated: a descriptor whose id
   owns no fetch is announced by the initial frame (hasNext:true) and never completed. *)
Theorem stream_wellformed_refuted : exists descs root tree data tr frames,
  exec descs root tree data tr = Some frames /\ stream_ok_b (map fr_sum frames) = false.
Proof.
  exists [{| dd_id := 1; dd_parent := 0; dd_label := []; dd_path := [] |}],
         (DObj [] false [81] [] [DFld [97] None None (Some 1) (ex_leaf [97])]),
         None, (JObj [([97], JStr [120])]), [].
  eexists. split; [vm_compute; reflexivity | vm_compute; reflexivity].
Qed.
Print Assumptions stream_wellformed_refuted.
