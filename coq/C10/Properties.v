(* C10 property theorems: statements only; every proof is [exact lemma]. *)
From Coq Require Import ZArith.
From Gv Require Import lib.Bytes lib.Json C02.Model C02.Spec C10.Model C10.Spec C10.ProofsStream C10.ProofsTerm C10.ProofsRecon C10.ProofsClean C10.ProofsPaths C10.DescPath C10.ProofsDescPath.
Open Scope N_scope.

(* Every complete run of the defer-tree executor -- any interleaving of "fetch phase of group g
   finished" (unlocked) and "group g renders and flushes" (atomic under the DataBuffer lock)
   accepted by the transition system -- over any plan satisfying defer_plan_wf and any data writes
   a frame sequence accepted by the protocol checker: every announced id is completed exactly once
   and later, nothing is delivered or completed for an unannounced id, hasNext is false on the last
   frame and only there. *)
Theorem stream_wellformed : forall descs root tree data tr frames,
  defer_plan_wf descs root tree = true ->
  exec descs root tree data tr = Some frames ->
  stream_ok_b (map fr_sum frames) = true.
Proof. exact stream_wellformed_b. Qed.
Print Assumptions stream_wellformed.

(* The stream terminates: every run from the initial state is at most as long as the measure of
   that state (three steps' worth per deferred group: fetch, render, bookkeeping), and a state that
   is not finished always has an enabled step (the fetch phase needs no lock, render+flush is one
   atomic step), so every maximal run ends in a finished state -- whose last frame says
   hasNext:false by stream_wellformed. *)
Theorem stream_terminates : forall descs root tree data tr k0 G0 k G,
  defer_plan_wf descs root tree = true ->
  init_state descs root tree data = (k0, G0) ->
  run descs root tr k0 G0 = Some (k, G) ->
  (length tr <= msize k0)%nat /\
  (task_done k = false -> exists a k' G' fin, tstep descs root a k G = Some (k', G', fin)).
Proof.
  intros descs root tree data tr k0 G0 k G Hwf Hi Hr. split.
  - pose proof (run_bounded descs root tr k0 G0 k G Hr). Lia.lia.
  - intros Hd. apply tstep_progress; [| exact Hd]. eapply wf_run_kwf; eauto.
Qed.
Print Assumptions stream_terminates.

(* non-vacuity: { a  ... @defer { b { c ... @defer { d } } }  ... @defer { e } } with the tree
   Parallel(Sequence(Single 1, Single 2), Single 3); the run renders 3, then 1, then 2 *)
Definition ex_leaf (k : bytes) : dnode := DLeaf (NStr [k] true).
Definition ex_root : dnode :=
  DObj [] false [81] []
    [DFld [97] None None None (ex_leaf [97]);
     DFld [98] None None (Some 1)
       (DObj [[98]] true [66] []
          [DFld [99] None None (Some 1) (ex_leaf [99]);
           DFld [100] None None (Some 2) (ex_leaf [100])]);
     DFld [101] None None (Some 3) (ex_leaf [101])].
Definition ex_descs : list ddesc :=
  [{| dd_id := 1; dd_parent := 0; dd_label := []; dd_path := [] |};
   {| dd_id := 2; dd_parent := 1; dd_label := [76]; dd_path := [[98]] |};
   {| dd_id := 3; dd_parent := 0; dd_label := []; dd_path := [] |}].
Definition ex_tree : option dtree := Some (TPar [TSeq [TSingle 1; TSingle 2]; TSingle 3]).
Definition ex_data : json :=
  JObj [([97], JStr [120]); ([98], JObj [([99], JStr [121]); ([100], JStr [122])]); ([101], JNull)].
Definition ex_trace : list action := [AFetch 3; AFetch 1; ARender 3; ARender 1; AFetch 2; ARender 2].

Example stream_wellformed_nonvacuous :
  defer_plan_wf ex_descs ex_root ex_tree = true /\
  match exec ex_descs ex_root ex_tree ex_data ex_trace with
  | Some frames => length frames = 4%nat /\ stream_ok_b (map fr_sum frames) = true
  | None => False
  end.
Proof. vm_compute. split; [reflexivity | split; reflexivity]. Qed.

(* Without "every descriptor has a fetch group" the protocol is violated: a descriptor whose id
   owns no fetch is announced by the initial frame (hasNext:true) and never completed. *)
Theorem stream_wellformed_refuted : exists descs root tree data tr frames,
  exec descs root tree data tr = Some frames /\ stream_ok_b (map fr_sum frames) = false.
Proof.
  exists [{| dd_id := 1; dd_parent := 0; dd_label := []; dd_path := [] |}],
         (DObj [] false [81] [] [DFld [97] None None (Some 1) (ex_leaf [97])]),
         None, (JObj [([97], JStr [120])]), [].
  eexists. split; [vm_compute; reflexivity | vm_compute; reflexivity].
Qed.
Print Assumptions stream_wellformed_refuted.

(* ---- reconstruction ----
   [proj (keepX X)] is the response restricted to the fields without a mark and the fields of
   the defers X (ProofsRecon); [r_items] are the items of one defer with their paths (the place the
   envelope was opened); [apply_rel] is the client: every item merged at its path; [jeq] is
   equality of JSON trees up to the order of object members. *)

(* The initial frame carries exactly the fields without a mark: the response of the empty set of
   delivered defers. *)
Theorem reconstruct_initial : forall descs root data,
  exists rest, fr_json (c_initial descs root data) = JObj ((k_data, proj (keepX []) root data []) :: rest).
Proof.
  intros. eexists. unfold c_initial. simpl.
  rewrite <- (proj_ext (keepX []) (keep_layer None) keepX_nil root data []). reflexivity.
Qed.
Print Assumptions reconstruct_initial.

(* One layer: for every plan satisfying defer_plan_wf, every data, every set X of delivered
   defers that contains the ancestors of d and none of its descendants: the client's merge of the
   items of d -- each at the path of d's pending entry followed by the item's subPath -- into the
   response of the layers X gives the response of the layers X + d. *)
Theorem reconstruct_layer : forall descs root tree d X data,
  defer_plan_wf descs root tree = true ->
  find_desc descs (dd_id d) = Some d ->
  ~ In (dd_id d) X ->
  (forall c, is_ancestor descs c (dd_parent d) = true -> In c X) ->
  (forall c, In c X -> is_ancestor descs (dd_id d) (parent_of descs c) = false) ->
  exists v, merge_layer descs d root data (Some (proj (keepX X) root data [])) = Some v /\
            jeq v (proj (keepX (dd_id d :: X)) root data []).
Proof.
  intros descs root tree d X data Hwf Hfd H1 H2 H3.
  unfold defer_plan_wf in Hwf.
  apply andb_true_iff in Hwf. destruct Hwf as [Hwf Hnames].
  apply andb_true_iff in Hwf. destruct Hwf as [Hwf Hpaths].
  apply andb_true_iff in Hwf. destruct Hwf as [Hwf Hscope].
  apply andb_true_iff in Hwf. destruct Hwf as [_ Hroot].
  rewrite (merge_layer_rel descs d root data _ Hfd Hpaths Hnames Hroot).
  assert (Hp : parent_of descs (dd_id d) = dd_parent d). { unfold parent_of. rewrite Hfd. reflexivity. }
  apply (seek_merge descs d Hp X H1 H2 H3 root [] data [] Hscope Hnames).
  intros e [].
Qed.
Print Assumptions reconstruct_layer.

(* All layers together are the response of the same plan without defer marks: on data that needs
   no completion the completion semantics of the erased plan (C02.Spec.complete) reports no error
   and returns the projection that keeps every field. *)
Theorem reconstruct_total : forall root data,
  strict_clean root data [] = true ->
  complete_root (fun _ _ => false) (erase root) data = (Some (proj keep_all root data []), []).
Proof. intros. unfold complete_root. apply complete_of_strict_clean. exact H. Qed.
Print Assumptions reconstruct_total.

(* non-vacuity of reconstruct_layer / reconstruct_total: the example plan, layer 1 on top of the initial data *)
Example reconstruct_nonvacuous :
  strict_clean ex_root ex_data [] = true /\
  merge_layer ex_descs {| dd_id := 1; dd_parent := 0; dd_label := []; dd_path := [] |} ex_root ex_data
              (Some (proj (keep_layer None) ex_root ex_data []))
  = Some (JObj [([97], JStr [120]); ([98], JObj [([99], JStr [121])])]).
Proof. vm_compute. split; reflexivity. Qed.

(* ---- error reporting and cancellation (after the repairs c10_fix_*; the former witnesses
   errors_reported_refuted / null_data_pending_refuted are kept below as regressions) ---- *)

(* A batch that delivers no item although errors were collected has no incremental list at all
   and carries the errors on its completed entry: errors are never dropped with "incremental":[]. *)
Theorem errors_reported : forall descs root data d o f data' live o',
  render_batch descs root data d o = (f, data', live, o') ->
  f_incr (fr_sum f) = [] -> batch_errors descs root data d <> [] ->
  jget k_incremental (fr_json f) = None /\
  jget k_completed (fr_json f) =
    Some (JArr [JObj [(k_id, JStr (dec_of_N (dd_id d))); (k_errors, errs_json (batch_errors descs root data d))]]).
Proof.
  intros descs root data d o f data' live o'. unfold render_batch, batch_errors.
  destruct (dwalk descs (Some d) root data [] [] false false (wst0 [])) as [[[data1 s1] rv1] st1].
  destruct (ws_null st1).
  - intros H Hi He. inversion H; subst; clear H. simpl.
    destruct (ws_errs st1); [contradiction |]. split; reflexivity.
  - destruct (dwalk descs (Some d) root data1 [] [] true false (wst0 (ws_errs st1))) as [[[d2 s2] rv2] st2].
    simpl. intros H Hi He.
    destruct (ws_items st2) as [| it its] eqn:Eit; destruct (ws_errs st2) as [| e es] eqn:Ee; try contradiction;
      simpl in H; inversion H; subst; clear H; simpl in *; try discriminate.
    split; reflexivity.
Qed.
Print Assumptions errors_reported.

(* A defer that fails (no incremental list: completed with errors) announces no nested defer. *)
Theorem failed_defer_announces_nothing : forall descs root data d o f data' live o',
  render_batch descs root data d o = (f, data', live, o') ->
  jget k_incremental (fr_json f) = None -> live = [] /\ f_pending (fr_sum f) = [].
Proof.
  intros descs root data d o f data' live o' H Hn.
  destruct (ProofsBasic.render_batch_sum _ _ _ _ _ _ _ _ _ H) as [S1 [_ [_ [_ [_ [_ S7]]]]]].
  rewrite S1, (S7 Hn). split; reflexivity.
Qed.
Print Assumptions failed_defer_announces_nothing.

(* When the initial pre-walk fails ("data":null) nothing is announced: the initial frame is the
   whole, complete response. *)
Theorem null_data_announces_nothing : forall descs root data f data' live,
  render_initial descs root data = (f, data', live) ->
  initial_failed descs root data = true ->
  jget k_data (fr_json f) = Some JNull /\ live = [] /\ f_pending (fr_sum f) = [] /\ f_hasnext (fr_sum f) = false.
Proof.
  intros descs root data f data' live. unfold render_initial, initial_failed.
  destruct (dwalk descs None root data [] [] false false (wst0 [])) as [[[data1 s1] rv1] st1].
  destruct s1; intros H Hf; try discriminate; inversion H; subst; clear H; simpl;
    (destruct (ws_errs st1); simpl; repeat split; reflexivity).
Qed.
Print Assumptions null_data_announces_nothing.

(* regressions: the two former witnesses.
   { a { ... @defer { x } } }  x: String!, data {"a":{"x":null}}: the null bubbles through the
   anchor a; the error now arrives on the completed entry. *)
Definition ex2_root : dnode :=
  DObj [] false [81] [] [DFld [97] None None None (DObj [[97]] true [65] [] [DFld [120] None None (Some 1) (DLeaf (NStr [[120]] false))])].
Definition ex2_descs : list ddesc := [{| dd_id := 1; dd_parent := 0; dd_label := []; dd_path := [[97]] |}].
Definition ex2_data : json := JObj [([97], JObj [([120], JNull)])].

Example errors_reported_regression :
  defer_plan_wf ex2_descs ex2_root (Some (TSingle 1)) = true /\
  match exec ex2_descs ex2_root (Some (TSingle 1)) ex2_data [AFetch 1; ARender 1] with
  | Some [f0; f1] =>
    (* {"data":{"a":{}},"pending":[{"id":"1","path":["a"]}],"hasNext":true} *)
    frame_bytes f0 = [123;34;100;97;116;97;34;58;123;34;97;34;58;123;125;125;44;34;112;101;110;100;105;110;103;34;58;91;123;34;105;100;34;58;34;49;34;44;34;112;97;116;104;34;58;91;34;97;34;93;125;93;44;34;104;97;115;78;101;120;116;34;58;116;114;117;101;125] /\
    (* {"completed":[{"id":"1","errors":[{"k":1,"path":["a","x"]}]}],"hasNext":false} *)
    frame_bytes f1 = [123;34;99;111;109;112;108;101;116;101;100;34;58;91;123;34;105;100;34;58;34;49;34;44;34;101;114;114;111;114;115;34;58;91;123;34;107;34;58;49;44;34;112;97;116;104;34;58;91;34;97;34;44;34;120;34;93;125;93;125;93;44;34;104;97;115;78;101;120;116;34;58;102;97;108;115;101;125]
  | _ => False
  end.
Proof. vm_compute. repeat split; reflexivity. Qed.

(* { a ... @defer { b } }  a: String!, data {"a":null,"b":"x"}: data is null, nothing is announced. *)
Definition ex3_root : dnode :=
  DObj [] false [81] [] [DFld [97] None None None (DLeaf (NStr [[97]] false));
                         DFld [98] None None (Some 1) (DLeaf (NStr [[98]] true))].
Definition ex3_descs : list ddesc := [{| dd_id := 1; dd_parent := 0; dd_label := []; dd_path := [] |}].

Example null_data_regression :
  (* {"errors":[{"k":1,"path":["a"]}],"data":null,"hasNext":false} and no further frame *)
  match exec ex3_descs ex3_root (Some (TSingle 1)) (JObj [([97], JNull); ([98], JStr [120])]) [] with
  | Some [f0] => frame_bytes f0 = [123;34;101;114;114;111;114;115;34;58;91;123;34;107;34;58;49;44;34;112;97;116;104;34;58;91;34;97;34;93;125;93;44;34;100;97;116;97;34;58;110;117;108;108;44;34;104;97;115;78;101;120;116;34;58;102;97;108;115;101;125]
  | _ => False
  end.
Proof. vm_compute. reflexivity. Qed.

(* ---- plan level: the descriptor path (plan/defer_info_collector.go; model in DescPath.v) ---- *)

(* Alias independence: renaming (adding, dropping) aliases on the field ancestors of a deferred
   fragment changes neither the index of the outermost list field found by the lookup nor the
   number of leading response keys kept; the path of the renamed chain is the same-length prefix
   of its own response keys.  (The lookup reads field NAMES; a lookup by response key -- seeded
   regression C10-m2 -- loses this.) *)
Theorem descriptor_path_alias_independent : forall s root c1 c2,
  same_names c1 c2 = true ->
  outermost_list_idx s root c1 O = outermost_list_idx s root c2 O /\
  kept s root c1 = kept s root c2 /\
  defer_path s root c2 = firstn (kept s root c1) (candidate c2).
Proof. exact alias_independent. Qed.
Print Assumptions descriptor_path_alias_independent.

Example descriptor_path_alias_independent_ex :
  let c1 := [AOther; AField None b_users; AField None b_info] in
  let c2 := [AOther; AField (Some b_list) b_users; AField (Some b_alt) b_info] in
  same_names c1 c2 = true /\ defer_path ex_schema b_Query c1 = [b_users] /\ defer_path ex_schema b_Query c2 = [b_list].
Proof. vm_compute. repeat split; reflexivity. Qed.

(* The anchor lookup succeeds: for every well-typed ancestor chain (whatever its aliases) in which
   no fragment narrows the type, the collector's index is the specification's (the first field whose
   schema type -- by name, on the enclosing type -- is a list), the descriptor path is the response
   keys up to and including that field, and the lookup does not give up.  The full statement (every
   well-typed chain) is false of the code: descriptor_path_truncated_refuted. *)
Theorem descriptor_path_truncated_partial : forall s root chain,
  chain_typed s root chain = true ->
  no_narrowing s root chain = true ->
  outermost_list_idx s root chain O = spec_list_idx s root chain O /\
  defer_path s root chain = spec_path s root chain /\
  static_gives_up s root chain = false.
Proof. exact truncated_partial. Qed.
Print Assumptions descriptor_path_truncated_partial.

Example descriptor_path_truncated_partial_ex :
  let c := [AOther; AField (Some b_list) b_users; AFrag b_User; AField (Some b_alt) b_friends; AField None b_info] in
  chain_typed ex_schema b_Query c = true /\ no_narrowing ex_schema b_Query c = true /\
  defer_path ex_schema b_Query c = [b_list].
Proof. vm_compute. repeat split; reflexivity. Qed.

(* Refuted in general: { node { ... on Pet { owner { friends { alt { ... @defer {..} } } } } } } --
   owner is not a field of the interface Node, the un-narrowed lookup gives up and the path runs
   through the list friends (recorded finding defer-under-typed-list-dropped, replayed on the engine
   by corpus/C10). *)
Theorem descriptor_path_truncated_refuted : exists s root chain,
  chain_typed s root chain = true /\ static_gives_up s root chain = true /\
  defer_path s root chain <> spec_path s root chain.
Proof. exact truncated_refuted_exists. Qed.
Print Assumptions descriptor_path_truncated_refuted.

(* the checker run on the implementation's DeferDescriptors decides the specification (a defer whose fields
   surface in several selection sets: common prefix of the cut paths) *)
Theorem desc_path_checker_sound : forall s root chains impl,
  desc_paths_ok_b s root chains impl = true <-> impl = spec_collector_path s root chains.
Proof. exact desc_paths_ok_sound. Qed.
Print Assumptions desc_path_checker_sound.

(* descriptor_path_truncated_partial lifted to the collector over all selection sets of one defer *)
Theorem collector_path_truncated_partial : forall s root chains,
  (forall c, In c chains -> chain_typed s root c = true /\ no_narrowing s root c = true) ->
  collector_path s root chains = spec_collector_path s root chains.
Proof. exact collector_truncated_partial. Qed.
Print Assumptions collector_path_truncated_partial.

(* Anchors compose with the renderer's subPath (runtime path minus the matched prefix of the descriptor
   path): whatever selection sets the fields of a defer surface in (its own top-level fields may have been
   merged into fields selected outside the fragment), the recorded path -- the common prefix of the cut paths,
   98fef79 -- is a prefix of the response position of every one of them. *)
Theorem descriptor_anchor_consistent : forall s root chains,
  anchor_ok_b (collector_path s root chains) chains = true.
Proof. exact anchor_consistent. Qed.
Print Assumptions descriptor_anchor_consistent.

Example descriptor_anchor_consistent_ex :
  collector_path ex_schema2 b_Query ex_chains2 = [b_first] /\ collector_path_v0 ex_schema2 b_Query ex_chains2 = [b_first; b_detail].
Proof. vm_compute. split; reflexivity. Qed.

(* The collector as it was before 98fef79 (path of the first selection set only) is refuted by
   { first { detail {text} extra {text} ... @defer { detail {note} extra {note} } } } -- the repaired half (a)
   of the finding defer-merged-mount-wrong-anchor (regression: corpus/C10, work/c10_merged_mount_demo_test.go). *)
Theorem descriptor_anchor_consistent_v0_refuted : exists s root chains,
  forallb (chain_typed s root) chains = true /\
  forallb (no_narrowing s root) chains = true /\
  anchor_ok_b (collector_path_v0 s root chains) chains = false /\
  anchor_ok_b (collector_path s root chains) chains = true.
Proof. exact anchor_v0_refuted_exists. Qed.
Print Assumptions descriptor_anchor_consistent_v0_refuted.

(* Still open (half (b) of the same finding): a nested defer is mounted at or below its parent, yet the
   parent's recorded path need not be a prefix of the child's -- the parent is anchored below its real mount,
   and when that anchor reads null the parent is pruned together with a child mounted above the null. *)
Theorem descriptor_parent_prefix_refuted : exists s root parent_chains child_chains,
  forallb (chain_typed s root) (parent_chains ++ child_chains) = true /\
  prefix_b (collector_path s root parent_chains) (collector_path s root child_chains) = false.
Proof. exact parent_prefix_refuted_exists. Qed.
Print Assumptions descriptor_parent_prefix_refuted.

(* ---- reconstruction composed across the layers (SpecCompose.v, ProofsCompose*.v) ----
   [admissible descs ids]: the completion order ids names known defers, each at most once, every one
   after its parent; [order_of] are their descriptors; [client_result] is the client: the initial
   data, then for every completed defer in that order each of its items merged at path ++ subPath;
   [covers]: every defer of the plan completes. *)
From Gv Require Import C10.SpecCompose C10.ProofsCompose C10.ProofsComposeExec C10.ProofsComposeRest C10.ProofsComposeDead C10.ProofsComposeFinal.

(* Every prefix of a run: for every plan satisfying defer_plan_wf, ALL data and every admissible
   order, the fold of the merges never fails and yields the response of exactly the completed
   defers (up to the order of object members). *)
Theorem reconstruct_order : forall descs root tree data ids,
  defer_plan_wf descs root tree = true -> admissible descs ids = true ->
  exists v, client_result descs root data (order_of descs ids) = Some v /\
            jeq v (proj (keepX ids) root data []).
Proof. exact reconstruct_order_wf. Qed.
Print Assumptions reconstruct_order.

(* ... with the member order the merge produces: in every object the fields without a mark, then
   the fields of each completed defer in completion order ([projo]) -- an equality of trees *)
Theorem reconstruct_order_exact : forall descs root tree data ids,
  defer_plan_wf descs root tree = true -> admissible descs ids = true ->
  client_result descs root data (order_of descs ids) = Some (projo ids root data []).
Proof. exact reconstruct_order_exact_wf. Qed.
Print Assumptions reconstruct_order_exact.

(* The composition: for every plan satisfying defer_plan_wf, all data and EVERY admissible order in
   which all defers complete, the fold of the merges over the frames in that order, starting from
   the initial frame's data, is the response that keeps every field; on data that needs no
   completion (strict_clean, the hypothesis of reconstruct_total) that is the C02 completion of the
   erased plan, reported without error. *)
Theorem reconstruct_all : forall descs root tree data ids,
  defer_plan_wf descs root tree = true ->
  admissible descs ids = true -> covers descs ids = true ->
  exists v, client_result descs root data (order_of descs ids) = Some v /\
            jeq v (proj keep_all root data []) /\
            (strict_clean root data [] = true ->
             exists r, complete_root (fun _ _ => false) (erase root) data = (Some r, []) /\ jeq v r).
Proof. exact reconstruct_all_wf. Qed.
Print Assumptions reconstruct_all.

(* The reconstructed data does not depend on the completion order. *)
Theorem reconstruct_order_independent : forall descs root tree data ids1 ids2,
  defer_plan_wf descs root tree = true ->
  admissible descs ids1 = true -> admissible descs ids2 = true ->
  (forall x, In x ids1 <-> In x ids2) ->
  exists v1 v2, client_result descs root data (order_of descs ids1) = Some v1 /\
                client_result descs root data (order_of descs ids2) = Some v2 /\ jeq v1 v2.
Proof. exact order_independent_wf. Qed.
Print Assumptions reconstruct_order_independent.

(* The orders of the executor: the ids completed by the frames of any accepted trace, in frame
   order, form an admissible order. *)
Theorem exec_order_admissible : forall descs root tree data tr frames,
  defer_plan_wf descs root tree = true ->
  exec descs root tree data tr = Some frames ->
  admissible descs (completed_ids frames) = true.
Proof. exact exec_order_admissible_lemma. Qed.
Print Assumptions exec_order_admissible.

(* A defer whose anchor is dead (liveChildDescriptors never announces it) has nothing to deliver. *)
Theorem dead_anchor_delivers_nothing : forall descs root tree data d,
  defer_plan_wf descs root tree = true -> In d descs ->
  anchor_alive data (dd_path d) = false -> c_items descs d root data = [].
Proof. exact dead_anchor_no_items. Qed.
Print Assumptions dead_anchor_delivers_nothing.

(* Composition with the executor: for every accepted trace, when every defer that never completes
   has nothing to deliver on this data ([undelivered_empty], a boolean), the client's fold over the
   completion order of the trace is the non-deferred response.  (The payloads are those of the
   clean renderer c_items; the frames of render_batch are tied to it by the correspondence check
   corr:C10/clean, not by a theorem.) *)
Theorem reconstruct_exec_partial : forall descs root tree data tr frames,
  defer_plan_wf descs root tree = true ->
  exec descs root tree data tr = Some frames ->
  undelivered_empty descs root data (completed_ids frames) = true ->
  exists v, client_result descs root data (order_of descs (completed_ids frames)) = Some v /\
            jeq v (proj keep_all root data []) /\
            (strict_clean root data [] = true ->
             exists r, complete_root (fun _ _ => false) (erase root) data = (Some r, []) /\ jeq v r).
Proof. exact reconstruct_exec_lemma. Qed.
Print Assumptions reconstruct_exec_partial.

(* Without that hypothesis the executor statement is false of the model:
   { maybe {id} ... @defer { maybe {name} ... @defer { first {id} } } } with maybe = null -- the outer
   defer is anchored at [maybe] (dead), its Sequence is pruned, the inner defer (anchored at the
   root, alive, with data) never completes: the stream is {"data":{"maybe":null},"hasNext":false}
   and "first" is lost (recorded finding defer-merged-mount-wrong-anchor, half (b)). *)
Theorem reconstruct_exec_refuted : exists descs root tree data tr frames v r,
  defer_plan_wf descs root tree = true /\ strict_clean root data [] = true /\
  exec descs root tree data tr = Some frames /\
  client_result descs root data (order_of descs (completed_ids frames)) = Some v /\
  complete_root (fun _ _ => false) (erase root) data = (Some r, []) /\
  undelivered_empty descs root data (completed_ids frames) = false /\
  ~ jeq v r.
Proof. exact reconstruct_exec_refuted_lemma. Qed.
Print Assumptions reconstruct_exec_refuted.

(* non-vacuity: the example plan (defer 2 nested in defer 1, defer 3 a sibling of 1); the orders
   1,2,3 and 3,1,2 (the latter is the completion order of ex_trace) are admissible and complete and
   give the same members in different order; 2,1,3 is not admissible and its fold fails *)
Example reconstruct_all_nonvacuous :
  defer_plan_wf ex_descs ex_root ex_tree = true /\ strict_clean ex_root ex_data [] = true /\
  admissible ex_descs [1; 2; 3] = true /\ covers ex_descs [1; 2; 3] = true /\
  admissible ex_descs [3; 1; 2] = true /\ covers ex_descs [3; 1; 2] = true /\
  admissible ex_descs [2; 1; 3] = false /\
  client_result ex_descs ex_root ex_data (order_of ex_descs [1; 2; 3]) =
    Some (JObj [([97], JStr [120]); ([98], JObj [([99], JStr [121]); ([100], JStr [122])]); ([101], JNull)]) /\
  client_result ex_descs ex_root ex_data (order_of ex_descs [3; 1; 2]) =
    Some (JObj [([97], JStr [120]); ([101], JNull); ([98], JObj [([99], JStr [121]); ([100], JStr [122])])]) /\
  client_result ex_descs ex_root ex_data (order_of ex_descs [2; 1; 3]) = None /\
  match exec ex_descs ex_root ex_tree ex_data ex_trace with
  | Some frames => completed_ids frames = [3; 1; 2] /\
                   undelivered_empty ex_descs ex_root ex_data (completed_ids frames) = true
  | None => False
  end.
Proof. vm_compute. repeat split; reflexivity. Qed.

(* ---- render + flush of one frame is one critical section of the DataBuffer lock ----
   ModelFlush.v splits the atomic action "group g renders and flushes" of the executor the way
   resolveDeferSingle is written -- Lock; write the frame (ResolveDeferBatch / ResolveDeferError);
   Flush; Unlock -- over a writer that hands over, at each Flush, everything written since the previous
   one.  [faithful] is the discipline of the code (every group flushes before it unlocks). *)
From Gv Require Import C10.ModelFlush C10.ProofsFlush.

(* At every point of every interleaving of the lock-level steps: every Flush so far has handed over
   exactly one frame ([w_flushed] is the list of singletons of a prefix of the frames), in the order in
   which the lock was taken (the order of [g_frames]); at most one frame is written and not flushed, and
   none when the lock is free. *)
Theorem flush_one_frame : forall descs root tree data mtr k G W,
  mrun descs root faithful mtr (minit descs root tree data) = Some (k, G, W) ->
  exists pre, g_frames G = pre ++ w_buf W /\ w_flushed W = map single pre /\
              (length (w_buf W) <= 1)%nat /\ (w_lock W = None -> w_buf W = [] /\ w_unflushed W = []).
Proof. exact flush_one_frame_l. Qed.
Print Assumptions flush_one_frame.

(* A finished lock-level run (tree done, everybody flushed and unlocked) of a defer_plan_wf plan: the
   flushes are exactly the frames of the run of the executor LTS underneath (stream_wellformed's trace),
   one per Flush, the checker of the Flush boundaries accepts them -- in particular no Flush comes after
   the frame with hasNext:false -- and the concatenation is a well-formed stream. *)
Theorem flush_stream_wellformed : forall descs root tree data mtr k G W,
  defer_plan_wf descs root tree = true ->
  mrun descs root faithful mtr (minit descs root tree data) = Some (k, G, W) ->
  mdone (k, G, W) = true ->
  w_flushed W = map single (g_frames G) /\
  exec descs root tree data (macro mtr) = Some (g_frames G) /\
  flushes_ok_b (map (map fr_sum) (w_flushed W)) = true /\
  stream_ok_b (map fr_sum (concat (w_flushed W))) = true.
Proof. exact flush_stream_wellformed_l. Qed.
Print Assumptions flush_stream_wellformed.

(* non-vacuity: the example plan, groups 3 and 1 fetch concurrently, 3 takes the lock first *)
Definition ex_mtrace : list maction :=
  [MStep (AFetch 3); MStep (AFetch 1); MStep (ARender 3); MFlush 3; MUnlock 3;
   MStep (ARender 1); MStep (AFetch 2); MFlush 1; MUnlock 1; MStep (ARender 2); MFlush 2; MUnlock 2].
Example flush_one_frame_nonvacuous :
  match mrun ex_descs ex_root faithful ex_mtrace (minit ex_descs ex_root ex_tree ex_data) with
  | Some (k, G, W) => mdone (k, G, W) = true /\ map (@length frame) (w_flushed W) = [1; 1; 1; 1]%nat
  | None => False
  end.
Proof. vm_compute. split; reflexivity. Qed.

(* The variant in which one group releases the lock BEFORE it flushes (lock; write; unlock -- in a helper --
   and the Flush in the caller) breaks it, on a defer_plan_wf plan with two sibling defers: the sibling takes
   the lock in between, one Flush hands over two frames and the late Flush hands over nothing, after the final
   frame.  (Seeded regression C10-m8: the hard-fetch-error branch of resolveDeferSingle.) *)
Definition ex5_root : dnode :=
  DObj [] false [81] []
    [DFld [97] None None None (ex_leaf [97]);
     DFld [98] None None (Some 1) (ex_leaf [98]);
     DFld [101] None None (Some 2) (ex_leaf [101])].
Definition ex5_descs : list ddesc :=
  [{| dd_id := 1; dd_parent := 0; dd_label := []; dd_path := [] |};
   {| dd_id := 2; dd_parent := 0; dd_label := []; dd_path := [] |}].
Definition ex5_data : json := JObj [([97], JStr [120]); ([98], JStr [121]); ([101], JStr [122])].

Theorem flush_one_frame_refuted : exists descs root tree data early mtr k G W,
  defer_plan_wf descs root tree = true /\
  mrun descs root early mtr (minit descs root tree data) = Some (k, G, W) /\
  mdone (k, G, W) = true /\
  map (@length frame) (w_flushed W) = [1; 2; 0]%nat /\
  flushes_ok_b (map (map fr_sum) (w_flushed W)) = false.
Proof.
  exists ex5_descs, ex5_root, (Some (TPar [TSingle 1; TSingle 2])), ex5_data, (fun g => g =? 1),
    [MStep (AFetch 1); MStep (AFetch 2); MStep (ARender 1); MUnlock 1;
     MStep (ARender 2); MFlush 2; MUnlock 2; MFlush 1].
  eexists; eexists; eexists.
  split; [vm_compute; reflexivity |]. split; [vm_compute; reflexivity |].
  split; [vm_compute; reflexivity |]. split; vm_compute; reflexivity.
Qed.
Print Assumptions flush_one_frame_refuted.
