(* C10 property theorems: statements only; every proof is [exact lemma]. *)
From Coq Require Import ZArith.
From Gv Require Import lib.Bytes lib.Json C02.Model C02.Spec C10.Model C10.Spec C10.ProofsStream C10.ProofsTerm C10.ProofsRecon C10.ProofsClean C10.ProofsPaths.
Open Scope N_scope.

(* Every complete run of the defer-tree executor -- any interleaving of "fetch phase of group g
   finished" (unlocked) and "group g renders and flushes" (atomic under the DataBuffer lock)
   accepted by the transition system -- over any plan satisfying defer_plan_wf and any data writes
   a frame sequence accepted by the protocol checker: every announced id is completed exactly once
   and later, nothing is delivered or completed for an unannounced id, hasNext is false on the last
   frame and only there. *)
Theorem stream_wellformed : forall descs root tree data tr frames,
  defer_plan_wf descs root tree = true ->
  exec descs root tree data tr = Some frames ->
  stream_ok_b (map fr_sum frames) = true.
Proof. exact stream_wellformed_b. Qed.
Print Assumptions stream_wellformed.

(* The stream terminates: every run from the initial state is at most as long as the measure of
   that state (three steps' worth per deferred group: fetch, render, bookkeeping), and a state that
   is not finished always has an enabled step (the fetch phase needs no lock, render+flush is one
   atomic step), so every maximal run ends in a finished state -- whose last frame says
   hasNext:false by stream_wellformed. *)
Theorem stream_terminates : forall descs root tree data tr k0 G0 k G,
  defer_plan_wf descs root tree = true ->
  init_state descs root tree data = (k0, G0) ->
  run descs root tr k0 G0 = Some (k, G) ->
  (length tr <= msize k0)%nat /\
  (task_done k = false -> exists a k' G' fin, tstep descs root a k G = Some (k', G', fin)).
Proof.
  intros descs root tree data tr k0 G0 k G Hwf Hi Hr. split.
  - pose proof (run_bounded descs root tr k0 G0 k G Hr). Lia.lia.
  - intros Hd. apply tstep_progress; [| exact Hd]. eapply wf_run_kwf; eauto.
Qed.
Print Assumptions stream_terminates.

(* non-vacuity: { a  ... @defer { b { c ... @defer { d } } }  ... @defer { e } } with the tree
   Parallel(Sequence(Single 1, Single 2), Single 3); the run renders 3, then 1, then 2 *)
Definition ex_leaf (k : bytes) : dnode := DLeaf (NStr [k] true).
Definition ex_root : dnode :=
  DObj [] false [81] []
    [DFld [97] None None None (ex_leaf [97]);
     DFld [98] None None (Some 1)
       (DObj [[98]] true [66] []
          [DFld [99] None None (Some 1) (ex_leaf [99]);
           DFld [100] None None (Some 2) (ex_leaf [100])]);
     DFld [101] None None (Some 3) (ex_leaf [101])].
Definition ex_descs : list ddesc :=
  [{| dd_id := 1; dd_parent := 0; dd_label := []; dd_path := [] |};
   {| dd_id := 2; dd_parent := 1; dd_label := [76]; dd_path := [[98]] |};
   {| dd_id := 3; dd_parent := 0; dd_label := []; dd_path := [] |}].
Definition ex_tree : option dtree := Some (TPar [TSeq [TSingle 1; TSingle 2]; TSingle 3]).
Definition ex_data : json :=
  JObj [([97], JStr [120]); ([98], JObj [([99], JStr [121]); ([100], JStr [122])]); ([101], JNull)].
Definition ex_trace : list action := [AFetch 3; AFetch 1; ARender 3; ARender 1; AFetch 2; ARender 2].

Example stream_wellformed_nonvacuous :
  defer_plan_wf ex_descs ex_root ex_tree = true /\
  match exec ex_descs ex_root ex_tree ex_data ex_trace with
  | Some frames => length frames = 4%nat /\ stream_ok_b (map fr_sum frames) = true
  | None => False
  end.
Proof. vm_compute. split; [reflexivity | split; reflexivity]. Qed.

(* Without "every descriptor has a fetch group" the protocol is violated: a descriptor whose id
   owns no fetch is announced by the initial frame (hasNext:true) and never completed. *)
Theorem stream_wellformed_refuted : exists descs root tree data tr frames,
  exec descs root tree data tr = Some frames /\ stream_ok_b (map fr_sum frames) = false.
Proof.
  exists [{| dd_id := 1; dd_parent := 0; dd_label := []; dd_path := [] |}],
         (DObj [] false [81] [] [DFld [97] None None (Some 1) (ex_leaf [97])]),
         None, (JObj [([97], JStr [120])]), [].
  eexists. split; [vm_compute; reflexivity | vm_compute; reflexivity].
Qed.
Print Assumptions stream_wellformed_refuted.

(* ---- reconstruction ----
   [proj (keepX X)] is the response restricted to the fields without a mark and the fields of
   the defers X (ProofsRecon); [r_items] are the items of one defer with their paths (the place the
   envelope was opened); [apply_rel] is the client: every item merged at its path; [jeq] is
   equality of JSON trees up to the order of object members. *)

(* The initial frame carries exactly the fields without a mark: the response of the empty set of
   delivered defers. *)
Theorem reconstruct_initial : forall descs root data,
  exists rest, fr_json (c_initial descs root data) = JObj ((k_data, proj (keepX []) root data []) :: rest).
Proof.
  intros. eexists. unfold c_initial. simpl.
  rewrite <- (proj_ext (keepX []) (keep_layer None) keepX_nil root data []). reflexivity.
Qed.
Print Assumptions reconstruct_initial.

(* One layer: for every plan satisfying defer_plan_wf, every data, every set X of delivered
   defers that contains the ancestors of d and none of its descendants: the client's merge of the
   items of d -- each at the path of d's pending entry followed by the item's subPath -- into the
   response of the layers X gives the response of the layers X + d. *)
Theorem reconstruct_layer : forall descs root tree d X data,
  defer_plan_wf descs root tree = true ->
  find_desc descs (dd_id d) = Some d ->
  ~ In (dd_id d) X ->
  (forall c, is_ancestor descs c (dd_parent d) = true -> In c X) ->
  (forall c, In c X -> is_ancestor descs (dd_id d) (parent_of descs c) = false) ->
  exists v, merge_layer descs d root data (Some (proj (keepX X) root data [])) = Some v /\
            jeq v (proj (keepX (dd_id d :: X)) root data []).
Proof.
  intros descs root tree d X data Hwf Hfd H1 H2 H3.
  unfold defer_plan_wf in Hwf.
  apply andb_true_iff in Hwf. destruct Hwf as [Hwf Hnames].
  apply andb_true_iff in Hwf. destruct Hwf as [Hwf Hpaths].
  apply andb_true_iff in Hwf. destruct Hwf as [Hwf Hscope].
  apply andb_true_iff in Hwf. destruct Hwf as [_ Hroot].
  rewrite (merge_layer_rel descs d root data _ Hfd Hpaths Hnames Hroot).
  assert (Hp : parent_of descs (dd_id d) = dd_parent d). { unfold parent_of. rewrite Hfd. reflexivity. }
  apply (seek_merge descs d Hp X H1 H2 H3 root [] None data [] Hscope Hnames).
  - intros e [].
  - discriminate.
Qed.
Print Assumptions reconstruct_layer.

(* All layers together are the response of the same plan without defer marks: on data that needs
   no completion the completion semantics of the erased plan (C02.Spec.complete) reports no error
   and returns the projection that keeps every field. *)
Theorem reconstruct_total : forall root data,
  strict_clean root data [] = true ->
  complete_root (fun _ _ => false) (erase root) data = (Some (proj keep_all root data []), []).
Proof. intros. unfold complete_root. apply complete_of_strict_clean. exact H. Qed.
Print Assumptions reconstruct_total.

(* non-vacuity of reconstruct_layer / reconstruct_total: the example plan, layer 1 on top of the initial data *)
Example reconstruct_nonvacuous :
  strict_clean ex_root ex_data [] = true /\
  merge_layer ex_descs {| dd_id := 1; dd_parent := 0; dd_label := []; dd_path := [] |} ex_root ex_data
              (Some (proj (keep_layer None) ex_root ex_data []))
  = Some (JObj [([97], JStr [120]); ([98], JObj [([99], JStr [121])])]).
Proof. vm_compute. split; reflexivity. Qed.

(* ---- what the renderer gets wrong (witnesses replayed on the Go code, see KNOWN_FINDINGS) ---- *)

(* A deferred fragment whose null bubbles through its own (nullable) anchor is completed with an
   empty incremental list and without errors: the error collected by the pre-walk is dropped and
   the client keeps the object the initial frame delivered.
   { a { ... @defer { x } } }  x: String!, data {"a":{"x":null}} *)
Definition ex2_root : dnode :=
  DObj [] false [81] [] [DFld [97] None None None (DObj [[97]] true [65] [] [DFld [120] None None (Some 1) (DLeaf (NStr [[120]] false))])].
Definition ex2_descs : list ddesc := [{| dd_id := 1; dd_parent := 0; dd_label := []; dd_path := [[97]] |}].
Definition ex2_data : json := JObj [([97], JObj [([120], JNull)])].

Theorem errors_reported_refuted :
  defer_plan_wf ex2_descs ex2_root (Some (TSingle 1)) = true /\
  (* the completion of the plan without @defer reports an error and nulls a *)
  complete_root (fun _ _ => false) (erase ex2_root) ex2_data
    = (Some (JObj [([97], JNull)]), [{| ge_kind := EK_NONNULL; ge_path := [PName [97]; PName [120]] |}]) /\
  match exec ex2_descs ex2_root (Some (TSingle 1)) ex2_data [AFetch 1; ARender 1] with
  | Some [f0; f1] =>
    (* {"data":{"a":{}},"pending":[{"id":"1","path":["a"]}],"hasNext":true} *)
    frame_bytes f0 = [123;34;100;97;116;97;34;58;123;34;97;34;58;123;125;125;44;34;112;101;110;100;105;110;103;34;58;91;123;34;105;100;34;58;34;49;34;44;34;112;97;116;104;34;58;91;34;97;34;93;125;93;44;34;104;97;115;78;101;120;116;34;58;116;114;117;101;125] /\
    (* {"incremental":[],"completed":[{"id":"1"}],"hasNext":false} *)
    frame_bytes f1 = [123;34;105;110;99;114;101;109;101;110;116;97;108;34;58;91;93;44;34;99;111;109;112;108;101;116;101;100;34;58;91;123;34;105;100;34;58;34;49;34;125;93;44;34;104;97;115;78;101;120;116;34;58;102;97;108;115;101;125]
  | _ => False
  end.
Proof. vm_compute. repeat split; reflexivity. Qed.
Print Assumptions errors_reported_refuted.

(* When a non-null violation of the primary part nulls the whole data, the initial frame still
   announces the root-level defers: "data":null, pending id 1 at path [], hasNext:true.
   { a  ... @defer { b } }  a: String!, data {"a":null,"b":"x"} *)
Definition ex3_root : dnode :=
  DObj [] false [81] [] [DFld [97] None None None (DLeaf (NStr [[97]] false));
                         DFld [98] None None (Some 1) (DLeaf (NStr [[98]] true))].
Definition ex3_descs : list ddesc := [{| dd_id := 1; dd_parent := 0; dd_label := []; dd_path := [] |}].

Theorem null_data_pending_refuted :
  defer_plan_wf ex3_descs ex3_root (Some (TSingle 1)) = true /\
  (* {"errors":[{"k":1,"path":["a"]}],"data":null,"pending":[{"id":"1","path":[]}],"hasNext":true} *)
  let '(f0, _, _) := render_initial ex3_descs ex3_root (JObj [([97], JNull); ([98], JStr [120])]) in
  frame_bytes f0 = [123;34;101;114;114;111;114;115;34;58;91;123;34;107;34;58;49;44;34;112;97;116;104;34;58;91;34;97;34;93;125;93;44;34;100;97;116;97;34;58;110;117;108;108;44;34;112;101;110;100;105;110;103;34;58;91;123;34;105;100;34;58;34;49;34;44;34;112;97;116;104;34;58;91;93;125;93;44;34;104;97;115;78;101;120;116;34;58;116;114;117;101;125].
Proof. vm_compute. split; reflexivity. Qed.
Print Assumptions null_data_pending_refuted.
