(* C10: the DataBuffer lock and the response writer of resolveDeferSingle, one level below Model.v.

   Model.v takes "group g renders and flushes" as ONE atomic action (ARender g).  Here that action is
   split the way the code is written:

       dc.db.Lock()                      \
       ... ResolveDeferBatch / ResolveDeferError write the frame into dc.writer   } MStep (ARender g)
       dc.writer.Flush()                   MFlush g
       dc.db.Unlock()  (deferred)          MUnlock g

   and the writer is modelled as what it is: a buffer that a Flush hands over whole (whatever was written
   since the previous Flush, by whomever).  [early g = true] is the variant in which group g releases the
   lock BEFORE it flushes (lock; write; unlock; flush) -- the shape of a helper that locks and unlocks by
   itself with the Flush left in the caller.  The faithful executor is [early = fun _ => false]. *)
From Coq Require Import ZArith.
From Gv Require Import lib.Bytes lib.Json C02.Model C10.Model.
Open Scope N_scope.

Record wstate := {
  w_lock : option N;               (* the group holding the DataBuffer lock *)
  w_unflushed : list N;            (* groups that have written their frame and not called Flush yet *)
  w_buf : list frame;              (* written since the last Flush *)
  w_flushed : list (list frame)    (* what each Flush call handed over, in order *)
}.

Inductive maction :=
| MStep (a : action)     (* AFetch g: the unlocked fetch phase ends; ARender g: g takes the lock and writes its frame *)
| MFlush (g : N)         (* g calls writer.Flush() *)
| MUnlock (g : N).       (* g releases the lock *)

Definition lock_is (W : wstate) (g : N) : bool :=
  match w_lock W with Some h => h =? g | None => false end.

Fixpoint remove_N (g : N) (l : list N) : list N :=
  match l with [] => [] | x :: r => if x =? g then remove_N g r else x :: remove_N g r end.

Section MExec.
  Variable descs : list ddesc.
  Variable root : dnode.
  Variable early : N -> bool.

  Definition mstep (m : maction) (s : task * gstate * wstate) : option (task * gstate * wstate) :=
    let '(k, G, W) := s in
    match m with
    | MStep (AFetch g) =>
      match tstep descs root (AFetch g) k G with
      | Some (k', G', _) => Some (k', G', W)
      | None => None
      end
    | MStep (ARender g) =>
      match w_lock W with
      | Some _ => None                                   (* Lock() blocks *)
      | None =>
        match tstep descs root (ARender g) k G with
        | Some (k', G', _) =>
          Some (k', G', {| w_lock := Some g; w_unflushed := w_unflushed W ++ [g];
                           w_buf := w_buf W ++ skipn (length (g_frames G)) (g_frames G');
                           w_flushed := w_flushed W |})
        | None => None
        end
      end
    | MFlush g =>
      if mem_N g (w_unflushed W) && (if early g then negb (lock_is W g) else lock_is W g) then
        Some (k, G, {| w_lock := w_lock W; w_unflushed := remove_N g (w_unflushed W);
                       w_buf := []; w_flushed := w_flushed W ++ [w_buf W] |})
      else None
    | MUnlock g =>
      if lock_is W g && (early g || negb (mem_N g (w_unflushed W))) then
        Some (k, G, {| w_lock := None; w_unflushed := w_unflushed W; w_buf := w_buf W; w_flushed := w_flushed W |})
      else None
    end.

  Fixpoint mrun (tr : list maction) (s : task * gstate * wstate) : option (task * gstate * wstate) :=
    match tr with
    | [] => Some s
    | m :: r => match mstep m s with Some s' => mrun r s' | None => None end
    end.

  (* the initial frame is written and flushed before the tree is walked *)
  Definition minit (tree : option dtree) (data : json) : task * gstate * wstate :=
    let '(k, G) := init_state descs root tree data in
    (k, G, {| w_lock := None; w_unflushed := []; w_buf := []; w_flushed := [g_frames G] |}).

  (* the macro trace underneath *)
  Fixpoint macro (tr : list maction) : list action :=
    match tr with
    | [] => []
    | MStep a :: r => a :: macro r
    | _ :: r => macro r
    end.

  (* finished: the tree is done, every group has flushed and released the lock *)
  Definition mdone (s : task * gstate * wstate) : bool :=
    let '(k, _, W) := s in
    task_done k && match w_lock W with None => true | Some _ => false end
    && match w_unflushed W with [] => true | _ => false end.
End MExec.
