(* C10: the structure of the defer-tree executor: which ids a task still owes, how the
   Sequence/Parallel shape built by buildDeferTree is reflected in the task, pruning. *)
From Coq Require Import ZArith Lia ZifyN ZifyNat ZifyBool Permutation.
From Gv Require Import lib.Bytes lib.Json C02.Model C10.Model C10.Spec C10.ProofsBasic.
Open Scope N_scope.

(* ---- induction principles for the nested types ---- *)
Section DtreeInd.
  Variable P : dtree -> Prop.
  Hypothesis Hs : forall g, P (TSingle g).
  Hypothesis Hq : forall l, Forall P l -> P (TSeq l).
  Hypothesis Hp : forall l, Forall P l -> P (TPar l).
  Fixpoint dtree_ind' (t : dtree) : P t :=
    match t with
    | TSingle g => Hs g
    | TSeq l => Hq l ((fix go (l : list dtree) : Forall P l :=
                         match l with [] => Forall_nil _ | x :: r => Forall_cons _ (dtree_ind' x) (go r) end) l)
    | TPar l => Hp l ((fix go (l : list dtree) : Forall P l :=
                         match l with [] => Forall_nil _ | x :: r => Forall_cons _ (dtree_ind' x) (go r) end) l)
    end.
End DtreeInd.

Section TaskInd.
  Variable P : task -> Prop.
  Hypothesis H1 : forall g, P (KSingle g).
  Hypothesis H2 : forall g, P (KFetched g).
  Hypothesis H3 : forall p rest, P p -> P (KSeqP p rest).
  Hypothesis H4 : forall c rest live, P c -> P (KSeqC c rest live).
  Hypothesis H5 : forall ts, Forall P ts -> P (KPar ts).
  Hypothesis H6 : P KDone.
  Hypothesis H7 : P KPanic.
  Fixpoint task_ind' (k : task) : P k :=
    match k with
    | KSingle g => H1 g
    | KFetched g => H2 g
    | KSeqP p rest => H3 p rest (task_ind' p)
    | KSeqC c rest live => H4 c rest live (task_ind' c)
    | KPar ts => H5 ts ((fix go (l : list task) : Forall P l :=
                           match l with [] => Forall_nil _ | x :: r => Forall_cons _ (task_ind' x) (go r) end) ts)
    | KDone => H6
    | KPanic => H7
    end.
End TaskInd.

(* ---- ids ---- *)
Fixpoint tree_ids (t : dtree) : list N :=
  match t with
  | TSingle g => [g]
  | TSeq l | TPar l => flat_map tree_ids l
  end.

Fixpoint tops (t : dtree) : list N :=
  match t with
  | TPar l => flat_map tops l
  | _ => match top_id t with Some g => [g] | None => [] end
  end.

Fixpoint owed (k : task) : list N :=
  match k with
  | KSingle g | KFetched g => [g]
  | KSeqP p _ => owed p
  | KSeqC c rest live => owed c ++ filter (fun x => mem_N x live) (flat_map tops rest)
  | KPar ts => flat_map owed ts
  | KDone | KPanic => []
  end.

Fixpoint all_ids (k : task) : list N :=
  match k with
  | KSingle g | KFetched g => [g]
  | KSeqP p rest => all_ids p ++ flat_map tree_ids rest
  | KSeqC c rest _ => all_ids c ++ flat_map tree_ids rest
  | KPar ts => flat_map all_ids ts
  | KDone | KPanic => []
  end.

Lemma NoDup_app_split : forall (A : Type) (a b : list A),
  NoDup (a ++ b) -> NoDup a /\ NoDup b /\ (forall x, In x a -> In x b -> False).
Proof.
  induction a as [| x a IH]; simpl; intros b H.
  - repeat split; auto. constructor.
  - inversion H; subst. destruct (IH b H3) as [Ha [Hb Hd]]. repeat split; auto.
    + constructor; auto. intros Hin. apply H2. apply in_or_app. left. exact Hin.
    + intros y [-> | Hy] Hyb.
      * apply H2. apply in_or_app. right. exact Hyb.
      * eapply Hd; eassumption.
Qed.
Lemma NoDup_app_join : forall (A : Type) (a b : list A),
  NoDup a -> NoDup b -> (forall x, In x a -> In x b -> False) -> NoDup (a ++ b).
Proof.
  induction a as [| x a IH]; simpl; intros b Ha Hb Hd; auto.
  inversion Ha; subst. constructor.
  - intros Hin. apply in_app_or in Hin. destruct Hin as [Hin | Hin]; [contradiction | eapply Hd; [left; reflexivity | exact Hin]].
  - apply IH; auto. intros y Hy Hyb. eapply Hd; [right; exact Hy | exact Hyb].
Qed.

Section Shape.
  Variable descs : list ddesc.
  Notation children := (children_ids descs).

  (* the shape produced by buildDeferTree *)
  Inductive twf : dtree -> Prop :=
  | twf_single : forall g, children g = [] -> twf (TSingle g)
  | twf_seq : forall g rest, flat_map tops rest = children g -> Forall twf rest -> twf (TSeq (TSingle g :: rest))
  | twf_par : forall l, Forall twf l -> Forall (fun t => exists g, top_id t = Some g) l -> twf (TPar l).

  Inductive kwf : task -> Prop :=
  | kwf_single : forall g, children g = [] -> kwf (KSingle g)
  | kwf_fetched : forall g, children g = [] -> kwf (KFetched g)
  | kwf_seqp : forall p g rest, (p = KSingle g \/ p = KFetched g) -> flat_map tops rest = children g ->
                                Forall twf rest -> kwf (KSeqP p rest)
  | kwf_seqc : forall c rest live, kwf c -> task_done c = false -> Forall twf rest -> kwf (KSeqC c rest live)
  | kwf_par : forall ts, Forall kwf ts -> kwf (KPar ts)
  | kwf_done : kwf KDone.

  Lemma twf_top : forall t, twf t -> match t with TPar _ => True | _ => exists g, top_id t = Some g end.
  Proof. intros t H. inversion H; subst; simpl; eauto. Qed.

  Lemma tops_single_seq : forall t g, top_id t = Some g -> (forall l, t <> TPar l) -> tops t = [g].
  Proof.
    intros t g H Hn. destruct t.
    - simpl in *. inversion H; subst. reflexivity.
    - change (tops (TSeq l)) with (match top_id (TSeq l) with Some g => [g] | None => [] end). rewrite H. reflexivity.
    - exfalso. eapply Hn. reflexivity.
  Qed.

  Lemma start_kwf_list : forall l,
    Forall (fun t => twf t -> kwf (start t) /\ task_done (start t) = false \/ t = TPar []) l ->
    Forall twf l -> Forall (fun t => exists g, top_id t = Some g) l ->
    Forall kwf (map start l) /\ Forall (fun t => task_done (start t) = false) l.
  Proof.
    induction l as [| x r IH]; intros HI Hw Ht; simpl.
    - split; constructor.
    - pose proof (Forall_inv HI) as Hx. pose proof (Forall_inv_tail HI) as HIr.
      pose proof (Forall_inv Hw) as Hwx. pose proof (Forall_inv_tail Hw) as Hwr.
      pose proof (Forall_inv Ht) as Htx. pose proof (Forall_inv_tail Ht) as Htr.
      destruct (IH HIr Hwr Htr) as [A B].
      destruct (Hx Hwx) as [[Hk Hd] | He].
      + split; constructor; assumption.
      + subst. destruct Htx as [g Hg]. discriminate.
  Qed.

  Lemma start_kwf : forall t, twf t -> kwf (start t) /\ task_done (start t) = false \/ t = TPar [].
  Proof.
    induction t using dtree_ind'; intros Hw.
    - left. inversion Hw; subst. simpl. split; [constructor; assumption | reflexivity].
    - left. inversion Hw; subst. simpl. split; [| reflexivity].
      eapply kwf_seqp; eauto.
    - inversion Hw as [| | l' Hf Ht]; subst. destruct l as [| x r]; [right; reflexivity |]. left.
      destruct (start_kwf_list _ H Hf Ht) as [A B]. simpl. split.
      + constructor. exact A.
      + rewrite (Forall_inv B). reflexivity.
  Qed.

  (* ---- pruning ---- *)
  Lemma prune_nonpar : forall live t, (forall l, t <> TPar l) ->
    prune live t = match top_id t with
                   | Some id => if mem_N id live then Some t else None
                   | None => None
                   end.
  Proof. intros live t Hn. destruct t; simpl; auto. exfalso. eapply Hn. reflexivity. Qed.

  Definition keep (live : list N) (x : N) : bool := mem_N x live.

  Fixpoint prune_list (live : list N) (l : list dtree) : list dtree :=
    match l with
    | [] => []
    | c :: r => match prune live c with Some c' => c' :: prune_list live r | None => prune_list live r end
    end.
  Lemma prune_par : forall live l,
    prune live (TPar l) = match prune_list live l with [] => None | kept => Some (TPar kept) end.
  Proof.
    intros. simpl.
    assert (H : (fix go (l0 : list dtree) : list dtree :=
                   match l0 with
                   | [] => []
                   | c :: r => match prune live c with
                               | Some c' => c' :: go r
                               | None => go r
                               end
                   end) l = prune_list live l).
    { induction l; simpl; auto. rewrite IHl. reflexivity. }
    rewrite H. reflexivity.
  Qed.

  Lemma start_ids : forall t, incl (all_ids (start t)) (tree_ids t) /\ (NoDup (tree_ids t) -> NoDup (all_ids (start t))).
  Proof.
    induction t using dtree_ind'; simpl.
    - split; [apply incl_refl | auto].
    - destruct l as [| x l']; simpl; [split; [apply incl_nil_l | constructor] |].
      destruct x; simpl; try (split; [apply incl_nil_l | constructor]). split; [apply incl_refl | auto].
    - induction l as [| y l' IHl]; simpl; [split; [apply incl_refl | auto] |].
      pose proof (Forall_inv H) as Hy. pose proof (Forall_inv_tail H) as Hr.
      destruct Hy as [A1 A2]. destruct (IHl Hr) as [B1 B2]. split.
      + apply incl_app_app; assumption.
      + intros Hnd. apply NoDup_app_split in Hnd. destruct Hnd as [Hl [Hr' Hd]].
        apply NoDup_app_join; auto.
        intros x Hx Hy'. apply A1 in Hx. apply B1 in Hy'. eapply Hd; eassumption.
  Qed.

  Lemma prune_list_props : forall live l,
    Forall twf l -> Forall (fun t => exists g, top_id t = Some g) l ->
    Forall twf (prune_list live l) /\ Forall (fun t => exists g, top_id t = Some g) (prune_list live l) /\
    flat_map (fun t => owed (start t)) (prune_list live l) = filter (keep live) (flat_map tops l) /\
    incl (flat_map tree_ids (prune_list live l)) (flat_map tree_ids l) /\
    (NoDup (flat_map tree_ids l) -> NoDup (flat_map tree_ids (prune_list live l))).
  Proof.
    intros live. induction l as [| c r IH]; intros Hf Ht; simpl.
    - repeat split; auto. apply incl_refl.
    - pose proof (Forall_inv Hf) as Hc. pose proof (Forall_inv_tail Hf) as Hfr.
      pose proof (Forall_inv Ht) as Htc. pose proof (Forall_inv_tail Ht) as Htr.
      destruct Htc as [g Hg].
      destruct (IH Hfr Htr) as [I1 [I2 [I3 [I4 I5]]]].
      assert (Hnp : forall l, c <> TPar l). { intros l0 He. subst. discriminate. }
      rewrite (prune_nonpar live c Hnp). rewrite Hg.
      rewrite filter_app. rewrite (tops_single_seq c g Hg Hnp). simpl.
      change (keep live g) with (mem_N g live).
      destruct (mem_N g live) eqn:Hm.
      + repeat split.
        * constructor; assumption.
        * constructor; [eexists; eassumption | assumption].
        * assert (Hoc : owed (start c) = [g]).
          { destruct c; simpl in *.
            - inversion Hg; subst. reflexivity.
            - inversion Hc; subst. simpl in Hg. inversion Hg; subst. reflexivity.
            - exfalso. eapply Hnp. reflexivity. }
          simpl. rewrite Hoc. simpl. f_equal. exact I3.
        * simpl. apply incl_app_app; [apply incl_refl | exact I4].
        * simpl. intros Hnd. apply NoDup_app_split in Hnd. destruct Hnd as [Hl [Hr Hd]].
          apply NoDup_app_join; auto. intros x Hx Hy. apply I4 in Hy. eapply Hd; eassumption.
      + simpl. repeat split; auto.
        * apply incl_appr. exact I4.
        * intros Hnd. apply I5. apply NoDup_app_split in Hnd. tauto.
  Qed.

  Lemma prune_props : forall live t, twf t ->
    match prune live t with
    | Some t' => twf t' /\ t' <> TPar [] /\ owed (start t') = filter (keep live) (tops t) /\ incl (tree_ids t') (tree_ids t) /\
                 (NoDup (tree_ids t) -> NoDup (tree_ids t'))
    | None => filter (keep live) (tops t) = []
    end.
  Proof.
    intros live t Hw. inversion Hw as [g Hc | g rest Hc Hf | l Hf Ht]; subst.
    - simpl. unfold keep. destruct (mem_N g live); simpl.
      + repeat split; auto; try discriminate. apply incl_refl.
      + reflexivity.
    - simpl. unfold keep. destruct (mem_N g live); simpl.
      + repeat split; auto; try discriminate. apply incl_refl.
      + reflexivity.
    - rewrite prune_par. destruct (prune_list_props live l Hf Ht) as [G1 [G2 [G3 [G4 G5]]]].
      destruct (prune_list live l) as [| k0 kept] eqn:Hk.
      + simpl in G3. simpl. symmetry. exact G3.
      + repeat split; auto.
        * constructor; assumption.
        * discriminate.
        * simpl. simpl in G3. rewrite <- G3. rewrite !flat_map_concat_map, map_map. reflexivity.
  Qed.

  Lemma advance_props : forall live rest, Forall twf rest ->
    let k' := advance rest live in
    kwf k' /\ owed k' = filter (keep live) (flat_map tops rest) /\
    incl (all_ids k') (flat_map tree_ids rest) /\
    (NoDup (flat_map tree_ids rest) -> NoDup (all_ids k')).
  Proof.
    intros live. induction rest as [| c r IH]; intros Hf; simpl.
    - repeat split; auto; try constructor. apply incl_refl.
    - pose proof (Forall_inv Hf) as Hc. pose proof (Forall_inv_tail Hf) as Hfr.
      destruct (IH Hfr) as [I1 [I2 [I3 I4]]].
      pose proof (prune_props live c Hc) as Hp.
      destruct (prune live c) as [c' |].
      + destruct Hp as [P1 [P2 [P3 [P4 P5]]]]. simpl.
        destruct (start_kwf c' P1) as [[Hk Hd] | He]; [| contradiction].
        destruct (start_ids c') as [S1 S2].
        repeat split.
        * constructor; assumption.
        * rewrite filter_app. rewrite P3. reflexivity.
        * apply incl_app_app; [| apply incl_refl]. eapply incl_tran; [exact S1 | exact P4].
        * intros Hnd. apply NoDup_app_split in Hnd. destruct Hnd as [Hl [Hr Hdj]].
          apply NoDup_app_join; auto.
          intros x Hx Hy. apply S1 in Hx. apply P4 in Hx. eapply Hdj; eassumption.
      + repeat split; auto.
        * rewrite filter_app, Hp. simpl. exact I2.
        * apply incl_appr. exact I3.
        * intros Hnd. apply I4. apply NoDup_app_split in Hnd. tauto.
  Qed.
End Shape.
