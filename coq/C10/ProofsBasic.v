(* C10: basic lemmas (membership reflection, sorting of descriptors, what a rendered frame says). *)
From Coq Require Import ZArith Lia ZifyN ZifyNat ZifyBool Permutation.
From Gv Require Import lib.Bytes lib.Json C02.Model C10.Model C10.Spec.
Open Scope N_scope.

Lemma mem_N_In : forall x l, mem_N x l = true <-> In x l.
Proof.
  unfold mem_N. intros. rewrite existsb_exists. split.
  - intros [y [Hy He]]. apply N.eqb_eq in He. subst. exact Hy.
  - intros H. exists x. split; [exact H | apply N.eqb_refl].
Qed.
Lemma mem_N_false : forall x l, mem_N x l = false <-> ~ In x l.
Proof.
  intros. rewrite <- mem_N_In. destruct (mem_N x l).
  - split; intros H; [discriminate | exfalso; apply H; reflexivity].
  - split; intros H; [intros H'; discriminate | reflexivity].
Qed.
Lemma nodup_N_NoDup : forall l, nodup_N l = true <-> NoDup l.
Proof.
  induction l as [| x r IH]; simpl.
  - split; intros; [constructor | reflexivity].
  - rewrite andb_true_iff, negb_true_iff, mem_N_false, IH. split.
    + intros [H1 H2]. constructor; assumption.
    + intros H. inversion H; subst. split; assumption.
Qed.
Lemma subset_N_incl : forall a b, subset_N a b = true <-> incl a b.
Proof.
  unfold subset_N, incl. intros. rewrite forallb_forall. split; intros H x Hx.
  - apply mem_N_In. apply H. exact Hx.
  - apply mem_N_In. apply H. exact Hx.
Qed.

(* ---- sort_descs is a permutation ---- *)
Lemma insert_desc_perm : forall d l, Permutation (insert_desc d l) (d :: l).
Proof.
  induction l as [| x r IH]; simpl.
  - apply Permutation_refl.
  - destruct (dd_id d <=? dd_id x).
    + apply Permutation_refl.
    + eapply Permutation_trans. apply perm_skip. exact IH. apply perm_swap.
Qed.
Lemma sort_descs_perm : forall l, Permutation (sort_descs l) l.
Proof.
  induction l as [| x r IH]; simpl.
  - constructor.
  - eapply Permutation_trans. apply insert_desc_perm. apply perm_skip. exact IH.
Qed.

Lemma live_children_In : forall descs p data d,
  In d (live_children descs p data) -> In d descs /\ dd_parent d = p.
Proof.
  unfold live_children. intros descs p data d H.
  apply (Permutation_in _ (sort_descs_perm _)) in H.
  apply filter_In in H. destruct H as [H1 H2].
  apply andb_true_iff in H2. destruct H2 as [H2 _]. apply N.eqb_eq in H2. split; assumption.
Qed.

Lemma NoDup_map_filter : forall (A B : Type) (f : A -> B) (p : A -> bool) l,
  NoDup (map f l) -> NoDup (map f (filter p l)).
Proof.
  induction l as [| x r IH]; simpl; intros H.
  - constructor.
  - inversion H; subst. destruct (p x); simpl.
    + constructor.
      * intros Hin. apply H2. apply in_map_iff in Hin. destruct Hin as [y [Hy1 Hy2]].
        apply filter_In in Hy2. apply in_map_iff. exists y. tauto.
      * apply IH. exact H3.
    + apply IH. exact H3.
Qed.

Lemma live_children_ids_NoDup : forall descs p data,
  NoDup (map dd_id descs) -> NoDup (map dd_id (live_children descs p data)).
Proof.
  unfold live_children. intros.
  eapply Permutation_NoDup.
  - apply Permutation_map. apply Permutation_sym. apply sort_descs_perm.
  - apply NoDup_map_filter. exact H.
Qed.

(* ---- the summary of a rendered batch frame ---- *)
Lemma render_batch_sum : forall descs root data d o f data' live o',
  render_batch descs root data d o = (f, data', live, o') ->
  f_pending (fr_sum f) = map dd_id live /\
  f_completed (fr_sum f) = [dd_id d] /\
  (forall x, In x (f_incr (fr_sum f)) -> x = dd_id d) /\
  f_hasnext (fr_sum f) = negb (o' =? 0)%Z /\
  o' = (o + Z.of_nat (length live) - 1)%Z /\
  (live = live_children descs (dd_id d) data' \/ live = []) /\
  (* a frame that delivers nothing because the defer failed announces no children *)
  (jget k_incremental (fr_json f) = None -> live = []).
Proof.
  intros descs root data d o f data' live o'. unfold render_batch.
  destruct (dwalk descs (Some d) root data [] [] false false (wst0 [])) as [[[data1 s1] rv1] st1].
  destruct (ws_null st1).
  - intros H. inversion H; subst; clear H. simpl. repeat split; auto. intros x [].
  - destruct (dwalk descs (Some d) root data1 [] [] true false (wst0 (ws_errs st1))) as [[[d2 s2] rv2] st2].
    simpl. destruct (negb (nonempty (ws_items st2)) && nonempty (ws_errs st2)).
    + intros H. inversion H; subst; clear H. simpl. repeat split; auto. intros x [].
    + intros H. inversion H; subst; clear H. simpl. repeat split; auto.
      * intros x Hx. apply in_map_iff in Hx. destruct Hx as [y [Hy _]]. auto.
      * unfold k_incremental. simpl. intros Hc. discriminate.
Qed.

Lemma render_initial_sum : forall descs root data f data' live,
  render_initial descs root data = (f, data', live) ->
  f_pending (fr_sum f) = map dd_id live /\ f_completed (fr_sum f) = [] /\ f_incr (fr_sum f) = [] /\
  f_hasnext (fr_sum f) = nonempty live /\ (live = live_children descs 0 data' \/ live = []).
Proof.
  intros descs root data f data' live. unfold render_initial.
  destruct (dwalk descs None root data [] [] false false (wst0 [])) as [[[data1 s1] rv1] st1].
  destruct s1.
  - destruct (dwalk descs None root data1 [] [] true false (wst0 (ws_errs st1))) as [[[d2 s2] rv2] st2].
    intros H. inversion H; subst; clear H. simpl. repeat split; auto.
  - intros H. inversion H; subst; clear H. simpl. repeat split; auto.
  - intros H. inversion H; subst; clear H. simpl. repeat split; auto.
Qed.
