(* C10: composition of the reconstruction across layers, part 1.
   [projo L] is the response of the delivered defers L with the members of every object in the
   order the client's merge produces them: the fields without a mark (plan order), then for each
   delivered defer, in delivery order, the fields of that defer (plan order).  Merging the items of
   a defer d into [projo L] gives EXACTLY [projo (L ++ [d])] (seek_merge_o), and [projo L] is
   [proj (keepX L)] up to the order of object members (projo_jeq). *)
From Coq Require Import ZArith Lia ZifyN ZifyNat ZifyBool Permutation.
From Gv Require Import lib.Bytes lib.Json C02.Model C02.Spec C10.Model C10.Spec C10.ProofsBasic C10.ProofsTask C10.ProofsRecon.
Open Scope N_scope.

Local Arguments typename_of : simpl never.
Local Arguments skip_field : simpl never.
Local Arguments classify : simpl never.
Local Arguments is_ancestor : simpl never.

(* ---- jeq is an equivalence ---- *)
Lemma Forall2_flip_imp : forall (A B : Type) (R : A -> B -> Prop) (S : B -> A -> Prop) l1 l2,
  Forall2 R l1 l2 -> (forall a b, In a l1 -> R a b -> S b a) -> Forall2 S l2 l1.
Proof.
  intros A B R S l1 l2 H. induction H; intros Hi; constructor.
  - apply Hi; [left; reflexivity | assumption].
  - apply IHForall2. intros a b Ha. apply Hi. right. exact Ha.
Qed.

Lemma jeq_sym : forall j1 j2, jeq j1 j2 -> jeq j2 j1.
Proof.
  induction j1 using json_ind'; intros j2 Hab; inversion Hab; subst; try constructor.
  - (* arrays *)
    eapply Forall2_flip_imp; [eassumption |].
    intros a b Ha Hr. rewrite Forall_forall in H. apply H; assumption.
  - (* objects: m ~ m2' , m2' perm of m2 *)
    rename m2 into mb, m2' into mb'.
    (* want: Permutation m m1' /\ Forall2 mb m1' *)
    assert (Hf : Forall2 (fun a b => fst a = fst b /\ jeq (snd a) (snd b)) mb' m).
    { eapply Forall2_flip_imp; [eassumption |].
      intros a b Ha [E J]. split; [congruence |]. rewrite Forall_forall in H. apply (H a Ha). exact J. }
    destruct (Permutation_Forall2 (Permutation_sym H1) Hf) as [m' [P1 P2]].
    eapply jeq_obj; [exact P1 | exact P2].
Qed.

Lemma Forall2_trans_in : forall (A : Type) (R : A -> A -> Prop) l1 l2 l3,
  Forall2 R l1 l2 -> Forall2 R l2 l3 -> (forall a b c, In a l1 -> R a b -> R b c -> R a c) -> Forall2 R l1 l3.
Proof.
  intros A R l1 l2 l3 H. revert l3. induction H; intros l3 H3 Ht; inversion H3; subst; constructor.
  - eapply Ht; [left; reflexivity | eassumption | eassumption].
  - apply IHForall2; [assumption |]. intros a b c Ha. apply Ht. right. exact Ha.
Qed.

Lemma jeq_trans : forall j1 j2 j3, jeq j1 j2 -> jeq j2 j3 -> jeq j1 j3.
Proof.
  induction j1 using json_ind'; intros j2 j3 Hab Hbc; inversion Hab; subst; inversion Hbc; subst; try constructor.
  - eapply Forall2_trans_in; [eassumption | eassumption |].
    intros x y z Hx. rewrite Forall_forall in H. apply (H x Hx).
  - (* m ~ m2' (perm of m2);  m2 ~ m2'0 (perm of m3) *)
    match goal with
    | Hp : Permutation ?mb ?mb', Hf : Forall2 _ m ?mb', Hq : Permutation ?mc ?mc', Hg : Forall2 _ ?mb ?mc' |- _ =>
      destruct (Permutation_Forall2 Hp Hg) as [mc'' [Q1 Q2]];
      apply jeq_obj with (m2' := mc''); [eapply Permutation_trans; eassumption |];
      eapply Forall2_trans_in; [exact Hf | exact Q2 |]
    end.
    intros x y z Hx [E1 J1] [E2 J2]. split; [congruence |].
    rewrite Forall_forall in H. eapply (H x Hx); eassumption.
Qed.

(* ---- the response of the delivered defers L, members in merge order ---- *)
Fixpoint projo (L : list N) (n : dnode) (parent : json) (tns : list (option bytes)) : json :=
  match n with
  | DLeaf l => match leaf_render l parent [] with (Some v, _) => v | (None, _) => JNull end
  | DArr p _ item =>
    match get_path p parent with
    | Some (JArr items) => JArr (map (fun it => projo L item it tns) items)
    | _ => JNull
    end
  | DObj p _ _ _ fields =>
    match get_path p parent with
    | Some (JObj m) =>
      let value := JObj m in
      let tns' := typename_of value :: tns in
      JObj (flat_map (fun k =>
              (fix go (fs : list dfield) : list (bytes * json) :=
                 match fs with
                 | [] => []
                 | DFld name on pon df child :: r =>
                   if skip_field on pon tns' then go r
                   else if opt_N_eqb df k then (name, projo L child value tns') :: go r
                   else go r
                 end) fields) (None :: map Some L))
    | _ => JNull
    end
  end.

(* the fields of an object in merge order *)
Definition selk (tns' : list (option bytes)) (k : option N) (f : dfield) : bool :=
  sel_keep (keep_layer k) tns' f.
Definition ofields (tns' : list (option bytes)) (fields : list dfield) (ks : list (option N)) : list dfield :=
  flat_map (fun k => filter (selk tns' k) fields) ks.
Definition kv (val : dfield -> json) (f : dfield) : bytes * json := (fname f, val f).
Definition grouped (tns' : list (option bytes)) (val : dfield -> json) (fields : list dfield) (ks : list (option N))
  : list (bytes * json) := map (kv val) (ofields tns' fields ks).

Lemma projo_obj : forall L p nl ty poss fields parent tns m,
  get_path p parent = Some (JObj m) ->
  projo L (DObj p nl ty poss fields) parent tns =
  JObj (grouped (typename_of (JObj m) :: tns)
                (fun f => projo L (fvalue f) (JObj m) (typename_of (JObj m) :: tns)) fields (None :: map Some L)).
Proof.
  intros L p nl ty poss fields parent tns m H. cbn [projo]. rewrite H. f_equal.
  unfold grouped, ofields. generalize (None :: map Some L). intros ks.
  induction ks as [| k ks IH]; [reflexivity |].
  cbn [flat_map]. rewrite map_app. f_equal; [| exact IH]. clear IH.
  induction fields as [| [nm on pon df v] r IH]; [reflexivity |].
  cbn [filter]. unfold selk at 1, sel_keep, keep_layer. cbn [fskip fmark].
  destruct (skip_field on pon (typename_of (JObj m) :: tns)); cbn [negb andb]; [exact IH |].
  destruct (opt_N_eqb df k); cbn [map]; [unfold kv at 1; cbn [fname fvalue]; f_equal; exact IH | exact IH].
Qed.

Lemma filter_true_id : forall (A : Type) (l : list A), filter (fun _ => true) l = l.
Proof. induction l; simpl; congruence. Qed.

Lemma grouped_members : forall tns' val fields ks,
  grouped tns' val fields ks = members (fun _ => true) val (ofields tns' fields ks).
Proof. intros. unfold grouped, members. rewrite filter_true_id. reflexivity. Qed.

Lemma ofields_In : forall tns' fields ks f,
  In f (ofields tns' fields ks) <-> exists k, In k ks /\ In f fields /\ selk tns' k f = true.
Proof.
  intros. unfold ofields. rewrite in_flat_map. split.
  - intros [k [H1 H2]]. apply filter_In in H2. exists k. tauto.
  - intros [k [H1 [H2 H3]]]. exists k. split; [exact H1 |]. apply filter_In. tauto.
Qed.

Lemma selk_mark : forall tns' k f, selk tns' k f = true -> fskip tns' f = false /\ fmark f = k.
Proof.
  intros tns' k f H. unfold selk, sel_keep, keep_layer in H. apply andb_true_iff in H. destruct H as [H1 H2].
  apply negb_true_iff in H1. split; [exact H1 |].
  destruct (fmark f) as [x |], k as [y |]; simpl in H2; try discriminate; auto.
  apply N.eqb_eq in H2. congruence.
Qed.
Lemma selk_intro : forall tns' f, fskip tns' f = false -> selk tns' (fmark f) f = true.
Proof.
  intros tns' f H. unfold selk, sel_keep, keep_layer. rewrite H. simpl.
  destruct (fmark f); simpl; [apply N.eqb_refl | reflexivity].
Qed.

Lemma NoDup_map_sub : forall (fs : list dfield) sel, NoDup (map fname fs) -> NoDup (map fname (filter sel fs)).
Proof. intros. apply NoDup_map_filter. assumption. Qed.

Lemma ofields_NoDup : forall tns' fields ks,
  NoDup (map fname fields) -> NoDup ks -> NoDup (map fname (ofields tns' fields ks)).
Proof.
  intros tns' fields ks Hn. induction ks as [| k ks IH]; intros Hk; [constructor |].
  inversion Hk as [| ? ? Hk1 Hk2]; subst.
  unfold ofields. cbn [flat_map]. rewrite map_app. apply NoDup_app_join.
  - apply NoDup_map_sub. exact Hn.
  - apply IH. exact Hk2.
  - intros x Hx Hy. apply in_map_iff in Hx. destruct Hx as [f [Hf1 Hf2]].
    apply in_map_iff in Hy. destruct Hy as [g [Hg1 Hg2]].
    apply filter_In in Hf2. destruct Hf2 as [Hf2 Hf3].
    apply ofields_In in Hg2. destruct Hg2 as [k' [Hk' [Hg2 Hg3]]].
    assert (f = g). { eapply NoDup_map_inj; eauto. congruence. }
    subst g. apply selk_mark in Hf3. apply selk_mark in Hg3. destruct Hf3 as [_ Hf3]. destruct Hg3 as [_ Hg3].
    apply Hk1. congruence.
Qed.

Lemma grouped_ext : forall tns' val val' fields ks,
  (forall f, In f (ofields tns' fields ks) -> val f = val' f) ->
  grouped tns' val fields ks = grouped tns' val' fields ks.
Proof. intros. unfold grouped. apply map_ext_in. intros f Hf. unfold kv. rewrite (H f Hf). reflexivity. Qed.

Lemma grouped_app : forall tns' val fields ks ks',
  grouped tns' val fields (ks ++ ks') = grouped tns' val fields ks ++ grouped tns' val fields ks'.
Proof. intros. unfold grouped, ofields. rewrite flat_map_app, map_app. reflexivity. Qed.

Lemma grouped_one : forall tns' val fields k,
  grouped tns' val fields [k] = members (selk tns' k) val fields.
Proof. intros. unfold grouped, ofields, members. cbn [flat_map]. rewrite app_nil_r. reflexivity. Qed.

Lemma grouped_get : forall tns' val fields ks tail f,
  NoDup (map fname fields) -> NoDup ks -> In f fields -> fskip tns' f = false -> In (fmark f) ks ->
  obj_get (fname f) (grouped tns' val fields ks ++ tail) = Some (val f).
Proof.
  intros tns' val fields ks tail f Hn Hk Hf Hs Hm. apply obj_get_app_l.
  rewrite grouped_members. apply obj_get_members.
  - apply ofields_NoDup; assumption.
  - apply ofields_In. exists (fmark f). split; [exact Hm |]. split; [exact Hf | apply selk_intro; exact Hs].
  - reflexivity.
Qed.

Lemma grouped_set : forall tns' val fields ks tail f v,
  NoDup (map fname fields) -> NoDup ks -> In f fields -> fskip tns' f = false -> In (fmark f) ks ->
  obj_set (fname f) v (grouped tns' val fields ks ++ tail) = grouped tns' (upd val f v) fields ks ++ tail.
Proof.
  intros tns' val fields ks tail f v Hn Hk Hf Hs Hm.
  assert (Hin : In f (ofields tns' fields ks)).
  { apply ofields_In. exists (fmark f). split; [exact Hm |]. split; [exact Hf | apply selk_intro; exact Hs]. }
  assert (Hnd : NoDup (map fname (ofields tns' fields ks))) by (apply ofields_NoDup; assumption).
  rewrite (obj_set_app_l _ _ _ _ (val f)).
  - f_equal. rewrite !grouped_members. apply obj_set_members; auto.
  - rewrite grouped_members. apply obj_get_members; auto.
Qed.

Lemma filter_none : forall (A : Type) (sel : A -> bool) l, (forall x, In x l -> sel x = false) -> filter sel l = [].
Proof.
  induction l as [| x l IH]; intros H; [reflexivity |]. simpl.
  rewrite (H x (or_introl eq_refl)). apply IH. intros y Hy. apply H. right. exact Hy.
Qed.
Lemma flat_map_none : forall (A B : Type) (f : A -> list B) l, (forall x, In x l -> f x = []) -> flat_map f l = [].
Proof.
  induction l as [| x l IH]; intros H; [reflexivity |]. simpl.
  rewrite (H x (or_introl eq_refl)). apply IH. intros y Hy. apply H. right. exact Hy.
Qed.

(* ---- [projo L] is [proj (keepX L)] up to member order ---- *)
Lemma filter_split_perm : forall (A : Type) (selA selB selAB : A -> bool) l,
  (forall f, In f l -> selAB f = selA f || selB f) ->
  (forall f, In f l -> selA f && selB f = false) ->
  Permutation (filter selAB l) (filter selA l ++ filter selB l).
Proof.
  intros A selA selB selAB. induction l as [| f r IH]; intros H1 H2; [constructor |].
  assert (IH' : Permutation (filter selAB r) (filter selA r ++ filter selB r)).
  { apply IH; intros g Hg; [apply H1 | apply H2]; right; exact Hg. }
  simpl. rewrite (H1 f (or_introl eq_refl)). pose proof (H2 f (or_introl eq_refl)) as Hx.
  destruct (selA f), (selB f); simpl in *; try discriminate.
  - constructor. exact IH'.
  - apply Permutation_cons_app. exact IH'.
  - exact IH'.
Qed.

Definition sel_any (tns' : list (option bytes)) (ks : list (option N)) (f : dfield) : bool :=
  negb (fskip tns' f) && existsb (opt_N_eqb (fmark f)) ks.

Lemma opt_N_eqb_true : forall a b, opt_N_eqb a b = true <-> a = b.
Proof.
  intros [x |] [y |]; simpl; split; intros H; try discriminate; auto.
  - apply N.eqb_eq in H. subst. reflexivity.
  - inversion H; subst. apply N.eqb_refl.
Qed.

Lemma ofields_perm : forall tns' fields ks, NoDup ks ->
  Permutation (filter (sel_any tns' ks) fields) (ofields tns' fields ks).
Proof.
  intros tns' fields. induction ks as [| k ks IH]; intros Hk.
  - unfold ofields. simpl. rewrite filter_none; [constructor |].
    intros f _. unfold sel_any. simpl. apply andb_false_r.
  - inversion Hk as [| ? ? Hk1 Hk2]; subst. unfold ofields. cbn [flat_map]. fold (ofields tns' fields ks).
    eapply Permutation_trans; [| apply Permutation_app_head; apply IH; exact Hk2].
    apply filter_split_perm.
    + intros f _. unfold sel_any, selk, sel_keep, keep_layer. simpl.
      destruct (fskip tns' f); reflexivity.
    + intros f _. unfold sel_any, selk, sel_keep, keep_layer.
      destruct (fskip tns' f); simpl; [reflexivity |].
      destruct (opt_N_eqb (fmark f) k) eqn:E; simpl; [| reflexivity].
      apply opt_N_eqb_true in E. subst k.
      destruct (existsb (opt_N_eqb (fmark f)) ks) eqn:E2; [| reflexivity].
      exfalso. apply existsb_exists in E2. destruct E2 as [x [Hx1 Hx2]]. apply opt_N_eqb_true in Hx2. subst x.
      contradiction.
Qed.

Lemma keepX_any : forall L df, keepX L df = existsb (opt_N_eqb df) (None :: map Some L).
Proof.
  intros L [c |]; simpl; [| reflexivity]. unfold mem_N.
  induction L as [| x L IH]; simpl; [reflexivity |]. rewrite IH. reflexivity.
Qed.

Lemma NoDup_ks : forall L : list N, NoDup L -> NoDup (None :: map Some L).
Proof.
  intros L H. constructor.
  - intros Hin. apply in_map_iff in Hin. destruct Hin as [x [Hx _]]. discriminate.
  - apply FinFun.Injective_map_NoDup; [| exact H]. intros x y E. congruence.
Qed.

Lemma projo_jeq : forall L, NoDup L -> forall n parent tns,
  jeq (projo L n parent tns) (proj (keepX L) n parent tns).
Proof.
  intros L HL. induction n using dnode_ind'; intros parent tns.
  - apply jeq_refl.
  - cbn [projo proj]. destruct (get_path p parent) as [[| | | |items |] |]; try constructor.
    induction items as [| it items IH]; simpl; constructor; auto.
  - destruct (get_path p parent) as [[| | | | |m] |] eqn:Hg;
      try (cbn [projo proj]; rewrite Hg; constructor).
    rewrite (projo_obj _ _ _ _ _ _ _ _ _ Hg), (proj_obj _ _ _ _ _ _ _ _ _ Hg).
    set (tns' := typename_of (JObj m) :: tns). set (ks := None :: map Some L).
    apply jeq_obj with (m2' := grouped tns' (fun f => proj (keepX L) (fvalue f) (JObj m) tns') fields ks).
    + unfold members, grouped. apply Permutation_map.
      rewrite (filter_ext (sel_keep (keepX L) tns') (sel_any tns' ks)).
      * apply ofields_perm. apply NoDup_ks. exact HL.
      * intros f. unfold sel_keep, sel_any, ks. rewrite keepX_any. reflexivity.
    + rewrite !grouped_members. apply Forall2_members. intros f Hf _.
      apply ofields_In in Hf. destruct Hf as [k [_ [Hf _]]].
      rewrite Forall_forall in H. apply (H f Hf).
Qed.
