(* C10: path ++ subPath.  Under paths_ok the path of the pending entry followed by the subPath of
   an item is the position at which the item's envelope was opened. *)
From Coq Require Import ZArith Lia ZifyN ZifyNat ZifyBool.
From Gv Require Import lib.Bytes lib.Json C02.Model C02.Spec C10.Model C10.Spec C10.ProofsRecon.
Open Scope N_scope.

Local Arguments typename_of : simpl never.
Local Arguments skip_field : simpl never.
Local Arguments classify : simpl never.

Lemma is_prefix_app : forall a b, is_prefix a b = true -> exists r, b = a ++ r.
Proof.
  induction a as [| x a IH]; intros b H; simpl in H.
  - exists b. reflexivity.
  - destruct b as [| y b]; [discriminate |]. apply andb_true_iff in H. destruct H as [H1 H2].
    apply beqb_eq in H1. subst. destruct (IH b H2) as [r Hr]. exists r. simpl. f_equal. exact Hr.
Qed.

Lemma sub_path_nil : forall q, sub_path [] q = q.
Proof. destruct q as [| [n | i] q]; reflexivity. Qed.
Lemma sub_path_prefix : forall dp q, sub_path dp (map PName dp ++ q) = q.
Proof.
  induction dp as [| x dp IH]; intros q; simpl.
  - apply sub_path_nil.
  - rewrite beqb_refl. apply IH.
Qed.

Definition names_of (rp : rpath) : list bytes :=
  flat_map (fun e => match e with PName n => [n] | PIdx _ => [] end) rp.
Lemma names_of_app : forall a b, names_of (a ++ b) = names_of a ++ names_of b.
Proof. intros. unfold names_of. apply flat_map_app. Qed.
Lemma names_of_map : forall l, names_of (map PName l) = l.
Proof. induction l as [| x l IH]; simpl; [reflexivity | f_equal; exact IH]. Qed.
Lemma names_of_length : forall rp, (length (names_of rp) <= length rp)%nat.
Proof. induction rp as [| [n | i] rp IH]; simpl; lia. Qed.

Definition rp_ok (names : list bytes) (cut : option nat) (rp : rpath) : Prop :=
  names_of rp = names /\
  match cut with
  | None => rp = map PName names
  | Some k => firstn k rp = map PName (firstn k names) /\ (k <= length names)%nat
  end.

Lemma firstn_le_app : forall (A : Type) k (a b : list A), (k <= length a)%nat -> firstn k (a ++ b) = firstn k a.
Proof.
  intros A k a b H. rewrite firstn_app. replace (k - length a)%nat with 0%nat by lia. simpl. apply app_nil_r.
Qed.

Lemma rp_ok_names : forall names cut rp p,
  rp_ok names cut rp -> rp_ok (names ++ p) cut (rp ++ map PName p).
Proof.
  intros names cut rp p [H1 H2]. split.
  - rewrite names_of_app, names_of_map, H1. reflexivity.
  - destruct cut as [k |].
    + destruct H2 as [H2 H3]. split; [| rewrite app_length; lia].
      rewrite firstn_le_app by (pose proof (names_of_length rp); rewrite H1 in *; lia).
      rewrite firstn_le_app by lia. exact H2.
    + rewrite H2, map_app. reflexivity.
Qed.

Lemma rp_ok_index : forall names cut rp i,
  rp_ok names cut rp ->
  rp_ok names (match cut with Some k => Some k | None => Some (length names) end) (rp ++ [PIdx i]).
Proof.
  intros names cut rp i [H1 H2]. split.
  - rewrite names_of_app, H1. simpl. apply app_nil_r.
  - destruct cut as [k |].
    + destruct H2 as [H2 H3]. split; [| exact H3].
      rewrite firstn_le_app by (pose proof (names_of_length rp); rewrite H1 in *; lia). exact H2.
    + split; [| lia]. rewrite H2. rewrite firstn_all.
      rewrite <- (map_length PName names) at 1. rewrite firstn_le_app by lia. apply firstn_all.
Qed.

Lemma prefix_from_ok : forall names cut rp dp,
  rp_ok names cut rp -> is_prefix dp names = true ->
  match cut with Some k => Nat.leb (length dp) k = true | None => True end ->
  exists q, rp = map PName dp ++ q.
Proof.
  intros names cut rp dp [H1 H2] Hp Hc. destruct (is_prefix_app _ _ Hp) as [r Hr].
  destruct cut as [k |].
  - destruct H2 as [H2 H3]. apply Nat.leb_le in Hc.
    rewrite <- (firstn_skipn k rp). rewrite H2. rewrite Hr.
    rewrite firstn_app. rewrite map_app.
    assert (Hd : firstn k dp = dp) by (apply firstn_all2; exact Hc). rewrite Hd.
    rewrite <- app_assoc. eexists. reflexivity.
  - rewrite H2. rewrite Hr. rewrite map_app. eexists. reflexivity.
Qed.

Section Paths.
  Variable descs : list ddesc.
  Variable d : ddesc.
  Hypothesis Hfd : find_desc descs (dd_id d) = Some d.

  Definition field_paths (here : list bytes) (cut : option nat) (f : dfield) : bool :=
    (match fmark f with
     | None => true
     | Some c =>
       match find_desc descs c with
       | Some d' => is_prefix (dd_path d') here &&
                    match cut with Some k => Nat.leb (length (dd_path d')) k | None => true end
       | None => false
       end
     end) && paths_ok descs here cut (fvalue f).

  Lemma paths_ok_obj : forall names cut p nl ty poss fields,
    paths_ok descs names cut (DObj p nl ty poss fields) = forallb (field_paths (names ++ p) cut) fields.
  Proof.
    intros. simpl. induction fields as [| [nm on pon df v] r IH]; [reflexivity |].
    simpl. unfold field_paths at 1. simpl. rewrite IH. reflexivity.
  Qed.

  Lemma members_nonempty : forall sel val fs, members sel val fs <> [] -> exists f, In f fs /\ sel f = true.
  Proof.
    intros sel val. induction fs as [| f r IH]; intros H; [contradiction |].
    unfold members in *. simpl in H. destruct (sel f) eqn:E.
    - exists f. split; [left; reflexivity | exact E].
    - destruct (IH H) as [g [Hg1 Hg2]]. exists g. split; [right; exact Hg1 | exact Hg2].
  Qed.

  Lemma paths_items : forall n names cut rp parent tns,
    paths_ok descs names cut n = true -> names_ok n = true -> rp_ok names cut rp ->
    forall x, In x (r_items descs d n parent tns) ->
      exists q, rp ++ node_names n ++ fst x = map PName (dd_path d) ++ q.
  Proof.
    induction n using dnode_ind'; intros names cut rp parent tns Hp Hn Hr x Hx.
    - contradiction.
    - (* list *)
      destruct (get_path p parent) as [[| | | |items |] |] eqn:Hg; try (simpl in Hx; rewrite Hg in Hx; contradiction).
      rewrite (r_items_arr _ _ _ _ _ _ _ _ Hg) in Hx.
      simpl in Hp. simpl in Hn. apply andb_true_iff in Hn. destruct Hn as [Hn0 Hn].
      assert (Hnn : node_names n = []).
      { unfold node_names. destruct n as [ip ? ? ? ? | ip ? ? | ?]; try reflexivity;
          (destruct ip; [reflexivity | discriminate]). }
      assert (Hgen : forall its i, In x (arr_items descs d n tns its i) ->
                exists j rel, fst x = PIdx j :: fst rel /\ exists it, In rel (r_items descs d n it tns)).
      { induction its as [| it rest IH]; intros i Hi; [contradiction |].
        simpl in Hi. apply in_app_or in Hi. destruct Hi as [Hi | Hi].
        - unfold prefix_items in Hi. apply in_map_iff in Hi. destruct Hi as [rel [He Hin]].
          exists i, rel. subst x. simpl. split; [reflexivity | exists it; exact Hin].
        - apply (IH (i + 1)). exact Hi. }
      destruct (Hgen items 0 Hx) as [j [rel [He [it Hin]]]].
      pose proof (rp_ok_index _ _ _ j (rp_ok_names _ _ _ p Hr)) as Hr'.
      destruct (IHn (names ++ p) _ (rp ++ map PName p ++ [PIdx j]) it tns Hp Hn) with (x := rel) as [q Hq]; auto.
      { rewrite app_assoc. exact Hr'. }
      exists q. rewrite <- Hq. rewrite Hnn, He. unfold node_names. simpl.
      rewrite <- !app_assoc. reflexivity.
    - (* object *)
      destruct (get_path p parent) as [[| | | | |m] |] eqn:Hg; try (simpl in Hx; rewrite Hg in Hx; contradiction).
      rewrite (r_items_obj _ _ _ _ _ _ _ _ _ _ Hg) in Hx.
      rewrite paths_ok_obj in Hp. rewrite forallb_forall in Hp.
      rewrite names_ok_obj in Hn. apply andb_true_iff in Hn. destruct Hn as [_ Hnf]. rewrite forallb_forall in Hnf.
      rewrite Forall_forall in H.
      pose proof (rp_ok_names _ _ _ p Hr) as Hr'.
      apply in_app_or in Hx. destruct Hx as [Hx | Hx].
      + (* the item of this object *)
        set (ms := members (sel_keep (keep_layer (Some (dd_id d))) (typename_of (JObj m) :: tns))
                           (fun f => proj (keep_layer (Some (dd_id d))) (fvalue f) (JObj m) (typename_of (JObj m) :: tns)) fields) in *.
        destruct ms as [| m0 ms'] eqn:Hms; [contradiction |].
        destruct Hx as [<- | []]. simpl.
        destruct (members_nonempty (sel_keep (keep_layer (Some (dd_id d))) (typename_of (JObj m) :: tns))
                                   (fun f => proj (keep_layer (Some (dd_id d))) (fvalue f) (JObj m) (typename_of (JObj m) :: tns)) fields) as [f [Hf Hsel]].
        { fold ms. rewrite Hms. discriminate. }
        unfold sel_keep in Hsel. apply andb_true_iff in Hsel. destruct Hsel as [_ Hk].
        unfold keep_layer in Hk. apply opt_N_eqb_eq in Hk.
        specialize (Hp f Hf). unfold field_paths in Hp. apply andb_true_iff in Hp. destruct Hp as [Hp _].
        rewrite Hk, Hfd in Hp. apply andb_true_iff in Hp. destruct Hp as [Hp1 Hp2].
        rewrite app_nil_r. unfold node_names.
        eapply prefix_from_ok; [exact Hr' | exact Hp1 |].
        destruct cut; [exact Hp2 | exact I].
      + (* below a pass-through field *)
        apply in_flat_map in Hx. destruct Hx as [f [Hf Hx]].
        destruct (sel_seek descs d (typename_of (JObj m) :: tns) f) eqn:Es; [| contradiction].
        unfold prefix_items in Hx. apply in_map_iff in Hx. destruct Hx as [rel [He Hin]]. subst x. simpl.
        specialize (Hp f Hf). unfold field_paths in Hp. apply andb_true_iff in Hp. destruct Hp as [_ Hp].
        specialize (Hnf f Hf). apply andb_true_iff in Hnf. destruct Hnf as [_ Hnf].
        destruct (H f Hf (names ++ p) cut (rp ++ map PName p) (JObj m) (typename_of (JObj m) :: tns) Hp Hnf Hr' rel Hin) as [q Hq].
        exists q. rewrite <- Hq. unfold node_names at 1. rewrite <- !app_assoc. reflexivity.
  Qed.

  (* the client's path of every item of the root is the position of its envelope *)
  Theorem client_path_items : forall root data,
    paths_ok descs [] None root = true -> names_ok root = true -> root_ok root = true ->
    forall i, In i (c_items descs d root data) -> client_path d i = it_path i.
  Proof.
    intros root data Hp Hn Hroot i Hi. unfold c_items in Hi. apply in_map_iff in Hi. destruct Hi as [x [<- Hx]].
    unfold client_path. simpl.
    assert (Hr : rp_ok [] None []). { split; reflexivity. }
    destruct (paths_items root [] None [] data [] Hp Hn Hr x Hx) as [q Hq].
    assert (Hnn : node_names root = []).
    { destruct root as [p ? ? poss ? | |]; try discriminate. simpl in Hroot.
      destruct p; [reflexivity | discriminate]. }
    rewrite Hnn in Hq. simpl in Hq. rewrite Hq. rewrite sub_path_prefix. reflexivity.
  Qed.
End Paths.

(* the client's merge (at path ++ subPath) of the items of one defer is the merge at the
   positions of the envelopes *)
Lemma merge_layer_rel : forall descs d root data t,
  find_desc descs (dd_id d) = Some d ->
  paths_ok descs [] None root = true -> names_ok root = true -> root_ok root = true ->
  merge_layer descs d root data t = apply_rel (r_items descs d root data []) t.
Proof.
  intros descs d root data t Hfd Hp Hn Hr.
  unfold merge_layer, apply_items, apply_rel.
  pose proof (client_path_items descs d Hfd root data Hp Hn Hr) as Hc.
  unfold c_items in *. revert t Hc.
  induction (r_items descs d root data []) as [| x xs IH]; intros t Hc; [reflexivity |].
  simpl. rewrite (Hc _ (or_introl eq_refl)). simpl.
  apply IH. intros i Hi. apply Hc. right. exact Hi.
Qed.
