(* C10: composition of the reconstruction across layers, part 7: the statements over defer_plan_wf,
   the composition with the executor, and the witness for the unrestricted executor statement. *)
From Coq Require Import ZArith Lia ZifyN ZifyNat ZifyBool Permutation.
From Gv Require Import lib.Bytes lib.Json C02.Model C02.Spec C10.Model C10.Spec C10.SpecCompose
  C10.ProofsBasic C10.ProofsRecon C10.ProofsCompose C10.ProofsComposeAll C10.ProofsComposeExec
  C10.ProofsComposeRest C10.ProofsComposeDead.
Open Scope N_scope.

Ltac split_wf Hwf :=
  unfold defer_plan_wf in Hwf;
  let Hnames := fresh "Hnames" in let Hpaths := fresh "Hpaths" in let Hscope := fresh "Hscope" in
  let Hroot := fresh "Hroot" in
  apply andb_true_iff in Hwf; destruct Hwf as [Hwf Hnames];
  apply andb_true_iff in Hwf; destruct Hwf as [Hwf Hpaths];
  apply andb_true_iff in Hwf; destruct Hwf as [Hwf Hscope];
  apply andb_true_iff in Hwf; destruct Hwf as [Hwf Hroot].

Lemma reconstruct_order_wf : forall descs root tree data ids,
  defer_plan_wf descs root tree = true -> admissible descs ids = true ->
  exists v, client_result descs root data (order_of descs ids) = Some v /\
            jeq v (proj (keepX ids) root data []).
Proof.
  intros descs root tree data ids Hwf Ha. split_wf Hwf.
  apply reconstruct_order_lemma; assumption.
Qed.

(* the exact result, member order included *)
Lemma reconstruct_order_exact_wf : forall descs root tree data ids,
  defer_plan_wf descs root tree = true -> admissible descs ids = true ->
  client_result descs root data (order_of descs ids) = Some (projo ids root data []).
Proof.
  intros descs root tree data ids Hwf Ha. split_wf Hwf.
  apply client_result_exact; assumption.
Qed.

Lemma reconstruct_all_wf : forall descs root tree data ids,
  defer_plan_wf descs root tree = true ->
  admissible descs ids = true -> covers descs ids = true ->
  exists v, client_result descs root data (order_of descs ids) = Some v /\
            jeq v (proj keep_all root data []) /\
            (strict_clean root data [] = true ->
             exists r, complete_root (fun _ _ => false) (erase root) data = (Some r, []) /\ jeq v r).
Proof.
  intros descs root tree data ids Hwf Ha Hc. split_wf Hwf.
  apply reconstruct_all_lemma; assumption.
Qed.

Lemma order_independent_wf : forall descs root tree data ids1 ids2,
  defer_plan_wf descs root tree = true ->
  admissible descs ids1 = true -> admissible descs ids2 = true ->
  (forall x, In x ids1 <-> In x ids2) ->
  exists v1 v2, client_result descs root data (order_of descs ids1) = Some v1 /\
                client_result descs root data (order_of descs ids2) = Some v2 /\ jeq v1 v2.
Proof.
  intros descs root tree data ids1 ids2 Hwf H1 H2 Hs. split_wf Hwf.
  apply order_independent_lemma; assumption.
Qed.

(* every run of the executor: its completion order is admissible; when the defers that never
   complete have nothing to deliver, the client's fold over that order is the whole response *)
Lemma reconstruct_exec_lemma : forall descs root tree data tr frames,
  defer_plan_wf descs root tree = true ->
  exec descs root tree data tr = Some frames ->
  undelivered_empty descs root data (completed_ids frames) = true ->
  exists v, client_result descs root data (order_of descs (completed_ids frames)) = Some v /\
            jeq v (proj keep_all root data []) /\
            (strict_clean root data [] = true ->
             exists r, complete_root (fun _ _ => false) (erase root) data = (Some r, []) /\ jeq v r).
Proof.
  intros descs root tree data tr frames Hwf Hex Hu.
  eapply reconstruct_partial_order_lemma; [exact Hwf | | exact Hu].
  eapply exec_order_admissible_lemma; eauto.
Qed.

Lemma dead_anchor_no_items : forall descs root tree data d,
  defer_plan_wf descs root tree = true -> In d descs ->
  anchor_alive data (dd_path d) = false -> c_items descs d root data = [].
Proof.
  intros descs root tree data d Hwf Hd Hdead. split_wf Hwf.
  apply andb_true_iff in Hwf. destruct Hwf as [Hwf _].
  apply andb_true_iff in Hwf. destruct Hwf as [Hdw _].
  apply dead_no_items; auto.
  apply (ProofsStream.find_desc_unique descs (wf_ids descs Hdw) d Hd).
Qed.

(* ---- the unrestricted executor statement is false: the witness ---- *)
Lemma jeq_obj_length : forall m1 m2, jeq (JObj m1) (JObj m2) -> length m1 = length m2.
Proof.
  intros m1 m2 H. inversion H as [| | | | | ? ? m2' Hp Hf]; subst.
  apply Permutation_length in Hp. rewrite Hp. clear Hp H.
  induction Hf; simpl; congruence.
Qed.

(* { maybe {id} ... @defer { maybe {name} ... @defer { first {id} } } } as planned today (recorded
   finding defer-merged-mount-wrong-anchor, half (b)): defer 1 is anchored at [maybe], its child 2 at
   the root.  With maybe = null defer 1 is dead, its whole Sequence is pruned, and defer 2 -- whose
   anchor is alive and which has data -- never completes. *)
Definition wb_maybe : bytes := [109;97;121;98;101].
Definition wb_first : bytes := [102;105;114;115;116].
Definition wb_id : bytes := [105;100].
Definition wb_name : bytes := [110;97;109;101].
Definition w_root : dnode :=
  DObj [] false [81] []
    [DFld wb_maybe None None None
       (DObj [wb_maybe] true [73] []
          [DFld wb_id None None None (DLeaf (NStr [wb_id] true));
           DFld wb_name None None (Some 1) (DLeaf (NStr [wb_name] true))]);
     DFld wb_first None None (Some 2)
       (DObj [wb_first] true [73] [] [DFld wb_id None None (Some 2) (DLeaf (NStr [wb_id] true))])].
Definition w_descs : list ddesc :=
  [{| dd_id := 1; dd_parent := 0; dd_label := []; dd_path := [wb_maybe] |};
   {| dd_id := 2; dd_parent := 1; dd_label := []; dd_path := [] |}].
Definition w_tree : option dtree := Some (TSeq [TSingle 1; TSingle 2]).
Definition w_data : json := JObj [(wb_maybe, JNull); (wb_first, JObj [(wb_id, JStr [120])])].

Lemma reconstruct_exec_refuted_lemma : exists descs root tree data tr frames v r,
  defer_plan_wf descs root tree = true /\ strict_clean root data [] = true /\
  exec descs root tree data tr = Some frames /\
  client_result descs root data (order_of descs (completed_ids frames)) = Some v /\
  complete_root (fun _ _ => false) (erase root) data = (Some r, []) /\
  undelivered_empty descs root data (completed_ids frames) = false /\
  ~ jeq v r.
Proof.
  exists w_descs, w_root, w_tree, w_data, [].
  eexists. eexists. eexists.
  split; [vm_compute; reflexivity |].
  split; [vm_compute; reflexivity |].
  split; [vm_compute; reflexivity |].
  split; [vm_compute; reflexivity |].
  split; [vm_compute; reflexivity |].
  split; [vm_compute; reflexivity |].
  intros H. apply jeq_obj_length in H. discriminate.
Qed.
