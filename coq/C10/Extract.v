From Gv Require Import lib.Bytes lib.Json lib.ExtractAnchor C02.Model C02.Spec C10.Model C10.Spec C10.DescPath.
Require Import ExtrOcamlBasic.
Extraction Language OCaml.
Extraction "model.ml" extraction_anchor exec init_state run render_initial render_batch frame_bytes marshal
  stream_ok_b flushes_ok_b defer_plan_wf descs_wf shape_ok scope_ok paths_ok group_ids_nodup root_ok
  erase complete_root jequiv_b merge_at apply_items client_path json_eqb
  clean_b strict_clean proj keep_all keep_layer c_stream client_result find_desc
  defer_path spec_path desc_path_ok_b static_gives_up candidate chain_typed anchor_ok_b collector_path collector_path_v0 spec_collector_path desc_paths_ok_b prefix_b.
