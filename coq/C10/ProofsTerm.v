(* C10: the stream terminates.  Every step of the defer-tree executor strictly decreases a
   measure (so every run is at most that long), and a task that is not finished always has an
   enabled step (no deadlock: the fetch phase needs no lock, the render phase is one atomic step). *)
From Coq Require Import ZArith Lia ZifyN ZifyNat ZifyBool.
From Gv Require Import lib.Bytes lib.Json C02.Model C10.Model C10.Spec C10.ProofsBasic C10.ProofsTask.
Open Scope N_scope.

Fixpoint msize (k : task) : nat :=
  match k with
  | KSingle _ => 3
  | KFetched _ => 2
  | KSeqP p rest => msize p + 3 * length (flat_map tree_ids rest)
  | KSeqC c rest _ => msize c + 3 * length (flat_map tree_ids rest)
  | KPar ts => fold_right (fun t acc => msize t + acc) 0 ts
  | KDone | KPanic => 0
  end%nat.

Lemma msize_start : forall t, (msize (start t) <= 3 * length (tree_ids t))%nat.
Proof.
  induction t using dtree_ind'; simpl.
  - lia.
  - destruct l as [| x l']; simpl; [lia |].
    destruct x; simpl; lia.
  - induction l as [| y l' IHl]; simpl; [lia |].
    pose proof (Forall_inv H) as Hy. specialize (IHl (Forall_inv_tail H)). simpl in Hy.
    rewrite !app_length. lia.
Qed.

Lemma prune_length : forall live t t', prune live t = Some t' -> (length (tree_ids t') <= length (tree_ids t))%nat.
Proof.
  intros live. induction t using dtree_ind'; intros t' Hp.
  - simpl in Hp. destruct (mem_N g live); inversion Hp; subst. lia.
  - change (prune live (TSeq l)) with
        (match top_id (TSeq l) with Some id => if mem_N id live then Some (TSeq l) else None | None => None end) in Hp.
    destruct (top_id (TSeq l)); [| discriminate]. destruct (mem_N n live); inversion Hp; subst. lia.
  - rewrite prune_par in Hp.
    assert (Hl : (length (flat_map tree_ids (prune_list live l)) <= length (flat_map tree_ids l))%nat).
    { clear Hp. induction l as [| c r IH]; simpl; [lia |].
      specialize (IH (Forall_inv_tail H)). pose proof (Forall_inv H) as Hc. simpl in Hc.
      destruct (prune live c) as [c' |] eqn:E; simpl; rewrite !app_length.
      - specialize (Hc c' eq_refl). lia.
      - lia. }
    destruct (prune_list live l) eqn:E; [discriminate |]. inversion Hp; subst. simpl in *. exact Hl.
Qed.

Lemma msize_advance : forall live rest, (msize (advance rest live) <= 3 * length (flat_map tree_ids rest))%nat.
Proof.
  intros live. induction rest as [| c r IH]; simpl; [lia |].
  rewrite app_length.
  destruct (prune live c) as [c' |] eqn:E; simpl.
  - pose proof (prune_length live c c' E). pose proof (msize_start c'). lia.
  - lia.
Qed.

Section Term.
  Variable descs : list ddesc.
  Variable root : dnode.

  Theorem tstep_decreases : forall k a G k' G' fin,
    tstep descs root a k G = Some (k', G', fin) -> (msize k' < msize k)%nat.
  Proof.
    induction k using task_ind'; intros a G k' G' fin Hs; simpl in Hs.
    - destruct a; [| discriminate]. destruct (g =? g0); inversion Hs; subst. simpl. lia.
    - destruct a; [discriminate |]. destruct (g =? g0); [| discriminate].
      destruct (do_render descs root g G). inversion Hs; subst. simpl. lia.
    - destruct (tstep descs root a k G) as [[[p' G1] [live |]] |] eqn:E; [| | discriminate].
      + inversion Hs; subst. pose proof (IHk _ _ _ _ _ E). pose proof (msize_advance live rest). simpl. lia.
      + inversion Hs; subst. pose proof (IHk _ _ _ _ _ E). simpl. lia.
    - destruct (tstep descs root a k G) as [[[c' G1] fin1] |] eqn:E; [| discriminate].
      pose proof (IHk _ _ _ _ _ E).
      destruct (task_done c'); inversion Hs; subst.
      + pose proof (msize_advance live rest). simpl. lia.
      + simpl. lia.
    - match type of Hs with
      | match ?go ts with _ => _ end = _ => remember go as gof eqn:Hgo
      end.
      assert (Hgen : forall ts ts' G1, Forall (fun k => forall a G k' G' fin,
                         tstep descs root a k G = Some (k', G', fin) -> (msize k' < msize k)%nat) ts ->
                       gof ts = Some (ts', G1) -> (msize (KPar ts') < msize (KPar ts))%nat).
      { subst gof. clear. intros ts0. induction ts0 as [| t r IH]; intros ts' G1 HI Hr; [discriminate |].
        destruct (tstep descs root a t G) as [[[t' G2] f2] |] eqn:E.
        - inversion Hr; subst. pose proof (Forall_inv HI _ _ _ _ _ E). simpl. lia.
        - destruct ((fix go (ts : list task) : option (list task * gstate) :=
                       match ts with
                       | [] => None
                       | t :: r =>
                         match tstep descs root a t G with
                         | Some (t', G', _) => Some (t' :: r, G')
                         | None => match go r with Some (r', G') => Some (t :: r', G') | None => None end
                         end
                       end) r) as [[r' G3] |] eqn:Eg; [| discriminate].
          inversion Hr; subst. specialize (IH r' G1 (Forall_inv_tail HI) eq_refl). simpl in *. lia. }
      destruct (gof ts) as [[ts' G1] |] eqn:Er; [| discriminate]. inversion Hs; subst.
      apply (Hgen ts ts' G' H Er).
    - discriminate.
    - discriminate.
  Qed.

  (* every run is bounded by the measure of its first state *)
  Theorem run_bounded : forall tr k G k' G',
    run descs root tr k G = Some (k', G') -> (length tr + msize k' <= msize k)%nat.
  Proof.
    induction tr as [| a r IH]; intros k G k' G' Hr; simpl in Hr.
    - inversion Hr; subst. simpl. lia.
    - destruct (tstep descs root a k G) as [[[k1 G1] fin] |] eqn:E; [| discriminate].
      pose proof (tstep_decreases _ _ _ _ _ _ E). specialize (IH _ _ _ _ Hr). simpl. lia.
  Qed.

  (* no deadlock: an unfinished well-shaped task can always take a step *)
  Theorem tstep_progress : forall k G,
    kwf descs k -> task_done k = false ->
    exists a k' G' fin, tstep descs root a k G = Some (k', G', fin).
  Proof.
    induction k using task_ind'; intros G Hw Hd.
    - exists (AFetch g). simpl. rewrite N.eqb_refl. eauto.
    - exists (ARender g). simpl. rewrite N.eqb_refl. destruct (do_render descs root g G). eauto.
    - inversion Hw as [| | p0 g rest0 Hp Hc Hf | | |]; subst.
      destruct Hp as [-> | ->].
      + exists (AFetch g). simpl. rewrite N.eqb_refl. eauto.
      + exists (ARender g). simpl. rewrite N.eqb_refl. destruct (do_render descs root g G). eauto.
    - inversion Hw as [| | | c0 rest0 live0 Hc Hcd Hf | |]; subst.
      destruct (IHk G Hc Hcd) as [a [c' [G' [fin E]]]].
      exists a. simpl. rewrite E. destruct (task_done c'); eauto.
    - inversion Hw as [| | | | ts0 Hts |]; subst. simpl in Hd.
      assert (Hex : exists a r' G1,
                 (fix go (ts : list task) : option (list task * gstate) :=
                    match ts with
                    | [] => None
                    | t :: r =>
                      match tstep descs root a t G with
                      | Some (t', G', _) => Some (t' :: r, G')
                      | None => match go r with Some (r', G') => Some (t :: r', G') | None => None end
                      end
                    end) ts = Some (r', G1)).
      { clear Hw. induction ts as [| t r IH]; [discriminate |].
        simpl in Hd. destruct (task_done t) eqn:Et.
        - simpl in Hd. destruct (IH (Forall_inv_tail H) Hd (Forall_inv_tail Hts)) as [a [r' [G1 E]]].
          exists a. destruct (tstep descs root a t G) as [[[t' G2] f2] |]; [eauto |].
          rewrite E. eauto.
        - destruct (Forall_inv H G (Forall_inv Hts) Et) as [a [t' [G1 [fin E]]]].
          exists a. rewrite E. eauto. }
      destruct Hex as [a [r' [G1 E]]]. exists a. simpl. rewrite E. eauto.
    - discriminate.
    - inversion Hw.
  Qed.
End Term.
