(* C10: render + flush of one frame is one critical section of the DataBuffer lock (ModelFlush.v):
   every Flush hands over exactly one frame, in the order in which the lock was taken. *)
From Coq Require Import ZArith Lia ZifyN ZifyNat ZifyBool.
From Gv Require Import lib.Bytes lib.Json C02.Model C10.Model C10.Spec C10.ProofsBasic C10.ProofsTask C10.ProofsStream C10.ModelFlush.
Open Scope N_scope.

Definition single {A} (x : A) : list A := [x].

Section Flush.
  Variable descs : list ddesc.
  Variable root : dnode.

  (* ---- what a macro step does to the frame list ---- *)
  Lemma do_render_appends : forall g G G' L,
    do_render descs root g G = (G', L) -> exists f, g_frames G' = g_frames G ++ [f].
  Proof.
    intros g G G' L. unfold do_render.
    destruct (render_batch _ _ _ _ _) as [[[f data'] live] o'].
    intros H. inversion H; subst; clear H. exists f. reflexivity.
  Qed.

  Lemma tstep_frames : forall k a G k' G' fin,
    tstep descs root a k G = Some (k', G', fin) ->
    match a with
    | AFetch _ => G' = G
    | ARender _ => exists f, g_frames G' = g_frames G ++ [f]
    end.
  Proof.
    induction k using task_ind'; intros a G k' G' fin Hs; simpl in Hs.
    - destruct a as [g' | g']; [| discriminate].
      destruct (g =? g'); [| discriminate]. inversion Hs; subst. reflexivity.
    - destruct a as [g' | g']; [discriminate |].
      destruct (g =? g'); [| discriminate].
      destruct (do_render descs root g G) as [G1 live] eqn:Hr.
      inversion Hs; subst. eapply do_render_appends; eauto.
    - destruct (tstep descs root a k G) as [[[p' G1] [live |]] |] eqn:Ht; try discriminate;
        inversion Hs; subst; eapply IHk; eauto.
    - destruct (tstep descs root a k G) as [[[c' G1] fin1] |] eqn:Ht; try discriminate.
      destruct (task_done c'); inversion Hs; subst; eapply IHk; eauto.
    - assert (Hgen : forall ts' G1,
                (fix go (ts : list task) : option (list task * gstate) :=
                   match ts with
                   | [] => None
                   | t :: r =>
                     match tstep descs root a t G with
                     | Some (t', G', _) => Some (t' :: r, G')
                     | None => match go r with Some (r', G') => Some (t :: r', G') | None => None end
                     end
                   end) ts = Some (ts', G1) ->
                match a with
                | AFetch _ => G1 = G
                | ARender _ => exists f, g_frames G1 = g_frames G ++ [f]
                end).
      { clear Hs. induction ts as [| t r IH]; intros ts' G1 Hgo; [discriminate |].
        destruct (tstep descs root a t G) as [[[t' G2] f2] |] eqn:Ht.
        - inversion Hgo; subst. eapply (Forall_inv H); eauto.
        - match type of Hgo with
          | match ?X with _ => _ end = _ => destruct X as [[r' G3] |] eqn:Hgo'; [| discriminate]
          end.
          inversion Hgo; subst. eapply (IH (Forall_inv_tail H)); eauto. }
      match type of Hs with
      | match ?X with _ => _ end = _ => destruct X as [[ts' G1] |] eqn:Hgo; [| discriminate]
      end.
      inversion Hs; subst; clear Hs. eapply Hgen; eauto.
    - discriminate.
    - discriminate.
  Qed.

  (* ---- the micro run projects onto a macro run ---- *)
  Lemma mrun_macro : forall early tr k G W k' G' W',
    mrun descs root early tr (k, G, W) = Some (k', G', W') ->
    run descs root (macro tr) k G = Some (k', G').
  Proof.
    induction tr as [| m r IH]; intros k G W k' G' W' H; simpl in *.
    - inversion H; subst. reflexivity.
    - destruct m as [[g | g] | g | g]; simpl in *.
      + destruct (tstep descs root (AFetch g) k G) as [[[k1 G1] f1] |] eqn:Ht; [| discriminate].
        eapply IH; eauto.
      + destruct (w_lock W); [discriminate |].
        destruct (tstep descs root (ARender g) k G) as [[[k1 G1] f1] |] eqn:Ht; [| discriminate].
        eapply IH; eauto.
      + match type of H with match (if ?c then _ else _) with _ => _ end = _ => destruct c end; [| discriminate].
        eapply IH; eauto.
      + match type of H with match (if ?c then _ else _) with _ => _ end = _ => destruct c end; [| discriminate].
        eapply IH; eauto.
  Qed.

  (* ---- the invariant of the faithful discipline (nobody unlocks before flushing) ---- *)
  Definition faithful : N -> bool := fun _ => false.

  Definition flush_inv (G : gstate) (W : wstate) : Prop :=
    exists pre, g_frames G = pre ++ w_buf W /\ w_flushed W = map single pre /\
      match w_lock W with
      | None => w_buf W = [] /\ w_unflushed W = []
      | Some g => (w_unflushed W = [g] /\ exists f, w_buf W = [f]) \/ (w_unflushed W = [] /\ w_buf W = [])
      end.

  Lemma skipn_len_app : forall (A : Type) (l r : list A), skipn (length l) (l ++ r) = r.
  Proof. induction l; simpl; auto. Qed.

  Lemma mstep_inv : forall m k G W k' G' W',
    flush_inv G W -> mstep descs root faithful m (k, G, W) = Some (k', G', W') -> flush_inv G' W'.
  Proof.
    intros m k G W k' G' W' [pre [I1 [I2 I3]]] H.
    destruct m as [[g | g] | g | g]; simpl in H.
    - destruct (tstep descs root (AFetch g) k G) as [[[k1 G1] f1] |] eqn:Ht; [| discriminate].
      inversion H; subst. apply tstep_frames in Ht. subst. exists pre. auto.
    - destruct (w_lock W) eqn:Hl; [discriminate |].
      destruct (tstep descs root (ARender g) k G) as [[[k1 G1] f1] |] eqn:Ht; [| discriminate].
      inversion H; subst; clear H. apply tstep_frames in Ht. destruct Ht as [f Hf].
      destruct I3 as [Hb Hu]. rewrite Hb in *. rewrite app_nil_r in I1.
      exists pre. simpl. rewrite Hf, skipn_len_app, Hu. subst pre.
      split; [reflexivity |]. split; [exact I2 |]. left. split; [reflexivity | exists f; reflexivity].
    - unfold faithful in H. destruct (mem_N g (w_unflushed W) && lock_is W g) eqn:Hc; [| discriminate].
      inversion H; subst; clear H. apply andb_true_iff in Hc. destruct Hc as [Hm Hl].
      unfold lock_is in Hl. destruct (w_lock W) as [h |] eqn:Hlk; [| discriminate].
      apply N.eqb_eq in Hl. subst h.
      destruct I3 as [[Hu [f Hb]] | [Hu Hb]].
      + exists (pre ++ [f]). simpl. rewrite Hu. simpl. rewrite N.eqb_refl.
        rewrite Hb in *. split; [rewrite app_nil_r; exact I1 |].
        split; [rewrite I2, map_app; reflexivity |]. right. auto.
      + rewrite Hu in Hm. discriminate.
    - unfold faithful in H. simpl in H.
      destruct (lock_is W g && negb (mem_N g (w_unflushed W))) eqn:Hc; [| discriminate].
      inversion H; subst; clear H. apply andb_true_iff in Hc. destruct Hc as [Hl Hm].
      unfold lock_is in Hl. destruct (w_lock W) as [h |] eqn:Hlk; [| discriminate].
      apply N.eqb_eq in Hl. subst h.
      destruct I3 as [[Hu [f Hb]] | [Hu Hb]].
      + rewrite Hu in Hm. simpl in Hm. rewrite N.eqb_refl in Hm. discriminate.
      + exists pre. simpl. auto.
  Qed.

  Lemma mrun_inv : forall tr k G W k' G' W',
    flush_inv G W -> mrun descs root faithful tr (k, G, W) = Some (k', G', W') -> flush_inv G' W'.
  Proof.
    induction tr as [| m r IH]; intros k G W k' G' W' HI H; cbn [mrun] in H.
    - inversion H; subst. exact HI.
    - destruct (mstep descs root faithful m (k, G, W)) as [[[k1 G1] W1] |] eqn:Hs; [| discriminate].
      eapply IH; [eapply mstep_inv; eauto | exact H].
  Qed.

  Lemma init_frames : forall tree data k G,
    init_state descs root tree data = (k, G) -> exists f, g_frames G = [f].
  Proof.
    intros tree data k G. unfold init_state.
    destruct (render_initial descs root data) as [[f data'] live].
    destruct tree as [t |]; [destruct (prune (map dd_id live) t) |]; intros H; inversion H; subst; exists f; reflexivity.
  Qed.

  Lemma minit_inv : forall tree data k G W,
    minit descs root tree data = (k, G, W) -> flush_inv G W.
  Proof.
    intros tree data k G W. unfold minit.
    destruct (init_state descs root tree data) as [k0 G0] eqn:Hi.
    intros H. inversion H; subst; clear H.
    destruct (init_frames _ _ _ _ Hi) as [f Hf].
    exists [f]. simpl. rewrite Hf. auto.
  Qed.

  (* every Flush so far handed over exactly one frame, the flushes are the frames in the order in which
     the lock was taken (= the order of g_frames), and at most one frame is written and unflushed -- by
     the holder of the lock *)
  Lemma flush_one_frame_l : forall tree data tr k G W,
    mrun descs root faithful tr (minit descs root tree data) = Some (k, G, W) ->
    exists pre, g_frames G = pre ++ w_buf W /\ w_flushed W = map single pre /\
                (length (w_buf W) <= 1)%nat /\ (w_lock W = None -> w_buf W = [] /\ w_unflushed W = []).
  Proof.
    intros tree data tr k G W H.
    destruct (minit descs root tree data) as [[k0 G0] W0] eqn:Hi.
    pose proof (mrun_inv _ _ _ _ _ _ _ (minit_inv _ _ _ _ _ Hi) H) as [pre [I1 [I2 I3]]].
    exists pre. split; [exact I1 |]. split; [exact I2 |].
    destruct (w_lock W).
    - split; [| discriminate]. destruct I3 as [[_ [f Hb]] | [_ Hb]]; rewrite Hb; simpl; lia.
    - destruct I3 as [Hb Hu]. rewrite Hb. simpl. split; [lia | auto].
  Qed.

  (* ---- with the protocol: no flush after the final frame ---- *)
  Lemma scan_flushes : forall fs ann comp,
    stream_scan fs ann comp = true -> flushes_scan (map single fs) false = true.
  Proof.
    induction fs as [| f r IH]; intros ann comp H; [reflexivity |].
    simpl in H. repeat (apply andb_true_iff in H; destruct H as [H ?]).
    simpl. destruct r as [| f' r'].
    - reflexivity.
    - match goal with Hh : Bool.eqb (f_hasnext f) _ = true |- _ => apply Bool.eqb_prop in Hh; rewrite Hh end.
      simpl negb. eapply IH; eauto.
  Qed.

  Lemma stream_ok_flushes : forall fs, stream_ok_b fs = true -> flushes_ok_b (map single fs) = true.
  Proof.
    intros fs H. unfold stream_ok_b in H. destruct fs as [| f0 r]; [discriminate |].
    destruct (f_incr f0); [| discriminate]. destruct (f_completed f0); [| discriminate].
    unfold flushes_ok_b. eapply scan_flushes; eauto.
  Qed.

  Lemma map_map_single : forall (l : list frame), map (map fr_sum) (map single l) = map single (map fr_sum l).
  Proof. induction l as [| a l IH]; simpl; [reflexivity | rewrite IH; reflexivity]. Qed.

  Lemma concat_single : forall (A : Type) (l : list A), concat (map single l) = l.
  Proof. induction l as [| a l IH]; simpl; [reflexivity | rewrite IH; reflexivity]. Qed.

  Lemma flush_stream_wellformed_l : forall tree data tr k G W,
    defer_plan_wf descs root tree = true ->
    mrun descs root faithful tr (minit descs root tree data) = Some (k, G, W) ->
    mdone (k, G, W) = true ->
    w_flushed W = map single (g_frames G) /\
    exec descs root tree data (macro tr) = Some (g_frames G) /\
    flushes_ok_b (map (map fr_sum) (w_flushed W)) = true /\
    stream_ok_b (map fr_sum (concat (w_flushed W))) = true.
  Proof.
    intros tree data tr k G W Hwf H Hd.
    destruct (flush_one_frame_l _ _ _ _ _ _ H) as [pre [I1 [I2 [_ I4]]]].
    unfold mdone in Hd. apply andb_true_iff in Hd. destruct Hd as [Hd _].
    apply andb_true_iff in Hd. destruct Hd as [Hk Hl].
    destruct (w_lock W) eqn:Hlk; [discriminate |].
    destruct (I4 eq_refl) as [Hb _]. rewrite Hb, app_nil_r in I1. subst pre.
    assert (He : exec descs root tree data (macro tr) = Some (g_frames G)).
    { unfold exec. unfold minit in H. destruct (init_state descs root tree data) as [k0 G0].
      rewrite (mrun_macro _ _ _ _ _ _ _ _ H). rewrite Hk. reflexivity. }
    pose proof (stream_wellformed_b _ _ _ _ _ _ Hwf He) as Hs.
    split; [exact I2 |]. split; [exact He |]. rewrite I2. split.
    - rewrite map_map_single. apply stream_ok_flushes. exact Hs.
    - rewrite concat_single. exact Hs.
  Qed.
End Flush.
