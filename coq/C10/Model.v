(* C10: executable model of the @defer execution path of v2/pkg/engine/resolve:
   - resolvable.go in defer mode: collectDeferFields / isDeferAncestor / fieldNodeKindAllowsSeek, the
     render / pass-through (seek) phases of walkObject, walkFields with its filter, walkArray, the
     flags enableRender / enableDeferRender / currentDefer / deferItemDataNull, the per-item
     envelope (data, id, subPath, errors), Resolve (initial frame), ResolveDeferBatch,
     liveChildDescriptors / deferAnchorAlive, printPendingEntries, printHasNext;
   - defer_tree.go (topDeferID, pruneDeadDefers) and resolve.go resolveDeferTree / resolveDeferSingle
     as a labelled transition system: "group g finished its fetch phase" (unlocked) and "group g
     renders and flushes" (atomic under the DataBuffer lock), with the shared outstanding counter.
   The renderer is modelled on JSON trees: what Go prints while render() holds is returned as a
   tree and the frame text is [marshal] of the frame tree; output that is not the text of any tree
   (a field key completed with "null" after a partial value, the missing comma between the render
   and the pass-through fields of one object) is reported by the flag [ws_torn].  Leaves (scalars,
   enums, static nodes) are the C02 nodes and use the C02 pre-walk.  Error wording is not
   modelled: an error is (kind, path).  Authorization, custom field renderers, cost control,
   extensions and subgraph errors are outside the model.  No proofs in this file. *)
From Coq Require Import ZArith.
From Gv Require Import lib.Bytes lib.Json C02.Model.
Open Scope N_scope.

(* ---- decimal printing of ids and list indices (strconv.Itoa) ---- *)
Fixpoint dec_fuel (fuel : nat) (n : N) (acc : bytes) : bytes :=
  match fuel with
  | O => acc
  | S f => let acc' := (48 + n mod 10) :: acc in
           if n <? 10 then acc' else dec_fuel f (n / 10) acc'
  end.
Definition dec_of_N (n : N) : bytes := dec_fuel (S (N.to_nat (N.log2 n))) n [].

(* ---- response plan with defer marks (resolve.Object / Array / Field.Defer) ---- *)
Inductive dnode :=
| DObj (path : list bytes) (nullable : bool) (tyname : bytes) (possible : list bytes) (fields : list dfield)
| DArr (path : list bytes) (nullable : bool) (item : dnode)
| DLeaf (n : node)
with dfield :=
| DFld (name : bytes) (on : option (list bytes)) (parent_on : option (list (nat * list bytes)))
       (defer : option N) (value : dnode).

(* the same plan with every defer mark erased: a C02 plan *)
Fixpoint erase (n : dnode) : node :=
  match n with
  | DObj p nl ty poss fs =>
    NObj p nl ty poss [] false
         ((fix go (fs : list dfield) : list field :=
             match fs with
             | [] => []
             | DFld nm on pon _ v :: r => Fld nm on pon None (erase v) :: go r
             end) fs)
  | DArr p nl it => NArr p nl (erase it)
  | DLeaf l => l
  end.

(* resolve.DeferDescriptor *)
Record ddesc := { dd_id : N; dd_parent : N; dd_label : bytes; dd_path : list bytes }.

Definition is_leaf_node (n : node) : bool :=
  match n with NObj _ _ _ _ _ _ _ | NArr _ _ _ => false | _ => true end.

Definition tn_bad (tyname : bytes) (possible : list bytes) (tn : option bytes) : bool :=
  match tn with
  | None => is_abstract tyname possible
  | Some t => match possible with [] => false | _ => negb (mem_bytes t possible) end
  end.

Definition nonempty {A} (l : list A) : bool := match l with [] => false | _ => true end.

(* the print walk of a leaf: the value printed (None = hasError) and the errors added *)
Definition leaf_scalar (path : rpath) (p : list bytes) (nl : bool) (kind : N) (accept : json -> bool)
           (parent : json) : option json * list gerr :=
  match get_path p parent with
  | None | Some JNull => if nl then (Some JNull, []) else (None, nonnull_error path p parent)
  | Some x => if accept x then (Some x, []) else (None, [{| ge_kind := kind; ge_path := push_names path p |}])
  end.
Definition leaf_render (n : node) (parent : json) (path : rpath) : option json * list gerr :=
  match n with
  | NNull => (Some JNull, [])
  | NStatic v => (Some (JStr v), [])
  | NEmptyObj => (Some (JObj []), [])
  | NEmptyArr => (Some (JArr []), [])
  | NStr p nl => leaf_scalar path p nl EK_STRING is_jstr parent
  | NBool p nl => leaf_scalar path p nl EK_BOOL is_jbool parent
  | NInt p nl => leaf_scalar path p nl EK_INT is_jnum parent
  | NFloat p nl => leaf_scalar path p nl EK_FLOAT (fun _ => true) parent   (* kind test: pre-walk only *)
  | NBigInt p nl => leaf_scalar path p nl 0 (fun _ => true) parent
  | NScalar p nl => leaf_scalar path p nl 0 (fun _ => true) parent
  | NEnum p nl _ values inacc =>
    match get_path p parent with
    | None | Some JNull => if nl then (Some JNull, []) else (None, nonnull_error path p parent)
    | Some (JStr s) =>
      if negb (mem_bytes s values) || mem_bytes s inacc then ((if nl then Some JNull else None), [])
      else (Some (JStr s), [])
    | Some _ => (None, [{| ge_kind := EK_ENUM; ge_path := push_names path p |}])
    end
  | _ => (None, [])      (* objects / lists are not leaves (excluded by plan well-formedness) *)
  end.

(* one incremental item: where its envelope was opened (r.path), the members rendered into
   "data", and the accumulated r.errors at the time the envelope was closed *)
Record item := { it_path : rpath; it_members : list (bytes * json); it_errs : list gerr }.

(* walk state: r.errors, the items written so far, deferItemDataNull, torn output *)
Record wst := { ws_errs : list gerr; ws_items : list item; ws_null : bool; ws_torn : bool }.
Definition add_errs (e : list gerr) (s : wst) : wst :=
  {| ws_errs := ws_errs s ++ e; ws_items := ws_items s; ws_null := ws_null s; ws_torn := ws_torn s |}.
Definition add_item (i : item) (s : wst) : wst :=
  {| ws_errs := ws_errs s; ws_items := ws_items s ++ [i]; ws_null := ws_null s; ws_torn := ws_torn s |}.
Definition set_null (s : wst) : wst :=
  {| ws_errs := ws_errs s; ws_items := ws_items s; ws_null := true; ws_torn := ws_torn s |}.
Definition set_torn (s : wst) : wst :=
  {| ws_errs := ws_errs s; ws_items := ws_items s; ws_null := ws_null s; ws_torn := true |}.
Definition wst0 (errs : list gerr) : wst := {| ws_errs := errs; ws_items := []; ws_null := false; ws_torn := false |}.

Inductive fclass := FRender | FSeek | FSkip.
Definition fclass_eqb (a b : fclass) : bool :=
  match a, b with FRender, FRender | FSeek, FSeek | FSkip, FSkip => true | _, _ => false end.

Definition is_leaf_dnode (n : dnode) : bool := match n with DLeaf _ => true | _ => false end.
Definition dnode_nullable (n : dnode) : bool :=
  match n with DObj _ nl _ _ _ | DArr _ nl _ => nl | DLeaf l => node_nullable l end.
(* walkArray: a failing item is replaced by null when it is a nullable object or a nullable list *)
Definition dabsorbs (item : dnode) : bool :=
  match item with DObj _ nl _ _ _ | DArr _ nl _ => nl | DLeaf _ => false end.
(* fieldNodeKindAllowsSeek *)
(* a list is entered when its innermost item is an object (lists of lists included) *)
Fixpoint allows_seek (v : dnode) : bool :=
  match v with
  | DObj _ _ _ _ _ => true
  | DArr _ _ item => allows_seek item
  | DLeaf _ => false
  end.

Section Defer.
  (* r.deferDescriptors *)
  Variable descs : list ddesc.

  Definition find_desc (id : N) : option ddesc := find (fun d => dd_id d =? id) descs.
  (* a missing map entry reads as the zero descriptor *)
  Definition parent_of (id : N) : N := match find_desc id with Some d => dd_parent d | None => 0 end.

  (* isDeferAncestor(fieldDeferID, parentID); the Go loop does not terminate on a cyclic ParentID
     chain: None = out of fuel (excluded by descs_wf: parents are smaller than children) *)
  Fixpoint is_ancestor_fuel (fuel : nat) (fid pid : N) : option bool :=
    match fuel with
    | O => None
    | S f => if pid =? 0 then Some false
             else if fid =? pid then Some true
             else is_ancestor_fuel f fid (parent_of pid)
    end.
  Definition is_ancestor (fid pid : N) : bool :=
    match is_ancestor_fuel (S (length descs)) fid pid with Some b => b | None => false end.

  Section Walk.
    (* r.currentDefer: None for the initial frame *)
    Variable cur : option ddesc.

    (* collectDeferFields, per field (after the type-condition test) *)
    Definition classify (df : option N) (v : dnode) : fclass :=
      match cur with
      | None => match df with None => FRender | Some _ => FSkip end
      | Some d =>
        match df with
        | None => if allows_seek v then FSeek else FSkip
        | Some c =>
          if c =? dd_id d then FRender
          else if is_ancestor c (dd_parent d) && allows_seek v then FSeek
          else FSkip
        end
      end.

    Definition has_class (tns' : list (option bytes)) (want : fclass) (fs : list dfield) : bool :=
      existsb (fun f => match f with DFld _ on pon df v =>
                          negb (skip_field on pon tns') && fclass_eqb (classify df v) want end) fs.

    (* walkNode in defer mode.  [er] = enableRender, [edr] = enableDeferRender; render() = er && edr.
       Returns: the enclosing value after mutation, hasError, the value printed inline while
       render() held (meaningless otherwise), the state. *)
    Fixpoint dwalk (n : dnode) (parent : json) (path : rpath) (tns : list (option bytes))
             (er edr : bool) (st : wst) {struct n} : json * wstatus * json * wst :=
      match n with
      | DLeaf l =>
        if er && edr then
          match leaf_render l parent path with
          | (Some v, e) => (parent, WOk, v, add_errs e st)
          | (None, e) => (parent, WErr, JNull, add_errs e st)
          end
        else
          let '(parent', e, s) := prewalk (fun _ _ => false) l parent path tns in
          (parent', (match s with WOk => WOk | _ => WErr end), JNull, add_errs e st)
      | DArr p nl item =>
        let v := get_path p parent in
        if is_null_or_missing v then
          if nl then (parent, WOk, JNull, st)
          else (parent, WErr, JNull, add_errs (nonnull_error path p parent) st)
        else
          let path' := push_names path p in
          match v with
          | Some (JArr items) =>
            let fix loop (items : list json) (i : N) (st : wst)
                : list json * list json * option wstatus * wst :=
              match items with
              | [] => ([], [], None, st)
              | it :: rest =>
                let '(it', s, rv, st1) := dwalk item it (path' ++ [PIdx i]) tns er edr st in
                match s with
                | WOk =>
                  let '(rest', rvs, s2, st2) := loop rest (i + 1) st1 in (it' :: rest', rv :: rvs, s2, st2)
                | _ =>
                  let st1' := if er && edr then set_torn st1 else st1 in
                  if dabsorbs item then
                    let '(rest', rvs, s2, st2) := loop rest (i + 1) st1' in
                    (JNull :: rest', JNull :: rvs, s2, st2)
                  else (it' :: rest, [], Some WErr, st1')
                end
              end in
            let '(items', rvs, s, st') := loop items 0 st in
            match s with
            | None => (set_path p (JArr items') parent, WOk, JArr rvs, st')
            | Some _ =>
              if nl then
                match p with
                | [] => (set_path p (JArr items') parent, WErr, JNull, st')
                | _ => (set_path p JNull parent, WOk, JNull, st')
                end
              else (set_path p (JArr items') parent, WErr, JNull, st')
            end
          | _ => (parent, WErr, JNull, add_errs [{| ge_kind := EK_ARRAY; ge_path := path' |}] st)
          end
      | DObj p nl ty poss fields =>
        let v := get_path p parent in
        if is_null_or_missing v then
          if nl then (parent, WOk, JNull, st)
          else (parent, WErr, JNull, add_errs (nonnull_error path p parent) st)
        else
          let path' := push_names path p in
          match v with
          | Some (JObj m) =>
            let value := JObj m in
            let tn := typename_of value in
            if tn_bad ty poss tn then
              if er && edr then (parent, WOk, JNull, st)
              else (parent, (if nl then WOk else WErr), JNull,
                    add_errs [{| ge_kind := EK_TYPENAME; ge_path := path' |}] st)
            else
              let tns' := tn :: tns in
              (* walkFields restricted to the fields of class [want]; [edr'] is enableDeferRender
                 during the loop.  Early exit: Some (nulled_itself, status). *)
              let fix floop (fs : list dfield) (want : fclass) (value : json) (edr' : bool) (st : wst)
                  : json * list (bytes * json) * option (bool * wstatus) * wst :=
                match fs with
                | [] => (value, [], None, st)
                | DFld name on pon df child :: rest =>
                  if skip_field on pon tns' then floop rest want value edr' st
                  else if negb (fclass_eqb (classify df child) want) then floop rest want value edr' st
                  else
                    let '(value', s, rv, st1) := dwalk child value path' tns' er edr' st in
                    match s with
                    | WOk =>
                      let '(v2, ms, s2, st2) := floop rest want value' edr' st1 in
                      (v2, (name, rv) :: ms, s2, st2)
                    | _ =>
                      if er && edr' then
                        (* the key is already written: it is completed with null *)
                        let st1' := if is_leaf_dnode child then st1 else set_torn st1 in
                        if nl then
                          let '(v2, ms, s2, st2) := floop rest want value' edr' st1' in
                          (v2, (name, JNull) :: ms, s2, st2)
                        else (value', [(name, JNull)], Some (false, WErr), st1')
                      else if nl && nonempty p then (value', [], Some (true, WOk), st1)
                      else (value', [], Some (false, WErr), st1)
                    end
                end in
              let has_r := has_class tns' FRender fields in
              let has_k := has_class tns' FSeek fields in
              (* render phase *)
              let '(value1, ms_r, herr, nulled, st1) :=
                if has_r then
                  let started := negb edr in
                  let '(v1, ms, s, sa) := floop fields FRender value true st in
                  let herr := match s with Some (false, _) => true | _ => false end in
                  let nulled := match s with Some (true, _) => true | _ => false end in
                  let sb :=
                    if started then
                      match cur with
                      | Some _ =>
                        let sb0 := if negb er && herr then set_null sa else sa in
                        if er then add_item {| it_path := path'; it_members := ms; it_errs := ws_errs sb0 |} sb0
                        else sb0
                      | None => sa
                      end
                    else sa in
                  (v1, ms, herr, nulled, sb)
                else (value, [], false, false, st) in
              let back (v : json) : json := if nulled then set_path p JNull parent else set_path p v parent in
              if herr then (back value1, WErr, JObj ms_r, st1)
              else
                (* pass-through phase: only with a current defer; enableDeferRender is what it was on entry *)
                let '(value2, ms_k, sk, st2) :=
                  match cur with
                  | Some _ => if has_k then floop fields FSeek value1 edr st1 else (value1, [], None, st1)
                  | None => (value1, [], None, st1)
                  end in
                match sk with
                | Some (false, _) => (back value2, WErr, JObj (ms_r ++ ms_k), st2)
                | Some (true, _) => (set_path p JNull parent, WOk, JObj (ms_r ++ ms_k), st2)
                | None =>
                  (* inside an item the pass-through fields are printed as well, without the comma *)
                  let st3 := if er && edr && nonempty ms_r && nonempty ms_k then set_torn st2 else st2 in
                  (back value2, WOk, JObj (ms_r ++ ms_k), st3)
                end
          | _ => (parent, WErr, JNull, add_errs [{| ge_kind := EK_NOTOBJECT; ge_path := path' |}] st)
          end
      end.
  End Walk.

  (* ---- deferAnchorAlive / liveChildDescriptors / printPendingEntries (sorted by id) ---- *)
  Definition anchor_alive (data : json) (path : list bytes) : bool :=
    negb (is_null_or_missing (get_path path data)).
  Fixpoint insert_desc (d : ddesc) (l : list ddesc) : list ddesc :=
    match l with
    | [] => [d]
    | x :: r => if dd_id d <=? dd_id x then d :: l else x :: insert_desc d r
    end.
  Definition sort_descs (l : list ddesc) : list ddesc := fold_right insert_desc [] l.
  Definition live_children (parent_id : N) (data : json) : list ddesc :=
    sort_descs (filter (fun d => (dd_parent d =? parent_id) && anchor_alive data (dd_path d)) descs).

  (* ---- frames as JSON trees ---- *)
  Definition k_data : bytes := [100;97;116;97].
  Definition k_errors : bytes := [101;114;114;111;114;115].
  Definition k_pending : bytes := [112;101;110;100;105;110;103].
  Definition k_hasnext : bytes := [104;97;115;78;101;120;116].
  Definition k_incremental : bytes := [105;110;99;114;101;109;101;110;116;97;108].
  Definition k_completed : bytes := [99;111;109;112;108;101;116;101;100].
  Definition k_id : bytes := [105;100].
  Definition k_path : bytes := [112;97;116;104].
  Definition k_label : bytes := [108;97;98;101;108].
  Definition k_subpath : bytes := [115;117;98;80;97;116;104].
  Definition k_kind : bytes := [107].

  Definition pelem_json (e : pelem) : json :=
    match e with PName n => JStr n | PIdx i => JNum (dec_of_N i) end.
  (* errors are abstracted to {"k":kind,"path":[...]} (the harness maps Go's error objects alike) *)
  Definition gerr_json (e : gerr) : json :=
    JObj [(k_kind, JNum (dec_of_N (ge_kind e))); (k_path, JArr (map pelem_json (ge_path e)))].
  Definition errs_json (l : list gerr) : json := JArr (map gerr_json l).

  Definition pending_entry (d : ddesc) : json :=
    JObj ([(k_id, JStr (dec_of_N (dd_id d))); (k_path, JArr (map JStr (dd_path d)))]
            ++ match dd_label d with [] => [] | l => [(k_label, JStr l)] end).
  Definition pending_members (l : list ddesc) : list (bytes * json) :=
    match l with [] => [] | _ => [(k_pending, JArr (map pending_entry l))] end.

  (* printDeferSubPathIfAny: leading named segments equal to the descriptor path are consumed in
     order; everything from the first other segment on is the subPath *)
  Fixpoint sub_path (desc_path : list bytes) (p : rpath) : rpath :=
    match p with
    | [] => []
    | PName n :: r =>
      match desc_path with
      | d :: dr => if bytes_eqb n d then sub_path dr r else p
      | [] => p
      end
    | PIdx _ :: _ => p
    end.

  Definition item_json (d : ddesc) (i : item) : json :=
    JObj ([(k_data, JObj (it_members i)); (k_id, JStr (dec_of_N (dd_id d)))]
            ++ (match sub_path (dd_path d) (it_path i) with
                | [] => []
                | sp => [(k_subpath, JArr (map pelem_json sp))]
                end)
            ++ (match it_errs i with [] => [] | e => [(k_errors, errs_json e)] end)).

  (* the observable part of a frame: what stream_ok_b looks at *)
  Record fsum := { f_pending : list N; f_incr : list N; f_completed : list N; f_hasnext : bool }.

  Record frame := { fr_json : json; fr_sum : fsum; fr_torn : bool }.

  (* Resolve() with deferMode and no current defer: the initial frame.  Returns the frame, the
     mutated data, the live top-level descriptors. *)
  Definition render_initial (root : dnode) (data : json) : frame * json * list ddesc :=
    let '(data1, s1, _, st1) := dwalk None root data [] [] false false (wst0 []) in
    let '(data_member, data2, torn) :=
      match s1 with
      | WOk =>
        let '(d2, _, rv, st2) := dwalk None root data1 [] [] true false (wst0 (ws_errs st1)) in
        (rv, d2, ws_torn st2)
      | _ => (JNull, data1, false)
      end in
    (* with "data":null nothing is announced: the response is complete *)
    let live := match s1 with WOk => live_children 0 data2 | _ => [] end in
    let j := JObj ((match ws_errs st1 with [] => [] | e => [(k_errors, errs_json e)] end)
                     ++ [(k_data, data_member)]
                     ++ pending_members live
                     ++ [(k_hasnext, JBool (nonempty live))]) in
    ({| fr_json := j;
        fr_sum := {| f_pending := map dd_id live; f_incr := []; f_completed := []; f_hasnext := nonempty live |};
        fr_torn := torn |}, data2, live).

  (* ResolveDeferBatch for descriptor d with the counter value [outstanding] (before the frame).
     Returns the frame, the mutated data, the live children, the new counter. *)
  Definition render_batch (root : dnode) (data : json) (d : ddesc) (outstanding : Z)
    : frame * json * list ddesc * Z :=
    let '(data1, _, _, st1) := dwalk (Some d) root data [] [] false false (wst0 []) in
    let skip0 := ws_null st1 in
    let '(data2, items, errs, torn) :=
      if skip0 then (data1, [], ws_errs st1, false)
      else
        let '(d2, _, _, st2) := dwalk (Some d) root data1 [] [] true false (wst0 (ws_errs st1)) in
        (d2, ws_items st2, ws_errs st2, ws_torn st2) in
    (* no item although errors were collected: they go on the completed entry *)
    let skip := skip0 || (negb (nonempty items) && nonempty errs) in
    (* a defer that delivers nothing announces no children *)
    let live := if skip then [] else live_children (dd_id d) data2 in
    let outstanding' := (outstanding + Z.of_nat (length live) - 1)%Z in
    let has_next := negb (outstanding' =? 0)%Z in
    let completed_entry :=
      JObj ([(k_id, JStr (dec_of_N (dd_id d)))]
              ++ (if skip && nonempty errs then [(k_errors, errs_json errs)] else [])) in
    let j := JObj ((if skip then [] else [(k_incremental, JArr (map (item_json d) items))])
                     ++ [(k_completed, JArr [completed_entry])]
                     ++ pending_members live
                     ++ [(k_hasnext, JBool has_next)]) in
    ({| fr_json := j;
        fr_sum := {| f_pending := map dd_id live;
                     f_incr := if skip then [] else map (fun _ => dd_id d) items;
                     f_completed := [dd_id d];
                     f_hasnext := has_next |};
        fr_torn := torn |}, data2, live, outstanding').

  Definition frame_bytes (f : frame) : bytes := marshal (fr_json f).
End Defer.

(* ---- defer_tree.go ---- *)
Inductive dtree := TSingle (g : N) | TSeq (l : list dtree) | TPar (l : list dtree).

Fixpoint top_id (t : dtree) : option N :=
  match t with
  | TSingle g => Some g
  | TSeq [] => None
  | TSeq (c :: _) => top_id c
  | TPar _ => None
  end.

Definition mem_N (x : N) (l : list N) : bool := existsb (N.eqb x) l.

Fixpoint prune (live : list N) (t : dtree) : option dtree :=
  match t with
  | TPar l =>
    match (fix go (l : list dtree) : list dtree :=
             match l with
             | [] => []
             | c :: r => match prune live c with Some c' => c' :: go r | None => go r end
             end) l with
    | [] => None
    | kept => Some (TPar kept)
    end
  | _ => match top_id t with
         | Some id => if mem_N id live then Some t else None
         | None => None
         end
  end.

(* ---- resolveDeferTree as a transition system ---- *)
Inductive task :=
| KSingle (g : N)                                   (* resolveDeferSingle: fetch phase not finished *)
| KFetched (g : N)                                  (* fetch phase finished, waiting for the lock *)
| KSeqP (p : task) (rest : list dtree)              (* Sequence: the parent Single is running *)
| KSeqC (c : task) (rest : list dtree) (live : list N)  (* Sequence: iterating over ChildNodes[1:] *)
| KPar (ts : list task)                             (* Parallel: errgroup *)
| KDone
| KPanic.                                           (* Sequence whose first child is not a Single (nil Item) *)

Fixpoint start (t : dtree) : task :=
  match t with
  | TSingle g => KSingle g
  | TSeq (TSingle g :: rest) => KSeqP (KSingle g) rest
  | TSeq _ => KPanic
  | TPar l => KPar (map start l)
  end.

Fixpoint task_done (k : task) : bool :=
  match k with
  | KDone => true
  | KPar ts => forallb task_done ts
  | _ => false
  end.

(* the for-loop over ChildNodes[1:] of a Sequence: skip pruned children, start the first survivor *)
Fixpoint advance (rest : list dtree) (live : list N) : task :=
  match rest with
  | [] => KDone
  | c :: r => match prune live c with
              | Some c' => KSeqC (start c') r live
              | None => advance r live
              end
  end.

Inductive action := AFetch (g : N) | ARender (g : N).

(* the global, lock-protected part of the state *)
Record gstate := { g_outstanding : Z; g_data : json; g_frames : list frame }.

Section Exec.
  Variable descs : list ddesc.
  Variable root : dnode.

  (* resolveDeferSingle, render phase (under the lock): a missing descriptor reads as the zero one *)
  Definition do_render (g : N) (G : gstate) : gstate * list N :=
    let d := match find_desc descs g with
             | Some d => d
             | None => {| dd_id := 0; dd_parent := 0; dd_label := []; dd_path := [] |}
             end in
    let '(f, data', live, o') := render_batch descs root (g_data G) d (g_outstanding G) in
    ({| g_outstanding := o'; g_data := data'; g_frames := g_frames G ++ [f] |}, map dd_id live).

  (* one step of task k under action a; Some (k', G', finished-with-live) *)
  Fixpoint tstep (a : action) (k : task) (G : gstate) {struct k} : option (task * gstate * option (list N)) :=
    match k with
    | KSingle g => match a with
                   | AFetch g' => if g =? g' then Some (KFetched g, G, None) else None
                   | _ => None
                   end
    | KFetched g => match a with
                    | ARender g' => if g =? g' then let '(G', live) := do_render g G in Some (KDone, G', Some live) else None
                    | _ => None
                    end
    | KSeqP p rest =>
      match tstep a p G with
      | Some (p', G', Some live) => let k' := advance rest live in Some (k', G', (if task_done k' then Some [] else None))
      | Some (p', G', None) => Some (KSeqP p' rest, G', None)
      | None => None
      end
    | KSeqC c rest live =>
      match tstep a c G with
      | Some (c', G', fin) =>
        if task_done c' then let k' := advance rest live in Some (k', G', (if task_done k' then Some [] else None))
        else Some (KSeqC c' rest live, G', None)
      | None => None
      end
    | KPar ts =>
      match (fix go (ts : list task) : option (list task * gstate) :=
               match ts with
               | [] => None
               | t :: r =>
                 match tstep a t G with
                 | Some (t', G', _) => Some (t' :: r, G')
                 | None => match go r with Some (r', G') => Some (t :: r', G') | None => None end
                 end
               end) ts with
      | Some (ts', G') => Some (KPar ts', G', (if forallb task_done ts' then Some [] else None))
      | None => None
      end
    | KDone | KPanic => None
    end.

  Fixpoint run (tr : list action) (k : task) (G : gstate) : option (task * gstate) :=
    match tr with
    | [] => Some (k, G)
    | a :: r => match tstep a k G with
                | Some (k', G', _) => run r k' G'
                | None => None
                end
    end.

  (* ResolveGraphQLDeferResponse after the primary fetches: the initial frame, then the tree *)
  Definition init_state (tree : option dtree) (data : json) : task * gstate :=
    let '(f, data', live) := render_initial descs root data in
    let G := {| g_outstanding := Z.of_nat (length live); g_data := data'; g_frames := [f] |} in
    match tree with
    | None => (KDone, G)
    | Some t => match prune (map dd_id live) t with
                | Some t' => (start t', G)
                | None => (KDone, G)
                end
    end.

  (* a complete execution: the frames of a trace that runs the tree to the end *)
  Definition exec (tree : option dtree) (data : json) (tr : list action) : option (list frame) :=
    let '(k, G) := init_state tree data in
    match run tr k G with
    | Some (k', G') => if task_done k' then Some (g_frames G') else None
    | None => None
    end.
End Exec.
