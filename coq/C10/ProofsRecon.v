(* C10: reconstruction.  Merging the items of one defer into the response delivered so far gives
   the response with that layer added, up to the order of object members. *)
From Coq Require Import ZArith Lia ZifyN ZifyNat ZifyBool Permutation.
From Gv Require Import lib.Bytes lib.Json C02.Model C02.Spec C10.Model C10.Spec C10.ProofsBasic.
Open Scope N_scope.

Local Arguments typename_of : simpl never.
Local Arguments skip_field : simpl never.
Local Arguments classify : simpl never.
Local Arguments is_ancestor : simpl never.

(* ---- byte strings ---- *)
Lemma beqb_eq : forall a b, bytes_eqb a b = true <-> a = b.
Proof.
  induction a as [| x a IH]; destruct b as [| y b]; simpl; split; intros H; try discriminate; auto.
  - apply andb_true_iff in H. destruct H as [H1 H2]. apply N.eqb_eq in H1. apply IH in H2. subst. reflexivity.
  - inversion H; subst. rewrite N.eqb_refl. simpl. apply IH. reflexivity.
Qed.
Lemma beqb_refl : forall a, bytes_eqb a a = true.
Proof. intros. apply beqb_eq. reflexivity. Qed.
Lemma beqb_neq : forall a b, bytes_eqb a b = false <-> a <> b.
Proof.
  intros. destruct (bytes_eqb a b) eqn:E.
  - apply beqb_eq in E. split; [discriminate | congruence].
  - split; auto. intros _ H. apply beqb_eq in H. congruence.
Qed.
Lemma mem_bytes_In : forall x l, mem_bytes x l = true <-> In x l.
Proof.
  induction l as [| y l IH]; simpl; [split; [discriminate | contradiction] |].
  rewrite orb_true_iff, beqb_eq, IH. split; intros [H | H]; auto.
Qed.

(* ---- induction on plans ---- *)
Definition fvalue (f : dfield) : dnode := match f with DFld _ _ _ _ v => v end.
Definition fname (f : dfield) : bytes := match f with DFld nm _ _ _ _ => nm end.
Definition fmark (f : dfield) : option N := match f with DFld _ _ _ df _ => df end.

Section DnodeInd.
  Variable P : dnode -> Prop.
  Hypothesis Hl : forall l, P (DLeaf l).
  Hypothesis Ha : forall p nl item, P item -> P (DArr p nl item).
  Hypothesis Ho : forall p nl ty poss fields, Forall (fun f => P (fvalue f)) fields -> P (DObj p nl ty poss fields).
  Fixpoint dnode_ind' (n : dnode) : P n :=
    match n with
    | DLeaf l => Hl l
    | DArr p nl item => Ha p nl item (dnode_ind' item)
    | DObj p nl ty poss fields =>
      Ho p nl ty poss fields
         ((fix go (fs : list dfield) : Forall (fun f => P (fvalue f)) fs :=
             match fs with
             | [] => Forall_nil _
             | f :: r => Forall_cons f (match f return P (fvalue f) with DFld _ _ _ _ v => dnode_ind' v end) (go r)
             end) fields)
    end.
End DnodeInd.

(* ---- JSON trees up to the order of object members ---- *)
Inductive jeq : json -> json -> Prop :=
| jeq_null : jeq JNull JNull
| jeq_bool : forall b, jeq (JBool b) (JBool b)
| jeq_num : forall r, jeq (JNum r) (JNum r)
| jeq_str : forall s, jeq (JStr s) (JStr s)
| jeq_arr : forall l1 l2, Forall2 jeq l1 l2 -> jeq (JArr l1) (JArr l2)
| jeq_obj : forall m1 m2 m2', Permutation m2 m2' ->
    Forall2 (fun a b => fst a = fst b /\ jeq (snd a) (snd b)) m1 m2' -> jeq (JObj m1) (JObj m2).

Lemma jeq_refl : forall j, jeq j j.
Proof.
  induction j using json_ind'; try constructor.
  - induction H; constructor; auto.
  - apply jeq_obj with (m2' := m); [apply Permutation_refl |].
    induction H; constructor; auto.
Qed.

(* ---- object members as a list of selected fields with a value function ---- *)
Definition members (sel : dfield -> bool) (val : dfield -> json) (fs : list dfield) : list (bytes * json) :=
  map (fun f => (fname f, val f)) (filter sel fs).

Lemma obj_get_members_none : forall sel val fs k,
  ~ In k (map fname fs) -> obj_get k (members sel val fs) = None.
Proof.
  intros sel val. induction fs as [| f r IH]; intros k Hk; simpl; auto.
  unfold members in *. simpl. destruct (sel f); simpl.
  - destruct (bytes_eqb k (fname f)) eqn:He.
    + exfalso. apply Hk. left. symmetry. apply beqb_eq. exact He.
    + apply IH. intros Hin. apply Hk. right. exact Hin.
  - apply IH. intros Hin. apply Hk. right. exact Hin.
Qed.

Lemma obj_get_members : forall sel val fs f,
  NoDup (map fname fs) -> In f fs -> sel f = true ->
  obj_get (fname f) (members sel val fs) = Some (val f).
Proof.
  intros sel val. induction fs as [| g r IH]; intros f Hnd Hin Hs; [contradiction |].
  inversion Hnd as [| ? ? Hn Hr]; subst. unfold members in *. simpl.
  destruct Hin as [-> | Hin].
  - rewrite Hs. simpl. rewrite beqb_refl. reflexivity.
  - destruct (sel g); simpl.
    + destruct (bytes_eqb (fname f) (fname g)) eqn:He.
      * exfalso. apply beqb_eq in He. apply Hn. rewrite <- He. apply in_map. exact Hin.
      * apply IH; auto.
    + apply IH; auto.
Qed.

Definition upd (val : dfield -> json) (f : dfield) (v : json) (g : dfield) : json :=
  if bytes_eqb (fname g) (fname f) then v else val g.

Lemma members_ext : forall sel val val' fs,
  (forall g, In g fs -> val g = val' g) -> members sel val fs = members sel val' fs.
Proof.
  intros sel val val'. induction fs as [| g r IH]; intros H; auto.
  unfold members in *. simpl. destruct (sel g); simpl.
  - rewrite (H g (or_introl eq_refl)). f_equal. apply IH. intros; apply H; right; assumption.
  - apply IH. intros; apply H; right; assumption.
Qed.

Lemma obj_set_members : forall sel val fs f v,
  NoDup (map fname fs) -> In f fs -> sel f = true ->
  obj_set (fname f) v (members sel val fs) = members sel (upd val f v) fs.
Proof.
  intros sel val. induction fs as [| g r IH]; intros f v Hnd Hin Hs; [contradiction |].
  inversion Hnd as [| ? ? Hn Hr]; subst. unfold members in *. simpl.
  destruct Hin as [-> | Hin].
  - rewrite Hs. simpl. rewrite beqb_refl. unfold upd at 1. rewrite beqb_refl. f_equal.
    fold (members sel val r). fold (members sel (upd val f v) r).
    apply members_ext. intros g Hg. unfold upd.
    destruct (bytes_eqb (fname g) (fname f)) eqn:He; auto.
    exfalso. apply beqb_eq in He. apply Hn. rewrite <- He. apply in_map. exact Hg.
  - destruct (sel g) eqn:Hsg; simpl.
    + destruct (bytes_eqb (fname f) (fname g)) eqn:He.
      * exfalso. apply beqb_eq in He. apply Hn. rewrite <- He. apply in_map. exact Hin.
      * unfold upd at 1. assert (Hgf : bytes_eqb (fname g) (fname f) = false).
        { apply beqb_neq. apply beqb_neq in He. congruence. }
        rewrite Hgf. f_equal. apply IH; auto.
    + apply IH; auto.
Qed.

Lemma obj_get_app_l : forall k a b v, obj_get k a = Some v -> obj_get k (a ++ b) = Some v.
Proof.
  induction a as [| [k' v'] a IH]; simpl; intros b v H; [discriminate |].
  destruct (bytes_eqb k k'); auto.
Qed.
Lemma obj_set_app_l : forall k a b v w, obj_get k a = Some w -> obj_set k v (a ++ b) = obj_set k v a ++ b.
Proof.
  induction a as [| [k' v'] a IH]; simpl; intros b v w H; [discriminate |].
  destruct (bytes_eqb k k'); auto. simpl. f_equal. eapply IH. exact H.
Qed.
Lemma obj_get_set_same' : forall k v m, obj_get k (obj_set k v m) = Some v.
Proof.
  induction m as [| [k' v'] m IH]; simpl.
  - rewrite beqb_refl. reflexivity.
  - destruct (bytes_eqb k k') eqn:E; simpl; rewrite E; auto.
Qed.
Lemma obj_set_set : forall k v w m, obj_set k v (obj_set k w m) = obj_set k v m.
Proof.
  induction m as [| [k' v'] m IH]; simpl.
  - rewrite beqb_refl. reflexivity.
  - destruct (bytes_eqb k k') eqn:E; simpl; rewrite E; auto. f_equal. exact IH.
Qed.
Lemma obj_set_same_val : forall k v m, obj_get k m = Some v -> obj_set k v m = m.
Proof.
  induction m as [| [k' v'] m IH]; simpl; intros H; [discriminate |].
  destruct (bytes_eqb k k') eqn:E.
  - inversion H; subst. reflexivity.
  - f_equal. apply IH. exact H.
Qed.

(* ---- merging relative items ---- *)
Definition ritem := (rpath * list (bytes * json))%type.
Definition apply_rel (its : list ritem) (t : option json) : option json :=
  fold_left (fun acc x => match acc with Some t => merge_at (fst x) (snd x) t | None => None end) its t.
Definition prefix_items (pre : rpath) (its : list ritem) : list ritem :=
  map (fun x => (pre ++ fst x, snd x)) its.

Lemma apply_rel_none : forall its, apply_rel its None = None.
Proof. induction its; simpl; auto. Qed.
Lemma apply_rel_app : forall a b t, apply_rel (a ++ b) t = apply_rel b (apply_rel a t).
Proof. intros. unfold apply_rel. apply fold_left_app. Qed.

Lemma apply_rel_obj_prefix : forall k its m v v',
  obj_get k m = Some v -> apply_rel its (Some v) = Some v' ->
  apply_rel (prefix_items [PName k] its) (Some (JObj m)) = Some (JObj (obj_set k v' m)).
Proof.
  intros k. induction its as [| [r ms] its IH]; intros m v v' Hg Ha; simpl in *.
  - inversion Ha; subst. rewrite (obj_set_same_val _ _ _ Hg). reflexivity.
  - rewrite Hg. destruct (merge_at r ms v) as [v1 |] eqn:Hm.
    + change (fold_left _ (prefix_items [PName k] its) (Some (JObj (obj_set k v1 m))))
        with (apply_rel (prefix_items [PName k] its) (Some (JObj (obj_set k v1 m)))).
      rewrite (IH (obj_set k v1 m) v1 v' (obj_get_set_same' _ _ _) Ha).
      rewrite obj_set_set. reflexivity.
    + change (fold_left _ its None) with (apply_rel its None) in Ha. rewrite apply_rel_none in Ha. discriminate.
Qed.

Lemma nth_error_set_nth_same : forall (l : list json) i v w, nth_error l i = Some w -> nth_error (set_nth i v l) i = Some v.
Proof. induction l as [| x l IH]; destruct i; simpl; intros; try discriminate; auto. eapply IH; eauto. Qed.
Lemma set_nth_set_nth : forall (l : list json) i v w, set_nth i v (set_nth i w l) = set_nth i v l.
Proof. induction l as [| x l IH]; destruct i; simpl; intros; auto. f_equal. apply IH. Qed.
Lemma set_nth_same_val : forall (l : list json) i v, nth_error l i = Some v -> set_nth i v l = l.
Proof. induction l as [| x l IH]; destruct i; simpl; intros v H; try discriminate; auto. - inversion H; subst; reflexivity. - f_equal. apply IH. exact H. Qed.

Lemma apply_rel_arr_prefix : forall i its l v v',
  nth_error l (N.to_nat i) = Some v -> apply_rel its (Some v) = Some v' ->
  apply_rel (prefix_items [PIdx i] its) (Some (JArr l)) = Some (JArr (set_nth (N.to_nat i) v' l)).
Proof.
  intros i. induction its as [| [r ms] its IH]; intros l v v' Hg Ha; simpl in *.
  - inversion Ha; subst. rewrite (set_nth_same_val _ _ _ Hg). reflexivity.
  - rewrite Hg. destruct (merge_at r ms v) as [v1 |] eqn:Hm.
    + change (fold_left _ (prefix_items [PIdx i] its) (Some (JArr (set_nth (N.to_nat i) v1 l))))
        with (apply_rel (prefix_items [PIdx i] its) (Some (JArr (set_nth (N.to_nat i) v1 l)))).
      rewrite (IH (set_nth (N.to_nat i) v1 l) v1 v' (nth_error_set_nth_same _ _ _ _ Hg) Ha).
      rewrite set_nth_set_nth. reflexivity.
    + change (fold_left _ its None) with (apply_rel its None) in Ha. rewrite apply_rel_none in Ha. discriminate.
Qed.

(* ---- equations for proj and r_items ---- *)
Definition fskip (tns' : list (option bytes)) (f : dfield) : bool :=
  match f with DFld _ on pon _ _ => skip_field on pon tns' end.
Definition sel_keep (keep : option N -> bool) (tns' : list (option bytes)) (f : dfield) : bool :=
  negb (fskip tns' f) && keep (fmark f).

Lemma proj_obj : forall keep p nl ty poss fields parent tns m,
  get_path p parent = Some (JObj m) ->
  proj keep (DObj p nl ty poss fields) parent tns =
  JObj (members (sel_keep keep (typename_of (JObj m) :: tns))
                (fun f => proj keep (fvalue f) (JObj m) (typename_of (JObj m) :: tns)) fields).
Proof.
  intros keep p nl ty poss fields parent tns m H. simpl. rewrite H. f_equal.
  induction fields as [| [nm on pon df v] r IH]; [reflexivity |].
  unfold members, sel_keep in *. simpl.
  destruct (skip_field on pon (typename_of (JObj m) :: tns)); simpl; [exact IH |].
  destruct (keep df); simpl; [f_equal; exact IH | exact IH].
Qed.

Lemma proj_obj_null : forall keep p nl ty poss fields parent tns,
  (forall m, get_path p parent <> Some (JObj m)) ->
  proj keep (DObj p nl ty poss fields) parent tns = JNull.
Proof.
  intros. simpl. destruct (get_path p parent) as [[| | | | |m] |]; auto. exfalso. eapply H. reflexivity.
Qed.

Definition node_names (n : dnode) : rpath :=
  map PName (match n with DObj cp _ _ _ _ | DArr cp _ _ => cp | DLeaf _ => [] end).

Lemma NoDup_app_split_r : forall (A : Type) (a b : list A), NoDup (a ++ b) -> NoDup b.
Proof. induction a as [| x a IH]; simpl; intros b H; auto. inversion H; subst. apply IH. assumption. Qed.

Section Recon.
  Variable descs : list ddesc.
  Variable d : ddesc.
  Notation did := (dd_id d).

  Definition sel_seek (tns' : list (option bytes)) (f : dfield) : bool :=
    negb (fskip tns' f) && fclass_eqb (classify descs (Some d) (fmark f) (fvalue f)) FSeek.

  Lemma r_items_obj : forall p nl ty poss fields parent tns m,
    get_path p parent = Some (JObj m) ->
    let value := JObj m in
    let tns' := typename_of value :: tns in
    r_items descs d (DObj p nl ty poss fields) parent tns =
    (match members (sel_keep (keep_layer (Some did)) tns') (fun f => proj (keep_layer (Some did)) (fvalue f) value tns') fields with
     | [] => []
     | ms => [([], ms)]
     end)
    ++ flat_map (fun f => if sel_seek tns' f
                          then prefix_items (node_names (fvalue f)) (r_items descs d (fvalue f) value tns')
                          else []) fields.
  Proof.
    intros p nl ty poss fields parent tns m H value tns'. simpl. rewrite H. fold value. fold tns'.
    f_equal.
    - assert (He : (fix go (fs : list dfield) : list (bytes * json) :=
                      match fs with
                      | [] => []
                      | DFld name on pon df child :: r =>
                        if skip_field on pon tns' then go r
                        else if keep_layer (Some did) df
                             then (name, proj (keep_layer (Some did)) child value tns') :: go r else go r
                      end) fields =
                   members (sel_keep (keep_layer (Some did)) tns') (fun f => proj (keep_layer (Some did)) (fvalue f) value tns') fields).
      { induction fields as [| [nm on pon df v] r IH]; [reflexivity |].
        unfold members, sel_keep in *. simpl.
        destruct (skip_field on pon tns'); simpl; [exact IH |].
        destruct (keep_layer (Some did) df); simpl; [f_equal; exact IH | exact IH]. }
      rewrite He. destruct (members (sel_keep (keep_layer (Some did)) tns') (fun f => proj (keep_layer (Some did)) (fvalue f) value tns') fields); reflexivity.
    - induction fields as [| [nm on pon df v] r IH]; [reflexivity |].
      unfold sel_seek. simpl.
      destruct (skip_field on pon tns'); simpl; [exact IH |].
      destruct (fclass_eqb (classify descs (Some d) df v) FSeek); simpl; [| exact IH].
      rewrite IH. reflexivity.
  Qed.

  Fixpoint arr_items (item : dnode) (tns : list (option bytes)) (items : list json) (i : N) : list ritem :=
    match items with
    | [] => []
    | it :: rest => prefix_items [PIdx i] (r_items descs d item it tns) ++ arr_items item tns rest (i + 1)
    end.
  Lemma r_items_arr : forall p nl item parent tns items,
    get_path p parent = Some (JArr items) ->
    r_items descs d (DArr p nl item) parent tns = arr_items item tns items 0.
  Proof.
    intros p nl item parent tns items H. simpl. rewrite H. clear H.
    generalize 0. induction items as [| it rest IH]; intros i; [reflexivity |].
    simpl. f_equal. apply IH.
  Qed.

  (* ---- fields that do not carry the mark of d anywhere below ---- *)
  Fixpoint no_mark (n : dnode) : bool :=
    match n with
    | DLeaf _ => true
    | DArr _ _ item => no_mark item
    | DObj _ _ _ _ fields =>
      (fix go (fs : list dfield) : bool :=
         match fs with
         | [] => true
         | DFld _ _ _ df v :: r => negb (opt_N_eqb df (Some did)) && no_mark v && go r
         end) fields
    end.

  Lemma no_mark_obj : forall p nl ty poss fields,
    no_mark (DObj p nl ty poss fields) = true ->
    Forall (fun f => opt_N_eqb (fmark f) (Some did) = false /\ no_mark (fvalue f) = true) fields.
  Proof.
    intros p nl ty poss fields. simpl. induction fields as [| [nm on pon df v] r IH]; intros H; constructor.
    - apply andb_true_iff in H. destruct H as [H _]. apply andb_true_iff in H. destruct H as [H1 H2].
      simpl. split; [apply negb_true_iff; exact H1 | exact H2].
    - apply IH. apply andb_true_iff in H. tauto.
  Qed.

  Definition keepX (X : list N) (df : option N) : bool :=
    match df with None => true | Some c => mem_N c X end.

  Lemma keepX_cons_other : forall X df, opt_N_eqb df (Some did) = false -> keepX (did :: X) df = keepX X df.
  Proof.
    intros X [c |] H; simpl; auto. unfold mem_N. simpl. simpl in H.
    rewrite H. reflexivity.
  Qed.

  Lemma no_mark_clean : forall X n parent tns,
    no_mark n = true ->
    r_items descs d n parent tns = [] /\ proj (keepX (did :: X)) n parent tns = proj (keepX X) n parent tns.
  Proof.
    intros X. induction n using dnode_ind'; intros parent tns Hn.
    - split; reflexivity.
    - simpl in Hn. destruct (get_path p parent) as [[| | | |items |] |] eqn:Hg;
        try (split; simpl; rewrite Hg; reflexivity).
      split.
      + rewrite (r_items_arr _ _ _ _ _ _ Hg). clear Hg. generalize 0.
        induction items as [| it rest IH]; intros i; [reflexivity |].
        simpl. rewrite (proj1 (IHn it tns Hn)). simpl. apply IH.
      + simpl. rewrite Hg. f_equal. apply map_ext. intros it. apply (IHn it tns Hn).
    - pose proof (no_mark_obj _ _ _ _ _ Hn) as Hf. clear Hn.
      destruct (get_path p parent) as [[| | | | |m] |] eqn:Hg;
        try (split; simpl; rewrite Hg; reflexivity).
      split.
      + rewrite (r_items_obj _ _ _ _ _ _ _ _ Hg).
        assert (H1 : members (sel_keep (keep_layer (Some did)) (typename_of (JObj m) :: tns))
                       (fun f => proj (keep_layer (Some did)) (fvalue f) (JObj m) (typename_of (JObj m) :: tns)) fields = []).
        { clear - Hf. induction fields as [| f r IH]; [reflexivity |].
          unfold members, sel_keep in *. simpl.
          destruct (Forall_inv Hf) as [Hm _]. unfold keep_layer. rewrite Hm, andb_false_r. apply IH. apply (Forall_inv_tail Hf). }
        rewrite H1. simpl.
        clear - H Hf. induction fields as [| f r IH]; [reflexivity |].
        simpl. destruct (Forall_inv Hf) as [_ Hc].
        rewrite (proj1 (Forall_inv H (JObj m) (typename_of (JObj m) :: tns) Hc)).
        unfold prefix_items. simpl.
        destruct (sel_seek (typename_of (JObj m) :: tns) f); simpl;
          (apply IH; [apply (Forall_inv_tail H) | apply (Forall_inv_tail Hf)]).
      + rewrite !(proj_obj _ _ _ _ _ _ _ _ _ Hg). f_equal.
        clear - H Hf. induction fields as [| f r IH]; [reflexivity |].
        unfold members, sel_keep in *. simpl.
        destruct (Forall_inv Hf) as [Hm Hc].
        rewrite (keepX_cons_other X (fmark f) Hm).
        destruct (negb (fskip (typename_of (JObj m) :: tns) f) && keepX X (fmark f)); simpl.
        * rewrite (proj2 (Forall_inv H (JObj m) (typename_of (JObj m) :: tns) Hc)). f_equal.
          apply IH; [apply (Forall_inv_tail H) | apply (Forall_inv_tail Hf)].
        * apply IH; [apply (Forall_inv_tail H) | apply (Forall_inv_tail Hf)].
  Qed.

  (* ---- scope: equations and the three regimes ---- *)
  Lemma opt_N_eqb_eq : forall a b, opt_N_eqb a b = true <-> a = b.
  Proof.
    intros [x |] [y |]; simpl; split; intros H; try discriminate; auto.
    - apply N.eqb_eq in H. subst. reflexivity.
    - inversion H; subst. apply N.eqb_refl.
  Qed.

  Definition field_scope (stack : list N) (f : dfield) : bool :=
    scope_field_ok descs stack (fmark f) && scope_ok descs (push_mark (fmark f) stack) (fvalue f).

  Lemma scope_ok_obj : forall stack p nl ty poss fields,
    scope_ok descs stack (DObj p nl ty poss fields) = forallb (field_scope stack) fields.
  Proof.
    intros. simpl. induction fields as [| [nm on pon df v] r IH]; [reflexivity |].
    simpl. unfold field_scope at 1. simpl. rewrite IH. reflexivity.
  Qed.

  Lemma no_mark_obj_eq : forall p nl ty poss fields,
    no_mark (DObj p nl ty poss fields) =
    forallb (fun f => negb (opt_N_eqb (fmark f) (Some did)) && no_mark (fvalue f)) fields.
  Proof.
    intros. simpl. induction fields as [| [nm on pon df v] r IH]; [reflexivity |].
    simpl. rewrite IH. reflexivity.
  Qed.

  Hypothesis Hfind : parent_of descs did = dd_parent d.

  (* some enclosing field carries a mark that is neither d nor an ancestor of d *)
  Definition other_ctx (stack : list N) : Prop :=
    exists e, In e stack /\ e <> did /\ is_ancestor descs e (dd_parent d) = false.

  Lemma scope_no_mark : forall n stack,
    scope_ok descs stack n = true -> other_ctx stack -> no_mark n = true.
  Proof.
    induction n using dnode_ind'; intros stack Hs Ho.
    - reflexivity.
    - simpl in *. eapply IHn; eauto.
    - rewrite scope_ok_obj in Hs. rewrite no_mark_obj_eq.
      rewrite forallb_forall in *. intros f Hf.
      specialize (Hs f Hf). unfold field_scope in Hs. apply andb_true_iff in Hs. destruct Hs as [Hs1 Hs2].
      destruct Ho as [e [He1 [He2 He3]]].
      assert (Hm : fmark f <> Some did).
      { intros Hm. rewrite Hm in Hs1. simpl in Hs1. apply andb_true_iff in Hs1. destruct Hs1 as [_ Hs1].
        rewrite forallb_forall in Hs1. specialize (Hs1 e He1).
        rewrite Hfind, He3, orb_false_r in Hs1. apply N.eqb_eq in Hs1. congruence. }
      apply andb_true_iff. split.
      + apply negb_true_iff. destruct (opt_N_eqb (fmark f) (Some did)) eqn:E; auto.
        apply opt_N_eqb_eq in E. contradiction.
      + rewrite Forall_forall in H. eapply (H f Hf); [exact Hs2 |].
        exists e. split; [| auto]. destruct (fmark f); simpl; auto.
  Qed.

  Lemma no_seek_no_mark : forall v, allows_seek v = false -> no_mark v = true.
  Proof.
    induction v using dnode_ind'; simpl; intros Ha; auto. discriminate.
  Qed.

  Lemma members_cong : forall sel sel' val val' fs,
    (forall f, In f fs -> sel f = sel' f /\ (sel f = true -> val f = val' f)) ->
    members sel val fs = members sel' val' fs.
  Proof.
    intros sel sel' val val'. induction fs as [| f r IH]; intros H; [reflexivity |].
    unfold members in *. simpl.
    destruct (H f (or_introl eq_refl)) as [H1 H2]. rewrite <- H1.
    destruct (sel f) eqn:E; simpl.
    - rewrite (H2 eq_refl). f_equal. apply IH. intros g Hg. apply H. right. exact Hg.
    - apply IH. intros g Hg. apply H. right. exact Hg.
  Qed.

  Variable X : list N.
  Hypothesis HX1 : ~ In did X.
  Hypothesis HX2 : forall c, is_ancestor descs c (dd_parent d) = true -> In c X.
  Hypothesis HX3 : forall c, In c X -> is_ancestor descs did (parent_of descs c) = false.

  Lemma keep_inside : forall c, (c = did \/ is_ancestor descs did (parent_of descs c) = true) ->
    keepX (did :: X) (Some c) = keep_layer (Some did) (Some c).
  Proof.
    intros c Hc. simpl. unfold mem_N. simpl. unfold keep_layer. simpl.
    destruct (c =? did) eqn:E; [reflexivity |]. simpl.
    destruct Hc as [-> | Ha]; [rewrite N.eqb_refl in E; discriminate |].
    fold (mem_N c X). apply mem_N_false. intros Hin. rewrite (HX3 c Hin) in Ha. discriminate.
  Qed.

  Lemma scope_inside : forall n stack parent tns,
    scope_ok descs stack n = true -> In did stack ->
    proj (keepX (did :: X)) n parent tns = proj (keep_layer (Some did)) n parent tns.
  Proof.
    induction n using dnode_ind'; intros stack parent tns Hs Hin.
    - reflexivity.
    - simpl in *. destruct (get_path p parent) as [[| | | |items |] |]; auto.
      f_equal. apply map_ext. intros it. eapply IHn; eauto.
    - destruct (get_path p parent) as [[| | | | |m] |] eqn:Hg;
        try (simpl; rewrite Hg; reflexivity).
      rewrite !(proj_obj _ _ _ _ _ _ _ _ _ Hg). f_equal.
      rewrite scope_ok_obj in Hs. rewrite forallb_forall in Hs. rewrite Forall_forall in H.
      apply members_cong. intros f Hf.
      specialize (Hs f Hf). unfold field_scope in Hs. apply andb_true_iff in Hs. destruct Hs as [Hs1 Hs2].
      assert (Hm : exists c0, fmark f = Some c0 /\ (c0 = did \/ is_ancestor descs did (parent_of descs c0) = true)).
      { destruct (fmark f) as [c0 |] eqn:Em.
        - exists c0. split; [reflexivity |]. simpl in Hs1. apply andb_true_iff in Hs1. destruct Hs1 as [_ Hs1].
          rewrite forallb_forall in Hs1. specialize (Hs1 did Hin). apply orb_true_iff in Hs1.
          destruct Hs1 as [He | Ha]; [left; apply N.eqb_eq; exact He | right; exact Ha].
        - simpl in Hs1. destruct stack; [contradiction | discriminate]. }
      destruct Hm as [c0 [Hm1 Hm2]].
      unfold sel_keep. rewrite Hm1. rewrite (keep_inside c0 Hm2). split; [reflexivity |].
      intros _. eapply (H f Hf); [exact Hs2 |].
      rewrite Hm1. simpl. right. exact Hin.
  Qed.

  (* ---- lists of members ---- *)
  Lemma Forall2_members : forall (R : json -> json -> Prop) sel val val' fs,
    (forall f, In f fs -> sel f = true -> R (val f) (val' f)) ->
    Forall2 (fun a b => fst a = fst b /\ R (snd a) (snd b)) (members sel val fs) (members sel val' fs).
  Proof.
    intros R sel val val'. induction fs as [| f r IH]; intros H; [constructor |].
    unfold members in *. simpl. destruct (sel f) eqn:E; simpl.
    - constructor; [split; [reflexivity | apply H; [left; reflexivity | exact E]] |].
      apply IH. intros g Hg. apply H. right. exact Hg.
    - apply IH. intros g Hg. apply H. right. exact Hg.
  Qed.

  Lemma members_split_perm : forall selA selB selAB val fs,
    (forall f, In f fs -> selAB f = selA f || selB f) ->
    (forall f, In f fs -> selA f && selB f = false) ->
    Permutation (members selAB val fs) (members selA val fs ++ members selB val fs).
  Proof.
    intros selA selB selAB val. induction fs as [| f r IH]; intros H1 H2; [constructor |].
    assert (IH' : Permutation (members selAB val r) (members selA val r ++ members selB val r)).
    { apply IH; intros g Hg; [apply H1 | apply H2]; right; exact Hg. }
    unfold members in *. simpl.
    rewrite (H1 f (or_introl eq_refl)). pose proof (H2 f (or_introl eq_refl)) as Hx.
    destruct (selA f), (selB f); simpl in *; try discriminate.
    - constructor. exact IH'.
    - apply Permutation_cons_app. exact IH'.
    - exact IH'.
  Qed.

  (* ---- the lists of a list node ---- *)
  Lemma set_nth_app : forall (done : list json) x rest v,
    set_nth (length done) v (done ++ x :: rest) = done ++ v :: rest.
  Proof. induction done as [| y done IH]; simpl; intros; auto. f_equal. apply IH. Qed.

  Lemma arr_merge : forall (item : dnode) (tns : list (option bytes)) (fX fXd : json -> json),
    (forall it, exists v, apply_rel (r_items descs d item it tns) (Some (fX it)) = Some v /\ jeq v (fXd it)) ->
    forall items done i, N.to_nat i = length done ->
      exists vs, apply_rel (arr_items item tns items i) (Some (JArr (done ++ map fX items))) = Some (JArr (done ++ vs)) /\
                 Forall2 jeq vs (map fXd items).
  Proof.
    intros item tns fX fXd Hit. induction items as [| it rest IH]; intros done i Hi.
    - exists []. simpl. split; [reflexivity | constructor].
    - destruct (Hit it) as [v [Hv1 Hv2]].
      simpl. rewrite apply_rel_app.
      assert (Hn : nth_error (done ++ fX it :: map fX rest) (N.to_nat i) = Some (fX it)).
      { rewrite Hi. rewrite nth_error_app2 by lia. rewrite Nat.sub_diag. reflexivity. }
      rewrite (apply_rel_arr_prefix i _ _ _ _ Hn Hv1).
      rewrite Hi, set_nth_app.
      destruct (IH (done ++ [v]) (i + 1)) as [vs [Hvs1 Hvs2]].
      { rewrite app_length. simpl. lia. }
      rewrite <- app_assoc in Hvs1. simpl in Hvs1.
      exists (v :: vs). split.
      + rewrite Hvs1. rewrite <- app_assoc. reflexivity.
      + constructor; assumption.
  Qed.

  (* ---- the pass-through fields of one object, merged one after the other ---- *)
  Lemma NoDup_map_inj : forall (fs : list dfield) f g,
    NoDup (map fname fs) -> In f fs -> In g fs -> fname f = fname g -> f = g.
  Proof.
    induction fs as [| x r IH]; intros f g Hn Hf Hg He; [contradiction |].
    simpl in Hn. inversion Hn as [| ? ? Hx Hr]; subst.
    destruct Hf as [-> | Hf]; destruct Hg as [-> | Hg]; auto.
    - exfalso. apply Hx. rewrite He. apply in_map. exact Hg.
    - exfalso. apply Hx. rewrite <- He. apply in_map. exact Hf.
  Qed.

  Definition seek_group (value : json) (tns' : list (option bytes)) (f : dfield) : list ritem :=
    if sel_seek tns' f then prefix_items (node_names (fvalue f)) (r_items descs d (fvalue f) value tns') else [].

  Lemma fields_fold : forall (value : json) (tns' : list (option bytes)) (fields : list dfield)
      (tail : list (bytes * json)) (selX : dfield -> bool) (valX valXd : dfield -> json),
    NoDup (map fname fields) ->
    (forall f, In f fields -> sel_seek tns' f = true ->
       selX f = true /\ node_names (fvalue f) = [PName (fname f)] /\
       exists v, apply_rel (r_items descs d (fvalue f) value tns') (Some (valX f)) = Some v /\ jeq v (valXd f)) ->
    forall fs pre val, fields = pre ++ fs -> (forall g, In g fs -> val g = valX g) ->
      exists val',
        apply_rel (flat_map (seek_group value tns') fs) (Some (JObj (members selX val fields ++ tail)))
        = Some (JObj (members selX val' fields ++ tail)) /\
        (forall g, In g fields ->
           (sel_seek tns' g = true -> In g fs -> jeq (val' g) (valXd g)) /\
           ((sel_seek tns' g = false \/ ~ In g fs) -> val' g = val g)).
  Proof.
    intros value tns' fields tail selX valX valXd Hnd Hseek.
    induction fs as [| f r IH]; intros pre val Hfs Hval.
    - exists val. split; [reflexivity |]. intros g Hg. split; [intros _ [] | auto].
    - assert (Hf : In f fields). { rewrite Hfs. apply in_or_app. right. left. reflexivity. }
      assert (Hfr : ~ In f r).
      { intros Hin. rewrite Hfs in Hnd. rewrite map_app in Hnd. apply NoDup_app_split_r in Hnd.
        simpl in Hnd. inversion Hnd as [| ? ? Hx _]; subst. apply Hx. apply in_map. exact Hin. }
      assert (Hname : forall g, In g fields -> fname g = fname f -> g = f).
      { intros g Hg He. eapply NoDup_map_inj; eauto. }
      simpl. unfold seek_group at 1. destruct (sel_seek tns' f) eqn:Es.
      + destruct (Hseek f Hf Es) as [HsX [Hnn [v [Hv1 Hv2]]]].
        rewrite apply_rel_app. rewrite Hnn.
        assert (Hget : obj_get (fname f) (members selX val fields ++ tail) = Some (val f)).
        { apply obj_get_app_l. apply obj_get_members; auto. }
        rewrite <- (Hval f (or_introl eq_refl)) in Hv1.
        rewrite (apply_rel_obj_prefix _ _ _ _ _ Hget Hv1).
        rewrite (obj_set_app_l _ _ _ _ (val f)) by (apply obj_get_members; auto).
        rewrite (obj_set_members _ _ _ _ _ Hnd Hf HsX).
        destruct (IH (pre ++ [f]) (upd val f v)) as [val' [R1 R2]].
        * rewrite <- app_assoc. exact Hfs.
        * intros g Hg. unfold upd. destruct (bytes_eqb (fname g) (fname f)) eqn:E.
          -- exfalso. apply beqb_eq in E. apply Hfr. rewrite <- (Hname g); auto.
             rewrite Hfs. apply in_or_app. right. right. exact Hg.
          -- apply Hval. right. exact Hg.
        * exists val'. split; [exact R1 |].
          intros g Hg. destruct (R2 g Hg) as [A1 A2]. split.
          -- intros Hsg [<- | Hin]; [| apply A1; assumption].
             rewrite (A2 (or_intror Hfr)). unfold upd. rewrite beqb_refl. exact Hv2.
          -- intros Hc.
             assert (Hgf : g <> f).
             { intros ->. destruct Hc as [Hc | Hc]; [congruence | apply Hc; left; reflexivity]. }
             rewrite A2.
             ++ unfold upd. destruct (bytes_eqb (fname g) (fname f)) eqn:E; auto.
                exfalso. apply Hgf. apply Hname; auto. apply beqb_eq. exact E.
             ++ destruct Hc as [Hc | Hc]; [left; exact Hc | right; intros Hin; apply Hc; right; exact Hin].
      + simpl. destruct (IH (pre ++ [f]) val) as [val' [R1 R2]].
        * rewrite <- app_assoc. exact Hfs.
        * intros g Hg. apply Hval. right. exact Hg.
        * exists val'. split; [exact R1 |].
          intros g Hg. destruct (R2 g Hg) as [A1 A2]. split.
          -- intros Hsg [<- | Hin]; [congruence | apply A1; assumption].
          -- intros Hc. apply A2. destruct Hc as [Hc | Hc]; [left; exact Hc | right; intros Hin; apply Hc; right; exact Hin].
  Qed.

  (* ---- names ---- *)
  Definition child_named (f : dfield) : bool :=
    match fvalue f with
    | DLeaf _ => true
    | DObj p _ _ _ _ | DArr p _ _ => match p with [k] => bytes_eqb k (fname f) | _ => false end
    end.
  Lemma names_ok_obj : forall p nl ty poss fields,
    names_ok (DObj p nl ty poss fields) =
    names_nodup (map fname fields) && forallb (fun f => child_named f && names_ok (fvalue f)) fields.
  Proof.
    intros. simpl.
    assert (H1 : map (fun f => match f with DFld nm _ _ _ _ => nm end) fields = map fname fields).
    { apply map_ext. intros [? ? ? ? ?]. reflexivity. }
    rewrite H1. f_equal. clear H1.
    induction fields as [| [nm on pon df v] r IH]; [reflexivity |].
    simpl. unfold child_named at 1. simpl. rewrite IH. reflexivity.
  Qed.
  Lemma names_nodup_NoDup : forall l, names_nodup l = true -> NoDup l.
  Proof.
    induction l as [| x r IH]; simpl; intros H; [constructor |].
    apply andb_true_iff in H. destruct H as [H1 H2]. constructor; [| apply IH; exact H2].
    intros Hin. apply mem_bytes_In in Hin. rewrite Hin in H1. discriminate.
  Qed.
  Lemma child_named_names : forall f, child_named f = true -> allows_seek (fvalue f) = true ->
    node_names (fvalue f) = [PName (fname f)].
  Proof.
    intros [nm on pon df v] Hc Ha. unfold child_named, node_names in *. simpl in *.
    destruct v as [p ? ? ? ? | p ? ? | ?]; try discriminate;
      (destruct p as [| k [| ? ?]]; try discriminate; apply beqb_eq in Hc; subst; reflexivity).
  Qed.

  Lemma classify_cases : forall df v,
    match classify descs (Some d) df v with
    | FRender => df = Some did
    | FSeek => allows_seek v = true /\ df <> Some did /\
               (df = None \/ exists c, df = Some c /\ is_ancestor descs c (dd_parent d) = true)
    | FSkip => df <> Some did /\
               (allows_seek v = false \/ exists c, df = Some c /\ is_ancestor descs c (dd_parent d) = false)
    end.
  Proof.
    intros df v. unfold classify. destruct df as [c |].
    - destruct (c =? did) eqn:E.
      + apply N.eqb_eq in E. subst. reflexivity.
      + apply N.eqb_neq in E.
        destruct (is_ancestor descs c (dd_parent d)) eqn:Ea; simpl.
        * destruct (allows_seek v) eqn:Es.
          -- split; [reflexivity |]. split; [congruence |]. right. eauto.
          -- split; [congruence |]. left. reflexivity.
        * split; [congruence |]. right. eauto.
    - destruct (allows_seek v) eqn:Es.
      + split; [reflexivity |]. split; [discriminate |]. left. reflexivity.
      + split; [discriminate |]. left. reflexivity.
  Qed.

  Lemma keepX_split : forall df, keepX (did :: X) df = keepX X df || keep_layer (Some did) df.
  Proof.
    intros [c |]; simpl; [| reflexivity]. unfold mem_N, keep_layer. simpl.
    destruct (c =? did); simpl; [rewrite orb_true_r | rewrite orb_false_r]; reflexivity.
  Qed.

  (* ---- the layer of d merged into a response that holds the layers X ---- *)
  Lemma seek_merge : forall n stack parent tns,
    scope_ok descs stack n = true -> names_ok n = true ->
    (forall e, In e stack -> is_ancestor descs e (dd_parent d) = true) ->
    exists v, apply_rel (r_items descs d n parent tns) (Some (proj (keepX X) n parent tns)) = Some v /\
              jeq v (proj (keepX (did :: X)) n parent tns).
  Proof.
    induction n using dnode_ind'; intros stack parent tns Hs Hn Hst.
    - exists (proj (keepX X) (DLeaf l) parent tns). split; [reflexivity | apply jeq_refl].
    - (* list, of objects or of lists *)
      destruct (get_path p parent) as [[| | | |items |] |] eqn:Hg;
        try (exists JNull; simpl; rewrite Hg; split; [reflexivity | constructor]).
      rewrite (r_items_arr _ _ _ _ _ _ Hg). simpl proj. rewrite Hg.
      simpl in Hs. simpl in Hn. apply andb_true_iff in Hn. destruct Hn as [_ Hn].
      destruct (arr_merge n tns
                          (fun it => proj (keepX X) n it tns)
                          (fun it => proj (keepX (did :: X)) n it tns)
                          (fun it => IHn stack it tns Hs Hn Hst) items [] 0 eq_refl) as [vs [V1 V2]].
      simpl in V1. exists (JArr vs). split; [exact V1 | constructor; exact V2].
    - (* object *)
      destruct (get_path p parent) as [[| | | | |m] |] eqn:Hg;
        try (exists JNull; simpl; rewrite Hg; split; [reflexivity | constructor]).
      set (value := JObj m). set (tns' := typename_of value :: tns).
      rewrite (r_items_obj _ _ _ _ _ _ _ _ Hg). fold value. fold tns'.
      rewrite !(proj_obj _ _ _ _ _ _ _ _ _ Hg). fold value. fold tns'.
      rewrite scope_ok_obj in Hs. rewrite forallb_forall in Hs.
      rewrite names_ok_obj in Hn. apply andb_true_iff in Hn. destruct Hn as [Hnd Hnf].
      apply names_nodup_NoDup in Hnd. rewrite forallb_forall in Hnf.
      rewrite Forall_forall in H.
      set (selX := sel_keep (keepX X) tns'). set (selXd := sel_keep (keepX (did :: X)) tns').
      set (selL := sel_keep (keep_layer (Some did)) tns').
      set (valX := fun f => proj (keepX X) (fvalue f) value tns').
      set (valXd := fun f => proj (keepX (did :: X)) (fvalue f) value tns').
      set (valL := fun f => proj (keep_layer (Some did)) (fvalue f) value tns').
      set (ms_d := members selL valL fields).
      (* facts about one field *)
      assert (Hfield : forall f, In f fields -> fskip tns' f = false ->
                match classify descs (Some d) (fmark f) (fvalue f) with
                | FRender => keepX X (fmark f) = false /\ valL f = valXd f
                | FSeek => keepX X (fmark f) = true /\ node_names (fvalue f) = [PName (fname f)] /\
                           exists v, apply_rel (r_items descs d (fvalue f) value tns') (Some (valX f)) = Some v /\ jeq v (valXd f)
                | FSkip => valX f = valXd f
                end).
      { intros f Hf Hsk. specialize (Hs f Hf). unfold field_scope in Hs. apply andb_true_iff in Hs. destruct Hs as [Hs1 Hs2].
        specialize (Hnf f Hf). apply andb_true_iff in Hnf. destruct Hnf as [Hn1 Hn2].
        pose proof (classify_cases (fmark f) (fvalue f)) as Hc.
        destruct (classify descs (Some d) (fmark f) (fvalue f)).
        - rewrite Hc. split.
          + simpl. apply mem_N_false. exact HX1.
          + unfold valL, valXd. symmetry. eapply scope_inside; [exact Hs2 |].
            rewrite Hc. simpl. left. reflexivity.
        - destruct Hc as [Ha [Hd Hm]]. split; [| split].
          + destruct Hm as [-> | [c [-> Hc]]]; [reflexivity |]. simpl. apply mem_N_In. apply HX2. exact Hc.
          + apply child_named_names; assumption.
          + unfold valX, valXd. eapply (H f Hf); [exact Hs2 | exact Hn2 |].
            intros e He. destruct Hm as [Hm | [c [Hm Hc]]]; rewrite Hm in He; simpl in He.
            * apply Hst. exact He.
            * destruct He as [<- | He]; [exact Hc | apply Hst; exact He].
        - destruct Hc as [Hd Hm]. unfold valX, valXd.
          assert (Hnm : no_mark (fvalue f) = true).
          { destruct Hm as [Ha | [c [Hm Hc]]].
            - apply no_seek_no_mark. exact Ha.
            - eapply scope_no_mark; [exact Hs2 |].
              exists c. rewrite Hm. simpl. split; [left; reflexivity |]. split; [congruence | exact Hc]. }
          symmetry. apply (no_mark_clean X _ value tns' Hnm). }
      (* the item of this object, then the pass-through fields *)
      rewrite apply_rel_app.
      match goal with
      | |- context [apply_rel ?a (Some (JObj (members selX valX fields)))] =>
        replace (apply_rel a (Some (JObj (members selX valX fields))))
          with (Some (JObj (members selX valX fields ++ ms_d)))
          by (unfold ms_d; destruct (members selL valL fields); simpl; [rewrite app_nil_r |]; reflexivity)
      end.
      destruct (fields_fold value tns' fields ms_d selX valX valXd Hnd) with (fs := fields) (pre := @nil dfield) (val := valX)
        as [val' [R1 R2]]; auto.
      { intros f Hf Hsf. unfold sel_seek in Hsf. apply andb_true_iff in Hsf. destruct Hsf as [Hk Hc].
        apply negb_true_iff in Hk. pose proof (Hfield f Hf Hk) as Hff.
        destruct (classify descs (Some d) (fmark f) (fvalue f)); try discriminate.
        destruct Hff as [F1 [F2 F3]]. split; [| split; assumption].
        unfold selX, sel_keep. rewrite Hk, F1. reflexivity. }
      unfold seek_group in R1. rewrite R1.
      exists (JObj (members selX val' fields ++ ms_d)). split; [reflexivity |].
      apply jeq_obj with (m2' := members selX valXd fields ++ members selL valXd fields).
      + apply members_split_perm.
        * intros f _. unfold selXd, selX, selL, sel_keep. rewrite keepX_split.
          destruct (fskip tns' f); reflexivity.
        * intros f _. unfold selX, selL, sel_keep.
          destruct (fskip tns' f); simpl; [reflexivity |].
          destruct (fmark f) as [c |]; simpl; [| reflexivity]. unfold keep_layer. simpl.
          destruct (c =? did) eqn:E; [| apply andb_false_r].
          apply N.eqb_eq in E. subst. rewrite andb_true_r. apply mem_N_false. exact HX1.
      + apply Forall2_app.
        * apply Forall2_members. intros f Hf Hsel.
          unfold selX, sel_keep in Hsel. apply andb_true_iff in Hsel. destruct Hsel as [Hk Hkeep].
          apply negb_true_iff in Hk. pose proof (Hfield f Hf Hk) as Hff.
          destruct (R2 f Hf) as [A1 A2].
          destruct (sel_seek tns' f) eqn:Es.
          -- apply A1; auto.
          -- rewrite (A2 (or_introl eq_refl)).
             unfold sel_seek in Es. rewrite Hk in Es. simpl in Es.
             destruct (classify descs (Some d) (fmark f) (fvalue f)); try discriminate.
             ++ destruct Hff as [F1 _]. congruence.
             ++ rewrite Hff. apply jeq_refl.
        * unfold ms_d. apply Forall2_members. intros f Hf Hsel.
          unfold selL, sel_keep in Hsel. apply andb_true_iff in Hsel. destruct Hsel as [Hk Hkeep].
          apply negb_true_iff in Hk. pose proof (Hfield f Hf Hk) as Hff.
          unfold keep_layer in Hkeep. apply opt_N_eqb_eq in Hkeep.
          pose proof (classify_cases (fmark f) (fvalue f)) as Hc.
          destruct (classify descs (Some d) (fmark f) (fvalue f)).
          -- destruct Hff as [_ F2]. rewrite F2. apply jeq_refl.
          -- destruct Hc as [_ [Hd _]]. contradiction.
          -- destruct Hc as [Hd _]. contradiction.
  Qed.
End Recon.

Lemma proj_ext : forall k1 k2, (forall df, k1 df = k2 df) ->
  forall n parent tns, proj k1 n parent tns = proj k2 n parent tns.
Proof.
  intros k1 k2 Hk. induction n using dnode_ind'; intros parent tns.
  - reflexivity.
  - simpl. destruct (get_path p parent) as [[| | | |items |] |]; auto.
    f_equal. apply map_ext. intros it. apply IHn.
  - destruct (get_path p parent) as [[| | | | |m] |] eqn:Hg; try (simpl; rewrite Hg; reflexivity).
    rewrite !(proj_obj _ _ _ _ _ _ _ _ _ Hg). f_equal.
    rewrite Forall_forall in H.
    apply members_cong. intros f Hf. split.
    + unfold sel_keep. rewrite Hk. reflexivity.
    + intros _. apply (H f Hf).
Qed.

Lemma keepX_nil : forall df, keepX [] df = keep_layer None df.
Proof. intros [c |]; reflexivity. Qed.
