(* C10: composition of the reconstruction across layers, part 6: a defer whose anchor is dead (the
   value at the descriptor path is null or missing: liveChildDescriptors never announces it) has no
   item to deliver. *)
From Coq Require Import ZArith Lia ZifyN ZifyNat ZifyBool Permutation.
From Gv Require Import lib.Bytes lib.Json C02.Model C02.Spec C10.Model C10.Spec C10.SpecCompose
  C10.ProofsBasic C10.ProofsRecon C10.ProofsPaths C10.ProofsComposeRest.
Open Scope N_scope.

Local Arguments typename_of : simpl never.
Local Arguments skip_field : simpl never.
Local Arguments classify : simpl never.
Local Arguments is_ancestor : simpl never.

Lemma get_path_app : forall a b j,
  get_path (a ++ b) j = match get_path a j with Some w => get_path b w | None => None end.
Proof.
  induction a as [| k a IH]; intros b j; [reflexivity |].
  cbn [app get_path]. destruct j as [| | | | |m]; try reflexivity.
  destruct (obj_get k m); [apply IH | reflexivity].
Qed.

(* a prefix of a path that reaches an object or a list reaches a live value *)
Lemma prefix_alive : forall data a b v,
  get_path (a ++ b) data = Some v -> v <> JNull -> anchor_alive data a = true.
Proof.
  intros data a b v H Hv. rewrite get_path_app in H. unfold anchor_alive.
  destruct (get_path a data) as [w |]; [| discriminate].
  destruct w; try reflexivity. destruct b; cbn [get_path] in H; [congruence | discriminate].
Qed.

Section Dead.
  Variable descs : list ddesc.
  Variable d : ddesc.
  Hypothesis Hfd : find_desc descs (dd_id d) = Some d.
  Variable data : json.

  (* where the walk is: not below a list, [parent] is the value at [names]; below a list met after
     k names, the value there was a list *)
  Definition at_pos (names : list bytes) (cut : option nat) (parent : json) : Prop :=
    match cut with
    | None => get_path names data = Some parent
    | Some k => (k <= length names)%nat /\ exists l, get_path (firstn k names) data = Some (JArr l)
    end.

  Lemma at_pos_names : forall names cut parent p v,
    at_pos names cut parent -> get_path p parent = Some v -> at_pos (names ++ p) cut v.
  Proof.
    intros names cut parent p v H Hg. destruct cut as [k |]; cbn [at_pos] in *.
    - destruct H as [H1 [l H2]]. split; [rewrite app_length; lia |].
      exists l. rewrite firstn_le_app by lia. exact H2.
    - rewrite get_path_app, H. exact Hg.
  Qed.

  Lemma at_pos_list : forall names cut parent l it,
    at_pos names cut parent -> parent = JArr l ->
    at_pos names (match cut with Some k => Some k | None => Some (length names) end) it.
  Proof.
    intros names cut parent l it H Hp. destruct cut as [k |]; cbn [at_pos] in *.
    - exact H.
    - split; [lia |]. exists l. rewrite firstn_all. subst parent. exact H.
  Qed.

  Lemma alive_here : forall names cut m,
    at_pos names cut (JObj m) -> is_prefix (dd_path d) names = true ->
    match cut with Some k => Nat.leb (length (dd_path d)) k = true | None => True end ->
    anchor_alive data (dd_path d) = true.
  Proof.
    intros names cut m H Hp Hc. destruct (is_prefix_app _ _ Hp) as [r Hr].
    destruct cut as [k |]; cbn [at_pos] in H.
    - destruct H as [H1 [l H2]]. apply Nat.leb_le in Hc.
      rewrite Hr in H2. rewrite firstn_app in H2. rewrite (firstn_all2 (n := k) (dd_path d) Hc) in H2.
      eapply prefix_alive; [exact H2 | discriminate].
    - rewrite Hr in H. eapply prefix_alive; [exact H | discriminate].
  Qed.

  Lemma items_alive : forall n names cut parent0 parent tns,
    paths_ok descs names cut n = true -> names_ok n = true -> at_pos names cut parent0 ->
    (cut = None -> parent0 = parent) ->
    forall x, In x (r_items descs d n parent tns) -> anchor_alive data (dd_path d) = true.
  Proof.
    induction n using dnode_ind'; intros names cut parent0 parent tns Hp Hn Hat Hpar x Hx.
    - contradiction.
    - (* list *)
      destruct (get_path p parent) as [[| | | |items |] |] eqn:Hg; try (cbn [r_items] in Hx; rewrite Hg in Hx; contradiction).
      rewrite (r_items_arr _ _ _ _ _ _ _ _ Hg) in Hx.
      cbn [paths_ok] in Hp. cbn [names_ok] in Hn. apply andb_true_iff in Hn. destruct Hn as [_ Hn].
      assert (Hgen : forall its i, In x (arr_items descs d n tns its i) ->
                exists rel it, In rel (r_items descs d n it tns)).
      { induction its as [| it rest IH]; intros i Hi; [contradiction |].
        cbn [arr_items] in Hi. apply in_app_or in Hi. destruct Hi as [Hi | Hi].
        - unfold prefix_items in Hi. apply in_map_iff in Hi. destruct Hi as [rel [_ Hin]]. eauto.
        - apply (IH (i + 1)). exact Hi. }
      destruct (Hgen items 0 Hx) as [rel [it Hin]].
      assert (Hat' : at_pos (names ++ p) (match cut with Some k => Some k | None => Some (length (names ++ p)) end) it).
      { destruct cut as [k |].
        - cbn [at_pos] in *. destruct Hat as [H1 [l H2]]. split; [rewrite app_length; lia |].
          exists l. rewrite firstn_le_app by lia. exact H2.
        - cbn [at_pos] in *. split; [lia |]. exists items. rewrite firstn_all.
          rewrite get_path_app, Hat, (Hpar eq_refl). exact Hg. }
      eapply (IHn (names ++ p) _ it it tns Hp Hn Hat'); [| exact Hin].
      destruct cut; discriminate.
    - (* object *)
      destruct (get_path p parent) as [[| | | | |m] |] eqn:Hg; try (cbn [r_items] in Hx; rewrite Hg in Hx; contradiction).
      rewrite (r_items_obj _ _ _ _ _ _ _ _ _ _ Hg) in Hx.
      rewrite (paths_ok_obj descs) in Hp. rewrite forallb_forall in Hp.
      rewrite names_ok_obj in Hn. apply andb_true_iff in Hn. destruct Hn as [_ Hnf]. rewrite forallb_forall in Hnf.
      rewrite Forall_forall in H.
      assert (Hat' : at_pos (names ++ p) cut (JObj m)).
      { destruct cut as [k |].
        - cbn [at_pos] in *. destruct Hat as [H1 [l H2]]. split; [rewrite app_length; lia |].
          exists l. rewrite firstn_le_app by lia. exact H2.
        - cbn [at_pos] in *. rewrite get_path_app, Hat, (Hpar eq_refl). exact Hg. }
      apply in_app_or in Hx. destruct Hx as [Hx | Hx].
      + (* the item of this object *)
        set (ms := members (sel_keep (keep_layer (Some (dd_id d))) (typename_of (JObj m) :: tns))
                           (fun f => proj (keep_layer (Some (dd_id d))) (fvalue f) (JObj m) (typename_of (JObj m) :: tns)) fields) in *.
        destruct ms as [| m0 ms'] eqn:Hms; [contradiction |].
        destruct (members_nonempty (sel_keep (keep_layer (Some (dd_id d))) (typename_of (JObj m) :: tns))
                                   (fun f => proj (keep_layer (Some (dd_id d))) (fvalue f) (JObj m) (typename_of (JObj m) :: tns)) fields) as [f [Hf Hsel]].
        { fold ms. rewrite Hms. discriminate. }
        unfold sel_keep in Hsel. apply andb_true_iff in Hsel. destruct Hsel as [_ Hk].
        unfold keep_layer in Hk. apply opt_N_eqb_eq in Hk.
        specialize (Hp f Hf). unfold field_paths in Hp. apply andb_true_iff in Hp. destruct Hp as [Hp _].
        rewrite Hk, Hfd in Hp. apply andb_true_iff in Hp. destruct Hp as [Hp1 Hp2].
        eapply alive_here; [exact Hat' | exact Hp1 |].
        destruct cut; [exact Hp2 | exact I].
      + (* below a pass-through field *)
        apply in_flat_map in Hx. destruct Hx as [f [Hf Hx]].
        destruct (sel_seek descs d (typename_of (JObj m) :: tns) f) eqn:Es; [| contradiction].
        unfold prefix_items in Hx. apply in_map_iff in Hx. destruct Hx as [rel [_ Hin]].
        specialize (Hp f Hf). unfold field_paths in Hp. apply andb_true_iff in Hp. destruct Hp as [_ Hp].
        specialize (Hnf f Hf). apply andb_true_iff in Hnf. destruct Hnf as [_ Hnf].
        eapply (H f Hf (names ++ p) cut (JObj m) (JObj m) (typename_of (JObj m) :: tns) Hp Hnf Hat'); [reflexivity | exact Hin].
  Qed.

  Lemma dead_no_items : forall root,
    paths_ok descs [] None root = true -> names_ok root = true ->
    anchor_alive data (dd_path d) = false -> c_items descs d root data = [].
  Proof.
    intros root Hp Hn Hdead. unfold c_items.
    destruct (r_items descs d root data []) as [| x xs] eqn:Hr; [reflexivity |].
    exfalso. assert (Ha : anchor_alive data (dd_path d) = true).
    { eapply (items_alive root [] None data data [] Hp Hn); [reflexivity | reflexivity |].
      rewrite Hr. left. reflexivity. }
    congruence.
  Qed.
End Dead.

(* boolean form used by the composed theorem: every defer outside [ids] is dead or empty *)
Definition undelivered_dead (descs : list ddesc) (data : json) (ids : list N) : bool :=
  forallb (fun d => mem_N (dd_id d) ids || negb (anchor_alive data (dd_path d))) descs.

Lemma undelivered_dead_empty : forall descs root tree data ids,
  defer_plan_wf descs root tree = true ->
  undelivered_dead descs data ids = true -> undelivered_empty descs root data ids = true.
Proof.
  intros descs root tree data ids Hwf Hu.
  unfold defer_plan_wf in Hwf.
  apply andb_true_iff in Hwf. destruct Hwf as [Hwf Hnames].
  apply andb_true_iff in Hwf. destruct Hwf as [Hwf Hpaths].
  apply andb_true_iff in Hwf. destruct Hwf as [Hwf _].
  apply andb_true_iff in Hwf. destruct Hwf as [Hwf _].
  apply andb_true_iff in Hwf. destruct Hwf as [Hwf _].
  apply andb_true_iff in Hwf. destruct Hwf as [Hdw _].
  unfold undelivered_dead in Hu. unfold undelivered_empty.
  rewrite forallb_forall in *. intros d Hd. specialize (Hu d Hd).
  destruct (mem_N (dd_id d) ids); [reflexivity |]. cbn [orb] in *.
  apply negb_true_iff in Hu. unfold no_items.
  rewrite (dead_no_items descs d (ProofsStream.find_desc_unique descs (wf_ids descs Hdw) d Hd) data root Hpaths Hnames Hu).
  reflexivity.
Qed.
