(* C07: errors only grow along a run; a loud fault on a requested fetch leaves an error. *)
From Gv Require Import lib.Bytes lib.Json C02.Model C07.Model C07.Spec C07.ProofsBase.
From Coq Require Import Lia PeanoNat.
Open Scope N_scope.

Definition ext_errors (s s' : lstate) : Prop := exists es, ls_errors s' = ls_errors s ++ es.

Lemma ext_refl : forall s, ext_errors s s.
Proof. intros s. exists []. rewrite app_nil_r. reflexivity. Qed.
Lemma ext_trans : forall a b c, ext_errors a b -> ext_errors b c -> ext_errors a c.
Proof. intros a b c [e1 H1] [e2 H2]. exists (e1 ++ e2). rewrite H2, H1, app_assoc. reflexivity. Qed.
Lemma ext_add_error : forall s k f, ext_errors s (add_error s k f).
Proof. intros. eexists. reflexivity. Qed.
Lemma ext_nonempty : forall s s', ext_errors s s' -> ls_errors s <> [] -> ls_errors s' <> [].
Proof. intros s s' [es H] Hn. rewrite H. destruct (ls_errors s); [congruence|discriminate]. Qed.

Lemma merge_target_errors : forall f s l src, ls_errors (merge_target f s l src) = ls_errors s.
Proof.
  intros. unfold merge_target. destruct (ls_hard s); [reflexivity|].
  destruct (get_loc l (ls_data s)); [|reflexivity].
  destruct (merge_with_path j src (f_mergepath f)) as [[a' ch]|]; [destruct ch|]; reflexivity.
Qed.
Lemma fold_merge_target_errors : forall f src targets s,
  ls_errors (fold_left (fun s l => merge_target f s l src) targets s) = ls_errors s.
Proof. induction targets as [|l r IH]; intros s; simpl; [reflexivity|]. rewrite IH. apply merge_target_errors. Qed.
Lemma merge_pairwise_errors : forall f ls batch s, ls_errors (merge_pairwise f s ls batch) = ls_errors s.
Proof.
  induction ls as [|l ls IH]; intros batch s; simpl; [reflexivity|].
  destruct batch; [reflexivity|]. rewrite IH. apply merge_target_errors.
Qed.
Lemma merge_buckets_errors : forall f bs batch s, ls_errors (merge_buckets f s bs batch) = ls_errors s.
Proof.
  induction bs as [|b bs IH]; intros batch s; simpl; [reflexivity|].
  destruct batch; [reflexivity|]. rewrite IH. apply fold_merge_target_errors.
Qed.

Lemma ext_of_eq : forall s s', ls_errors s' = ls_errors s -> ext_errors s s'.
Proof. intros s s' H. exists []. rewrite app_nil_r. exact H. Qed.

Ltac ext_solve :=
  first [ apply ext_refl
        | apply ext_add_error
        | apply ext_of_eq; first [apply merge_target_errors | apply merge_pairwise_errors | apply merge_buckets_errors | reflexivity] ].

Lemma merge_result_ext : forall f res items batch s, ext_errors s (merge_result f res items batch s).
Proof.
  intros f res items batch s. unfold merge_result.
  destruct (rs_err res); [ext_solve|].
  destruct (rs_body res) as [| |resp]; [ext_solve|destruct (non2xx (rs_status res)); ext_solve|].
  set (he := match get_loc [PName k_errors] resp with Some (JArr (_ :: _)) => true | _ => false end).
  set (s1 := if he then add_error s LE_FETCH f else s).
  assert (H1 : ext_errors s s1) by (subst s1; destruct he; ext_solve).
  eapply ext_trans; [exact H1|]. clearbody s1. clear H1.
  destruct (is_nullish (get_loc (f_datapath f) resp)).
  - destruct (is_entity_kind (f_kind f) && _); [ext_solve|].
    destruct (negb he && non2xx (rs_status res)); [ext_solve|]. destruct (negb he); ext_solve.
  - destruct (get_loc (f_datapath f) resp) as [rd|]; [|ext_solve].
    destruct items as [|l [|l2 r]].
    + destruct rd; ext_solve.
    + destruct batch as [bs|].
      * destruct rd as [| | | |[|b0 b]|]; try ext_solve. destruct (Nat.eqb _ _); ext_solve.
      * ext_solve.
    + destruct rd as [| | | |[|b0 b]|]; try ext_solve.
      destruct batch as [bs|]; destruct (Nat.eqb _ _); ext_solve.
Qed.

Section Mono.
  Variable St : Type.
  Variable e : St -> request -> response * St.

  Lemma run_fetch_ext : forall f s x, ext_errors s (fst (run_fetch St e f (s, x))).
  Proof.
    intros f s x. unfold run_fetch.
    destruct (should_skip f s); [apply ext_of_eq; reflexivity|].
    destruct (prepare f (ls_data s) (select_items (ls_data s) (f_path f))) as [d|d rq batch]; [apply ext_of_eq; reflexivity|].
    destruct (e x rq) as [res x']. cbn [fst].
    eapply ext_trans; [|apply merge_result_ext].
    destruct (rs_err res); apply ext_of_eq; reflexivity.
  Qed.

  Lemma run_tree_ext : forall t s x, ext_errors s (fst (run_tree St e t (s, x))).
  Proof.
    fix IH 1. intros t; destruct t as [f|l|l]; intros s x.
    - apply run_fetch_ext.
    - simpl. revert s x. induction l as [|t r IHl]; intros s x; [apply ext_refl|].
      specialize (IH t s x). destruct (run_tree St e t (s, x)) as [s1 y1]. cbn [fst] in *.
      destruct (ls_hard s1); [exact IH|]. eapply ext_trans; [exact IH|apply IHl].
    - simpl. revert s x. induction l as [|t r IHl]; intros s x; [apply ext_refl|].
      specialize (IH t s x). destruct (run_tree St e t (s, x)) as [s1 y1]. cbn [fst] in *.
      eapply ext_trans; [exact IH|apply IHl].
  Qed.
End Mono.

(* ---- loud faults ---- *)
Lemma app_one_nonempty : forall {A} (l : list A) x, l ++ [x] <> [].
Proof. intros A l x H. apply app_eq_nil in H as [_ H]. discriminate. Qed.

Lemma fetch_wf_inv : forall kind_of f, fetch_wf kind_of f = true ->
  kind_of (f_id f) = f_kind f /\ f_datapath f = datapath_of (f_kind f).
Proof.
  intros kind_of f H. unfold fetch_wf in H. apply andb_prop in H as [H1 H2]. split.
  - destruct (kind_of (f_id f)), (f_kind f); try discriminate; reflexivity.
  - revert H2. generalize (datapath_of (f_kind f)). generalize (f_datapath f).
    induction r as [|[x|x] a IH]; intros [|[y|y] b] H; try discriminate; try reflexivity.
    + apply andb_prop in H as [H1' H2']. apply bytes_eqb_true in H1'. subst. f_equal. apply IH. exact H2'.
    + apply andb_prop in H as [H1' H2']. apply N.eqb_eq in H1'. subst. f_equal. apply IH. exact H2'.
Qed.

Definition loud_body (k : fault) : bool :=
  match k with
  | FtTransport | FtStatusEmpty | FtStatusText | FtStatusErrors | FtEmpty | FtNonJSON | FtTruncated | FtNaNBody
  | FtErrorsNoData | FtErrorsNullData | FtNullData => true
  | _ => false
  end.

Lemma loud_body_error : forall f k r items batch s,
  f_datapath f = datapath_of (f_kind f) -> loud_body k = true ->
  ls_errors (merge_result f (apply_fault k r) items batch s) <> [].
Proof.
  intros f k r items batch s Hd Hk.
  destruct k; try discriminate; unfold merge_result, apply_fault, mk_response; cbn [rs_err rs_body rs_status];
    try (apply app_one_nonempty);
    rewrite Hd; destruct (f_kind f); cbn; try (apply app_one_nonempty).
Qed.

Lemma count_body : forall answer root_answer rq g,
  rs_body (on_body (map_entities g) (clean_response answer root_answer rq false)) =
  BJson (JObj ((k_data, JObj [(k_entities, JArr (g (map fst (map (answer (rq_fetch rq)) (rq_reps rq)))))])
               :: errors_member (flat_map snd (map (answer (rq_fetch rq)) (rq_reps rq))))).
Proof.
  intros. unfold on_body, clean_response. cbn [rs_body]. unfold map_entities. cbn [map fst snd].
  change (bytes_eqb k_data k_data) with true. cbv iota. cbn [map fst snd].
  change (bytes_eqb k_entities k_entities) with true. cbv iota. f_equal. f_equal. f_equal.
  unfold errors_member. destruct (flat_map snd (map (answer (rq_fetch rq)) (rq_reps rq))); reflexivity.
Qed.

Lemma count_error : forall answer root_answer f k rq (bs : list (bytes * list rpath)) items s,
  f_datapath f = datapath_of FBatch -> (k = FtCountLess \/ k = FtCountMore) ->
  rq_reps rq = map fst bs -> bs <> [] ->
  ls_errors (merge_result f (apply_fault k (clean_response answer root_answer rq false)) items (Some (map snd bs)) s) <> [].
Proof.
  intros answer root_answer f k rq bs items s Hd Hk Hr Hne.
  remember (map fst (map (answer (rq_fetch rq)) (rq_reps rq))) as ents eqn:Hents.
  assert (Hlen : length ents = length bs) by (subst ents; rewrite !map_length, Hr, map_length; reflexivity).
  assert (Hpos : (0 < length bs)%nat) by (destruct bs; [congruence|simpl; lia]).
  assert (Hne' : ents <> []) by (intro E; rewrite E in Hlen; simpl in Hlen; lia).
  assert (exists g, apply_fault k (clean_response answer root_answer rq false) = on_body (map_entities g) (clean_response answer root_answer rq false)
                    /\ length (g ents) <> length bs) as (g & Hg & Hgl).
  { destruct Hk; subst k.
    - eexists; split; [reflexivity|]. cbv beta.
      pose proof (app_removelast_last JNull Hne') as H.
      apply (f_equal (@length json)) in H. rewrite app_length in H. simpl in H. lia.
    - eexists; split; [reflexivity|]. cbv beta. destruct (rev ents) as [|x r] eqn:E.
      + apply (f_equal (@length json)) in E. rewrite rev_length in E. simpl in E. lia.
      + rewrite app_length. simpl. lia. }
  rewrite Hg. unfold merge_result.
  assert (He : rs_err (on_body (map_entities g) (clean_response answer root_answer rq false)) = false) by reflexivity.
  rewrite He, count_body. rewrite <- Hents. rewrite Hd.
  set (errs := errors_member (flat_map snd (map (answer (rq_fetch rq)) (rq_reps rq)))).
  assert (Hrd : get_loc (datapath_of FBatch) (JObj ((k_data, JObj [(k_entities, JArr (g ents))]) :: errs)) = Some (JArr (g ents))).
  { unfold datapath_of. cbn [get_loc obj_get]. change (bytes_eqb k_data k_data) with true. cbv iota.
    cbn [get_loc obj_get]. change (bytes_eqb k_entities k_entities) with true. reflexivity. }
  rewrite Hrd. cbn [is_nullish].
  match goal with |- ls_errors (match items with [] => ?A | _ => _ end) <> [] => idtac end.
  set (s1 := if match get_loc [PName k_errors] (JObj ((k_data, JObj [(k_entities, JArr (g ents))]) :: errs)) with
                | Some (JArr (_ :: _)) => true | _ => false end then add_error s LE_FETCH f else s).
  destruct items as [|l [|l2 r]].
  - apply app_one_nonempty.
  - destruct (g ents) as [|b0 b] eqn:G; [apply app_one_nonempty|].
    rewrite map_length. destruct (Nat.eqb (length bs) (length (b0 :: b))) eqn:E; [|apply app_one_nonempty].
    apply Nat.eqb_eq in E. congruence.
  - destruct (g ents) as [|b0 b] eqn:G; [apply app_one_nonempty|].
    rewrite map_length. destruct (Nat.eqb (length bs) (length (b0 :: b))) eqn:E; [|apply app_one_nonempty].
    apply Nat.eqb_eq in E. congruence.
Qed.

(* ---- requests are only appended ---- *)
Lemma merge_target_reqs : forall f s l src, ls_reqs (merge_target f s l src) = ls_reqs s.
Proof.
  intros. unfold merge_target. destruct (ls_hard s); [reflexivity|].
  destruct (get_loc l (ls_data s)); [|reflexivity].
  destruct (merge_with_path j src (f_mergepath f)) as [[a' ch]|]; [destruct ch|]; reflexivity.
Qed.
Lemma fold_merge_target_reqs : forall f src targets s,
  ls_reqs (fold_left (fun s l => merge_target f s l src) targets s) = ls_reqs s.
Proof. induction targets as [|l r IH]; intros s; simpl; [reflexivity|]. rewrite IH. apply merge_target_reqs. Qed.
Lemma merge_pairwise_reqs : forall f ls batch s, ls_reqs (merge_pairwise f s ls batch) = ls_reqs s.
Proof.
  induction ls as [|l ls IH]; intros batch s; simpl; [reflexivity|].
  destruct batch; [reflexivity|]. rewrite IH. apply merge_target_reqs.
Qed.
Lemma merge_buckets_reqs : forall f bs batch s, ls_reqs (merge_buckets f s bs batch) = ls_reqs s.
Proof.
  induction bs as [|b bs IH]; intros batch s; simpl; [reflexivity|].
  destruct batch; [reflexivity|]. rewrite IH. apply fold_merge_target_reqs.
Qed.

Ltac reqs_solve := first [ reflexivity | apply merge_target_reqs | apply merge_pairwise_reqs | apply merge_buckets_reqs ].

Lemma merge_result_reqs : forall f res items batch s, ls_reqs (merge_result f res items batch s) = ls_reqs s.
Proof.
  intros f res items batch s. unfold merge_result.
  destruct (rs_err res); [reqs_solve|].
  destruct (rs_body res) as [| |resp]; [reqs_solve|destruct (non2xx (rs_status res)); reqs_solve|].
  set (he := match get_loc [PName k_errors] resp with Some (JArr (_ :: _)) => true | _ => false end).
  set (s1 := if he then add_error s LE_FETCH f else s).
  assert (H1 : ls_reqs s1 = ls_reqs s) by (subst s1; destruct he; reflexivity).
  rewrite <- H1. clearbody s1. clear H1.
  destruct (is_nullish (get_loc (f_datapath f) resp)).
  - destruct (is_entity_kind (f_kind f) && _); [reqs_solve|].
    destruct (negb he && non2xx (rs_status res)); [reqs_solve|]. destruct (negb he); reqs_solve.
  - destruct (get_loc (f_datapath f) resp) as [rd|]; [|reqs_solve].
    destruct items as [|l [|l2 r]].
    + destruct rd; reqs_solve.
    + destruct batch as [bs|].
      * destruct rd as [| | | |[|b0 b]|]; try reqs_solve. destruct (Nat.eqb _ _); reqs_solve.
      * reqs_solve.
    + destruct rd as [| | | |[|b0 b]|]; try reqs_solve.
      destruct batch as [bs|]; destruct (Nat.eqb _ _); reqs_solve.
Qed.

Lemma prepare_request : forall f d items d' rq b, prepare f d items = PLoad d' rq b ->
  rq_fetch rq = f_id f /\
  (f_kind f = FBatch -> exists bs : list (bytes * list rpath), bs <> [] /\ rq_reps rq = map fst bs /\ b = Some (map snd bs)).
Proof.
  intros f d items d' rq b H. unfold prepare in H. destruct (f_kind f) eqn:K.
  - assert (rq = mk_request f []).
    { destruct items as [|l [|l2 r]]; try (inversion H; reflexivity).
      destruct (get_loc l d) as [[| | | | |]|]; inversion H; reflexivity. }
    subst rq. split; [reflexivity|discriminate].
  - destruct (render_rep (f_rep f) (items_data d items)) as [v' [bts|]]; [|discriminate].
    destruct (bytes_eqb bts b_null || bytes_eqb bts b_empty_obj); [discriminate|]. inversion H; subst. split; [reflexivity|discriminate].
  - destruct (batch_prepare (f_rep f) items d []) as [d2 bs] eqn:B. destruct bs as [|b0 bs']; [discriminate|].
    inversion H; subst. split; [reflexivity|]. intros _. exists (b0 :: bs'). split; [discriminate|split; reflexivity].
Qed.

Section Dichotomy.
  Variable answer : N -> bytes -> json * list json.
  Variable root_answer : N -> json * list json.
  Variable kind_of : N -> fkind.
  Variable F : N -> option fault.
  Hypothesis Hloud : forall id k, F id = Some k -> loud (kind_of id) k = true.

  Let e0 := faulty_exchange answer root_answer kind_of no_faults.
  Let eF := faulty_exchange answer root_answer kind_of F.

  Definition unfaulted_new (s s' : lstate) : Prop :=
    forall rq, In rq (ls_reqs s') -> In rq (ls_reqs s) \/ F (rq_fetch rq) = None.

  Lemma unfaulted_refl : forall s, unfaulted_new s s.
  Proof. intros s rq H. left. exact H. Qed.
  Lemma unfaulted_trans : forall a b c, unfaulted_new a b -> unfaulted_new b c -> unfaulted_new a c.
  Proof. intros a b c H1 H2 rq H. destruct (H2 rq H) as [H3|H3]; [apply H1; exact H3|right; exact H3]. Qed.

  Lemma fetch_dich : forall f s, fetch_wf kind_of f = true ->
    (fst (run_fetch unit eF f (s, tt)) = fst (run_fetch unit e0 f (s, tt)) /\ unfaulted_new s (fst (run_fetch unit e0 f (s, tt))))
    \/ ls_errors (fst (run_fetch unit eF f (s, tt))) <> [].
  Proof.
    intros f s Hwf. destruct (fetch_wf_inv _ _ Hwf) as [Hk Hd]. unfold run_fetch.
    destruct (should_skip f s); [left; split; [reflexivity|intros rq' H'; left; exact H']|].
    destruct (prepare f (ls_data s) (select_items (ls_data s) (f_path f))) as [d|d rq batch] eqn:P;
      [left; split; [reflexivity|intros rq' H'; left; exact H']|].
    destruct (prepare_request _ _ _ _ _ _ P) as [Hrq Hb].
    unfold eF, e0, faulty_exchange, no_faults. rewrite Hrq, Hk.
    destruct (F (f_id f)) as [k|] eqn:EF.
    - right. cbn [fst]. specialize (Hloud _ _ EF). rewrite Hk in Hloud.
      match goal with |- ls_errors (merge_result f ?r _ _ ?st) <> [] => set (s' := st) end.
      destruct (loud_body k) eqn:LB.
      + apply loud_body_error; assumption.
      + assert (Hc : (k = FtCountLess \/ k = FtCountMore) /\ f_kind f = FBatch).
        { destruct k; try discriminate; simpl in Hloud; destruct (f_kind f); try discriminate; auto. }
        destruct Hc as [Hc Hfk]. destruct (Hb Hfk) as (bs & Hne & Hreps & Hbatch). subst batch.
        rewrite Hfk. apply count_error; try assumption. rewrite Hd, Hfk. reflexivity.
    - left. cbn [fst]. split; [reflexivity|].
      intros rq' Hin. rewrite merge_result_reqs in Hin.
      assert (Hin' : In rq' (ls_reqs s ++ [rq])).
      { destruct (rs_err (clean_response answer root_answer rq match f_kind f with FSingle => true | _ => false end)); exact Hin. }
      apply in_app_or in Hin' as [H|[H|[]]]; [left; exact H|right]. subst rq'. rewrite Hrq. exact EF.
  Qed.

  Lemma tree_dich : forall t s, forallb (fetch_wf kind_of) (fetches_of t) = true ->
    (fst (run_tree unit eF t (s, tt)) = fst (run_tree unit e0 t (s, tt)) /\ unfaulted_new s (fst (run_tree unit e0 t (s, tt))))
    \/ ls_errors (fst (run_tree unit eF t (s, tt))) <> [].
  Proof.
    fix IH 1. intros t; destruct t as [f|l|l]; intros s Hwf.
    - simpl in Hwf. rewrite andb_true_r in Hwf. apply fetch_dich; exact Hwf.
    - simpl. simpl in Hwf. revert s Hwf. induction l as [|t r IHl]; intros s Hwf; [left; split; [reflexivity|apply unfaulted_refl]|].
      rewrite forallb_app in Hwf. apply andb_prop in Hwf as [Hw1 Hw2].
      destruct (IH t s Hw1) as [[He Hu]|Hn].
      + destruct (run_tree unit eF t (s, tt)) as [sF []] eqn:RF. destruct (run_tree unit e0 t (s, tt)) as [s0 []] eqn:R0.
        cbn [fst] in *. subst sF. destruct (ls_hard s0); [left; split; [reflexivity|exact Hu]|].
        destruct (IHl s0 Hw2) as [[He2 Hu2]|Hn2]; [left; split; [exact He2|eapply unfaulted_trans; eassumption]|right; exact Hn2].
      + right. destruct (run_tree unit eF t (s, tt)) as [sF []] eqn:RF. cbn [fst] in *.
        destruct (ls_hard sF); [exact Hn|].
        eapply ext_nonempty; [|exact Hn].
        change (ext_errors sF (fst (run_tree unit eF (FTSeq r) (sF, tt)))). apply run_tree_ext.
    - simpl. simpl in Hwf. revert s Hwf. induction l as [|t r IHl]; intros s Hwf; [left; split; [reflexivity|apply unfaulted_refl]|].
      rewrite forallb_app in Hwf. apply andb_prop in Hwf as [Hw1 Hw2].
      destruct (IH t s Hw1) as [[He Hu]|Hn].
      + destruct (run_tree unit eF t (s, tt)) as [sF []] eqn:RF. destruct (run_tree unit e0 t (s, tt)) as [s0 []] eqn:R0.
        cbn [fst] in *. subst sF.
        destruct (IHl s0 Hw2) as [[He2 Hu2]|Hn2]; [left; split; [exact He2|eapply unfaulted_trans; eassumption]|right; exact Hn2].
      + right. destruct (run_tree unit eF t (s, tt)) as [sF []] eqn:RF. cbn [fst] in *.
        eapply ext_nonempty; [|exact Hn].
        change (ext_errors sF (fst (run_tree unit eF (FTPar r) (sF, tt)))). apply run_tree_ext.
  Qed.

  Theorem errors_nonempty_partial_proof : forall t,
    forallb (fetch_wf kind_of) (fetches_of t) = true ->
    (exists rq, In rq (ls_reqs (run answer root_answer kind_of no_faults t)) /\ F (rq_fetch rq) <> None) ->
    ls_errors (run answer root_answer kind_of F t) <> [].
  Proof.
    intros t Hwf (rq & Hin & Hf). unfold run, load in *.
    destruct (tree_dich t init_state Hwf) as [[He Hu]|Hn]; [|exact Hn].
    destruct (Hu rq Hin) as [[]|H]. congruence.
  Qed.
End Dichotomy.
