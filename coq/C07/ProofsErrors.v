(* C07: errors only grow along a run; a loud fault on a requested fetch leaves an error. *)
From Gv Require Import lib.Bytes lib.Json C02.Model C07.Model C07.Spec C07.ProofsBase.
From Coq Require Import Lia.
Open Scope N_scope.

Definition ext_errors (s s' : lstate) : Prop := exists es, ls_errors s' = ls_errors s ++ es.

Lemma ext_refl : forall s, ext_errors s s.
Proof. intros s. exists []. rewrite app_nil_r. reflexivity. Qed.
Lemma ext_trans : forall a b c, ext_errors a b -> ext_errors b c -> ext_errors a c.
Proof. intros a b c [e1 H1] [e2 H2]. exists (e1 ++ e2). rewrite H2, H1, app_assoc. reflexivity. Qed.
Lemma ext_add_error : forall s k f, ext_errors s (add_error s k f).
Proof. intros. eexists. reflexivity. Qed.
Lemma ext_nonempty : forall s s', ext_errors s s' -> ls_errors s <> [] -> ls_errors s' <> [].
Proof. intros s s' [es H] Hn. rewrite H. destruct (ls_errors s); [congruence|discriminate]. Qed.

Lemma merge_target_errors : forall f s l src, ls_errors (merge_target f s l src) = ls_errors s.
Proof.
  intros. unfold merge_target. destruct (ls_hard s); [reflexivity|].
  destruct (get_loc l (ls_data s)); [|reflexivity].
  destruct (merge_with_path j src (f_mergepath f)) as [[a' ch]|]; [destruct ch|]; reflexivity.
Qed.
Lemma fold_merge_target_errors : forall f src targets s,
  ls_errors (fold_left (fun s l => merge_target f s l src) targets s) = ls_errors s.
Proof. induction targets as [|l r IH]; intros s; simpl; [reflexivity|]. rewrite IH. apply merge_target_errors. Qed.
Lemma merge_pairwise_errors : forall f ls batch s, ls_errors (merge_pairwise f s ls batch) = ls_errors s.
Proof.
  induction ls as [|l ls IH]; intros batch s; simpl; [reflexivity|].
  destruct batch; [reflexivity|]. rewrite IH. apply merge_target_errors.
Qed.
Lemma merge_buckets_errors : forall f bs batch s, ls_errors (merge_buckets f s bs batch) = ls_errors s.
Proof.
  induction bs as [|b bs IH]; intros batch s; simpl; [reflexivity|].
  destruct batch; [reflexivity|]. rewrite IH. apply fold_merge_target_errors.
Qed.

Lemma ext_of_eq : forall s s', ls_errors s' = ls_errors s -> ext_errors s s'.
Proof. intros s s' H. exists []. rewrite app_nil_r. exact H. Qed.

Ltac ext_solve :=
  first [ apply ext_refl
        | apply ext_add_error
        | apply ext_of_eq; first [apply merge_target_errors | apply merge_pairwise_errors | apply merge_buckets_errors | reflexivity]
        | eapply ext_trans; [apply ext_add_error|]; ext_solve
        | eapply ext_trans; [|apply ext_add_error]; ext_solve ].

Lemma merge_result_ext : forall f res items batch s, ext_errors s (merge_result f res items batch s).
Proof.
  intros f res items batch s. unfold merge_result.
  destruct (rs_err res); [ext_solve|].
  destruct (rs_body res) as [| |resp]; [ext_solve|destruct (non2xx (rs_status res)); ext_solve|].
  set (he := match get_loc [PName k_errors] resp with Some (JArr (_ :: _)) => true | _ => false end).
  set (s1 := if he then add_error s LE_FETCH f else s).
  assert (H1 : ext_errors s s1) by (subst s1; destruct he; ext_solve).
  eapply ext_trans; [exact H1|]. clearbody s1. clear H1.
  destruct (is_nullish (get_loc (f_datapath f) resp)).
  - destruct (is_entity_kind (f_kind f) && _); [ext_solve|].
    destruct (negb he && non2xx (rs_status res)); [ext_solve|]. destruct (negb he); ext_solve.
  - destruct (get_loc (f_datapath f) resp) as [rd|]; [|ext_solve].
    destruct items as [|l [|l2 r]].
    + destruct rd; ext_solve.
    + destruct batch as [bs|].
      * destruct rd as [| | | |[|b0 b]|]; try ext_solve. destruct (Nat.eqb _ _); ext_solve.
      * ext_solve.
    + destruct rd as [| | | |[|b0 b]|]; try ext_solve.
      destruct batch as [bs|]; destruct (Nat.eqb _ _); ext_solve.
Qed.

Section Mono.
  Variable St : Type.
  Variable e : St -> request -> response * St.

  Lemma run_fetch_ext : forall f s x, ext_errors s (fst (run_fetch St e f (s, x))).
  Proof.
    intros f s x. unfold run_fetch.
    destruct (should_skip f s); [apply ext_of_eq; reflexivity|].
    destruct (prepare f (ls_data s) (select_items (ls_data s) (f_path f))) as [d|d rq batch]; [apply ext_of_eq; reflexivity|].
    destruct (e x rq) as [res x']. cbn [fst].
    eapply ext_trans; [|apply merge_result_ext].
    destruct (rs_err res); apply ext_of_eq; reflexivity.
  Qed.

  Lemma run_tree_ext : forall t s x, ext_errors s (fst (run_tree St e t (s, x))).
  Proof.
    fix IH 1. intros t; destruct t as [f|l|l]; intros s x.
    - apply run_fetch_ext.
    - simpl. revert s x. induction l as [|t r IHl]; intros s x; [apply ext_refl|].
      specialize (IH t s x). destruct (run_tree St e t (s, x)) as [s1 y1]. cbn [fst] in *.
      destruct (ls_hard s1); [exact IH|]. eapply ext_trans; [exact IH|apply IHl].
    - simpl. revert s x. induction l as [|t r IHl]; intros s x; [apply ext_refl|].
      specialize (IH t s x). destruct (run_tree St e t (s, x)) as [s1 y1]. cbn [fst] in *.
      eapply ext_trans; [exact IH|apply IHl].
  Qed.
End Mono.
