(* C07: errors only grow along a run; a loud fault on a requested fetch leaves an error. *)
From Gv Require Import lib.Bytes lib.Json C02.Model C07.Model C07.Spec C07.ProofsBase.
From Coq Require Import Lia PeanoNat.
Open Scope N_scope.

Definition ext_errors (s s' : lstate) : Prop := exists es, ls_errors s' = ls_errors s ++ es.

Lemma ext_refl : forall s, ext_errors s s.
Proof. intros s. exists []. rewrite app_nil_r. reflexivity. Qed.
Lemma ext_trans : forall a b c, ext_errors a b -> ext_errors b c -> ext_errors a c.
Proof. intros a b c [e1 H1] [e2 H2]. exists (e1 ++ e2). rewrite H2, H1, app_assoc. reflexivity. Qed.
Lemma ext_add_error : forall s k f, ext_errors s (add_error s k f).
Proof. intros. eexists. reflexivity. Qed.
Lemma ext_nonempty : forall s s', ext_errors s s' -> ls_errors s <> [] -> ls_errors s' <> [].
Proof. intros s s' [es H] Hn. rewrite H. destruct (ls_errors s); [congruence|discriminate]. Qed.

Lemma merge_target_errors : forall f s l src, ls_errors (merge_target f s l src) = ls_errors s.
Proof.
  intros. unfold merge_target. destruct (ls_hard s); [reflexivity|].
  destruct (get_loc l (ls_data s)); [|reflexivity].
  destruct (merge_with_path j src (f_mergepath f)) as [[a' ch]|]; [destruct ch|]; reflexivity.
Qed.
Lemma fold_merge_target_errors : forall f src targets s,
  ls_errors (fold_left (fun s l => merge_target f s l src) targets s) = ls_errors s.
Proof. induction targets as [|l r IH]; intros s; simpl; [reflexivity|]. rewrite IH. apply merge_target_errors. Qed.
Lemma merge_pairwise_errors : forall f ls batch s, ls_errors (merge_pairwise f s ls batch) = ls_errors s.
Proof.
  induction ls as [|l ls IH]; intros batch s; simpl; [reflexivity|].
  destruct batch; [reflexivity|]. rewrite IH. apply merge_target_errors.
Qed.
Lemma merge_buckets_errors : forall f bs batch s, ls_errors (merge_buckets f s bs batch) = ls_errors s.
Proof.
  induction bs as [|b bs IH]; intros batch s; simpl; [reflexivity|].
  destruct batch; [reflexivity|]. rewrite IH. apply fold_merge_target_errors.
Qed.

Lemma ext_of_eq : forall s s', ls_errors s' = ls_errors s -> ext_errors s s'.
Proof. intros s s' H. exists []. rewrite app_nil_r. exact H. Qed.

(* case analysis of mergeResult: every branch *)
Ltac mr_cases :=
  unfold merge_result;
  repeat match goal with
         | |- context [if ?b then _ else _] => destruct b
         | |- context [match ?x with _ => _ end] => destruct x
         end.

Ltac ext_solve :=
  unfold ext_errors;
  rewrite ?merge_target_errors, ?merge_pairwise_errors, ?merge_buckets_errors;
  cbn [ls_errors fail add_error add_errored set_data];
  first [ exists []; rewrite app_nil_r; reflexivity
        | eexists; rewrite <- ?app_assoc; reflexivity ].

Lemma merge_result_ext : forall f res items batch s, ext_errors s (merge_result f res items batch s).
Proof. intros f res items batch s. mr_cases; ext_solve. Qed.

Section Mono.
  Variable St : Type.
  Variable e : St -> request -> response * St.

  Lemma run_fetch_ext : forall f s x, ext_errors s (fst (run_fetch St e f (s, x))).
  Proof.
    intros f s x. unfold run_fetch.
    destruct (should_skip f s); [apply ext_of_eq; reflexivity|].
    destruct (prepare f (ls_data s) (select_items (ls_data s) (f_path f))) as [d|d rq batch]; [apply ext_of_eq; reflexivity|].
    destruct (e x rq) as [res x']. cbn [fst].
    eapply ext_trans; [|apply merge_result_ext].
    destruct (rs_err res); apply ext_of_eq; reflexivity.
  Qed.

  Lemma run_tree_ext : forall t s x, ext_errors s (fst (run_tree St e t (s, x))).
  Proof.
    fix IH 1. intros t; destruct t as [f|l|l]; intros s x.
    - apply run_fetch_ext.
    - simpl. revert s x. induction l as [|t r IHl]; intros s x; [apply ext_refl|].
      specialize (IH t s x). destruct (run_tree St e t (s, x)) as [s1 y1]. cbn [fst] in *.
      destruct (ls_hard s1); [exact IH|]. eapply ext_trans; [exact IH|apply IHl].
    - simpl. revert s x. induction l as [|t r IHl]; intros s x; [apply ext_refl|].
      specialize (IH t s x). destruct (run_tree St e t (s, x)) as [s1 y1]. cbn [fst] in *.
      eapply ext_trans; [exact IH|apply IHl].
  Qed.
End Mono.

(* ---- loud faults ---- *)
Lemma app_one_nonempty : forall {A} (l : list A) x, l ++ [x] <> [].
Proof. intros A l x H. apply app_eq_nil in H as [_ H]. discriminate. Qed.

Lemma fetch_wf_inv : forall kind_of f, fetch_wf kind_of f = true ->
  kind_of (f_id f) = f_kind f /\ f_datapath f = datapath_of (f_kind f).
Proof.
  intros kind_of f H. unfold fetch_wf in H. apply andb_prop in H as [H1 H2]. split.
  - destruct (kind_of (f_id f)), (f_kind f); try discriminate; reflexivity.
  - revert H2. generalize (datapath_of (f_kind f)). generalize (f_datapath f).
    induction r as [|[x|x] a IH]; intros [|[y|y] b] H; try discriminate; try reflexivity.
    + apply andb_prop in H as [H1' H2']. apply bytes_eqb_true in H1'. subst. f_equal. apply IH. exact H2'.
    + apply andb_prop in H as [H1' H2']. apply N.eqb_eq in H1'. subst. f_equal. apply IH. exact H2'.
Qed.

Lemma fetch_wfF_inv : forall kind_of F f, fetch_wfF kind_of F f = true ->
  kind_of (f_id f) = f_kind f /\ f_datapath f = datapath_of (f_kind f) /\
  (forall k, F (f_id f) = Some k -> plain_merge_kind k = true -> mp_empty f = true).
Proof.
  intros kind_of F f H. unfold fetch_wfF in H. apply andb_prop in H as [H1 H2].
  destruct (fetch_wf_inv _ _ H1) as [A B]. split; [exact A|split; [exact B|]].
  intros k E P. unfold fault_fits in H2. rewrite E, P in H2. exact H2.
Qed.
Lemma fetch_wfF_wf : forall kind_of F t, forallb (fetch_wfF kind_of F) t = true -> forallb (fetch_wf kind_of) t = true.
Proof.
  intros kind_of F t H. rewrite forallb_forall in *. intros f Hin. specialize (H f Hin).
  unfold fetch_wfF in H. apply andb_prop in H as [H _]. exact H.
Qed.

Lemma fetch_wfF_join : forall kind_of F t, forallb (fetch_wf kind_of) t = true -> forallb (fault_fits F) t = true ->
  forallb (fetch_wfF kind_of F) t = true.
Proof.
  intros kind_of F t H1 H2. rewrite forallb_forall in *. intros f Hin. unfold fetch_wfF. rewrite (H1 f Hin), (H2 f Hin). reflexivity.
Qed.

Definition loud_body (k : fault) : bool :=
  match k with
  | FtTransport | FtStatusEmpty | FtStatusText | FtStatusErrors | FtEmpty | FtNonJSON | FtTruncated | FtNaNBody
  | FtErrorsNoData | FtErrorsNullData | FtNullData => true
  | _ => false
  end.

Lemma loud_body_error : forall f k r items batch s,
  f_datapath f = datapath_of (f_kind f) -> loud_body k = true ->
  ls_errors (merge_result f (apply_fault k r) items batch s) <> [] /\
  ls_data (merge_result f (apply_fault k r) items batch s) = ls_data s /\
  In (f_id f) (ls_errored (merge_result f (apply_fault k r) items batch s)).
Proof.
  intros f k r items batch s Hd Hk.
  destruct k; try discriminate; unfold merge_result, apply_fault, mk_response; cbn [rs_err rs_body rs_status];
    try (split; [apply app_one_nonempty|split; [reflexivity|cbn; auto]]);
    rewrite Hd; destruct (f_kind f); cbn; (split; [apply app_one_nonempty|split; [reflexivity|auto]]).
Qed.

Lemma count_body : forall answer root_answer rq g,
  rs_body (on_body (map_entities g) (clean_response answer root_answer rq false)) =
  BJson (JObj ((k_data, JObj [(k_entities, JArr (g (map fst (map (answer (rq_fetch rq)) (rq_reps rq)))))])
               :: errors_member (flat_map snd (map (answer (rq_fetch rq)) (rq_reps rq))))).
Proof.
  intros. unfold on_body, clean_response. cbn [rs_body]. unfold map_entities. cbn [map fst snd].
  change (bytes_eqb k_data k_data) with true. cbv iota. cbn [map fst snd].
  change (bytes_eqb k_entities k_entities) with true. cbv iota. f_equal. f_equal. f_equal.
  unfold errors_member. destruct (flat_map snd (map (answer (rq_fetch rq)) (rq_reps rq))); reflexivity.
Qed.

Lemma fail_errors_ne : forall s k f, ls_errors (fail s k f) <> [].
Proof. intros. cbn. apply app_one_nonempty. Qed.

(* a wrong `_entities` count (entity and batch fetches): an error, nothing merged *)
Lemma count_outcome : forall answer root_answer f k rq items batch s,
  f_datapath f = datapath_of (f_kind f) -> (k = FtCountLess \/ k = FtCountMore) -> rq_reps rq <> [] ->
  (f_kind f = FEntity /\ length (rq_reps rq) = 1%nat \/
   f_kind f = FBatch /\ exists bs : list (list rpath), batch = Some bs /\ length bs = length (rq_reps rq)) ->
  ls_errors (merge_result f (apply_fault k (clean_response answer root_answer rq false)) items batch s) <> [] /\
  ls_data (merge_result f (apply_fault k (clean_response answer root_answer rq false)) items batch s) = ls_data s /\
  In (f_id f) (ls_errored (merge_result f (apply_fault k (clean_response answer root_answer rq false)) items batch s)).
Proof.
  intros answer root_answer f k rq items batch s Hd Hk Hne Hkind.
  remember (map fst (map (answer (rq_fetch rq)) (rq_reps rq))) as ents eqn:Hents.
  assert (Hlen : length ents = length (rq_reps rq)) by (subst ents; rewrite !map_length; reflexivity).
  assert (Hpos : (0 < length (rq_reps rq))%nat) by (destruct (rq_reps rq); [congruence|simpl; lia]).
  assert (Hne' : ents <> []) by (intro E; rewrite E in Hlen; simpl in Hlen; lia).
  assert (exists g, apply_fault k (clean_response answer root_answer rq false) = on_body (map_entities g) (clean_response answer root_answer rq false)
                    /\ length (g ents) <> length (rq_reps rq)) as (g & Hg & Hgl).
  { destruct Hk; subst k.
    - eexists; split; [reflexivity|]. cbv beta.
      pose proof (app_removelast_last JNull Hne') as H.
      apply (f_equal (@length json)) in H. rewrite app_length in H. simpl in H. lia.
    - eexists; split; [reflexivity|]. cbv beta. destruct (rev ents) as [|x r] eqn:E.
      + apply (f_equal (@length json)) in E. rewrite rev_length in E. simpl in E. lia.
      + rewrite app_length. simpl. lia. }
  rewrite Hg. unfold merge_result.
  assert (He : rs_err (on_body (map_entities g) (clean_response answer root_answer rq false)) = false) by reflexivity.
  rewrite He, count_body. rewrite <- Hents.
  set (errs := errors_member (flat_map snd (map (answer (rq_fetch rq)) (rq_reps rq)))).
  set (resp := JObj ((k_data, JObj [(k_entities, JArr (g ents))]) :: errs)).
  destruct (negb (valid_numbers resp)).
  { destruct (non2xx _); (split; [apply fail_errors_ne|split; [reflexivity|left; reflexivity]]). }
  assert (Hent : get_loc [PName k_data; PName k_entities] resp = Some (JArr (g ents))).
  { subst resp. cbn [get_loc obj_get]. change (bytes_eqb k_data k_data) with true. cbv iota.
    cbn [get_loc obj_get]. change (bytes_eqb k_entities k_entities) with true. reflexivity. }
  rewrite Hent.
  set (s1 := if match get_loc [PName k_errors] resp with Some (JArr (_ :: _)) => true | _ => false end then add_error s LE_FETCH f else s).
  assert (H1 : ls_data s1 = ls_data s) by (subst s1; match goal with |- ls_data (if ?c then _ else _) = _ => destruct c end; reflexivity).
  destruct Hkind as [[Hk1 Hl1]|[Hk2 (bs & -> & Hbl)]].
  - rewrite Hk1. destruct (Nat.eqb (length (g ents)) 1) eqn:E.
    + apply Nat.eqb_eq in E. lia.
    + cbn [negb]. split; [apply fail_errors_ne|split; [exact H1|left; reflexivity]].
  - rewrite Hk2. rewrite Hd, Hk2. change (datapath_of FBatch) with [PName k_data; PName k_entities]. rewrite Hent. cbn [is_nullish].
    destruct items as [|l [|l2 r]].
    + split; [apply fail_errors_ne|split; [exact H1|left; reflexivity]].
    + destruct (g ents) as [|b0 b] eqn:G; [split; [apply fail_errors_ne|split; [exact H1|left; reflexivity]]|].
      destruct (wrong_kind_batch f (b0 :: b)); [split; [apply fail_errors_ne|split; [exact H1|left; reflexivity]]|].
      destruct (Nat.eqb (length bs) (length (b0 :: b))) eqn:E; [|split; [apply fail_errors_ne|split; [exact H1|left; reflexivity]]].
      apply Nat.eqb_eq in E. lia.
    + destruct (g ents) as [|b0 b] eqn:G; [split; [apply fail_errors_ne|split; [exact H1|left; reflexivity]]|].
      destruct (wrong_kind_batch f (b0 :: b)); [split; [apply fail_errors_ne|split; [exact H1|left; reflexivity]]|].
      destruct (Nat.eqb (length bs) (length (b0 :: b))) eqn:E; [|split; [apply fail_errors_ne|split; [exact H1|left; reflexivity]]].
      apply Nat.eqb_eq in E. lia.
Qed.

(* NaN inside data (numbers as NaN and a NaN member in the data object): the body does not count as JSON *)
Lemma nan_outcome : forall f r items batch s d rest,
  rs_err r = false -> rs_body r = BJson (JObj ((k_data, JObj d) :: rest)) ->
  ls_errors (merge_result f (apply_fault FtNaNData r) items batch s) <> [] /\
  ls_data (merge_result f (apply_fault FtNaNData r) items batch s) = ls_data s /\
  In (f_id f) (ls_errored (merge_result f (apply_fault FtNaNData r) items batch s)).
Proof.
  intros f r items batch s d rest He Hb. unfold merge_result, apply_fault, on_body. cbn [rs_err rs_body rs_status]. rewrite He, Hb.
  unfold map_data. cbn [map fst snd]. change (bytes_eqb k_data k_data) with true. cbv iota.
  match goal with |- context [valid_numbers ?j] => assert (Hv : valid_numbers j = false) end.
  { cbn [nanify]. cbn. reflexivity. }
  rewrite Hv. cbn [negb]. destruct (non2xx _); (split; [apply fail_errors_ne|split; [reflexivity|left; reflexivity]]).
Qed.

(* ---- requests are only appended ---- *)
Lemma merge_target_reqs : forall f s l src, ls_reqs (merge_target f s l src) = ls_reqs s.
Proof.
  intros. unfold merge_target. destruct (ls_hard s); [reflexivity|].
  destruct (get_loc l (ls_data s)); [|reflexivity].
  destruct (merge_with_path j src (f_mergepath f)) as [[a' ch]|]; [destruct ch|]; reflexivity.
Qed.
Lemma fold_merge_target_reqs : forall f src targets s,
  ls_reqs (fold_left (fun s l => merge_target f s l src) targets s) = ls_reqs s.
Proof. induction targets as [|l r IH]; intros s; simpl; [reflexivity|]. rewrite IH. apply merge_target_reqs. Qed.
Lemma merge_pairwise_reqs : forall f ls batch s, ls_reqs (merge_pairwise f s ls batch) = ls_reqs s.
Proof.
  induction ls as [|l ls IH]; intros batch s; simpl; [reflexivity|].
  destruct batch; [reflexivity|]. rewrite IH. apply merge_target_reqs.
Qed.
Lemma merge_buckets_reqs : forall f bs batch s, ls_reqs (merge_buckets f s bs batch) = ls_reqs s.
Proof.
  induction bs as [|b bs IH]; intros batch s; simpl; [reflexivity|].
  destruct batch; [reflexivity|]. rewrite IH. apply fold_merge_target_reqs.
Qed.

Ltac reqs_solve := first [ reflexivity | apply merge_target_reqs | apply merge_pairwise_reqs | apply merge_buckets_reqs ].

Lemma merge_result_reqs : forall f res items batch s, ls_reqs (merge_result f res items batch s) = ls_reqs s.
Proof.
  intros f res items batch s. mr_cases; rewrite ?merge_target_reqs, ?merge_pairwise_reqs, ?merge_buckets_reqs; reflexivity.
Qed.

Lemma prepare_request : forall f d items d' rq b, prepare f d items = PLoad d' rq b ->
  rq_fetch rq = f_id f /\
  (f_kind f = FBatch -> exists bs : list (bytes * list rpath), bs <> [] /\ rq_reps rq = map fst bs /\ b = Some (map snd bs)) /\
  (f_kind f = FEntity -> length (rq_reps rq) = 1%nat).
Proof.
  intros f d items d' rq b H. unfold prepare in H. destruct (f_kind f) eqn:K.
  - assert (rq = mk_request f []).
    { destruct items as [|l [|l2 r]]; try (inversion H; reflexivity).
      destruct (get_loc l d) as [[| | | | |]|]; inversion H; reflexivity. }
    subst rq. split; [reflexivity|split; discriminate].
  - destruct (render_rep (f_rep f) (items_data d items)) as [v' [bts|]]; [|discriminate].
    destruct (bytes_eqb bts b_null || bytes_eqb bts b_empty_obj); [discriminate|]. inversion H; subst. split; [reflexivity|split; [discriminate|reflexivity]].
  - destruct (batch_prepare (f_rep f) items d []) as [d2 bs] eqn:B. destruct bs as [|b0 bs']; [discriminate|].
    inversion H; subst. split; [reflexivity|]. split; [|discriminate]. intros _. exists (b0 :: bs'). split; [discriminate|split; reflexivity].
Qed.

(* a batch fetch that loads has items *)
Lemma prepare_batch_items : forall f d items d' rq b, prepare f d items = PLoad d' rq b -> f_kind f = FBatch -> items <> [].
Proof.
  intros f d items d' rq b H K E. subst items. unfold prepare in H. rewrite K in H. cbn in H. discriminate.
Qed.

(* the selected data path of an entity / batch entity fetch holds null, a value of the wrong kind or
   nothing (with or without errors, 200 or 500): never "no entity found" -- an error (or the subgraph's
   own errors), nothing merged, the fetch recorded as failed *)
Lemma shape_outcome : forall f sh we s5 r items batch s,
  f_datapath f = datapath_of (f_kind f) ->
  (f_kind f = FEntity \/ (f_kind f = FBatch /\ items <> [] /\ batch <> None)) ->
  ls_errors (merge_result f (apply_fault (FtShape sh we s5) r) items batch s) <> [] /\
  ls_data (merge_result f (apply_fault (FtShape sh we s5) r) items batch s) = ls_data s /\
  In (f_id f) (ls_errored (merge_result f (apply_fault (FtShape sh we s5) r) items batch s)).
Proof.
  intros f sh we s5 r items batch s Hd Hk.
  unfold merge_result, apply_fault, mk_response; cbn [rs_err rs_body rs_status]. rewrite Hd.
  destruct Hk as [K|(K & Hi & Hb)]; rewrite K.
  - destruct sh, we, s5; cbn; (split; [apply app_one_nonempty|split; [reflexivity|auto]]).
  - destruct items as [|l [|l2 rest]]; [congruence| |]; (destruct batch as [bs|]; [|congruence]);
      destruct sh, we, s5; cbn; (split; [apply app_one_nonempty|split; [reflexivity|auto]]).
Qed.

Ltac fin3 := (split; [apply app_one_nonempty|split; [reflexivity|cbn; auto]]).

(* `data` itself a string / number / list on a root fetch (mergeableData, eb6ed70): reported, nothing merged *)
Lemma data_kind_outcome : forall f sh we s5 r items batch s,
  f_datapath f = datapath_of (f_kind f) -> f_kind f = FSingle -> mp_empty f = true ->
  (sh = ShDataStr \/ sh = ShDataNum \/ sh = ShDataArr) ->
  ls_errors (merge_result f (apply_fault (FtShape sh we s5) r) items batch s) <> [] /\
  ls_data (merge_result f (apply_fault (FtShape sh we s5) r) items batch s) = ls_data s /\
  In (f_id f) (ls_errored (merge_result f (apply_fault (FtShape sh we s5) r) items batch s)).
Proof.
  intros f sh we s5 r items batch s Hd K Hmp Hsh.
  unfold merge_result, apply_fault, mk_response; cbn [rs_err rs_body rs_status]. rewrite Hd, K.
  destruct Hsh as [ -> | [ -> | -> ] ]; destruct we, s5; destruct items as [|l [|l2 rest]]; destruct batch as [bs|];
    cbn; unfold wrong_kind_single; rewrite ?Hmp; cbn; fin3.
Qed.

Lemma items_body : forall answer root_answer rq ik we s5,
  apply_fault (FtItems ik we s5) (clean_response answer root_answer rq false) =
  mk_response (st_of s5)
    (BJson (JObj ((k_data, JObj [(k_entities, JArr (repeat (item_of ik) (length (rq_reps rq))))]) :: boom_member we)))
    (clean_response answer root_answer rq false).
Proof.
  intros. unfold apply_fault, clean_response. cbn [rs_body]. unfold entities_count.
  cbn [get_loc obj_get]. change (bytes_eqb k_data k_data) with true. cbv iota.
  cbn [get_loc obj_get]. change (bytes_eqb k_entities k_entities) with true. cbv iota.
  cbn [get_loc]. rewrite !map_length. reflexivity.
Qed.

(* `_entities` of the right length whose items are numbers / strings / lists (mergeableData, eb6ed70) *)
Lemma items_outcome : forall answer root_answer f ik we s5 rq items batch s,
  f_datapath f = datapath_of (f_kind f) -> mp_empty f = true ->
  (f_kind f = FEntity \/ (f_kind f = FBatch /\ items <> [] /\ batch <> None)) ->
  ls_errors (merge_result f (apply_fault (FtItems ik we s5) (clean_response answer root_answer rq false)) items batch s) <> [] /\
  ls_data (merge_result f (apply_fault (FtItems ik we s5) (clean_response answer root_answer rq false)) items batch s) = ls_data s /\
  In (f_id f) (ls_errored (merge_result f (apply_fault (FtItems ik we s5) (clean_response answer root_answer rq false)) items batch s)).
Proof.
  intros answer root_answer f ik we s5 rq items batch s Hd Hmp Hk. rewrite items_body.
  generalize (length (rq_reps rq)). intros n.
  unfold merge_result, mk_response; cbn [rs_err rs_body rs_status].
  match goal with |- context [valid_numbers ?j] => destruct (negb (valid_numbers j)) end.
  { destruct (non2xx _); (split; [apply fail_errors_ne|split; [reflexivity|left; reflexivity]]). }
  rewrite Hd. destruct Hk as [K|(K & Hi & Hb)]; rewrite K.
  - destruct n as [|[|n]]; destruct ik, we, s5; destruct items as [|l [|l2 rest]]; destruct batch as [bs|];
      cbn; unfold wrong_kind_single; rewrite ?Hmp; cbn; fin3.
  - destruct items as [|l [|l2 rest]]; [congruence| |]; (destruct batch as [bs|]; [|congruence]);
      destruct n as [|n]; destruct ik, we, s5; cbn; unfold wrong_kind_batch; rewrite ?Hmp; cbn; fin3.
Qed.

(* every loud fault on a loaded fetch: at least one error, nothing merged *)
Lemma loud_outcome : forall answer root_answer f k d0 d rq batch items s,
  (forall id, exists m, fst (root_answer id) = JObj m) ->
  f_datapath f = datapath_of (f_kind f) -> loud (f_kind f) k = true ->
  (plain_merge_kind k = true -> mp_empty f = true) ->
  prepare f d0 items = PLoad d rq batch ->
  let res := apply_fault k (clean_response answer root_answer rq match f_kind f with FSingle => true | _ => false end) in
  ls_errors (merge_result f res items batch s) <> [] /\ ls_data (merge_result f res items batch s) = ls_data s /\
  In (f_id f) (ls_errored (merge_result f res items batch s)).
Proof.
  intros answer root_answer f k d0 d rq batch items s Hrobj Hd Hloud Hmpk HP. cbv zeta.
  destruct (prepare_request _ _ _ _ _ _ HP) as (Hrq & Hb & He).
  destruct (loud_body k) eqn:LB; [apply loud_body_error; assumption|].
  destruct k; try discriminate; simpl in Hloud.
  - (* count less *)
    destruct (f_kind f) eqn:K; [discriminate| |].
    + apply count_outcome; [rewrite Hd, K; reflexivity|left; reflexivity| |left; split; [exact K|exact (He eq_refl)]].
      specialize (He eq_refl). destruct (rq_reps rq); [discriminate|discriminate].
    + destruct (Hb eq_refl) as (bs & Hne & Hreps & Hbatch). subst batch.
      apply count_outcome; [rewrite Hd, K; reflexivity|left; reflexivity| |right; split; [exact K|]].
      * rewrite Hreps. destruct bs; [congruence|discriminate].
      * exists (map snd bs). split; [reflexivity|]. rewrite Hreps, !map_length. reflexivity.
  - (* count more *)
    destruct (f_kind f) eqn:K; [discriminate| |].
    + apply count_outcome; [rewrite Hd, K; reflexivity|right; reflexivity| |left; split; [exact K|exact (He eq_refl)]].
      specialize (He eq_refl). destruct (rq_reps rq); [discriminate|discriminate].
    + destruct (Hb eq_refl) as (bs & Hne & Hreps & Hbatch). subst batch.
      apply count_outcome; [rewrite Hd, K; reflexivity|right; reflexivity| |right; split; [exact K|]].
      * rewrite Hreps. destruct bs; [congruence|discriminate].
      * exists (map snd bs). split; [reflexivity|]. rewrite Hreps, !map_length. reflexivity.
  - (* NaN inside data *)
    destruct (f_kind f) eqn:K.
    + unfold clean_response. destruct (Hrobj (rq_fetch rq)) as (m & Hm).
      destruct (root_answer (rq_fetch rq)) as [dd errs] eqn:RA. simpl in Hm. subst dd.
      eapply nan_outcome; reflexivity.
    + unfold clean_response. eapply nan_outcome; reflexivity.
    + unfold clean_response. eapply nan_outcome; reflexivity.
  - (* the data path holds null / a wrong kind / nothing *)
    destruct (f_kind f) eqn:K.
    + assert (Hsh : sh = ShDataStr \/ sh = ShDataNum \/ sh = ShDataArr) by (destruct sh; try discriminate; auto).
      apply data_kind_outcome; [rewrite Hd, K; reflexivity|exact K| |exact Hsh].
      apply Hmpk. destruct Hsh as [ -> | [ -> | -> ] ]; reflexivity.
    + apply shape_outcome; [rewrite Hd, K; reflexivity|left; exact K].
    + apply shape_outcome; [rewrite Hd, K; reflexivity|right]. split; [exact K|]. split.
      * eapply prepare_batch_items; eassumption.
      * destruct (Hb eq_refl) as (bs & _ & _ & ->). discriminate.
  - (* `_entities` items of a wrong kind *)
    destruct (f_kind f) eqn:K; [discriminate| |].
    + apply items_outcome; [rewrite Hd, K; reflexivity|exact (Hmpk eq_refl)|left; exact K].
    + apply items_outcome; [rewrite Hd, K; reflexivity|exact (Hmpk eq_refl)|right]. split; [exact K|]. split.
      * eapply prepare_batch_items; eassumption.
      * destruct (Hb eq_refl) as (bs & _ & _ & ->). discriminate.
Qed.

Section Dichotomy.
  Variable answer : N -> bytes -> json * list json.
  Variable root_answer : N -> json * list json.
  Variable kind_of : N -> fkind.
  Variable F : N -> option fault.
  Hypothesis Hloud : forall id k, F id = Some k -> loud (kind_of id) k = true.
  Hypothesis Hrobj : forall id, exists m, fst (root_answer id) = JObj m.

  Let e0 := faulty_exchange answer root_answer kind_of no_faults.
  Let eF := faulty_exchange answer root_answer kind_of F.

  Definition unfaulted_new (s s' : lstate) : Prop :=
    forall rq, In rq (ls_reqs s') -> In rq (ls_reqs s) \/ F (rq_fetch rq) = None.

  Lemma unfaulted_refl : forall s, unfaulted_new s s.
  Proof. intros s rq H. left. exact H. Qed.
  Lemma unfaulted_trans : forall a b c, unfaulted_new a b -> unfaulted_new b c -> unfaulted_new a c.
  Proof. intros a b c H1 H2 rq H. destruct (H2 rq H) as [H3|H3]; [apply H1; exact H3|right; exact H3]. Qed.

  Lemma fetch_dich : forall f s, fetch_wfF kind_of F f = true ->
    (fst (run_fetch unit eF f (s, tt)) = fst (run_fetch unit e0 f (s, tt)) /\ unfaulted_new s (fst (run_fetch unit e0 f (s, tt))))
    \/ ls_errors (fst (run_fetch unit eF f (s, tt))) <> [].
  Proof.
    intros f s Hwf. destruct (fetch_wfF_inv _ _ _ Hwf) as (Hk & Hd & Hmpk). unfold run_fetch.
    destruct (should_skip f s); [left; split; [reflexivity|intros rq' H'; left; exact H']|].
    destruct (prepare f (ls_data s) (select_items (ls_data s) (f_path f))) as [d|d rq batch] eqn:P;
      [left; split; [reflexivity|intros rq' H'; left; exact H']|].
    destruct (prepare_request _ _ _ _ _ _ P) as (Hrq & Hb & Hent).
    unfold eF, e0, faulty_exchange, no_faults. rewrite Hrq, Hk.
    destruct (F (f_id f)) as [k|] eqn:EF.
    - right. cbn [fst]. specialize (Hloud _ _ EF). rewrite Hk in Hloud.
      apply (loud_outcome answer root_answer f k _ _ _ _ _ _ Hrobj Hd Hloud (Hmpk _ eq_refl) P).
    - left. cbn [fst]. split; [reflexivity|].
      intros rq' Hin. rewrite merge_result_reqs in Hin.
      assert (Hin' : In rq' (ls_reqs s ++ [rq])).
      { destruct (rs_err (clean_response answer root_answer rq match f_kind f with FSingle => true | _ => false end)); exact Hin. }
      apply in_app_or in Hin' as [H|[H|[]]]; [left; exact H|right]. subst rq'. rewrite Hrq. exact EF.
  Qed.

  Lemma tree_dich : forall t s, forallb (fetch_wfF kind_of F) (fetches_of t) = true ->
    (fst (run_tree unit eF t (s, tt)) = fst (run_tree unit e0 t (s, tt)) /\ unfaulted_new s (fst (run_tree unit e0 t (s, tt))))
    \/ ls_errors (fst (run_tree unit eF t (s, tt))) <> [].
  Proof.
    fix IH 1. intros t; destruct t as [f|l|l]; intros s Hwf.
    - simpl in Hwf. rewrite andb_true_r in Hwf. apply fetch_dich; exact Hwf.
    - simpl. simpl in Hwf. revert s Hwf. induction l as [|t r IHl]; intros s Hwf; [left; split; [reflexivity|apply unfaulted_refl]|].
      rewrite forallb_app in Hwf. apply andb_prop in Hwf as [Hw1 Hw2].
      destruct (IH t s Hw1) as [[He Hu]|Hn].
      + destruct (run_tree unit eF t (s, tt)) as [sF []] eqn:RF. destruct (run_tree unit e0 t (s, tt)) as [s0 []] eqn:R0.
        cbn [fst] in *. subst sF. destruct (ls_hard s0); [left; split; [reflexivity|exact Hu]|].
        destruct (IHl s0 Hw2) as [[He2 Hu2]|Hn2]; [left; split; [exact He2|eapply unfaulted_trans; eassumption]|right; exact Hn2].
      + right. destruct (run_tree unit eF t (s, tt)) as [sF []] eqn:RF. cbn [fst] in *.
        destruct (ls_hard sF); [exact Hn|].
        eapply ext_nonempty; [|exact Hn].
        change (ext_errors sF (fst (run_tree unit eF (FTSeq r) (sF, tt)))). apply run_tree_ext.
    - simpl. simpl in Hwf. revert s Hwf. induction l as [|t r IHl]; intros s Hwf; [left; split; [reflexivity|apply unfaulted_refl]|].
      rewrite forallb_app in Hwf. apply andb_prop in Hwf as [Hw1 Hw2].
      destruct (IH t s Hw1) as [[He Hu]|Hn].
      + destruct (run_tree unit eF t (s, tt)) as [sF []] eqn:RF. destruct (run_tree unit e0 t (s, tt)) as [s0 []] eqn:R0.
        cbn [fst] in *. subst sF.
        destruct (IHl s0 Hw2) as [[He2 Hu2]|Hn2]; [left; split; [exact He2|eapply unfaulted_trans; eassumption]|right; exact Hn2].
      + right. destruct (run_tree unit eF t (s, tt)) as [sF []] eqn:RF. cbn [fst] in *.
        eapply ext_nonempty; [|exact Hn].
        change (ext_errors sF (fst (run_tree unit eF (FTPar r) (sF, tt)))). apply run_tree_ext.
  Qed.

  Theorem errors_nonempty_partial_proof : forall t,
    forallb (fetch_wfF kind_of F) (fetches_of t) = true ->
    (exists rq, In rq (ls_reqs (run answer root_answer kind_of no_faults t)) /\ F (rq_fetch rq) <> None) ->
    ls_errors (run answer root_answer kind_of F t) <> [].
  Proof.
    intros t Hwf (rq & Hin & Hf). unfold run, load in *.
    destruct (tree_dich t init_state Hwf) as [[He Hu]|Hn]; [|exact Hn].
    destruct (Hu rq Hin) as [[]|H]. congruence.
  Qed.
End Dichotomy.
