(* C07: concrete plans -- non-vacuity examples and refutation witnesses (all by vm_compute). *)
From Gv Require Import lib.Bytes lib.Json C02.Model C02.Spec C07.Model C07.ModelPreFix C07.Spec.
From Coq Require Import String Ascii.
Open Scope N_scope.
Open Scope string_scope.

Definition bs (s : string) : bytes := List.map (fun a => N_of_ascii a) (list_ascii_of_string s).

(* representation variable the planner builds: __typename + key (+ required fields), on type A *)
Definition rep_of (extra : list field) : node :=
  NObj [] true [] [] [] false
    ([Fld (bs "__typename") (Some [bs "A"]) None None (NStr [bs "__typename"] false);
      Fld (bs "id") (Some [bs "A"]) None None (NStr [bs "id"] false)] ++ extra)%list.

Definition single_fetch (id : N) (ds hdr : string) : fetch :=
  {| f_id := id; f_kind := FSingle; f_ds := bs ds; f_path := []; f_deps := []; f_rep := NNull;
     f_header := bs hdr; f_footer := []; f_datapath := [PName k_data]; f_mergepath := [] |}.
Definition entity_fetch (id : N) (ds hdr : string) (path : list string) (deps : list N) (rep : node) : fetch :=
  {| f_id := id; f_kind := FEntity; f_ds := bs ds; f_path := List.map (fun p => {| pe_path := [bs p]; pe_types := [] |}) path;
     f_deps := deps; f_rep := rep; f_header := bs hdr; f_footer := bs "]}";
     f_datapath := [PName k_data; PName k_entities; PIdx 0]; f_mergepath := [] |}.
Definition batch_fetch (id : N) (ds hdr : string) (path : list string) (deps : list N) (rep : node) : fetch :=
  {| f_id := id; f_kind := FBatch; f_ds := bs ds; f_path := List.map (fun p => {| pe_path := [bs p]; pe_types := [] |}) path;
     f_deps := deps; f_rep := rep; f_header := bs hdr; f_footer := bs "]}";
     f_datapath := [PName k_data; PName k_entities]; f_mergepath := [] |}.

Definition ent (id : string) : json := JObj [(bs "__typename", JStr (bs "A")); (bs "id", JStr (bs id))].

(* ---- plan 1: { a { x } l { y } }: root fetch, entity fetch for a.x, batch fetch for l[].y ---- *)
Definition p1_f0 := single_fetch 0 "s0" "{a{__typename id} l{__typename id}}".
Definition p1_f1 := entity_fetch 1 "s1" "{_entities(r:[" ["a"] [0] (rep_of []).
Definition p1_f2 := batch_fetch 2 "s1" "{_entities2(r:[" ["l"] [0] (rep_of []).
Definition p1_tree : ftree := FTSeq [FTSingle p1_f0; FTPar [FTSingle p1_f1; FTSingle p1_f2]].
Definition p1_kind (id : N) : fkind := match id with 0 => FSingle | 1 => FEntity | _ => FBatch end.
Definition p1_root : node :=
  NObj [] false (bs "Query") [] [] false
    [Fld (bs "a") None None None (NObj [bs "a"] true (bs "A") [] [] false [Fld (bs "x") None None None (NStr [bs "x"] true)]);
     Fld (bs "l") None None None (NArr [bs "l"] true (NObj [] true (bs "A") [] [] false [Fld (bs "y") None None None (NStr [bs "y"] false)]))].
Definition p1_root_answer (id : N) : json * list json :=
  (JObj [(bs "a", ent "1"); (bs "l", JArr [ent "1"; ent "2"; ent "1"])], []).
Definition p1_answer (id : N) (rep : bytes) : json * list json :=
  match id with
  | 1 => (JObj [(bs "__typename", JStr (bs "A")); (bs "x", JStr (bs "v"))], [])
  | _ => (JObj [(bs "__typename", JStr (bs "A")); (bs "y", JStr rep)], [])
  end.
Definition p1_run (F : N -> option fault) : lstate := run p1_answer p1_root_answer p1_kind F p1_tree.
Definition p1_out (F : N -> option fault) : outcome := finish p1_root (p1_run F).
Definition fault_at (id : N) (k : fault) : N -> option fault := fun i => if N.eqb i id then Some k else None.

Example p1_wf : forallb (fetch_wf p1_kind) (fetches_of p1_tree) = true /\ root_wf p1_root = true.
Proof. vm_compute. split; reflexivity. Qed.

(* fault free: three requests (the batch de-duplicates entity 1), no errors *)
Example p1_fault_free :
  List.map (fun rq => (rq_fetch rq, List.length (rq_reps rq))) (ls_reqs (p1_run no_faults)) = [(0, 0%nat); (1, 1%nat); (2, 2%nat)] /\
  ls_errors (p1_run no_faults) = [] /\ r_errors (o_resolved (p1_out no_faults)) = [] /\
  r_data (o_resolved (p1_out no_faults)) =
  bs "{""a"":{""x"":""v""},""l"":[{""y"":""{\""__typename\"":\""A\"",\""id\"":\""1\""}""},{""y"":""{\""__typename\"":\""A\"",\""id\"":\""2\""}""},{""y"":""{\""__typename\"":\""A\"",\""id\"":\""1\""}""}]}".
Proof. vm_compute. repeat split. Qed.

(* a transport error on the batch fetch: a.x untouched, the items of l nulled by propagation, one loader error *)
Example p1_transport :
  List.map le_kind (ls_errors (p1_run (fault_at 2 FtTransport))) = [LE_FETCH] /\
  r_data (o_resolved (p1_out (fault_at 2 FtTransport))) = bs "{""a"":{""x"":""v""},""l"":[null,null,null]}".
Proof. vm_compute. split; reflexivity. Qed.

(* HISTORICAL (the loader before work/c07_fix_entity-count-ignored.patch, ModelPreFix.v): errors_nonempty was
   false for the listed kind "wrong entity count" on a single-entity fetch: `_entities: []` was taken for
   "entity not found", nothing was reported *)
Lemma errors_nonempty_refuted_proof :
  exists answer root_answer kind_of t root F,
    forallb (fetch_wf kind_of) (fetches_of t) = true /\ root_wf root = true /\
    (exists rq, In rq (ls_reqs (run_v0 answer root_answer kind_of no_faults t)) /\ F (rq_fetch rq) = Some FtCountLess) /\
    let o := finish root (run_v0 answer root_answer kind_of F t) in
    o_failed o = false /\ o_lerrors o = [] /\ r_errors (o_resolved o) = [].
Proof.
  exists p1_answer, p1_root_answer, p1_kind, p1_tree, p1_root, (fault_at 1 FtCountLess).
  split; [vm_compute; reflexivity|]. split; [vm_compute; reflexivity|]. split.
  - eexists. split; [right; left; reflexivity|vm_compute; reflexivity].
  - vm_compute. repeat split.
Qed.
(* the repaired loader reports the count error *)
Example p1_count_less_repaired : List.map le_kind (ls_errors (p1_run (fault_at 1 FtCountLess))) = [LE_COUNT].
Proof. vm_compute. reflexivity. Qed.

(* ---- plan 2 (@requires through a nullable field): f1 provides a.r, f2 needs it in its representation ---- *)
Definition p2_f0 := single_fetch 0 "s0" "{a{__typename id}}".
Definition p2_f1 := entity_fetch 1 "s1" "{_entities(r:[" ["a"] [0] (rep_of []).
Definition p2_f2 (nullable : bool) :=
  entity_fetch 2 "s2" "{_entities(q:[" ["a"] [0; 1] (rep_of [Fld (bs "r") (Some [bs "A"]) None None (NStr [bs "r"] nullable)]).
Definition p2_tree (nullable : bool) : ftree := FTSeq [FTSingle p2_f0; FTSingle p2_f1; FTSingle (p2_f2 nullable)].
Definition p2_kind (id : N) : fkind := match id with 0 => FSingle | _ => FEntity end.
Definition p2_root_answer (id : N) : json * list json := (JObj [(bs "a", ent "1")], []).
Definition p2_answer (id : N) (rep : bytes) : json * list json :=
  match id with
  | 1 => (JObj [(bs "__typename", JStr (bs "A")); (bs "r", JStr (bs "req"))], [])
  | _ => (JObj [(bs "__typename", JStr (bs "A")); (bs "z", JStr (bs "zed"))], [])
  end.
Definition p2_run (nullable : bool) (F : N -> option fault) : lstate := run p2_answer p2_root_answer p2_kind F (p2_tree nullable).

(* with a non-null required field the dependent request is dropped ... *)
Example p2_nonnull_subset :
  requests_subset_b (ls_reqs (p2_run false no_faults)) (ls_reqs (p2_run false (fault_at 1 FtEmpty))) = true /\
  List.map rq_fetch (ls_reqs (p2_run false (fault_at 1 FtEmpty))) = [0; 1].
Proof. vm_compute. split; reflexivity. Qed.

(* HISTORICAL (before work/c07_fix_nullable-requires-null-sent.patch): with a nullable one it was sent with
   "r":null, a representation the fault-free run never sent, because only a transport error skipped dependants *)
Lemma requests_subset_refuted_proof :
  exists answer root_answer kind_of t F,
    forallb (fetch_wf kind_of) (fetches_of t) = true /\
    (forall id k, F id = Some k -> loud (kind_of id) k = true) /\
    requests_subset_b (ls_reqs (run_v0 answer root_answer kind_of no_faults t)) (ls_reqs (run_v0 answer root_answer kind_of F t)) = false.
Proof.
  exists p2_answer, p2_root_answer, p2_kind, (p2_tree true), (fault_at 1 FtEmpty).
  split; [vm_compute; reflexivity|]. split.
  - intros id k H. unfold fault_at in H. destruct (N.eqb id 1) eqn:E; [|discriminate]. inversion H. apply N.eqb_eq in E. subst. reflexivity.
  - vm_compute. reflexivity.
Qed.
Example p2_nullable_request_v0 :
  List.map (fun rq => (rq_fetch rq, rq_reps rq)) (ls_reqs (run_v0 p2_answer p2_root_answer p2_kind (fault_at 1 FtEmpty) (p2_tree true))) =
  [(0, []); (1, [bs "{""__typename"":""A"",""id"":""1""}"]); (2, [bs "{""__typename"":""A"",""id"":""1"",""r"":null}"])].
Proof. vm_compute. reflexivity. Qed.
(* the repaired loader skips the dependant after any failure of the provider *)
Example p2_nullable_repaired :
  List.map rq_fetch (ls_reqs (p2_run true (fault_at 1 FtEmpty))) = [0; 1] /\
  requests_subset_b (ls_reqs (p2_run true no_faults)) (ls_reqs (p2_run true (fault_at 1 FtEmpty))) = true.
Proof. vm_compute. split; reflexivity. Qed.

(* ---- the selected data path holds an explicit null / a wrong kind (seeded regression C07-m8) ----
   `{"data":{"_entities":null}}` for the entity fetch f1 resp. the batch fetch f2 of plan 1, status 200 and 500,
   with and without an errors entry: an error each time, the fetch is recorded; and on plan 2 (nullable input)
   the dependant f2 is not sent *)
Example p1_null_entities_list :
  List.map le_kind (ls_errors (p1_run (fault_at 1 (FtShape ShEntNull false false)))) = [LE_SHAPE] /\
  List.map le_kind (ls_errors (p1_run (fault_at 1 (FtShape ShEntNull false true)))) = [LE_STATUS] /\
  List.map le_kind (ls_errors (p1_run (fault_at 1 (FtShape ShEntNull true false)))) = [LE_FETCH] /\
  List.map le_kind (ls_errors (p1_run (fault_at 2 (FtShape ShEntNull false false)))) = [LE_SHAPE] /\
  List.map le_kind (ls_errors (p1_run (fault_at 2 (FtShape ShEntObj false true)))) = [LE_SHAPE] /\
  ls_errored (p1_run (fault_at 2 (FtShape ShEntNull true true))) = [2] /\
  List.map rq_fetch (ls_reqs (p2_run true (fault_at 1 (FtShape ShEntNull false false)))) = [0; 1].
Proof. vm_compute. repeat split; reflexivity. Qed.

(* HISTORICAL (before eb6ed70): `_entities` items of the wrong kind (a number where an object is expected) reached MergeValues,
   which fails with ErrMergeDifferentTypes; mergeResult returned it, ResolveGraphQLResponse failed and wrote nothing -- one bad
   answer of one subgraph was not isolated.  Also for `data` of the wrong kind on a root fetch. *)
Lemma wrong_kind_aborts_proof :
  exists answer root_answer kind_of t root F,
    forallb (fetch_wf kind_of) (fetches_of t) = true /\ root_wf root = true /\
    (exists rq ik we s5, In rq (ls_reqs (run_v0 answer root_answer kind_of no_faults t)) /\ F (rq_fetch rq) = Some (FtItems ik we s5)) /\
    o_failed (finish root (run_v0 answer root_answer kind_of F t)) = true.
Proof.
  exists p1_answer, p1_root_answer, p1_kind, p1_tree, p1_root, (fault_at 1 (FtItems IkNum false false)).
  split; [vm_compute; reflexivity|]. split; [vm_compute; reflexivity|]. split.
  - eexists; exists IkNum, false, false. split; [vm_compute; right; left; reflexivity|reflexivity].
  - vm_compute. reflexivity.
Qed.
Example p1_wrong_kind_variants_v0 :
  ls_hard (run_v0 p1_answer p1_root_answer p1_kind (fault_at 2 (FtItems IkStr true true)) p1_tree) = true /\
  ls_hard (run_v0 p1_answer p1_root_answer p1_kind (fault_at 1 (FtItems IkList false false)) p1_tree) = true /\
  ls_hard (run_v0 p1_answer p1_root_answer p1_kind (fault_at 0 (FtShape ShDataStr false false)) p1_tree) = true /\
  ls_hard (run_v0 p1_answer p1_root_answer p1_kind (fault_at 0 (FtShape ShDataArr false false)) p1_tree) = true.
Proof. vm_compute. repeat split; reflexivity. Qed.
(* the repaired loader (mergeableData): "no data or errors in response" for that fetch, the response is written, the fetch recorded *)
Example p1_wrong_kind_repaired :
  List.map le_kind (ls_errors (p1_run (fault_at 1 (FtItems IkNum false false)))) = [LE_SHAPE] /\
  List.map le_kind (ls_errors (p1_run (fault_at 2 (FtItems IkStr false true)))) = [LE_SHAPE] /\
  List.map le_kind (ls_errors (p1_run (fault_at 2 (FtItems IkList true false)))) = [LE_FETCH; LE_SHAPE] /\
  List.map le_kind (ls_errors (p1_run (fault_at 0 (FtShape ShDataStr false false)))) = [LE_SHAPE] /\
  ls_hard (p1_run (fault_at 0 (FtShape ShDataArr false true))) = false /\
  ls_errored (p1_run (fault_at 1 (FtItems IkList false false))) = [1] /\
  o_failed (p1_out (fault_at 1 (FtItems IkNum false false))) = false.
Proof. vm_compute. repeat split; reflexivity. Qed.

(* ---- plan 5 (a chain of nullable @requires inputs): f1 provides a.r, f2 needs r and provides a.g, f3 needs g
   and provides a.h.  f3 depends on f0 and f2 only: when f1 fails it is skipped only because the SKIPPED f2 was
   recorded as errored itself (shouldSkipErroredDependencyLocked) ---- *)
Definition p5_f0 := single_fetch 0 "s0" "{a{__typename id}}".
Definition p5_f1 := entity_fetch 1 "s1" "{_entities(r:[" ["a"] [0] (rep_of []).
Definition p5_f2 := entity_fetch 2 "s2" "{_entities(q:[" ["a"] [0; 1] (rep_of [Fld (bs "r") (Some [bs "A"]) None None (NStr [bs "r"] true)]).
Definition p5_f3 := entity_fetch 3 "s3" "{_entities(p:[" ["a"] [0; 2] (rep_of [Fld (bs "g") (Some [bs "A"]) None None (NStr [bs "g"] true)]).
Definition p5_tree : ftree := FTSeq [FTSingle p5_f0; FTPar [FTSingle p5_f1]; FTSingle p5_f2; FTSingle p5_f3].
Definition p5_kind (id : N) : fkind := match id with 0 => FSingle | _ => FEntity end.
Definition p5_answer (id : N) (rep : bytes) : json * list json :=
  match id with
  | 1 => (JObj [(bs "__typename", JStr (bs "A")); (bs "r", JStr (bs "req"))], [])
  | 2 => (JObj [(bs "__typename", JStr (bs "A")); (bs "g", JStr (bs "G"))], [])
  | _ => (JObj [(bs "__typename", JStr (bs "A")); (bs "h", JStr (bs "H"))], [])
  end.
Definition p5_run (F : N -> option fault) : lstate := run p5_answer p2_root_answer p5_kind F p5_tree.

Example p5_fault_free :
  List.map (fun rq => (rq_fetch rq, rq_reps rq)) (ls_reqs (p5_run no_faults)) =
  [(0, []); (1, [bs "{""__typename"":""A"",""id"":""1""}"]); (2, [bs "{""__typename"":""A"",""id"":""1"",""r"":""req""}"]);
   (3, [bs "{""__typename"":""A"",""id"":""1"",""g"":""G""}"])].
Proof. vm_compute. reflexivity. Qed.
(* every failure kind of f1: f2 and f3 send nothing, all three are recorded *)
Example p5_chain_skipped :
  forallb (fun k => match List.map rq_fetch (ls_reqs (p5_run (fault_at 1 k))) with
                    | [0; 1] => forallb (fun id => mem_n id (ls_errored (p5_run (fault_at 1 k)))) [1; 2; 3]
                    | _ => false
                    end)
          [FtTransport; FtStatusEmpty; FtStatusText; FtStatusErrors; FtEmpty; FtNonJSON; FtTruncated; FtNaNBody;
           FtErrorsNoData; FtErrorsNullData; FtNullData; FtNaNData; FtCountLess; FtCountMore] = true.
Proof. vm_compute. reflexivity. Qed.
(* what the recording in the skip is for: a loader that skips f2 without recording it would prepare f3, whose
   representation renders with the nullable input as null *)
Example p5_unrecorded_would_send :
  let s2 := fst (run_tree unit (faulty_exchange p5_answer p2_root_answer p5_kind (fault_at 1 FtEmpty))
                          (FTSeq [FTSingle p5_f0; FTSingle p5_f1]) (init_state, tt)) in
  ls_errored s2 = [1] /\ should_skip p5_f3 s2 = false /\
  match prepare p5_f3 (ls_data s2) (select_items (ls_data s2) (f_path p5_f3)) with
  | PLoad _ rq _ => rq_reps rq = [bs "{""__typename"":""A"",""id"":""1"",""g"":null}"]
  | PSkip _ => False
  end.
Proof. vm_compute. split; [reflexivity|]. split; reflexivity. Qed.

(* ---- plan 3: a subgraph body with NaN (astjson parses it as a number) is rendered verbatim ---- *)
Definition p3_f0 := single_fetch 0 "s0" "{d}".
Definition p3_tree : ftree := FTSeq [FTSingle p3_f0].
Definition p3_root : node := NObj [] false (bs "Query") [] [] false [Fld (bs "d") None None None (NFloat [bs "d"] false)].
Definition p3_root_answer (id : N) : json * list json := (JObj [(bs "d", JNum (bs "1.5"))], []).
Definition p3_out (F : N -> option fault) : outcome :=
  finish p3_root (run (fun _ _ => (JNull, [])) p3_root_answer (fun _ => FSingle) F p3_tree).

(* HISTORICAL (before work/c07_fix_nan-accepted.patch) *)
Lemma valid_json_refuted_proof :
  exists root_answer t root F,
    root_wf root = true /\
    let o := finish root (run_v0 (fun _ _ => (JNull, [])) root_answer (fun _ => FSingle) F t) in
    o_failed o = false /\ o_lerrors o = [] /\ r_errors (o_resolved o) = [] /\
    r_data (o_resolved o) = [123; 34; 100; 34; 58; 78; 97; 78; 125].      (* {"d":NaN} *)
Proof.
  exists p3_root_answer, p3_tree, p3_root, (fault_at 0 FtNaNData).
  split; [vm_compute; reflexivity|]. vm_compute. repeat split.
Qed.
(* the repaired loader takes the body for invalid JSON: an error, data null (d is non-null) *)
Example p3_nan_repaired :
  List.map le_kind (o_lerrors (p3_out (fault_at 0 FtNaNData))) = [LE_INVALID] /\ r_data (o_resolved (p3_out (fault_at 0 FtNaNData))) = b_null.
Proof. vm_compute. split; reflexivity. Qed.

(* ---- plan 4: two entity fetches at the same object both select the object field p; subgraph s1
   answers p:null (with an error), s2 answers an object.  MergeValues(null, object) fails, so when
   s1 is merged first the whole request fails (no response at all); in the other order it succeeds. ---- *)
Definition p4_f0 := single_fetch 0 "s0" "{a{__typename id}}".
Definition p4_f1 := entity_fetch 1 "s1" "{_entities(r:[" ["a"] [0] (rep_of []).
Definition p4_f2 := entity_fetch 2 "s2" "{_entities(q:[" ["a"] [0] (rep_of []).
Definition p4_tree (first_null : bool) : ftree :=
  if first_null then FTSeq [FTSingle p4_f0; FTSingle p4_f1; FTSingle p4_f2] else FTSeq [FTSingle p4_f0; FTSingle p4_f2; FTSingle p4_f1].
Definition p4_kind (id : N) : fkind := match id with 0 => FSingle | _ => FEntity end.
Definition p4_root : node :=
  NObj [] false (bs "Query") [] [] false
    [Fld (bs "a") None None None (NObj [bs "a"] true (bs "A") [] [] false
       [Fld (bs "p") None None None (NObj [bs "p"] true (bs "B") [] [] false
          [Fld (bs "x") None None None (NStr [bs "x"] true); Fld (bs "y") None None None (NStr [bs "y"] true)])])].
Definition p4_root_answer (id : N) : json * list json := (JObj [(bs "a", ent "1")], []).
Definition p4_answer (id : N) (rep : bytes) : json * list json :=
  match id with
  | 1 => (JObj [(bs "__typename", JStr (bs "A")); (bs "p", JNull)], [JObj [(bs "message", JStr (bs "boom"))]])
  | _ => (JObj [(bs "__typename", JStr (bs "A")); (bs "p", JObj [(bs "y", JStr (bs "why"))])], [])
  end.
Definition p4_out (first_null : bool) : outcome :=
  finish p4_root (run p4_answer p4_root_answer p4_kind no_faults (p4_tree first_null)).

Lemma merge_order_refuted_proof :
  exists answer root_answer kind_of t1 t2 root,
    root_wf root = true /\
    fetches_of t1 = [p4_f0; p4_f1; p4_f2] /\ fetches_of t2 = [p4_f0; p4_f2; p4_f1] /\   (* same fetches, the two independent ones swapped *)
    o_failed (finish root (run answer root_answer kind_of no_faults t1)) = true /\
    let o := finish root (run answer root_answer kind_of no_faults t2) in
    o_failed o = false /\ List.map le_kind (o_lerrors o) = [LE_FETCH] /\
    r_data (o_resolved o) = bs "{""a"":{""p"":{""x"":null,""y"":""why""}}}".
Proof.
  exists p4_answer, p4_root_answer, p4_kind, (p4_tree true), (p4_tree false), p4_root.
  vm_compute. repeat split.
Qed.
