(* C07: the faulty run stays below the fault-free run (monotone), and sends only covered requests
   (requests_subset), by a lockstep simulation along the fetch-tree fold. *)
From Gv Require Import lib.Bytes lib.Json C02.Model C02.Spec C07.Model C07.Spec C07.ProofsBase C07.ProofsErrors
     C07.ProofsSub C07.ProofsRep C07.ProofsSelect.
From Coq Require Import Lia PeanoNat.
Open Scope N_scope.

(* ---- small preservation facts ---- *)
Lemma merge_target_errored : forall f s l src, ls_errored (merge_target f s l src) = ls_errored s.
Proof.
  intros. unfold merge_target. destruct (ls_hard s); [reflexivity|].
  destruct (get_loc l (ls_data s)); [|reflexivity].
  destruct (merge_with_path j src (f_mergepath f)) as [[a' ch]|]; [destruct ch|]; reflexivity.
Qed.
Lemma fold_merge_target_errored : forall f src targets s,
  ls_errored (fold_left (fun s l => merge_target f s l src) targets s) = ls_errored s.
Proof. induction targets as [|l r IH]; intros s; simpl; [reflexivity|]. rewrite IH. apply merge_target_errored. Qed.
Lemma merge_pairwise_errored : forall f ls batch s, ls_errored (merge_pairwise f s ls batch) = ls_errored s.
Proof.
  induction ls as [|l ls IH]; intros batch s; simpl; [reflexivity|].
  destruct batch; [reflexivity|]. rewrite IH. apply merge_target_errored.
Qed.
Lemma merge_buckets_errored : forall f bs batch s, ls_errored (merge_buckets f s bs batch) = ls_errored s.
Proof.
  induction bs as [|b bs IH]; intros batch s; simpl; [reflexivity|].
  destruct batch; [reflexivity|]. rewrite IH. apply fold_merge_target_errored.
Qed.
Lemma merge_result_errored_incl : forall f res items batch s id,
  In id (ls_errored (merge_result f res items batch s)) -> In id (ls_errored s) \/ id = f_id f.
Proof.
  intros f res items batch s id. mr_cases;
    rewrite ?merge_target_errored, ?merge_pairwise_errored, ?merge_buckets_errored;
    cbn [ls_errored fail add_error add_errored set_data In]; intros H; intuition auto.
Qed.

(* ---- one merge below a bound that contains the merged value ---- *)
Lemma merge_target_sub : forall f s l src D w, f_mergepath f = [] ->
  sub_b (ls_data s) D = true -> get_loc l D = Some w -> sub_b src w = true ->
  sub_b (ls_data (merge_target f s l src)) D = true.
Proof.
  intros f s l src D w Hmp Hs Hg Hsrc. unfold merge_target.
  destruct (ls_hard s); [exact Hs|].
  destruct (get_loc l (ls_data s)) as [a|] eqn:Ga; [|exact Hs].
  rewrite Hmp. unfold merge_with_path. cbn [wrap_path].
  destruct (merge a src) as [[a' ch]|] eqn:M; [|exact Hs]. destruct ch; [exact Hs|].
  cbn [ls_data set_data].
  destruct (sub_get_loc _ _ _ _ Hs Ga) as (w' & Hw' & Haw). rewrite Hg in Hw'. inversion Hw'; subst w'.
  eapply sub_set_loc; [exact Hs|exact Hg|]. eapply merge_join; eassumption.
Qed.

Lemma fold_merge_target_sub : forall f src targets s D, f_mergepath f = [] ->
  sub_b (ls_data s) D = true ->
  (forall l, In l targets -> exists w, get_loc l D = Some w /\ sub_b src w = true) ->
  sub_b (ls_data (fold_left (fun s l => merge_target f s l src) targets s)) D = true.
Proof.
  induction targets as [|l r IH]; intros s D Hmp Hs Ht; simpl; [exact Hs|].
  apply IH; [exact Hmp| |intros; apply Ht; right; assumption].
  destruct (Ht l (or_introl eq_refl)) as (w & Hw & Hsw). eapply merge_target_sub; eassumption.
Qed.

Lemma merge_buckets_sub : forall f bs ents s D, f_mergepath f = [] ->
  sub_b (ls_data s) D = true ->
  (forall locs src, In (locs, src) (combine bs ents) -> forall l, In l locs -> exists w, get_loc l D = Some w /\ sub_b src w = true) ->
  sub_b (ls_data (merge_buckets f s bs ents)) D = true.
Proof.
  induction bs as [|b bs IH]; intros ents s D Hmp Hs Ht; simpl; [exact Hs|].
  destruct ents as [|src ents]; [exact Hs|].
  apply IH; [exact Hmp| |intros locs src' Hin; apply Ht; right; exact Hin].
  apply fold_merge_target_sub; [exact Hmp|exact Hs|]. intros l Hl. eapply Ht; [left; reflexivity|exact Hl].
Qed.

(* ---- preparing with a flat representation leaves the data alone ---- *)
Lemma rep_wf_inv : forall n, rep_wf n = true -> exists ty inacc fields, n = NObj [] true ty [] inacc false fields /\ forallb rep_field_ok fields = true.
Proof.
  intros n H. destruct n; try discriminate. simpl in H.
  destruct path; [|discriminate]. destruct nullable; [|discriminate]. destruct possible; [|discriminate]. destruct unresolvable; [discriminate|].
  eexists _, _, _. split; [reflexivity|exact H].
Qed.

Lemma items_data_one : forall d l v, get_loc l d = Some v -> items_data d [l] = v.
Proof. intros d l v H. unfold items_data. rewrite H. reflexivity. Qed.

Lemma prepare_data : forall kind_of f d items, fetch_ok kind_of f = true ->
  match prepare f d items with PSkip d' => d' = d | PLoad d' _ _ => d' = d end.
Proof.
  intros kind_of f d items Hok. unfold fetch_ok in Hok.
  apply andb_prop in Hok as [Hok Hk]. unfold prepare. destruct (f_kind f) eqn:K.
  - destruct items as [|l [|l2 r]]; try reflexivity. destruct (get_loc l d) as [[| | | | |]|]; reflexivity.
  - destruct (rep_wf_inv _ Hk) as (ty & inacc & fields & -> & Hf).
    rewrite (render_rep_flat ty inacc fields _ Hf).
    assert (Hd : match items with [l] => set_loc l (items_data d items) d | _ => d end = d).
    { destruct items as [|l [|l2 r]]; try reflexivity. unfold items_data.
      destruct (get_loc l d) as [v|] eqn:G; [apply set_loc_same; exact G|apply set_loc_none; exact G]. }
    rewrite Hd. destruct (flat_render fields (items_data d items)) as [b|]; [|reflexivity].
    destruct (bytes_eqb b b_null || bytes_eqb b b_empty_obj); reflexivity.
  - destruct (rep_wf_inv _ Hk) as (ty & inacc & fields & -> & Hf).
    destruct (batch_prepare_flat ty inacc fields items d [] Hf) as (bs & Hbs & _). rewrite Hbs.
    destruct bs; reflexivity.
Qed.

(* ---- mergeResult below a bound: every merged value must be contained at its target ---- *)
Lemma merge_result_sub : forall f res items batch s D, f_mergepath f = [] ->
  sub_b (ls_data s) D = true -> items <> [] -> (batch = None -> exists l, items = [l]) ->
  (forall resp rd, rs_err res = false -> rs_body res = BJson resp -> get_loc (f_datapath f) resp = Some rd ->
     match batch with
     | None => forall l, items = [l] -> exists w, get_loc l D = Some w /\ sub_b rd w = true
     | Some bs => forall ents, rd = JArr ents ->
                  forall locs src, In (locs, src) (combine bs ents) -> forall l, In l locs -> exists w, get_loc l D = Some w /\ sub_b src w = true
     end) ->
  sub_b (ls_data (merge_result f res items batch s)) D = true.
Proof.
  intros f res items batch s D Hmp Hs Hne Hone Hc. unfold merge_result.
  destruct (rs_err res) eqn:Eerr; [exact Hs|].
  destruct (rs_body res) as [| |resp] eqn:Eb; [exact Hs|destruct (non2xx (rs_status res)); exact Hs|].
  destruct (negb (valid_numbers resp)); [destruct (non2xx (rs_status res)); exact Hs|].
  set (he := match get_loc [PName k_errors] resp with Some (JArr (_ :: _)) => true | _ => false end).
  set (s1 := if he then add_error s LE_FETCH f else s).
  assert (H1 : sub_b (ls_data s1) D = true) by (subst s1; destruct he; exact Hs).
  clearbody s1.
  match goal with |- context [if ?c then fail s1 LE_COUNT f else _] => destruct c end; [exact H1|].
  destruct (is_nullish (get_loc (f_datapath f) resp)).
  - destruct (is_entity_kind (f_kind f) && _); [exact H1|].
    destruct (negb he && non2xx (rs_status res)); [exact H1|]. destruct (negb he); exact H1.
  - destruct (get_loc (f_datapath f) resp) as [rd|] eqn:Grd; [|exact H1].
    specialize (Hc resp rd eq_refl eq_refl Grd).
    destruct items as [|l [|l2 r]]; [congruence| |].
    + destruct batch as [bs|].
      * destruct rd as [| | | |[|b0 b]|]; try exact H1. destruct (wrong_kind_batch f (b0 :: b)); [exact H1|]. destruct (Nat.eqb _ _); [|exact H1].
        apply merge_buckets_sub; [exact Hmp|exact H1|]. intros locs src Hin l' Hl'. eapply Hc; [reflexivity|exact Hin|exact Hl'].
      * destruct (wrong_kind_single f rd); [exact H1|]. destruct (Hc l eq_refl) as (w & Hw & Hrw). eapply merge_target_sub; eassumption.
    + destruct batch as [bs|].
      * destruct rd as [| | | |[|b0 b]|]; try exact H1. destruct (wrong_kind_batch f (b0 :: b)); [exact H1|]. destruct (Nat.eqb _ _); [|exact H1].
        apply merge_buckets_sub; [exact Hmp|exact H1|]. intros locs src Hin l' Hl'. eapply Hc; [reflexivity|exact Hin|exact Hl'].
      * destruct (Hone eq_refl) as (l' & E). discriminate.
Qed.

(* ---- the clean responses, as seen through the post-processing paths ---- *)
Lemma clean_single_rdata : forall answer root_answer rq,
  exists resp, rs_body (clean_response answer root_answer rq true) = BJson resp /\ rs_err (clean_response answer root_answer rq true) = false /\
    get_loc (datapath_of FSingle) resp = Some (fst (root_answer (rq_fetch rq))).
Proof.
  intros. unfold clean_response. destruct (root_answer (rq_fetch rq)) as [d errs]. eexists. split; [reflexivity|]. split; [reflexivity|].
  unfold datapath_of. cbn [get_loc obj_get]. change (bytes_eqb k_data k_data) with true. reflexivity.
Qed.

Lemma clean_entities_rdata : forall answer root_answer rq,
  exists resp, rs_body (clean_response answer root_answer rq false) = BJson resp /\ rs_err (clean_response answer root_answer rq false) = false /\
    get_loc (datapath_of FBatch) resp = Some (JArr (map (fun rep => fst (answer (rq_fetch rq) rep)) (rq_reps rq))).
Proof.
  intros. unfold clean_response. eexists. split; [reflexivity|]. split; [reflexivity|].
  unfold datapath_of. cbn [get_loc obj_get]. change (bytes_eqb k_data k_data) with true. cbv iota.
  cbn [get_loc obj_get]. change (bytes_eqb k_entities k_entities) with true. cbv iota. rewrite map_map. reflexivity.
Qed.

(* ---- coverage of requests ---- *)
Lemma covered_base_app : forall base x under, requests_subset_b base under = true -> requests_subset_b (base ++ x) under = true.
Proof.
  intros base x under H. unfold requests_subset_b in *. rewrite forallb_forall in *. intros r Hr.
  specialize (H r Hr). rewrite existsb_exists in *. destruct H as (r0 & Hin & Hc). exists r0. split; [apply in_or_app; left; exact Hin|exact Hc].
Qed.
Lemma covered_add : forall base under r r0, requests_subset_b base under = true -> In r0 base -> request_covered r r0 = true ->
  requests_subset_b base (under ++ [r]) = true.
Proof.
  intros base under r r0 H Hin Hc. unfold requests_subset_b in *. rewrite forallb_app, H. simpl. rewrite andb_true_r.
  rewrite existsb_exists. exists r0. split; assumption.
Qed.
Lemma mem_bytes_in : forall x l, In x l -> mem_bytes x l = true.
Proof.
  induction l as [|y l IH]; intros H; [contradiction|]. simpl. destruct H as [->|H]; [rewrite bytes_eqb_refl; reflexivity|].
  rewrite (IH H). apply orb_true_r.
Qed.
Lemma request_covered_same : forall f reps reps0, (forall b, In b reps -> In b reps0) ->
  request_covered (mk_request f reps) (mk_request f reps0) = true.
Proof.
  intros f reps reps0 H. unfold request_covered, mk_request. cbn [rq_fetch rq_ds rq_header rq_footer rq_reps].
  rewrite N.eqb_refl, !bytes_eqb_refl. simpl. rewrite forallb_forall. intros b Hb. apply mem_bytes_in. apply H. exact Hb.
Qed.

Lemma should_skip_nil : forall f s, ls_errored s = [] -> should_skip f s = false.
Proof.
  intros f s H. unfold should_skip. rewrite H. induction (f_deps f) as [|d r IH]; simpl; [reflexivity|exact IH].
Qed.

Lemma sub_null_inv : forall a, sub_b a JNull = true -> a = JNull.
Proof.
  intros a H. destruct a; simpl in H; try discriminate; reflexivity.
Qed.

Lemma combine_map_fst_snd : forall {A B C} (g : A -> C) (bs : list (A * B)) locs src,
  In (locs, src) (combine (map snd bs) (map g (map fst bs))) -> exists b, In (b, locs) bs /\ src = g b.
Proof.
  induction bs as [|[b l] r IH]; intros locs src H; simpl in H; [contradiction|].
  destruct H as [E|H]; [inversion E; subst; exists b; split; [left; reflexivity|reflexivity]|].
  destruct (IH locs src H) as (b' & Hin & Hs). exists b'. split; [right; exact Hin|exact Hs].
Qed.

Section Sim.
  Variable answer : N -> bytes -> json * list json.
  Variable root_answer : N -> json * list json.
  Variable kind_of : N -> fkind.
  Variable F : N -> option fault.
  Hypothesis Hloud : forall id k, F id = Some k -> loud (kind_of id) k = true.
  Hypothesis Hrobj : forall id, exists m, fst (root_answer id) = JObj m.

  Let e0 := clean_exchange answer root_answer kind_of.
  Let eF := faulty_exchange answer root_answer kind_of F.

  Record Rst (s0 sF : lstate) : Prop := {
    R_sub : sub_b (ls_data sF) (ls_data s0) = true;
    R_cov : requests_subset_b (ls_reqs s0) (ls_reqs sF) = true;
    R_err0 : ls_errored s0 = [];
    R_hard0 : ls_hard s0 = false }.

  (* what the fault-free step guarantees (from step_ok_b) *)
  Lemma targets_contained : forall f s0, step_ok_b answer root_answer kind_of f s0 = true ->
    let s0' := fst (run_fetch unit e0 f (s0, tt)) in
    sub_b (ls_data s0) (ls_data s0') = true /\
    (f_kind f = FEntity -> (length (select_items (ls_data s0) (f_path f)) <= 1)%nat) /\
    forall l src, In (l, src) (targets answer root_answer f (ls_data s0)) -> exists w, get_loc l (ls_data s0') = Some w /\ sub_b src w = true.
  Proof.
    intros f s0 H. unfold step_ok_b in H. apply andb_prop in H as [H Hc]. apply andb_prop in H as [H He]. apply andb_prop in H as [_ Hi].
    split; [exact Hi|]. split.
    - intros K. rewrite K in He. apply andb_prop in He as [He _]. apply Nat.leb_le. exact He.
    - intros l src Hin. rewrite forallb_forall in Hc. specialize (Hc _ Hin). unfold contained_b in Hc. cbn [fst snd] in Hc.
      unfold e0. destruct (get_loc l (ls_data (fst (run_fetch unit (clean_exchange answer root_answer kind_of) f (s0, tt))))) as [w|] eqn:G; [|discriminate].
      exists w. split; [reflexivity|exact Hc].
  Qed.

  Lemma step_ok_parts : forall f s0, step_ok_b answer root_answer kind_of f s0 = true ->
    ls_hard (fst (run_fetch unit e0 f (s0, tt))) = false /\ ls_errored (fst (run_fetch unit e0 f (s0, tt))) = [].
  Proof.
    intros f s0 H. unfold step_ok_b in H. apply andb_prop in H as [H _]. apply andb_prop in H as [H _]. apply andb_prop in H as [H _].
    apply andb_prop in H as [H1 H2]. unfold e0. split; [apply negb_true_iff in H1; exact H1|].
    destruct (ls_errored (fst (run_fetch unit (clean_exchange answer root_answer kind_of) f (s0, tt)))); [reflexivity|discriminate].
  Qed.

  (* the fault-free step: requests are appended *)
  Lemma zero_step_shape : forall f s0, ls_errored s0 = [] -> fetch_ok kind_of f = true ->
    let s0' := fst (run_fetch unit e0 f (s0, tt)) in
    match prepare f (ls_data s0) (select_items (ls_data s0) (f_path f)) with
    | PSkip _ => ls_reqs s0' = ls_reqs s0
    | PLoad _ rq _ => ls_reqs s0' = ls_reqs s0 ++ [rq]
    end.
  Proof.
    intros f s0 He Hok. unfold run_fetch. rewrite (should_skip_nil f s0 He).
    destruct (prepare f (ls_data s0) (select_items (ls_data s0) (f_path f))) as [d|d rq batch]; [reflexivity|].
    unfold e0, clean_exchange, faulty_exchange. cbn [fst].
    assert (Hr : rs_err (clean_response answer root_answer rq match kind_of (rq_fetch rq) with FSingle => true | _ => false end) = false) by reflexivity.
    rewrite Hr. rewrite merge_result_reqs. reflexivity.
  Qed.

  Lemma fetch_ok_inv : forall f, fetch_ok kind_of f = true ->
    kind_of (f_id f) = f_kind f /\ f_datapath f = datapath_of (f_kind f) /\ no_types (f_path f) = true /\ f_mergepath f = [] /\
    match f_kind f with FSingle => f_path f = [] | _ => rep_wf (f_rep f) = true end.
  Proof.
    intros f H. unfold fetch_ok in H. apply andb_prop in H as [H H4]. apply andb_prop in H as [H H3]. apply andb_prop in H as [H1 H2].
    destruct (fetch_wf_inv _ _ H1) as [Hk Hd]. repeat split; try assumption.
    - destruct (f_mergepath f); [reflexivity|discriminate].
    - destruct (f_kind f); try exact H4. destruct (f_path f); [reflexivity|discriminate].
  Qed.

  (* the data the exchange of the faulty run returns for an unfaulted fetch *)
  Definition clean_of (f : fetch) (rq : request) : response :=
    clean_response answer root_answer rq match f_kind f with FSingle => true | _ => false end.

  (* when the faulty run loads, the fault-free run loads a covering request, and everything the
     faulty run would merge from the clean answer is contained in the fault-free data after the step *)
  (* the shape of a load, by fetch kind *)
  Definition load_shape (f : fetch) (dataF : json) (itemsF : list rpath) (rqF : request) (batchF : option (list (list rpath))) : Prop :=
    match f_kind f with
    | FSingle => itemsF = [[]] /\ batchF = None /\ rqF = mk_request f []
    | FEntity => exists l b m, itemsF = [l] /\ batchF = None /\ rqF = mk_request f [b] /\ get_loc l dataF = Some (JObj m)
    | FBatch => exists bsF, snd (batch_prepare (f_rep f) itemsF dataF []) = bsF /\ bsF <> [] /\ rqF = mk_request f (map fst bsF) /\
                            batchF = Some (map snd bsF) /\ forall b l, in_buckets bsF b l -> exists m, get_loc l dataF = Some (JObj m)
    end.

  Definition load_ok (f : fetch) (dB D : json) (itemsF : list rpath) (rqF : request) (batchF : option (list (list rpath))) : Prop :=
    (exists d0 rq0 batch0, prepare f dB (select_items dB (f_path f)) = PLoad d0 rq0 batch0 /\ request_covered rqF rq0 = true) /\
    itemsF <> [] /\ (batchF = None -> exists l, itemsF = [l]) /\
    (forall resp rd, rs_err (clean_of f rqF) = false -> rs_body (clean_of f rqF) = BJson resp -> get_loc (f_datapath f) resp = Some rd ->
       match batchF with
       | None => forall l, itemsF = [l] -> exists w, get_loc l D = Some w /\ sub_b rd w = true
       | Some bs => forall ents, rd = JArr ents ->
                    forall locs src, In (locs, src) (combine bs ents) -> forall l, In l locs -> exists w, get_loc l D = Some w /\ sub_b src w = true
       end).

  (* what the bigger side's step guarantees: at most one item for an entity fetch, and everything it
     merges (its targets) is contained in the bound D *)
  Definition big_facts (f : fetch) (dB D : json) : Prop :=
    (f_kind f = FEntity -> (length (select_items dB (f_path f)) <= 1)%nat) /\
    forall l src, In (l, src) (targets answer root_answer f dB) -> exists w, get_loc l D = Some w /\ sub_b src w = true.

  Lemma load_sim_single : forall f dB D dataF dF rqF batchF,
    f_kind f = FSingle -> fetch_ok kind_of f = true -> big_facts f dB D ->
    sub_b dataF dB = true ->
    prepare f dataF (select_items dataF (f_path f)) = PLoad dF rqF batchF ->
    load_ok f dB D (select_items dataF (f_path f)) rqF batchF.
  Proof.
    intros f dB D dataF dF rqF batchF K Hok [Hone Hcont] Hs HP.
    destruct (fetch_ok_inv f Hok) as (Hk & Hd & Hnt & Hmp & Hkind). rewrite K in Hkind.
    rewrite Hkind in *. change (select_items dataF []) with [@nil pelem] in *. change (select_items dB []) with [@nil pelem] in *.
    unfold prepare in HP. rewrite K in HP. cbn [get_loc] in HP.
    assert (HdF : dataF <> JNull) by (intro E; rewrite E in HP; discriminate).
    assert (HrqF : rqF = mk_request f [] /\ batchF = None) by (destruct dataF; inversion HP; split; reflexivity).
    destruct HrqF as [-> ->].
    assert (Hd0 : dB <> JNull) by (intro E; rewrite E in Hs; apply sub_null_inv in Hs; contradiction).
    assert (HP0 : prepare f dB [[]] = PLoad dB (mk_request f []) None).
    { unfold prepare. rewrite K. cbn [get_loc]. destruct dB; try reflexivity. contradiction. }
    unfold load_ok. rewrite Hkind. change (select_items dB []) with [@nil pelem]. split; [|split; [discriminate|split; [intros _; eexists; reflexivity|]]].
    - eexists _, _, _. split; [exact HP0|]. apply request_covered_same. intros b [].
    - intros resp rd _ Hb Hg l E. inversion E; subst l.
      unfold clean_of in Hb. rewrite K in Hb.
      destruct (clean_single_rdata answer root_answer (mk_request f [])) as (resp' & Hb' & _ & Hg').
      rewrite Hb' in Hb. inversion Hb; subst resp'. rewrite Hd, K in Hg. rewrite Hg' in Hg. inversion Hg; subst rd.
      apply Hcont. unfold targets. rewrite K, Hkind. change (select_items dB []) with [@nil pelem]. rewrite HP0. left. reflexivity.
  Qed.

  Lemma flat_render_null : forall fields, flat_render fields JNull = Some b_null.
  Proof. reflexivity. Qed.

  Lemma load_sim_entity : forall f dB D dataF dF rqF batchF,
    f_kind f = FEntity -> fetch_ok kind_of f = true -> big_facts f dB D ->
    sub_b dataF dB = true ->
    prepare f dataF (select_items dataF (f_path f)) = PLoad dF rqF batchF ->
    load_ok f dB D (select_items dataF (f_path f)) rqF batchF.
  Proof.
    intros f dB D dataF dF rqF batchF K Hok [Hone Hcont] Hs HP.
    destruct (fetch_ok_inv f Hok) as (Hk & Hd & Hnt & Hmp & Hkind). rewrite K in Hkind.
    specialize (Hone K).
    destruct (rep_wf_inv _ Hkind) as (ty & inacc & fields & Hrep & Hf).
    pose proof (select_items_inv dataF dB (f_path f) Hs Hnt) as Hinv.
    set (itemsF := select_items dataF (f_path f)) in *. set (items0 := select_items dB (f_path f)) in *.
    unfold prepare in HP. rewrite K, Hrep in HP. rewrite (render_rep_flat ty inacc fields _ Hf) in HP.
    destruct (flat_render fields (items_data dataF itemsF)) as [b|] eqn:FR; [|discriminate].
    destruct (bytes_eqb b b_null || bytes_eqb b b_empty_obj) eqn:Sk; [discriminate|].
    apply Bool.orb_false_elim in Sk as [N1 N2].
    inversion HP; subst rqF batchF. clear HP.
    (* exactly one, non-null item *)
    assert (Hitem : exists l vF, itemsF = [l] /\ get_loc l dataF = Some vF /\ flat_render fields vF = Some b /\ vF <> JNull).
    { destruct itemsF as [|l [|l2 r]] eqn:EI.
      - simpl in FR. inversion FR; subst b. rewrite bytes_eqb_refl in N1. discriminate.
      - unfold items_data in FR. destruct (get_loc l dataF) as [vF|] eqn:G.
        + exists l, vF. repeat split; try assumption. intro E. subst vF. simpl in FR. inversion FR; subst b. rewrite bytes_eqb_refl in N1. discriminate.
        + simpl in FR. inversion FR; subst b. rewrite bytes_eqb_refl in N1. discriminate.
      - simpl in FR. discriminate. }
    destruct Hitem as (l & vF & EI & GF & FRv & Hnn).
    assert (Hl0 : In l items0).
    { destruct (Hinv l) as [H|H]; [rewrite EI; left; reflexivity|exact H|]. rewrite GF in H. inversion H. contradiction. }
    assert (E0 : items0 = [l]).
    { destruct items0 as [|x [|y r]]; [contradiction|destruct Hl0 as [->|[]]; reflexivity|simpl in Hone; lia]. }
    destruct (sub_get_loc _ _ _ _ Hs GF) as (v0 & G0 & Hv).
    assert (FR0 : flat_render fields v0 = Some b).
    { eapply flat_render_mono; try eassumption.
      - intro E. subst b. rewrite bytes_eqb_refl in N1. discriminate.
      - intro E. subst b. rewrite bytes_eqb_refl in N2. discriminate. }
    assert (HP0 : prepare f dB items0 = PLoad dB (mk_request f [b]) None).
    { unfold prepare. rewrite K, Hrep, E0. rewrite (render_rep_flat ty inacc fields _ Hf).
      rewrite (items_data_one _ _ _ G0), FR0, N1, N2. cbn [orb]. rewrite (set_loc_same _ _ _ G0). reflexivity. }
    unfold load_ok. split; [|split; [rewrite EI; discriminate|split; [intros _; exists l; exact EI|]]].
    - eexists _, _, _. split; [exact HP0|]. apply request_covered_same. intros x Hx. exact Hx.
    - intros resp rd _ Hb Hg l' E. rewrite EI in E. inversion E; subst l'.
      unfold clean_of in Hb. rewrite K in Hb.
      destruct (clean_entities_rdata answer root_answer (mk_request f [b])) as (resp' & Hb' & _ & Hg').
      rewrite Hb' in Hb. inversion Hb; subst resp'. rewrite Hd, K in Hg.
      change (datapath_of FEntity) with (datapath_of FBatch ++ [PIdx 0]) in Hg. rewrite get_loc_app, Hg' in Hg.
      cbn in Hg. inversion Hg; subst rd.
      apply Hcont. unfold targets. rewrite K. fold items0. rewrite HP0, E0. left. reflexivity.
  Qed.

  Lemma in_targets_batch : forall f d b l, f_kind f = FBatch ->
    in_buckets (snd (batch_prepare (f_rep f) (select_items d (f_path f)) d [])) b l ->
    In (l, fst (answer (f_id f) b)) (targets answer root_answer f d).
  Proof.
    intros f d b l K (locs & Hin & Hl). unfold targets. rewrite K. apply in_flat_map. exists (b, locs). split; [exact Hin|].
    cbn [fst snd]. apply in_map_iff. exists l. split; [reflexivity|exact Hl].
  Qed.

  Lemma load_sim_batch : forall f dB D dataF dF rqF batchF,
    f_kind f = FBatch -> fetch_ok kind_of f = true -> big_facts f dB D ->
    sub_b dataF dB = true ->
    prepare f dataF (select_items dataF (f_path f)) = PLoad dF rqF batchF ->
    load_ok f dB D (select_items dataF (f_path f)) rqF batchF.
  Proof.
    intros f dB D dataF dF rqF batchF K Hok [Hone Hcont] Hs HP.
    destruct (fetch_ok_inv f Hok) as (Hk & Hd & Hnt & Hmp & Hkind). rewrite K in Hkind.
    destruct (rep_wf_inv _ Hkind) as (ty & inacc & fields & Hrep & Hf).
    pose proof (select_items_inv dataF dB (f_path f) Hs Hnt) as Hinv.
    set (itemsF := select_items dataF (f_path f)) in *. set (items0 := select_items dB (f_path f)) in *.
    destruct (batch_prepare_flat ty inacc fields itemsF dataF [] Hf) as (bsF & HbF & HspecF).
    destruct (batch_prepare_flat ty inacc fields items0 dB [] Hf) as (bs0 & Hb0 & Hspec0).
    pose proof (batch_prepare_nonempty (NObj [] true ty [] inacc false fields) itemsF dataF [] (fun b locs (H : In (b, locs) []) => match H with end)) as HneF.
    rewrite HbF in HneF. cbn [snd] in HneF.
    unfold prepare in HP. rewrite K, Hrep, HbF in HP.
    destruct bsF as [|bk0 bsF'] eqn:EB; [discriminate|]. rewrite <- EB in *.
    assert (HrqF : rqF = mk_request f (map fst bsF) /\ batchF = Some (map snd bsF)) by (inversion HP; split; reflexivity).
    destruct HrqF as [-> ->]. clear HP.
    (* every bucket entry of the faulty run is a bucket entry of the fault-free run *)
    assert (Htrans : forall b l, in_buckets bsF b l -> In l itemsF /\ in_buckets bs0 b l).
    { intros b l Hin. apply HspecF in Hin as [(locs & [] & _)|[Hl (vF & GF & FRv & N1 & N2)]]. split; [exact Hl|].
      apply Hspec0. right.
      assert (Hnn : vF <> JNull) by (intro E; subst vF; simpl in FRv; inversion FRv; subst b; rewrite bytes_eqb_refl in N1; discriminate).
      destruct (Hinv l Hl) as [Hl0|Hnull]; [|rewrite GF in Hnull; inversion Hnull; contradiction].
      split; [exact Hl0|]. destruct (sub_get_loc _ _ _ _ Hs GF) as (v0 & G0 & Hv).
      exists v0. split; [exact G0|]. split; [|split; assumption].
      eapply flat_render_mono; try eassumption.
      - intro E. subst b. rewrite bytes_eqb_refl in N1. discriminate.
      - intro E. subst b. rewrite bytes_eqb_refl in N2. discriminate. }
    assert (Hbucket : forall b locs, In (b, locs) bsF -> exists l, In l locs /\ in_buckets bsF b l).
    { intros b locs Hin. destruct locs as [|l r] eqn:EL; [exfalso; eapply HneF; [exact Hin|reflexivity]|].
      exists l. split; [left; reflexivity|]. exists (l :: r). split; [exact Hin|left; reflexivity]. }
    destruct bk0 as [b1 locs1].
    destruct (Hbucket b1 locs1) as (l1 & Hl1 & Hib1); [rewrite EB; left; reflexivity|].
    destruct (Htrans b1 l1 Hib1) as [HlF (locs0 & Hin0 & _)].
    assert (HP0 : prepare f dB items0 = PLoad dB (mk_request f (map fst bs0)) (Some (map snd bs0))).
    { unfold prepare. rewrite K, Hrep, Hb0. destruct bs0; [contradiction|reflexivity]. }
    unfold load_ok. fold items0. split; [|split; [intro E; rewrite E in HlF; contradiction|split; [discriminate|]]].
    - eexists _, _, _. split; [exact HP0|]. apply request_covered_same. intros b Hb.
      apply in_map_iff in Hb as ((b', locs) & E & Hin). cbn [fst] in E. subst b'.
      destruct (Hbucket b locs Hin) as (l & _ & Hib). destruct (Htrans b l Hib) as [_ (locs' & Hin' & _)].
      apply in_map_iff. exists (b, locs'). split; [reflexivity|exact Hin'].
    - intros resp rd _ Hb Hg ents Hrd locs src Hin l Hl.
      unfold clean_of in Hb. rewrite K in Hb.
      destruct (clean_entities_rdata answer root_answer (mk_request f (map fst bsF))) as (resp' & Hb' & _ & Hg').
      rewrite Hb' in Hb. inversion Hb; subst resp'. rewrite Hd, K, Hg' in Hg. inversion Hg; subst rd. clear Hg.
      match goal with H : JArr _ = JArr ents |- _ => inversion H; subst ents end. cbn [rq_reps mk_request rq_fetch] in Hin.
      destruct (combine_map_fst_snd (fun rep => fst (answer (f_id f) rep)) bsF locs src Hin) as (b & Hinb & ->).
      assert (Hib : in_buckets bsF b l) by (exists locs; split; assumption).
      destruct (Htrans b l Hib) as [_ Hib0].
      apply Hcont. apply in_targets_batch; [exact K|]. rewrite Hrep. fold items0. rewrite Hb0. exact Hib0.
  Qed.

  Lemma zero_fetch : forall f s0, ls_errored s0 = [] -> fetch_ok kind_of f = true ->
    step_ok_b answer root_answer kind_of f s0 = true ->
    let s0' := fst (run_fetch unit e0 f (s0, tt)) in
    ls_errored s0' = [] /\ ls_hard s0' = false /\ sub_b (ls_data s0) (ls_data s0') = true /\ exists x, ls_reqs s0' = ls_reqs s0 ++ x.
  Proof.
    intros f s0 He Hok Hstep.
    pose proof (zero_step_shape f s0 He Hok) as Hr. destruct (step_ok_parts f s0 Hstep) as [Hh' He'].
    destruct (targets_contained f s0 Hstep) as (Hinfl & _ & _).
    split; [exact He'|]. split; [exact Hh'|].
    split; [exact Hinfl|].
    destruct (prepare f (ls_data s0) (select_items (ls_data s0) (f_path f))); [exists []; rewrite app_nil_r; exact Hr|eexists; exact Hr].
  Qed.

  Lemma Rst_zero_only : forall s0 s0' sF, Rst s0 sF ->
    ls_errored s0' = [] -> ls_hard s0' = false -> sub_b (ls_data s0) (ls_data s0') = true -> (exists x, ls_reqs s0' = ls_reqs s0 ++ x) ->
    Rst s0' sF.
  Proof.
    intros s0 s0' sF [Rs Rc Re Rh] He Hh Hi (x & Hx). constructor; try assumption.
    - eapply sub_trans; eassumption.
    - rewrite Hx. apply covered_base_app. exact Rc.
  Qed.

  Lemma fetch_sim : forall f s0 sF, Rst s0 sF -> fetch_ok kind_of f = true ->
    step_ok_b answer root_answer kind_of f s0 = true ->
    Rst (fst (run_fetch unit e0 f (s0, tt))) (fst (run_fetch unit eF f (sF, tt))).
  Proof.
    intros f s0 sF HR Hok Hstep.
    destruct (zero_fetch f s0 (R_err0 _ _ HR) Hok Hstep) as (He' & Hh' & Hinfl & Hx).
    pose proof (Rst_zero_only _ _ _ HR He' Hh' Hinfl Hx) as HR'.
    set (s0' := fst (run_fetch unit e0 f (s0, tt))) in *.
    unfold run_fetch at 1.
    destruct (should_skip f sF).
    { cbn [fst]. destruct HR' as [Rs Rc Re Rh]. constructor; assumption. }
    pose proof (prepare_data kind_of f (ls_data sF) (select_items (ls_data sF) (f_path f)) Hok) as Hpd.
    destruct (prepare f (ls_data sF) (select_items (ls_data sF) (f_path f))) as [d|dF rqF batchF] eqn:HP.
    { cbn [fst]. subst d. destruct HR' as [Rs Rc Re Rh]. constructor; assumption. }
    subst dF.
    destruct (fetch_ok_inv f Hok) as (Hk & Hd & Hnt & Hmp & Hkind).
    destruct (prepare_request _ _ _ _ _ _ HP) as [Hrq Hbatch].
    assert (Hbig : big_facts f (ls_data s0) (ls_data s0')).
    { destruct (targets_contained f s0 Hstep) as (_ & Hone & Hcont). split; assumption. }
    assert (Hload : load_ok f (ls_data s0) (ls_data s0') (select_items (ls_data sF) (f_path f)) rqF batchF).
    { destruct (f_kind f) eqn:K; [eapply load_sim_single|eapply load_sim_entity|eapply load_sim_batch]; try eassumption; exact (R_sub _ _ HR). }
    destruct Hload as ((d0 & rq0 & batch0 & HP0 & Hcov) & HneF & Hone & Hcont).
    assert (Hreq0 : In rq0 (ls_reqs s0')).
    { pose proof (zero_step_shape f s0 (R_err0 _ _ HR) Hok) as Hr. rewrite HP0 in Hr. fold s0' in Hr. rewrite Hr. apply in_or_app. right. left. reflexivity. }
    unfold eF, faulty_exchange. rewrite Hrq, Hk.
    set (cl := clean_response answer root_answer rqF match f_kind f with FSingle => true | _ => false end).
    set (res := match F (f_id f) with Some k => apply_fault k cl | None => cl end).
    cbn [fst].
    set (sF1 := add_request (set_data sF (ls_data sF)) rqF).
    set (sF2 := if rs_err res then add_errored sF1 (f_id f) else sF1).
    assert (HdF2 : ls_data sF2 = ls_data sF) by (subst sF2; destruct (rs_err res); reflexivity).
    assert (HrF2 : ls_reqs sF2 = ls_reqs sF ++ [rqF]) by (subst sF2; destruct (rs_err res); reflexivity).
    destruct HR' as [Rs Rc Re Rh]. constructor; try assumption.
    - (* data *)
      destruct (F (f_id f)) as [k|] eqn:EF.
      + assert (Hsame : ls_data (merge_result f res (select_items (ls_data sF) (f_path f)) batchF sF2) = ls_data sF2).
        { subst res cl. specialize (Hloud _ _ EF). rewrite Hk in Hloud.
          apply (proj1 (proj2 (loud_outcome answer root_answer f k _ _ _ _ _ sF2 Hrobj Hd Hloud (fun _ => ltac:(unfold mp_empty; rewrite Hmp; reflexivity)) HP))). }
        rewrite Hsame, HdF2. exact Rs.
      + subst res. apply merge_result_sub; try assumption.
    - (* requests *)
      rewrite merge_result_reqs, HrF2. eapply covered_add; eassumption.
  Qed.

  (* the fault-free side alone making progress keeps the relation *)
  Lemma zero_progress : forall t s0 sF, Rst s0 sF -> forallb (fetch_ok kind_of) (fetches_of t) = true ->
    consistent_from answer root_answer kind_of t s0 = true ->
    Rst (fst (run_tree unit e0 t (s0, tt))) sF.
  Proof.
    unfold e0. fix IH 1. intros t; destruct t as [f|l|l]; intros s0 sF HR Hwf Hc.
    - simpl in Hwf. rewrite andb_true_r in Hwf. simpl in Hc.
      destruct (zero_fetch f s0 (R_err0 _ _ HR) Hwf Hc) as (He' & Hh' & Hinfl & Hx).
      eapply Rst_zero_only; eassumption.
    - simpl. simpl in Hwf, Hc. revert s0 HR Hwf Hc. induction l as [|t r IHl]; intros s0 HR Hwf Hc; [exact HR|].
      rewrite forallb_app in Hwf. apply andb_prop in Hwf as [Hw1 Hw2]. apply andb_prop in Hc as [Hc1 Hc2].
      pose proof (IH t s0 sF HR Hw1 Hc1) as HR1.
      destruct (run_tree unit (clean_exchange answer root_answer kind_of) t (s0, tt)) as [s1 []] eqn:R1. cbn [fst] in *.
      rewrite (R_hard0 _ _ HR1). apply IHl; assumption.
    - simpl. simpl in Hwf, Hc. revert s0 HR Hwf Hc. induction l as [|t r IHl]; intros s0 HR Hwf Hc; [exact HR|].
      rewrite forallb_app in Hwf. apply andb_prop in Hwf as [Hw1 Hw2]. apply andb_prop in Hc as [Hc1 Hc2].
      pose proof (IH t s0 sF HR Hw1 Hc1) as HR1.
      destruct (run_tree unit (clean_exchange answer root_answer kind_of) t (s0, tt)) as [s1 []] eqn:R1. cbn [fst] in *.
      apply IHl; assumption.
  Qed.

  Lemma tree_sim : forall t s0 sF, Rst s0 sF -> forallb (fetch_ok kind_of) (fetches_of t) = true ->
    consistent_from answer root_answer kind_of t s0 = true ->
    Rst (fst (run_tree unit e0 t (s0, tt))) (fst (run_tree unit eF t (sF, tt))).
  Proof.
    unfold e0. fix IH 1. intros t; destruct t as [f|l|l]; intros s0 sF HR Hwf Hc.
    - simpl in Hwf. rewrite andb_true_r in Hwf. simpl in Hc. apply fetch_sim; assumption.
    - simpl. simpl in Hwf, Hc. revert s0 sF HR Hwf Hc. induction l as [|t r IHl]; intros s0 sF HR Hwf Hc; [exact HR|].
      rewrite forallb_app in Hwf. apply andb_prop in Hwf as [Hw1 Hw2]. apply andb_prop in Hc as [Hc1 Hc2].
      pose proof (IH t s0 sF HR Hw1 Hc1) as HR1.
      destruct (run_tree unit (clean_exchange answer root_answer kind_of) t (s0, tt)) as [s1 []] eqn:R1. destruct (run_tree unit eF t (sF, tt)) as [sF1 []] eqn:RF1. cbn [fst] in *.
      rewrite (R_hard0 _ _ HR1).
      destruct (ls_hard sF1).
      + (* the faulty run stops here; the fault-free one goes on *)
        pose proof (zero_progress (FTSeq r) s1 sF1 HR1) as Hz. simpl in Hz. apply Hz; assumption.
      + apply IHl; assumption.
    - simpl. simpl in Hwf, Hc. revert s0 sF HR Hwf Hc. induction l as [|t r IHl]; intros s0 sF HR Hwf Hc; [exact HR|].
      rewrite forallb_app in Hwf. apply andb_prop in Hwf as [Hw1 Hw2]. apply andb_prop in Hc as [Hc1 Hc2].
      pose proof (IH t s0 sF HR Hw1 Hc1) as HR1.
      destruct (run_tree unit (clean_exchange answer root_answer kind_of) t (s0, tt)) as [s1 []] eqn:R1. destruct (run_tree unit eF t (sF, tt)) as [sF1 []] eqn:RF1. cbn [fst] in *.
      apply IHl; assumption.
  Qed.

  Theorem monotone_subset_proof : forall t,
    fplan_wf kind_of t = true -> consistent answer root_answer kind_of t = true ->
    sub_b (ls_data (run answer root_answer kind_of F t)) (ls_data (run answer root_answer kind_of no_faults t)) = true /\
    requests_subset_b (ls_reqs (run answer root_answer kind_of no_faults t)) (ls_reqs (run answer root_answer kind_of F t)) = true.
  Proof.
    intros t Hwf Hc. unfold fplan_wf in Hwf. apply andb_prop in Hwf as [Hwf _].
    assert (H0 : Rst init_state init_state) by (constructor; reflexivity).
    pose proof (tree_sim t init_state init_state H0 Hwf Hc) as HR.
    unfold run, load, no_faults. split; [exact (R_sub _ _ HR)|exact (R_cov _ _ HR)].
  Qed.
End Sim.

(* ---- corollaries ---- *)
Definition roots_are_objects (root_answer : N -> json * list json) : Prop := forall id, exists m, fst (root_answer id) = JObj m.

Lemma monotone_proof : forall answer root_answer kind_of F t,
  (forall id k, F id = Some k -> loud (kind_of id) k = true) -> roots_are_objects root_answer ->
  fplan_wf kind_of t = true -> consistent answer root_answer kind_of t = true ->
  sub_b (ls_data (run answer root_answer kind_of F t)) (ls_data (run answer root_answer kind_of no_faults t)) = true.
Proof. intros answer root_answer kind_of F t Hl Hro Hw Hc. exact (proj1 (monotone_subset_proof answer root_answer kind_of F Hl Hro t Hw Hc)). Qed.

Lemma requests_subset_proof : forall answer root_answer kind_of F t,
  (forall id k, F id = Some k -> loud (kind_of id) k = true) -> roots_are_objects root_answer ->
  fplan_wf kind_of t = true -> consistent answer root_answer kind_of t = true ->
  requests_subset_b (ls_reqs (run answer root_answer kind_of no_faults t)) (ls_reqs (run answer root_answer kind_of F t)) = true.
Proof. intros answer root_answer kind_of F t Hl Hro Hw Hc. exact (proj2 (monotone_subset_proof answer root_answer kind_of F Hl Hro t Hw Hc)). Qed.

Lemma no_corruption_proof : forall answer root_answer kind_of F t,
  (forall id k, F id = Some k -> loud (kind_of id) k = true) -> roots_are_objects root_answer ->
  fplan_wf kind_of t = true -> consistent answer root_answer kind_of t = true ->
  forall l v, get_loc l (ls_data (run answer root_answer kind_of F t)) = Some v -> is_atom v = true ->
  get_loc l (ls_data (run answer root_answer kind_of no_faults t)) = Some v.
Proof.
  intros answer root_answer kind_of F t Hl Hro Hwf Hc l v Hg Ha.
  pose proof (monotone_proof answer root_answer kind_of F t Hl Hro Hwf Hc) as Hs.
  destruct (sub_get_loc _ _ _ _ Hs Hg) as (w & Hw & Hvw). rewrite (sub_atom_eq _ _ Ha Hvw) in Hw. exact Hw.
Qed.

Lemma errors_nonempty_proof : forall answer root_answer kind_of F t,
  (forall id k, F id = Some k -> loud (kind_of id) k = true) -> roots_are_objects root_answer ->
  forallb (fetch_wf kind_of) (fetches_of t) = true -> forallb (fault_fits F) (fetches_of t) = true ->
  (exists rq, In rq (ls_reqs (run answer root_answer kind_of no_faults t)) /\ F (rq_fetch rq) <> None) ->
  ls_errors (run answer root_answer kind_of F t) <> [].
Proof.
  intros answer root_answer kind_of F t Hl Hro Hw Hf.
  exact (errors_nonempty_partial_proof answer root_answer kind_of F Hl Hro t (fetch_wfF_join _ _ _ Hw Hf)).
Qed.
