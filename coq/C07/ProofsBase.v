(* Generic facts about the loader fold (any exchange): state invariants and response-equivalent
   exchanges give the same loader state.  Used by C07 and by C16b. *)
From Gv Require Import lib.Bytes lib.Json C02.Model C07.Model.
From Coq Require Import Lia.
Open Scope N_scope.

(* responses that the loader cannot tell apart: it never reads the Cache-Control values *)
Definition resp_eqv (a b : response) : Prop :=
  rs_err a = rs_err b /\ rs_status a = rs_status b /\ rs_body a = rs_body b.

Lemma resp_eqv_refl : forall a, resp_eqv a a.
Proof. intros; repeat split. Qed.

Lemma merge_result_eqv : forall f a b items batch s, resp_eqv a b -> merge_result f a items batch s = merge_result f b items batch s.
Proof.
  intros f a b items batch s (He & Hs & Hb). unfold merge_result. rewrite He, Hs, Hb. reflexivity.
Qed.

Section Fold.
  Variables St1 St2 : Type.
  Variable e1 : St1 -> request -> response * St1.
  Variable e2 : St2 -> request -> response * St2.
  Variable Inv : St1 -> St2 -> Prop.
  Hypothesis Hstep : forall x1 x2 rq, Inv x1 x2 ->
    resp_eqv (fst (e1 x1 rq)) (fst (e2 x2 rq)) /\ Inv (snd (e1 x1 rq)) (snd (e2 x2 rq)).

  Lemma run_fetch_sim : forall f s x1 x2, Inv x1 x2 ->
    fst (run_fetch St1 e1 f (s, x1)) = fst (run_fetch St2 e2 f (s, x2)) /\
    Inv (snd (run_fetch St1 e1 f (s, x1))) (snd (run_fetch St2 e2 f (s, x2))).
  Proof.
    intros f s x1 x2 HI. unfold run_fetch.
    destruct (should_skip f s); [split; auto|].
    destruct (prepare f (ls_data s) (select_items (ls_data s) (f_path f))) as [d|d rq batch]; [split; auto|].
    destruct (Hstep x1 x2 rq HI) as [Heq HI'].
    destruct (e1 x1 rq) as [r1 x1'] eqn:E1. destruct (e2 x2 rq) as [r2 x2'] eqn:E2. simpl in *.
    destruct Heq as (He & Hs & Hb).
    split; [|exact HI'].
    rewrite He. apply merge_result_eqv. repeat split; assumption.
  Qed.

  Lemma run_tree_sim : forall t s x1 x2, Inv x1 x2 ->
    fst (run_tree St1 e1 t (s, x1)) = fst (run_tree St2 e2 t (s, x2)) /\
    Inv (snd (run_tree St1 e1 t (s, x1))) (snd (run_tree St2 e2 t (s, x2))).
  Proof.
    fix IH 1. intros t; destruct t as [f|l|l]; intros s x1 x2 HI.
    - simpl. apply run_fetch_sim; assumption.
    - simpl. revert s x1 x2 HI. induction l as [|t r IHl]; intros s x1 x2 HI; [split; auto|].
      destruct (IH t s x1 x2 HI) as [Hf HI'].
      destruct (run_tree St1 e1 t (s, x1)) as [s1 y1] eqn:R1.
      destruct (run_tree St2 e2 t (s, x2)) as [s2 y2] eqn:R2. simpl in Hf, HI'. subst s2.
      simpl. destruct (ls_hard s1); [split; auto|]. apply IHl; assumption.
    - simpl. revert s x1 x2 HI. induction l as [|t r IHl]; intros s x1 x2 HI; [split; auto|].
      destruct (IH t s x1 x2 HI) as [Hf HI'].
      destruct (run_tree St1 e1 t (s, x1)) as [s1 y1] eqn:R1.
      destruct (run_tree St2 e2 t (s, x2)) as [s2 y2] eqn:R2. simpl in Hf, HI'. subst s2.
      apply IHl; assumption.
  Qed.
End Fold.

Section StateInv.
  Variable St : Type.
  Variable e : St -> request -> response * St.
  Variable P : St -> Prop.
  Hypothesis Hstep : forall x rq, P x -> P (snd (e x rq)).

  Lemma run_fetch_inv : forall f s x, P x -> P (snd (run_fetch St e f (s, x))).
  Proof.
    intros f s x HP. unfold run_fetch.
    destruct (should_skip f s); [exact HP|].
    destruct (prepare f (ls_data s) (select_items (ls_data s) (f_path f))) as [d|d rq batch]; [exact HP|].
    specialize (Hstep x rq HP). destruct (e x rq) as [r x']. exact Hstep.
  Qed.

  Lemma run_tree_inv : forall t s x, P x -> P (snd (run_tree St e t (s, x))).
  Proof.
    fix IH 1. intros t; destruct t as [f|l|l]; intros s x HP.
    - simpl. apply run_fetch_inv; assumption.
    - simpl. revert s x HP. induction l as [|t r IHl]; intros s x HP; [exact HP|].
      specialize (IH t s x HP). destruct (run_tree St e t (s, x)) as [s1 y1]. simpl in *.
      destruct (ls_hard s1); [exact IH|]. apply IHl; exact IH.
    - simpl. revert s x HP. induction l as [|t r IHl]; intros s x HP; [exact HP|].
      specialize (IH t s x HP). destruct (run_tree St e t (s, x)) as [s1 y1]. apply IHl; exact IH.
  Qed.
End StateInv.

Lemma bytes_eqb_true : forall a b, bytes_eqb a b = true -> a = b.
Proof.
  induction a as [|x a IH]; destruct b as [|y b]; simpl; intros H; try discriminate; auto.
  apply andb_prop in H as [H1 H2]. apply N.eqb_eq in H1. subst. f_equal. auto.
Qed.
Lemma bytes_eqb_refl : forall a, bytes_eqb a a = true.
Proof. induction a as [|x a IH]; simpl; [reflexivity|]. rewrite N.eqb_refl. exact IH. Qed.
