(* C07: values without duplicate object keys -- reflexivity of the information order, closure under
   get_loc / set_loc / MergeValues, and merge as an upper bound of both arguments below a common bound. *)
From Gv Require Import lib.Bytes lib.Json C02.Model C07.Model C07.Spec C07.ProofsBase C07.ProofsSub C07.ProofsRep C07.ProofsSelect.
From Coq Require Import Lia PeanoNat.
Open Scope N_scope.

Definition keys_nodup (m : list (bytes * json)) : Prop := forall k v, In (k, v) m -> obj_get k m = Some v.
Definition has_key (k : bytes) (m : list (bytes * json)) : bool := existsb (fun kv => bytes_eqb (fst kv) k) m.

Lemma json_wf_arr : forall l, json_wf (JArr l) = forallb json_wf l.
Proof. induction l as [|x l IH]; simpl; [reflexivity|]. f_equal; try exact IH. Qed.
Lemma json_wf_obj : forall m, json_wf (JObj m) = nodup_keys_b m && forallb (fun kv => json_wf (snd kv)) m.
Proof. intros m. simpl. f_equal. induction m as [|[k v] r IH]; simpl; [reflexivity|]. f_equal; try exact IH. Qed.

Lemma has_key_get : forall k m, has_key k m = false <-> obj_get k m = None.
Proof.
  induction m as [|[k' v'] r IH]; simpl; [split; reflexivity|].
  assert (E : bytes_eqb k' k = bytes_eqb k k').
  { destruct (bytes_eqb k' k) eqn:A, (bytes_eqb k k') eqn:B; try reflexivity.
    - apply bytes_eqb_true in A. subst. rewrite bytes_eqb_refl in B. discriminate.
    - apply bytes_eqb_true in B. subst. rewrite bytes_eqb_refl in A. discriminate. }
  rewrite E. destruct (bytes_eqb k k'); simpl; [split; discriminate|exact IH].
Qed.

Lemma nodup_keys_spec : forall m, nodup_keys_b m = true -> keys_nodup m.
Proof.
  induction m as [|[k v] r IH]; intros H k' v' Hin; [contradiction|].
  simpl in H. apply andb_prop in H as [H1 H2]. simpl.
  destruct Hin as [E|Hin].
  - inversion E; subst. rewrite bytes_eqb_refl. reflexivity.
  - destruct (bytes_eqb k' k) eqn:E.
    + apply bytes_eqb_true in E. subst k'. exfalso.
      apply negb_true_iff in H1. change (has_key k r = false) in H1. apply has_key_get in H1.
      pose proof (IH H2 k v' Hin) as G. rewrite H1 in G. discriminate.
    + apply IH; assumption.
Qed.

(* ---- reflexivity ---- *)
Lemma sub_refl : forall v, json_wf v = true -> sub_b v v = true.
Proof.
  intros v; induction v as [|x|x|x|l H|m H] using json_ind'; intros Hw; try reflexivity.
  - simpl. apply Bool.eqb_reflx.
  - simpl. apply bytes_eqb_refl.
  - simpl. apply bytes_eqb_refl.
  - rewrite sub_arr_eq. rewrite json_wf_arr in Hw. induction H as [|x l Hx Hl IH]; simpl in *; [reflexivity|].
    apply andb_prop in Hw as [W1 W2]. rewrite (Hx W1). apply IH. exact W2.
  - rewrite sub_obj_eq. rewrite json_wf_obj in Hw. apply andb_prop in Hw as [Wn Wv].
    pose proof (nodup_keys_spec _ Wn) as Hnd. apply sub_members_spec. intros k v Hin.
    exists v. split; [apply Hnd; exact Hin|].
    rewrite Forall_forall in H. rewrite forallb_forall in Wv. apply (H (k, v) Hin). apply (Wv (k, v) Hin).
Qed.

(* ---- closure ---- *)
Lemma obj_get_wf : forall k m v, forallb (fun kv => json_wf (snd kv)) m = true -> obj_get k m = Some v -> json_wf v = true.
Proof.
  intros k m v Hw G. destruct (obj_get_in _ _ _ G) as (k' & Hin & _). rewrite forallb_forall in Hw. apply (Hw (k', v) Hin).
Qed.

Lemma get_loc_wf : forall l d v, json_wf d = true -> get_loc l d = Some v -> json_wf v = true.
Proof.
  induction l as [|[k|i] r IH]; intros d v Hw Hg; simpl in Hg.
  - inversion Hg; subst. exact Hw.
  - destruct d; try discriminate. destruct (obj_get k members) as [c|] eqn:G; [|discriminate].
    rewrite json_wf_obj in Hw. apply andb_prop in Hw as [_ Hv]. eapply IH; [|exact Hg]. eapply obj_get_wf; eassumption.
  - destruct d; try discriminate. destruct (nth_error items (N.to_nat i)) as [c|] eqn:G; [|discriminate].
    rewrite json_wf_arr in Hw. rewrite forallb_forall in Hw. eapply IH; [|exact Hg]. apply Hw. eapply nth_error_In. exact G.
Qed.

Lemma has_key_obj_set : forall q k v m, has_key q (obj_set k v m) = has_key q m || bytes_eqb k q.
Proof.
  unfold has_key. induction m as [|[k' v'] r IH]; simpl.
  - rewrite orb_false_r. reflexivity.
  - destruct (bytes_eqb k k') eqn:E; simpl.
    + apply bytes_eqb_true in E. subst k'. destruct (bytes_eqb k q), (existsb (fun kv => bytes_eqb (fst kv) q) r); reflexivity.
    + rewrite IH. rewrite orb_assoc. reflexivity.
Qed.

Lemma obj_set_nodup : forall k v m, nodup_keys_b m = true -> nodup_keys_b (obj_set k v m) = true.
Proof.
  induction m as [|[k' v'] r IH]; simpl; intros H; [reflexivity|].
  apply andb_prop in H as [H1 H2]. destruct (bytes_eqb k k') eqn:E; simpl.
  - rewrite H1, H2. reflexivity.
  - rewrite (IH H2), andb_true_r. change (negb (has_key k' (obj_set k v r)) = true). rewrite has_key_obj_set.
    change (negb (has_key k' r) = true) in H1. apply negb_true_iff in H1. rewrite H1, E. reflexivity.
Qed.

Lemma obj_set_vals_wf : forall k v m, json_wf v = true -> forallb (fun kv => json_wf (snd kv)) m = true ->
  forallb (fun kv => json_wf (snd kv)) (obj_set k v m) = true.
Proof.
  induction m as [|[k' v'] r IH]; simpl; intros Hv H; [rewrite Hv; reflexivity|].
  apply andb_prop in H as [H1 H2]. destruct (bytes_eqb k k'); simpl; [rewrite Hv, H2; reflexivity|rewrite H1; apply IH; assumption].
Qed.

Lemma obj_set_wf : forall k v m, json_wf (JObj m) = true -> json_wf v = true -> json_wf (JObj (obj_set k v m)) = true.
Proof.
  intros k v m Hm Hv. rewrite json_wf_obj in *. apply andb_prop in Hm as [H1 H2].
  rewrite (obj_set_nodup k v m H1), (obj_set_vals_wf k v m Hv H2). reflexivity.
Qed.

Lemma list_set_wf : forall n x l, forallb json_wf l = true -> json_wf x = true -> forallb json_wf (list_set n x l) = true.
Proof.
  induction n as [|n IH]; intros x l Hl Hx; destruct l as [|y l]; simpl in *; try reflexivity.
  - apply andb_prop in Hl as [_ H2]. rewrite Hx, H2. reflexivity.
  - apply andb_prop in Hl as [H1 H2]. rewrite H1. apply IH; assumption.
Qed.

Lemma set_loc_wf : forall l d v, json_wf d = true -> json_wf v = true -> json_wf (set_loc l v d) = true.
Proof.
  induction l as [|[k|i] r IH]; intros d v Hd Hv; simpl; [exact Hv| |].
  - destruct d; try exact Hd. destruct (obj_get k members) as [c|] eqn:G; [|exact Hd].
    apply obj_set_wf; [exact Hd|]. apply IH; [|exact Hv].
    rewrite json_wf_obj in Hd. apply andb_prop in Hd as [_ H2]. eapply obj_get_wf; eassumption.
  - destruct d; try exact Hd. destruct (nth_error items (N.to_nat i)) as [c|] eqn:G; [|exact Hd].
    rewrite json_wf_arr in *. apply list_set_wf; [exact Hd|]. apply IH; [|exact Hv].
    rewrite forallb_forall in Hd. apply Hd. eapply nth_error_In. exact G.
Qed.

(* MergeValues keeps values well formed *)
Lemma merge_wf : forall b a a' ch, merge a b = Some (a', ch) -> json_wf a = true -> json_wf b = true -> json_wf a' = true.
Proof.
  intros b; induction b as [|y|y|y|ba H|mb H] using json_ind'; intros a a' ch Hm Ha Hb.
  - destruct a; simpl in Hm; inversion Hm; subst; exact Ha.
  - destruct a as [|x| | | |]; simpl in Hm; try discriminate. destruct (Bool.eqb x y); inversion Hm; subst; assumption.
  - destruct a as [| |x| | |]; simpl in Hm; try discriminate. destruct (bytes_eqb x y); inversion Hm; subst; assumption.
  - destruct a as [| | |x| |]; simpl in Hm; try discriminate. destruct (bytes_eqb x y); inversion Hm; subst; assumption.
  - destruct a as [| | | |aa|]; try (simpl in Hm; discriminate).
    rewrite merge_arr_eq in Hm.
    destruct aa as [|x0 aa0]; [inversion Hm; subst; exact Hb|].
    destruct ba as [|y0 ba0]; [inversion Hm; subst; exact Ha|].
    destruct (merge_list (x0 :: aa0) (y0 :: ba0)) as [l|] eqn:ML; [|discriminate]. inversion Hm; subst. clear Hm.
    rewrite json_wf_arr in *. revert H ML Ha Hb. generalize (x0 :: aa0) as aa. generalize (y0 :: ba0) as bb. intros bb aa. revert aa l.
    induction bb as [|y bb IH]; intros aa l HF ML Ha Hb.
    + destruct aa; simpl in ML; [|discriminate]. inversion ML; subst. reflexivity.
    + destruct aa as [|x aa]; simpl in ML; [discriminate|].
      destruct (merge x y) as [[n chn]|] eqn:Mxy; [|discriminate].
      destruct (merge_list aa bb) as [r|] eqn:Mr; [|discriminate]. inversion ML; subst. clear ML.
      simpl in Ha, Hb. apply andb_prop in Ha as [A1 A2]. apply andb_prop in Hb as [B1 B2].
      inversion HF; subst. simpl. rewrite (H1 x n chn Mxy A1 B1). simpl. eapply IH; eassumption.
  - destruct a as [| | | | |ma]; try (simpl in Hm; discriminate).
    rewrite merge_obj_eq in Hm.
    destruct (merge_members ma mb) as [m'|] eqn:MM; [|discriminate]. inversion Hm; subst. clear Hm.
    rewrite (json_wf_obj mb) in Hb. apply andb_prop in Hb as [_ Hbv].
    revert ma m' MM Ha Hbv. induction H as [|[k r] mb' Hr Hrest IH]; intros ma m' MM Ha Hbv.
    + simpl in MM. inversion MM; subst. exact Ha.
    + simpl in Hbv. apply andb_prop in Hbv as [B1 B2]. simpl in MM.
      destruct (obj_get k ma) as [l|] eqn:G.
      * destruct (merge l r) as [[n chn]|] eqn:Mlr; [|discriminate].
        apply (IH (obj_set k n ma) m' MM); [|exact B2]. apply obj_set_wf; [exact Ha|].
        simpl in Hr. eapply Hr; [exact Mlr| |exact B1].
        rewrite json_wf_obj in Ha. apply andb_prop in Ha as [_ Hv]. exact (obj_get_wf k ma l Hv G).
      * apply (IH (obj_set k r ma) m' MM); [|exact B2]. apply obj_set_wf; assumption.
Qed.

(* ---- merge is an upper bound of both arguments (below a common bound, on well-formed values) ---- *)
Lemma obj_get_set_eq : forall k q v m, bytes_eqb q k = true -> obj_get q (obj_set k v m) = Some v.
Proof.
  intros k q v m E. apply bytes_eqb_true in E. subst q.
  induction m as [|[k' v'] r IH]; simpl; [rewrite bytes_eqb_refl; reflexivity|].
  destruct (bytes_eqb k k') eqn:E; simpl; rewrite E; [reflexivity|exact IH].
Qed.
Lemma obj_get_set_neq : forall k q v m, bytes_eqb q k = false -> obj_get q (obj_set k v m) = obj_get q m.
Proof.
  intros k q v m E. induction m as [|[k' v'] r IH]; simpl; [rewrite E; reflexivity|].
  destruct (bytes_eqb k k') eqn:E2; simpl.
  - apply bytes_eqb_true in E2. subst k'. rewrite E. reflexivity.
  - destruct (bytes_eqb q k'); [reflexivity|exact IH].
Qed.

Lemma sub_members_upd : forall X m k n, sub_members X m = true ->
  (forall l, obj_get k m = Some l -> sub_b l n = true) -> sub_members X (obj_set k n m) = true.
Proof.
  intros X m k n HX Hl. apply sub_members_spec. intros kx vx Hin.
  destruct (proj1 (sub_members_spec _ _) HX kx vx Hin) as (v' & Hv' & Hs).
  destruct (bytes_eqb kx k) eqn:E.
  - exists n. split; [apply obj_get_set_eq; exact E|].
    eapply sub_trans; [exact Hs|]. apply Hl. rewrite <- (obj_get_key_eq _ _ _ E). exact Hv'.
  - exists v'. split; [rewrite obj_get_set_neq by exact E; exact Hv'|exact Hs].
Qed.

Lemma sub_atoms_eq : forall a b c, is_atom a = true -> is_atom b = true -> sub_b a c = true -> sub_b b c = true -> a = b.
Proof.
  intros a b c Ha Hb Hac Hbc.
  pose proof (sub_atom_eq a c Ha Hac). pose proof (sub_atom_eq b c Hb Hbc). congruence.
Qed.

Lemma merge_upper : forall b a c a' ch, merge a b = Some (a', ch) -> sub_b a c = true -> sub_b b c = true ->
  json_wf a = true -> json_wf b = true -> sub_b a a' = true /\ sub_b b a' = true.
Proof.
  intros b; induction b as [|y|y|y|ba H|mb H] using json_ind'; intros a c a' ch Hm Ha Hb Wa Wb.
  - destruct a; simpl in Hm; inversion Hm; subst; (split; [apply sub_refl; exact Wa|reflexivity]).
  - destruct a as [|x| | | |]; simpl in Hm; try discriminate.
    destruct (Bool.eqb x y) eqn:E; inversion Hm; subst.
    + apply Bool.eqb_prop in E. subst. split; apply sub_refl; reflexivity.
    + pose proof (sub_atoms_eq (JBool x) (JBool y) c eq_refl eq_refl Ha Hb) as Heq. inversion Heq; subst. rewrite Bool.eqb_reflx in E. discriminate.
  - destruct a as [| |x| | |]; simpl in Hm; try discriminate.
    destruct (bytes_eqb x y) eqn:E; inversion Hm; subst.
    + apply bytes_eqb_true in E. subst. split; apply sub_refl; reflexivity.
    + pose proof (sub_atoms_eq (JNum x) (JNum y) c eq_refl eq_refl Ha Hb) as Heq. inversion Heq; subst. rewrite bytes_eqb_refl in E. discriminate.
  - destruct a as [| | |x| |]; simpl in Hm; try discriminate.
    destruct (bytes_eqb x y) eqn:E; inversion Hm; subst.
    + apply bytes_eqb_true in E. subst. split; apply sub_refl; reflexivity.
    + pose proof (sub_atoms_eq (JStr x) (JStr y) c eq_refl eq_refl Ha Hb) as Heq. inversion Heq; subst. rewrite bytes_eqb_refl in E. discriminate.
  - destruct a as [| | | |aa|]; try (simpl in Hm; discriminate).
    rewrite merge_arr_eq in Hm.
    destruct (sub_arr_inv _ _ Ha) as (lc & -> & Hla). destruct (sub_arr_inv _ _ Hb) as (lc' & E & Hlb). inversion E; subst lc'. clear E.
    destruct aa as [|x0 aa0].
    { inversion Hm; subst. destruct lc; [|discriminate]. destruct ba; [|discriminate]. split; reflexivity. }
    destruct ba as [|y0 ba0].
    { destruct lc; discriminate. }
    destruct (merge_list (x0 :: aa0) (y0 :: ba0)) as [l|] eqn:ML; [|discriminate]. inversion Hm; subst. clear Hm.
    rewrite !sub_arr_eq. rewrite json_wf_arr in Wa, Wb. clear Ha Hb.
    revert H ML Hla Hlb Wa Wb. generalize (x0 :: aa0) as aa. generalize (y0 :: ba0) as bb. intros bb aa. revert aa l lc.
    induction bb as [|y bb IH]; intros aa l lc HF ML Hla Hlb Wa Wb.
    + destruct aa; simpl in ML; [|discriminate]. inversion ML; subst. split; reflexivity.
    + destruct aa as [|x aa]; simpl in ML; [discriminate|].
      destruct (merge x y) as [[n chn]|] eqn:Mxy; [|discriminate].
      destruct (merge_list aa bb) as [r|] eqn:Mr; [|discriminate]. inversion ML; subst. clear ML.
      destruct lc as [|z lc]; [discriminate|]. simpl in Hla, Hlb, Wa, Wb.
      apply andb_prop in Hla as [A1 A2]. apply andb_prop in Hlb as [B1 B2].
      apply andb_prop in Wa as [Wa1 Wa2]. apply andb_prop in Wb as [Wb1 Wb2].
      inversion HF; subst. destruct (H1 x z n chn Mxy A1 B1 Wa1 Wb1) as [S1 S2].
      destruct (IH aa r lc H2 Mr A2 B2 Wa2 Wb2) as [T1 T2]. simpl. rewrite S1, S2, T1, T2. split; reflexivity.
  - destruct a as [| | | | |ma]; try (simpl in Hm; discriminate).
    rewrite merge_obj_eq in Hm.
    destruct (merge_members ma mb) as [m'|] eqn:MM; [|discriminate]. inversion Hm; subst. clear Hm.
    destruct (sub_obj_inv _ _ Ha) as (mc & -> & Hma). destruct (sub_obj_inv _ _ Hb) as (mc' & E & Hmb). inversion E; subst mc'. clear E.
    rewrite !sub_obj_eq. clear Ha Hb.
    rewrite (json_wf_obj mb) in Wb. apply andb_prop in Wb as [_ Wbv].
    assert (Hgen : (forall X, sub_members X ma = true -> sub_members X m' = true) /\ sub_members mb m' = true).
    { revert ma m' MM Hma Hmb Wa Wbv. induction H as [|[k r] mb' Hr Hrest IH]; intros ma m' MM Hma Hmb Wa Wbv.
      - simpl in MM. inversion MM; subst. split; [auto|reflexivity].
      - simpl in Hmb. apply andb_prop in Hmb as [B1 B2].
        destruct (obj_get k mc) as [C|] eqn:GC; [|discriminate].
        simpl in Wbv. apply andb_prop in Wbv as [Wr Wbv']. simpl in MM.
        assert (Hstep : exists n, merge_members (obj_set k n ma) mb' = Some m' /\ sub_b n C = true /\ json_wf n = true /\ sub_b r n = true /\
                                  (forall l, obj_get k ma = Some l -> sub_b l n = true)).
        { destruct (obj_get k ma) as [l|] eqn:G.
          - destruct (merge l r) as [[n chn]|] eqn:Mlr; [|discriminate].
            destruct (sub_members_get _ _ _ _ Hma G) as (C' & HC' & HlC). rewrite GC in HC'. inversion HC'; subst C'.
            assert (Wl : json_wf l = true).
            { rewrite json_wf_obj in Wa. apply andb_prop in Wa as [_ Hv]. exact (obj_get_wf k ma l Hv G). }
            simpl in Hr. destruct (Hr l C n chn Mlr HlC B1 Wl Wr) as [S1 S2].
            exists n. split; [exact MM|]. split; [eapply merge_join; eassumption|]. split; [eapply merge_wf; eassumption|].
            split; [exact S2|]. intros l' E. inversion E; subst. exact S1.
          - exists r. split; [exact MM|]. split; [exact B1|]. split; [exact Wr|]. split; [apply sub_refl; exact Wr|]. intros l' E. discriminate. }
        destruct Hstep as (n & MM' & HnC & Wn & Hrn & Hln).
        destruct (IH (obj_set k n ma) m' MM') as [I1 I2]; try assumption.
        + eapply sub_members_obj_set; eassumption.
        + apply obj_set_wf; assumption.
        + split.
          * intros X HX. apply I1. apply sub_members_upd; assumption.
          * simpl. rewrite I2, andb_true_r.
            assert (Hone : sub_members [(k, r)] (obj_set k n ma) = true).
            { simpl. rewrite (obj_get_set_eq k k n ma (bytes_eqb_refl k)), Hrn. reflexivity. }
            apply I1 in Hone. simpl in Hone. rewrite andb_true_r in Hone. exact Hone. }
    destruct Hgen as [G1 G2]. split; [|exact G2].
    apply G1. rewrite <- sub_obj_eq. apply sub_refl. exact Wa.
Qed.
