(* C07: valid_json as a corollary of the C02 refinement theorem. *)
From Gv Require Import lib.Bytes lib.Json C02.Model C02.Spec C02.Properties C07.Model.
Open Scope N_scope.

Lemma valid_json_proof : forall (root : node) (s : lstate),
  root_wf root = true ->
  let o := finish root s in
  r_data (o_resolved o) = data_bytes (fst (complete_root no_deny root (ls_data s))) /\
  r_panic (o_resolved o) = false /\ r_render_err (o_resolved o) = false.
Proof.
  intros root s Hwf. unfold finish.
  destruct (resolve_refines_complete no_deny root (ls_data s) Hwf) as (Hp & Hr & _ & Hd & _).
  destruct (skip_null_errors s); cbn; repeat split; assumption.
Qed.
