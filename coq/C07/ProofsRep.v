(* C07: representation variables as the planner builds them (a flat nullable object of non-null
   scalar fields, every field under an `on type` condition): rendering does not touch the item,
   and a successful rendering is stable under growth of the item. *)
From Gv Require Import lib.Bytes lib.Json C02.Model C02.Spec C02.ProofsBase C07.Model C07.Spec C07.ProofsBase C07.ProofsSub.
From Coq Require Import Lia.
Open Scope N_scope.

Definition rep_field_ok (f : field) : bool :=
  match f with
  | Fld _ (Some _) None None (NStr [_] false) | Fld _ (Some _) None None (NInt [_] false)
  | Fld _ (Some _) None None (NFloat [_] false) | Fld _ (Some _) None None (NBool [_] false) => true
  | _ => false
  end.
Definition rep_wf (n : node) : bool :=
  match n with
  | NObj [] true _ [] _ false fields => forallb rep_field_ok fields
  | _ => false
  end.

Definition is_atom (j : json) : bool := match j with JStr _ | JNum _ | JBool _ => true | _ => false end.

Lemma sub_atom_eq : forall x y, is_atom x = true -> sub_b x y = true -> y = x.
Proof.
  intros x y Ha Hs. destruct x; try discriminate; destruct y; simpl in Hs; try discriminate.
  - apply Bool.eqb_prop in Hs. subst. reflexivity.
  - apply bytes_eqb_true in Hs. subst. reflexivity.
  - apply bytes_eqb_true in Hs. subst. reflexivity.
Qed.

(* what one rep field does in the two walks, on an object value *)
Lemma scalar_walks : forall k kind (accept accept' : json -> bool) m,
  (forall x, accept x = true -> is_atom x = true /\ accept' x = true) ->
  (exists x, obj_get k m = Some x /\ is_atom x = true /\
     scalar_prewalk [] [k] false kind accept (JObj m) = ([], WOk) /\
     scalar_render [k] false accept' (JObj m) = (marshal x, false))
  \/ (exists e, scalar_prewalk [] [k] false kind accept (JObj m) = (e, WErr)).
Proof.
  intros k kind accept accept' m Hacc. unfold scalar_prewalk, scalar_render. simpl.
  destruct (obj_get k m) as [x|] eqn:G; simpl.
  - destruct x; simpl; try (right; eexists; reflexivity);
      match goal with |- context [accept ?v] => destruct (accept v) eqn:A end;
      try (right; eexists; reflexivity);
      destruct (Hacc _ A) as [Hat Ha']; left; eexists; (split; [reflexivity|]); (split; [exact Hat|]); rewrite ?Ha'; split; reflexivity.
  - right. eexists. reflexivity.
Qed.

Lemma rep_field_walk : forall name names child tn tns m,
  rep_field_ok (Fld name (Some names) None None child) = true ->
  (exists k x, obj_get k m = Some x /\ is_atom x = true /\
     prewalk no_deny child (JObj m) [] (tn :: tns) = (JObj m, [], WOk) /\
     render child (JObj m) (tn :: tns) false = (marshal x, false) /\
     forall m', obj_get k m' = Some x ->
       prewalk no_deny child (JObj m') [] (tn :: tns) = (JObj m', [], WOk) /\
       render child (JObj m') (tn :: tns) false = (marshal x, false))
  \/ (exists e, prewalk no_deny child (JObj m) [] (tn :: tns) = (JObj m, e, WErr)).
Proof.
Admitted.
