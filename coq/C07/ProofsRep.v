(* C07: representation variables as the planner builds them (a flat nullable object of non-null
   scalar fields, every field under an `on type` condition): rendering does not touch the item,
   and a successful rendering is stable under growth of the item. *)
From Gv Require Import lib.Bytes lib.Json C02.Model C02.Spec C02.ProofsBase C07.Model C07.Spec C07.ProofsBase C07.ProofsSub.
From Coq Require Import Lia.
Open Scope N_scope.


Lemma sub_atom_eq : forall x y, is_atom x = true -> sub_b x y = true -> y = x.
Proof.
  intros x y Ha Hs. destruct x; try discriminate; destruct y; simpl in Hs; try discriminate.
  - apply Bool.eqb_prop in Hs. subst. reflexivity.
  - apply bytes_eqb_true in Hs. subst. reflexivity.
  - apply bytes_eqb_true in Hs. subst. reflexivity.
Qed.

(* what one rep field does in the two walks, on an object value: a function of the value's member *)
Definition rep_key (child : node) : bytes := match node_path child with [k] => k | _ => [] end.
Definition rep_accept (child : node) : json -> bool :=
  match child with
  | NStr _ _ => is_jstr
  | NInt _ _ | NFloat _ _ => is_jnum
  | NBool _ _ => is_jbool
  | _ => fun _ => false
  end.

Lemma rep_accept_atom : forall child x, rep_accept child x = true -> is_atom x = true.
Proof. intros child x H. destruct child; simpl in H; try discriminate; destruct x; try discriminate; reflexivity. Qed.

Lemma rep_field_spec : forall name on child tns m,
  rep_field_ok (Fld name on None None child) = true ->
  match obj_get (rep_key child) m with
  | Some x =>
    if rep_accept child x
    then prewalk no_deny child (JObj m) [] tns = (JObj m, [], WOk) /\ render child (JObj m) tns false = (marshal x, false)
    else exists e, prewalk no_deny child (JObj m) [] tns = (JObj m, e, WErr)
  | None => exists e, prewalk no_deny child (JObj m) [] tns = (JObj m, e, WErr)
  end.
Proof.
  intros name on child tns m Hok.
  destruct on; [|discriminate].
  destruct child; simpl in Hok; try discriminate;
    destruct path as [|k [|? ?]]; try discriminate; destruct nullable; try discriminate;
    unfold rep_key; simpl; unfold scalar_prewalk, scalar_render; simpl;
    destruct (obj_get k m) as [x|] eqn:G; simpl; try (eexists; reflexivity);
    destruct x; simpl; try (eexists; reflexivity); split; reflexivity.
Qed.

(* the two field loops on a flat representation, as functions of the object's members *)
Fixpoint fields_ok (tns' : list (option bytes)) (fs : list field) (m : list (bytes * json)) : bool :=
  match fs with
  | [] => true
  | Fld name on pon auth child :: r =>
    if skip_field on pon tns' then fields_ok tns' r m
    else match obj_get (rep_key child) m with
         | Some x => rep_accept child x && fields_ok tns' r m
         | None => false
         end
  end.
Fixpoint fields_bytes (tns' : list (option bytes)) (fs : list field) (m : list (bytes * json)) (comma : bool) : bytes :=
  match fs with
  | [] => []
  | Fld name on pon auth child :: r =>
    if skip_field on pon tns' then fields_bytes tns' r m comma
    else ((if comma then [44] else []) ++ 34 :: name ++ [34; 58]) ++
         (match obj_get (rep_key child) m with Some x => marshal x | None => [] end) ++ fields_bytes tns' r m true
  end.

Lemma pw_fields_flat : forall fs tns' m, forallb rep_field_ok fs = true ->
  exists e, pw_fields no_deny true [] [] tns' fs (JObj m) =
            (JObj m, e, if fields_ok tns' fs m then None else Some (false, WErr)).
Proof.
  induction fs as [|[name on pon auth child] r IH]; intros tns' m Hok; simpl.
  - eexists. reflexivity.
  - simpl in Hok. apply andb_prop in Hok as [Hf Hr].
    assert (Hpa : pon = None /\ auth = None).
    { destruct on; [|discriminate]. destruct pon; [discriminate|]. destruct auth; [discriminate|]. split; reflexivity. }
    destruct Hpa as [-> ->].
    destruct (skip_field on None tns'); [apply IH; exact Hr|].
    unfold pw_denied.
    pose proof (rep_field_spec name on child tns' m Hf) as Hs.
    destruct (obj_get (rep_key child) m) as [x|].
    + destruct (rep_accept child x).
      * destruct Hs as [Hp _]. rewrite Hp. destruct (IH tns' m Hr) as [e He]. rewrite He. simpl. eexists. reflexivity.
      * destruct Hs as [e Hp]. rewrite Hp. simpl. eexists. reflexivity.
    + destruct Hs as [e Hp]. rewrite Hp. simpl. eexists. reflexivity.
Qed.

Lemma rd_fields_flat : forall fs tns' m comma, forallb rep_field_ok fs = true -> fields_ok tns' fs m = true ->
  rd_fields true (JObj m) tns' fs comma = (fields_bytes tns' fs m comma, false).
Proof.
  induction fs as [|[name on pon auth child] r IH]; intros tns' m comma Hok Hfo; simpl; [reflexivity|].
  simpl in Hok. apply andb_prop in Hok as [Hf Hr]. simpl in Hfo.
  assert (Hpa : pon = None /\ auth = None).
  { destruct on; [|discriminate]. destruct pon; [discriminate|]. destruct auth; [discriminate|]. split; reflexivity. }
  destruct Hpa as [-> ->].
  destruct (skip_field on None tns'); [apply IH; assumption|].
  pose proof (rep_field_spec name on child tns' m Hf) as Hs.
  destruct (obj_get (rep_key child) m) as [x|]; [|discriminate].
  apply andb_prop in Hfo as [Ha Hfo]. rewrite Ha in Hs. destruct Hs as [_ Hrd]. rewrite Hrd.
  rewrite (IH tns' m true Hr Hfo). reflexivity.
Qed.

(* rendering a flat representation *)
Definition flat_render (fields : list field) (v : json) : option bytes :=
  match v with
  | JNull => Some b_null
  | JObj m =>
    let tns' := [typename_of (JObj m)] in
    if fields_ok tns' fields m then Some (123 :: fields_bytes tns' fields m false ++ [125]) else None
  | _ => None
  end.

Lemma tn_bad_nil : forall ty tn, tn_bad ty [] tn = false.
Proof. intros ty tn. destruct tn; reflexivity. Qed.

Lemma render_rep_flat : forall ty inacc fields v, forallb rep_field_ok fields = true ->
  render_rep (NObj [] true ty [] inacc false fields) v = (v, flat_render fields v).
Proof.
  intros ty inacc fields v Hok. unfold render_rep. rewrite prewalk_obj_eq. cbv zeta. cbn [get_path].
  destruct v as [| | | | |m]; try reflexivity.
  cbn [is_null_or_missing]. rewrite tn_bad_nil. unfold push_names. cbn [map app].
  destruct (pw_fields_flat fields [typename_of (JObj m)] m Hok) as [e He]. rewrite He.
  unfold flat_render.
  destruct (fields_ok [typename_of (JObj m)] fields m) eqn:Fo; cbn [set_path].
  - rewrite render_obj_eq. cbv zeta. cbn [get_path is_null_or_missing].
    rewrite tn_bad_nil. rewrite (rd_fields_flat fields [typename_of (JObj m)] m false Hok Fo). reflexivity.
  - reflexivity.
Qed.

Lemma fields_mono : forall fs tns' mF m0 comma, forallb rep_field_ok fs = true -> sub_members mF m0 = true ->
  fields_ok tns' fs mF = true ->
  fields_ok tns' fs m0 = true /\ fields_bytes tns' fs m0 comma = fields_bytes tns' fs mF comma.
Proof.
  induction fs as [|[name on pon auth child] r IH]; intros tns' mF m0 comma Hok Hs Hf; simpl; [split; reflexivity|].
  simpl in Hok. apply andb_prop in Hok as [Hfo Hr]. simpl in Hf.
  destruct (skip_field on pon tns'); [apply IH; assumption|].
  destruct (obj_get (rep_key child) mF) as [x|] eqn:G; [|discriminate].
  apply andb_prop in Hf as [Ha Hf].
  destruct (sub_members_get _ _ _ _ Hs G) as (x' & G' & Hx).
  apply (sub_atom_eq _ _ (rep_accept_atom _ _ Ha)) in Hx. subst x'. rewrite G', Ha.
  destruct (IH tns' mF m0 true Hr Hs Hf) as [H1 H2]. rewrite H1, H2. split; reflexivity.
Qed.

Lemma fields_all_skipped : forall fs m comma, forallb rep_field_ok fs = true ->
  fields_bytes [None] fs m comma = [].
Proof.
  induction fs as [|[name on pon auth child] r IH]; intros m comma Hok; simpl; [reflexivity|].
  simpl in Hok. apply andb_prop in Hok as [Hfo Hr].
  destruct on as [names|]; [|discriminate]. destruct pon; [discriminate|].
  simpl. apply IH. exact Hr.
Qed.

Lemma typename_sub : forall mF m0 t, sub_members mF m0 = true -> typename_of (JObj mF) = Some t -> typename_of (JObj m0) = Some t.
Proof.
  intros mF m0 t Hs H. unfold typename_of in *.
  destruct (obj_get [95;95;116;121;112;101;110;97;109;101] mF) as [v|] eqn:G; [|discriminate].
  destruct v; try discriminate. inversion H; subst.
  destruct (sub_members_get _ _ _ _ Hs G) as (v' & G' & Hv). rewrite G'.
  apply (sub_atom_eq (JStr t) v' eq_refl) in Hv. subst. reflexivity.
Qed.

Opaque typename_of.
Lemma flat_render_mono : forall fields vF v0 b, forallb rep_field_ok fields = true -> sub_b vF v0 = true ->
  flat_render fields vF = Some b -> b <> b_null -> b <> b_empty_obj -> flat_render fields v0 = Some b.
Proof.
  intros fields vF v0 b Hok Hs Hf Hn He. unfold flat_render in Hf.
  destruct vF as [| | | | |mF]; try discriminate; [inversion Hf; congruence|].
  destruct (sub_obj_inv _ _ Hs) as (m0 & -> & Hm).
  destruct (fields_ok [typename_of (JObj mF)] fields mF) eqn:Fo; [|discriminate]. inversion Hf; subst b. clear Hf.
  destruct (typename_of (JObj mF)) as [t|] eqn:TN.
  - unfold flat_render. rewrite (typename_sub _ _ _ Hm TN).
    destruct (fields_mono fields [Some t] mF m0 false Hok Hm Fo) as [H1 H2]. rewrite H1, H2. reflexivity.
  - rewrite fields_all_skipped in He by exact Hok. exfalso. apply He. reflexivity.
Qed.
Transparent typename_of.
