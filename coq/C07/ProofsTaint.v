(* C07: tainted objects (ModelTaint.v) -- the option off is the loader of the other theorems; taints only
   grow; which objects a batch merge taints, exactly; nothing tainted is rendered again. *)
From Gv Require Import lib.Bytes lib.Json C02.Model C07.Model C07.Spec C07.ModelTaint C07.SpecTaint C07.ProofsBase C07.ProofsSelect C07.ProofsErrors C07.ProofsUnaff.
From Coq Require Import Lia ZifyN ZifyNat ZifyBool PeanoNat.
Open Scope N_scope.

(* ------------------------------------------------------------------ the option off *)
Lemma filter_tainted_nil : forall items, filter_tainted [] items = items.
Proof. induction items as [|l r IH]; [reflexivity|]. unfold filter_tainted in *. simpl. f_equal. exact IH. Qed.

Lemma tainted_indices_inert : forall fixed vre cs f res, vre = false \/ cs = [] -> tainted_indices_gen fixed vre cs f res = [].
Proof.
  intros fixed vre cs f res [-> | ->]; unfold tainted_indices_gen; simpl; [reflexivity|].
  destruct (negb vre || rs_err res); reflexivity.
Qed.

Lemma merge_result_t_inert : forall (tind : tindices) cs f res items batch s, tind cs f res = [] ->
  merge_result_t tind cs f res items batch (s, []) = (merge_result f res items batch s, []).
Proof.
  intros tind cs f res items batch s H. unfold merge_result_t. rewrite H. simpl.
  destruct (ls_hard _); reflexivity.
Qed.

Section Off.
  Variable St : Type.
  Variable exchange : St -> request -> response * St.
  Variable tind : tindices.
  Variable coords : N -> list (bytes * bytes).
  Hypothesis Hoff : forall id f res, tind (coords id) f res = [].

  Lemma run_fetch_t_off : forall f s x,
    run_fetch_t St exchange tind coords f ((s, []), x) = ((fst (run_fetch St exchange f (s, x)), []), snd (run_fetch St exchange f (s, x))).
  Proof.
    intros f s x. unfold run_fetch_t, run_fetch. destruct (should_skip f s); [reflexivity|].
    rewrite filter_tainted_nil.
    destruct (prepare f (ls_data s) (select_items (ls_data s) (f_path f))) as [d|d rq batch]; [reflexivity|].
    destruct (exchange x rq) as [res x']. rewrite (merge_result_t_inert _ _ _ _ _ _ _ (Hoff (f_id f) f res)). reflexivity.
  Qed.

  Lemma run_tree_t_off : forall t s x,
    run_tree_t St exchange tind coords t ((s, []), x) = ((fst (run_tree St exchange t (s, x)), []), snd (run_tree St exchange t (s, x))).
  Proof.
    fix IH 1. intros t; destruct t as [f|l|l]; intros s x.
    - apply run_fetch_t_off.
    - simpl. revert s x. induction l as [|t r IHl]; intros s x; [reflexivity|].
      rewrite (IH t s x). destruct (run_tree St exchange t (s, x)) as [s1 y1]. cbn [fst snd].
      destruct (ls_hard s1); [reflexivity|]. apply IHl.
    - simpl. revert s x. induction l as [|t r IHl]; intros s x; [reflexivity|].
      rewrite (IH t s x). destruct (run_tree St exchange t (s, x)) as [s1 y1]. cbn [fst snd]. apply IHl.
  Qed.

  Lemma load_t_off : forall t x,
    load_t St exchange tind coords t x = ((fst (load St exchange t x), []), snd (load St exchange t x)).
  Proof. intros t x. unfold load_t, load. apply run_tree_t_off. Qed.
End Off.

Lemma load_t_off' : forall (St : Type) (exchange : St -> request -> response * St) (vre : bool) (coords : N -> list (bytes * bytes)),
  vre = false \/ (forall id, coords id = []) ->
  forall (t : ftree) (x : St),
  load_t St exchange (tainted_indices vre) coords t x = ((fst (load St exchange t x), []), snd (load St exchange t x)).
Proof.
  intros St exchange vre coords H t x. apply load_t_off. intros id f res. apply tainted_indices_inert.
  destruct H as [H|H]; [left; exact H|right; apply H].
Qed.

(* ------------------------------------------------------------------ taints only grow *)
Lemma merge_result_t_incl : forall (tind : tindices) cs f res items batch s T l,
  In l T -> In l (snd (merge_result_t tind cs f res items batch (s, T))).
Proof.
  intros tind cs f res items batch s T l H. unfold merge_result_t. cbn [snd].
  destruct (ls_hard _); [exact H|]. apply in_or_app. left. exact H.
Qed.

Section Grow.
  Variable St : Type.
  Variable exchange : St -> request -> response * St.
  Variable tind : tindices.
  Variable coords : N -> list (bytes * bytes).

  Lemma run_fetch_t_grow : forall f s T x l, In l T -> In l (snd (fst (run_fetch_t St exchange tind coords f ((s, T), x)))).
  Proof.
    intros f s T x l H. unfold run_fetch_t. destruct (should_skip f s); [exact H|].
    destruct (prepare f (ls_data s) _) as [d|d rq batch]; [exact H|].
    destruct (exchange x rq) as [res x']. cbn [fst]. apply merge_result_t_incl. exact H.
  Qed.

  Lemma run_tree_t_grow : forall t s T x l, In l T -> In l (snd (fst (run_tree_t St exchange tind coords t ((s, T), x)))).
  Proof.
    fix IH 1. intros t; destruct t as [f|ts|ts]; intros s T x l H.
    - apply run_fetch_t_grow. exact H.
    - simpl. revert s T x H. induction ts as [|t r IHl]; intros s T x H; [exact H|].
      specialize (IH t s T x l H). destruct (run_tree_t St exchange tind coords t (s, T, x)) as [[s1 T1] y1]. cbn [fst snd] in *.
      destruct (ls_hard s1); [exact IH|]. apply IHl. exact IH.
    - simpl. revert s T x H. induction ts as [|t r IHl]; intros s T x H; [exact H|].
      specialize (IH t s T x l H). destruct (run_tree_t St exchange tind coords t (s, T, x)) as [[s1 T1] y1]. cbn [fst snd] in *.
      apply IHl. exact IH.
  Qed.
End Grow.

(* ------------------------------------------------------------------ what a batch merge taints *)
Lemma mem_idx_In : forall i l, mem_idx i l = true <-> In i l.
Proof.
  intros i l. unfold mem_idx. rewrite existsb_exists. split.
  - intros (y & Hy & E). apply N.eqb_eq in E. subst. exact Hy.
  - intros H. exists i. split; [exact H|apply N.eqb_refl].
Qed.

Lemma bucket_taints_spec : forall ti bl i l,
  In l (bucket_taints ti bl i) <-> exists k targets, nth_error bl k = Some targets /\ In l targets /\ In (i + N.of_nat k) ti.
Proof.
  intros ti. induction bl as [|t r IH]; intros i l; simpl.
  - split; [intros []|]. intros (k & targets & H & _). destruct k; discriminate.
  - rewrite in_app_iff, IH. split.
    + intros [H|(k & targets & Hn & Hl & Hi)].
      * destruct (mem_idx i ti) eqn:E; [|destruct H]. exists 0%nat, t. split; [reflexivity|]. split; [exact H|].
        apply mem_idx_In in E. replace (i + N.of_nat 0) with i by lia. exact E.
      * exists (S k), targets. split; [exact Hn|]. split; [exact Hl|]. replace (i + N.of_nat (S k)) with (i + 1 + N.of_nat k) by lia. exact Hi.
    + intros (k & targets & Hn & Hl & Hi). destruct k as [|k].
      * simpl in Hn. inversion Hn; subst. left. replace (i + N.of_nat 0) with i in Hi by lia.
        apply mem_idx_In in Hi. rewrite Hi. exact Hl.
      * right. exists k, targets. split; [exact Hn|]. split; [exact Hl|]. replace (i + 1 + N.of_nat k) with (i + N.of_nat (S k)) by lia. exact Hi.
Qed.

Lemma bucket_branch_spec : forall (f : fetch) ti bl (b : list json) l,
  In l (match b with
        | [] => []
        | _ :: _ => if wrong_kind_batch f b then [] else if Nat.eqb (length bl) (length b) then bucket_taints ti bl 0 else []
        end) <->
  (exists b', JArr b = JArr b' /\ b' <> [] /\ length b' = length bl /\ wrong_kind_batch f b' = false) /\
  exists k targets, nth_error bl k = Some targets /\ In l targets /\ In (N.of_nat k) ti.
Proof.
  intros f ti bl b l. destruct b as [|e es].
  - split; [intros []|]. intros ((b' & E & Hb & _) & _). inversion E; subst. contradiction.
  - destruct (wrong_kind_batch f (e :: es)) eqn:Ewk.
    { split; [intros []|]. intros ((b' & E & _ & _ & Hw) & _). inversion E; subst. rewrite Ewk in Hw. discriminate. }
    destruct (Nat.eqb (length bl) (length (e :: es))) eqn:El.
    + apply Nat.eqb_eq in El. rewrite bucket_taints_spec. split.
      * intros (k & targets & Hn & Hl & Hin). split; [exists (e :: es); repeat split; [discriminate|symmetry; exact El|exact Ewk]|].
        exists k, targets. replace (0 + N.of_nat k) with (N.of_nat k) in Hin by lia. repeat split; assumption.
      * intros (_ & k & targets & Hn & Hl & Hin). exists k, targets. replace (0 + N.of_nat k) with (N.of_nat k) by lia. repeat split; assumption.
    + apply Nat.eqb_neq in El. split; [intros []|]. intros ((b' & E & _ & Hl & _) & _). inversion E; subst. symmetry in Hl. contradiction.
Qed.

(* the response went through the bucket branch of mergeResult: parsed, `_entities` a non-empty array of n items *)
Definition batch_merged (f : fetch) (res : response) (n : nat) : Prop :=
  exists resp b, rs_err res = false /\ rs_body res = BJson resp /\ valid_numbers resp = true /\
                 get_loc (f_datapath f) resp = Some (JArr b) /\ b <> [] /\ length b = n /\ wrong_kind_batch f b = false.

Lemma new_taints_batch : forall ti f res items bl s l, f_kind f = FBatch -> items <> [] ->
  In l (new_taints ti f res items (Some bl) s) <->
  batch_merged f res (length bl) /\ exists k targets, nth_error bl k = Some targets /\ In l targets /\ In (N.of_nat k) ti.
Proof.
  intros ti f res items bl s l Hk Hi. unfold new_taints, batch_merged.
  destruct ti as [|t0 tr].
  { split; [intros []|]. intros (_ & k & targets & _ & _ & []). }
  set (ti := t0 :: tr).
  destruct (rs_err res) eqn:Ee.
  { split; [intros []|]. intros ((resp & b & E & _) & _). discriminate. }
  destruct (rs_body res) as [| |resp] eqn:Eb; try (split; [intros []|]; intros ((resp' & b & _ & E & _) & _); discriminate).
  destruct (valid_numbers resp) eqn:Ev; cbn [negb].
  2:{ split; [intros []|]. intros ((resp' & b & _ & E & Ev' & _) & _). inversion E; subst. rewrite Ev in Ev'. discriminate. }
  rewrite Hk.
  destruct (get_loc (f_datapath f) resp) as [rd|] eqn:Er.
  2:{ cbn. split; [intros []|]. intros ((resp' & b & _ & E & _ & Er' & _) & _). inversion E; subst. rewrite Er in Er'. discriminate. }
  assert (Hfalse : (match get_loc [PName k_data; PName k_entities] resp with | _ => false end) = false) by (destruct (get_loc _ resp); reflexivity).
  replace (match get_loc [PName k_data; PName k_entities] resp with
           | Some (JArr l0) => match FBatch with FEntity => negb (Nat.eqb (length l0) 1) | _ => false end
           | _ => false
           end) with false.
  2:{ destruct (get_loc [PName k_data; PName k_entities] resp) as [[]|]; reflexivity. }
  assert (Hgen : forall X : Prop, ((exists resp' b, false = false /\ BJson resp = BJson resp' /\ valid_numbers resp' = true /\
             get_loc (f_datapath f) resp' = Some (JArr b) /\ b <> [] /\ length b = length bl /\ wrong_kind_batch f b = false) /\ X) <->
          (exists b, rd = JArr b /\ b <> [] /\ length b = length bl /\ wrong_kind_batch f b = false) /\ X).
  { intros X. split.
    - intros ((resp' & b & _ & E & _ & Er' & Hb & Hl & Hw) & HX). inversion E; subst resp'. rewrite Er in Er'. inversion Er'; subst rd.
      split; [exists b; repeat split; assumption|exact HX].
    - intros ((b & -> & Hb & Hl & Hw) & HX). split; [|exact HX]. exists resp, b. repeat split; assumption. }
  rewrite Hgen. clear Hgen.
  destruct items as [|i0 ir]; [contradiction|].
  destruct ir as [|i1 ir]; (destruct rd as [|bb|nn|ss|b|m]; cbn [is_nullish];
    try (split; [intros []|]; intros ((b' & E & _) & _); discriminate); apply bucket_branch_spec).
Qed.

(* ---- the buckets: unique representations in first-seen order, each with the items that render it ---- *)
Lemma bytes_eqb_false_neq : forall a b, bytes_eqb a b = false -> a <> b.
Proof. intros a b H ->. rewrite bytes_eqb_refl in H. discriminate. Qed.

Lemma bucket_add_keys : forall rep l bs,
  map fst (bucket_add rep l bs) = if existsb (fun k => bytes_eqb k rep) (map fst bs) then map fst bs else map fst bs ++ [rep].
Proof.
  induction bs as [|[r ls] rest IH]; simpl; [reflexivity|].
  destruct (bytes_eqb r rep) eqn:E; simpl; [reflexivity|]. rewrite IH. destruct (existsb _ (map fst rest)); reflexivity.
Qed.

Lemma nodup_snoc : forall {A} (l : list A) x, NoDup l -> ~ In x l -> NoDup (l ++ [x]).
Proof.
  induction l as [|y r IH]; intros x Hn Hx; simpl; [constructor; [intros []|constructor]|].
  inversion Hn; subst. constructor.
  - intros Hin. apply in_app_or in Hin as [Hin|[<-|[]]]; [contradiction|]. apply Hx. left. reflexivity.
  - apply IH; [assumption|]. intros Hin. apply Hx. right. exact Hin.
Qed.

Lemma bucket_add_nodup : forall rep l bs, NoDup (map fst bs) -> NoDup (map fst (bucket_add rep l bs)).
Proof.
  intros rep l bs H. rewrite bucket_add_keys. destruct (existsb _ (map fst bs)) eqn:E; [exact H|].
  apply nodup_snoc; [exact H|]. intros Hin.
  assert (existsb (fun k => bytes_eqb k rep) (map fst bs) = true) as E'; [|rewrite E' in E; discriminate].
  apply existsb_exists. exists rep. split; [exact Hin|apply bytes_eqb_refl].
Qed.

Lemma batch_prepare_nodup : forall rep items d bs0, NoDup (map fst bs0) -> NoDup (map fst (snd (batch_prepare rep items d bs0))).
Proof.
  induction items as [|l r IH]; intros d bs0 H; simpl; [exact H|].
  destruct (get_loc l d) as [v|]; [|apply IH; exact H].
  destruct (render_rep rep v) as [v' [b|]]; [|apply IH; exact H].
  destruct (bytes_eqb b b_null || bytes_eqb b b_empty_obj); apply IH; [exact H|apply bucket_add_nodup; exact H].
Qed.

(* members of the buckets are items, each put there once *)
Lemma batch_prepare_members : forall rep items d bs0 b l,
  in_buckets (snd (batch_prepare rep items d bs0)) b l -> in_buckets bs0 b l \/ In l items.
Proof.
  induction items as [|l0 r IH]; intros d bs0 b l H; simpl in H; [left; exact H|].
  destruct (get_loc l0 d) as [v|].
  2:{ apply IH in H as [H|H]; [left; exact H|right; right; exact H]. }
  destruct (render_rep rep v) as [v' [b0|]].
  2:{ apply IH in H as [H|H]; [left; exact H|right; right; exact H]. }
  destruct (bytes_eqb b0 b_null || bytes_eqb b0 b_empty_obj).
  { apply IH in H as [H|H]; [left; exact H|right; right; exact H]. }
  apply IH in H as [H|H]; [|right; right; exact H].
  apply bucket_add_in in H as [H|[_ ->]]; [left; exact H|right; left; reflexivity].
Qed.

Lemma nodup_keys_same : forall {B} (bs : list (bytes * B)) b x y, NoDup (map fst bs) -> In (b, x) bs -> In (b, y) bs -> x = y.
Proof.
  induction bs as [|[k v] r IH]; intros b x y Hn Hx Hy; [destruct Hx|].
  simpl in Hn. inversion Hn; subst.
  destruct Hx as [Ex|Hx]; destruct Hy as [Ey|Hy].
  - inversion Ex; inversion Ey; subst. reflexivity.
  - inversion Ex; subst. exfalso. apply H1. apply (in_map fst) in Hy. exact Hy.
  - inversion Ey; subst. exfalso. apply H1. apply (in_map fst) in Hx. exact Hx.
  - eapply IH; eassumption.
Qed.

Lemma nth_map_fst : forall {A B} (bs : list (A * B)) k b, nth_error (map fst bs) k = Some b -> exists x, nth_error bs k = Some (b, x).
Proof.
  induction bs as [|[a x] r IH]; intros k b H; destruct k; simpl in *; try discriminate.
  - inversion H; subst. exists x. reflexivity.
  - apply IH. exact H.
Qed.
Lemma nth_map_snd : forall {A B} (bs : list (A * B)) k x, nth_error (map snd bs) k = Some x -> exists b, nth_error bs k = Some (b, x).
Proof.
  induction bs as [|[a y] r IH]; intros k x H; destruct k; simpl in *; try discriminate.
  - inversion H; subst. exists a. reflexivity.
  - apply IH. exact H.
Qed.
Lemma nth_pair_maps : forall {A B} (bs : list (A * B)) k b x, nth_error bs k = Some (b, x) ->
  nth_error (map fst bs) k = Some b /\ nth_error (map snd bs) k = Some x.
Proof.
  induction bs as [|[a y] r IH]; intros k b x H; destruct k; simpl in *; try discriminate.
  - inversion H; subst. split; reflexivity.
  - apply IH. exact H.
Qed.

Lemma prepare_batch_inv : forall f data items d' rq bl, f_kind f = FBatch -> prepare f data items = PLoad d' rq (Some bl) ->
  let bs := snd (batch_prepare (f_rep f) items data []) in
  rq_reps rq = map fst bs /\ bl = map snd bs /\ bs <> [] /\ items <> [].
Proof.
  intros f data items d' rq bl Hk H. unfold prepare in H. rewrite Hk in H.
  destruct (batch_prepare (f_rep f) items data []) as [d1 bs] eqn:E. cbn [snd].
  destruct bs as [|b0 br]; [discriminate|]. inversion H; subst. cbn [rq_reps mk_request].
  repeat split; try discriminate. intros ->. simpl in E. inversion E.
Qed.

Lemma taint_exact_thm : forall (tind : tindices) cs f res items data d' rq bl s T,
  f_kind f = FBatch -> prepare f data items = PLoad d' rq (Some bl) ->
  let st' := merge_result_t tind cs f res items (Some bl) (s, T) in
  forall l, In l (snd st') <->
    In l T \/ (ls_hard (fst st') = false /\ batch_merged f res (length (rq_reps rq)) /\
               exists k b, nth_error (rq_reps rq) k = Some b /\ In (N.of_nat k) (tind cs f res) /\
                           in_buckets (snd (batch_prepare (f_rep f) items data [])) b l).
Proof.
  intros tind cs f res items data d' rq bl s T Hk Hp. cbv zeta. intros l.
  destruct (prepare_batch_inv _ _ _ _ _ _ Hk Hp) as (Hreps & Hbl & Hne & Hitems). cbv zeta in *.
  set (bs := snd (batch_prepare (f_rep f) items data [])) in *.
  assert (Hnd : NoDup (map fst bs)) by (apply batch_prepare_nodup; constructor).
  unfold merge_result_t. cbn [fst snd].
  set (ti := tind cs f res).
  set (s1 := match ti with [] => s | _ => add_error s LE_DEPS f end).
  destruct (ls_hard (merge_result f res items (Some bl) s1)) eqn:Eh.
  { split; [intros H; left; exact H|]. intros [H|(Hc & _)]; [exact H|discriminate]. }
  rewrite in_app_iff, (new_taints_batch ti f res items bl s1 l Hk Hitems).
  rewrite Hreps, Hbl, !map_length.
  split; (intros [H|H]; [left; exact H|right]).
  - destruct H as (Hm & k & targets & Hn & Hl & Hin). split; [reflexivity|]. split; [exact Hm|].
    apply nth_map_snd in Hn as (b & Hn). exists k, b. split; [apply (nth_pair_maps _ _ _ _ Hn)|]. split; [exact Hin|].
    exists targets. split; [apply (nth_error_In _ _ Hn)|exact Hl].
  - destruct H as (_ & Hm & k & b & Hn & Hin & (locs & Hb & Hl)). split; [exact Hm|].
    apply nth_map_fst in Hn as (x & Hn). exists k, x. split; [apply (nth_pair_maps _ _ _ _ Hn)|]. split; [|exact Hin].
    rewrite (nodup_keys_same bs b x locs Hnd (nth_error_In _ _ Hn) Hb). exact Hl.
Qed.

(* the buckets of a request: unique representations; members are items; an item is in one bucket at most *)
Lemma buckets_partition_thm : forall f data items d' rq bl, f_kind f = FBatch -> prepare f data items = PLoad d' rq (Some bl) ->
  let bs := snd (batch_prepare (f_rep f) items data []) in
  NoDup (rq_reps rq) /\ length bl = length (rq_reps rq) /\
  (forall b l, in_buckets bs b l -> In l items /\ In b (rq_reps rq)) /\
  (forall k b targets, nth_error (rq_reps rq) k = Some b -> nth_error bl k = Some targets -> forall l, In l targets <-> in_buckets bs b l).
Proof.
  intros f data items d' rq bl Hk Hp. destruct (prepare_batch_inv _ _ _ _ _ _ Hk Hp) as (Hreps & Hbl & _ & _). cbv zeta in *.
  set (bs := snd (batch_prepare (f_rep f) items data [])) in *.
  assert (Hnd : NoDup (map fst bs)) by (apply batch_prepare_nodup; constructor).
  rewrite Hreps, Hbl. split; [exact Hnd|]. split; [rewrite !map_length; reflexivity|]. split.
  - intros b l H. split.
    + apply batch_prepare_members in H as [(locs & [] & _)|H]; exact H.
    + destruct H as (locs & Hin & _). apply (in_map fst) in Hin. exact Hin.
  - intros k b targets Hn1 Hn2 l. apply nth_map_fst in Hn1 as (x & Hn). destruct (nth_pair_maps _ _ _ _ Hn) as (_ & Hs).
    rewrite Hs in Hn2. inversion Hn2; subst x. split.
    + intros Hl. exists targets. split; [apply (nth_error_In _ _ Hn)|exact Hl].
    + intros (locs & Hb & Hl). rewrite (nodup_keys_same bs b targets locs Hnd (nth_error_In _ _ Hn) Hb). exact Hl.
Qed.

(* ------------------------------------------------------------------ nothing tainted is rendered again *)
Lemma filter_tainted_spec : forall T items l, In l (filter_tainted T items) <-> In l items /\ is_tainted T l = false.
Proof.
  intros T items l. unfold filter_tainted. rewrite filter_In. split; intros (H1 & H2); (split; [exact H1|]).
  - destruct (is_tainted T l); [discriminate|reflexivity].
  - rewrite H2. reflexivity.
Qed.

Lemma rpath_prefix_refl : forall l, rpath_prefix l l = true.
Proof. induction l as [|[k|i] r IH]; simpl; [reflexivity| |]; rewrite IH; [rewrite bytes_eqb_refl|rewrite N.eqb_refl]; reflexivity. Qed.

Lemma is_tainted_self : forall T l, In l T -> is_tainted T l = true.
Proof. intros T l H. unfold is_tainted. apply existsb_exists. exists l. split; [exact H|apply rpath_prefix_refl]. Qed.

(* ------------------------------------------------------------------ untainted objects are merged as without the fault *)
Lemma bytes_eqb_sym : forall a b, bytes_eqb a b = bytes_eqb b a.
Proof.
  intros a b. destruct (bytes_eqb a b) eqn:E.
  - apply bytes_eqb_true in E. subst. symmetry. apply bytes_eqb_refl.
  - destruct (bytes_eqb b a) eqn:E'; [|reflexivity]. apply bytes_eqb_true in E'. subst. rewrite bytes_eqb_refl in E. discriminate.
Qed.

Lemma nth_list_set_other : forall {A} (a : list A) n m x, n <> m -> nth_error (list_set n x a) m = nth_error a m.
Proof.
  induction a as [|y r IH]; intros n m x H; [destruct n; reflexivity|].
  destruct n, m; simpl; try reflexivity; [contradiction|]. apply IH. intros ->. apply H. reflexivity.
Qed.

Lemma obj_get_set_other : forall k q v m, bytes_eqb q k = false -> obj_get q (obj_set k v m) = obj_get q m.
Proof.
  intros k q v. induction m as [|[k' v'] r IH]; intros H; simpl.
  - rewrite H. reflexivity.
  - destruct (bytes_eqb k k') eqn:E; simpl.
    + apply bytes_eqb_true in E. subst k'. rewrite H. reflexivity.
    + destruct (bytes_eqb q k'); [reflexivity|]. apply IH. exact H.
Qed.
Lemma obj_get_set_same : forall k q v m c, bytes_eqb q k = true -> obj_get k m = Some c -> obj_get q (obj_set k v m) = Some v.
Proof.
  intros k q v m c H. apply bytes_eqb_true in H. subst q. induction m as [|[k' v'] r IH]; intros G; simpl in *; [discriminate|].
  destruct (bytes_eqb k k') eqn:E; simpl; rewrite E; [reflexivity|]. apply IH. exact G.
Qed.

(* a write at l' does not show at l when neither is above the other *)
Lemma get_set_loc_other : forall l' l v d, rpath_prefix l l' = false -> rpath_prefix l' l = false ->
  get_loc l (set_loc l' v d) = get_loc l d.
Proof.
  induction l' as [|[k|i] r' IH]; intros l v d H1 H2.
  - simpl in H2. discriminate.
  - destruct l as [|[k2|i2] r2]; [simpl in H1; discriminate| |].
    + simpl in H1, H2. simpl. destruct d as [| | | | |m]; try reflexivity.
      destruct (obj_get k m) as [c|] eqn:G; [|reflexivity]. simpl.
      destruct (bytes_eqb k2 k) eqn:E.
      * rewrite (obj_get_set_same k k2 _ m c E G). apply bytes_eqb_true in E. subst k2. rewrite G.
        rewrite (bytes_eqb_refl k) in H2. simpl in H1, H2. apply IH; assumption.
      * rewrite (obj_get_set_other k k2 _ m E). reflexivity.
    + simpl. destruct d as [| | | | |m]; try reflexivity. destruct (obj_get k m); reflexivity.
  - destruct l as [|[k2|i2] r2]; [simpl in H1; discriminate| |].
    + simpl. destruct d as [| | | |a|]; try reflexivity. destruct (nth_error a (N.to_nat i)); reflexivity.
    + simpl in H1, H2. simpl. destruct d as [| | | |a|]; try reflexivity.
      destruct (nth_error a (N.to_nat i)) as [c|] eqn:G; [|reflexivity]. simpl.
      destruct (N.eqb i2 i) eqn:E.
      * apply N.eqb_eq in E. subst i2. rewrite (N.eqb_refl i) in H2. simpl in H1, H2.
        rewrite (nth_list_set_same a (N.to_nat i) _ c G), G. apply IH; assumption.
      * apply N.eqb_neq in E. rewrite nth_list_set_other by lia. reflexivity.
Qed.

Definition apart (l t : rpath) : Prop := rpath_prefix l t = false /\ rpath_prefix t l = false.

Lemma merge_target_not_hard : forall f s l src, ls_hard (merge_target f s l src) = false -> ls_hard s = false.
Proof. intros f s l src H. destruct (ls_hard s) eqn:E; [|reflexivity]. rewrite (merge_target_hard f s l src E) in H. discriminate. Qed.

Lemma merge_target_agree : forall f sP s0 l t srcP src0,
  ls_hard (merge_target f sP t srcP) = false -> ls_hard (merge_target f s0 t src0) = false ->
  get_loc l (ls_data sP) = get_loc l (ls_data s0) ->
  (t = l /\ srcP = src0) \/ apart l t ->
  get_loc l (ls_data (merge_target f sP t srcP)) = get_loc l (ls_data (merge_target f s0 t src0)).
Proof.
  intros f sP s0 l t srcP src0 HP H0 Heq Hc.
  pose proof (merge_target_not_hard _ _ _ _ HP) as HhP. pose proof (merge_target_not_hard _ _ _ _ H0) as Hh0.
  unfold merge_target in *. rewrite HhP in *. rewrite Hh0 in *.
  destruct Hc as [[-> <-]|[A1 A2]].
  - assert (G0 : get_loc l (ls_data s0) = get_loc l (ls_data sP)) by (symmetry; exact Heq).
    clear Heq. destruct (get_loc l (ls_data sP)) as [a|] eqn:GP; rewrite G0 in *; [|rewrite GP, G0; reflexivity].
    destruct (merge_with_path a srcP (f_mergepath f)) as [[a' ch]|]; [|simpl in HP; discriminate].
    destruct ch; [rewrite GP, G0; reflexivity|]. cbn [ls_data set_data].
    rewrite (get_set_loc_same l (ls_data sP) a a' GP), (get_set_loc_same l (ls_data s0) a a' G0). reflexivity.
  - assert (forall s src, get_loc l (ls_data match get_loc t (ls_data s) with
                                      | Some a => match merge_with_path a src (f_mergepath f) with
                                                  | Some (a', true) => s
                                                  | Some (a', false) => set_data s (set_loc t a' (ls_data s))
                                                  | None => set_hard s
                                                  end
                                      | None => s
                                      end) = get_loc l (ls_data s)) as Hfr.
    { intros s src. destruct (get_loc t (ls_data s)) as [a|]; [|reflexivity].
      destruct (merge_with_path a src (f_mergepath f)) as [[a' [|]]|]; try reflexivity.
      cbn [ls_data set_data]. apply get_set_loc_other; assumption. }
    rewrite !Hfr. exact Heq.
Qed.

Lemma fold_merge_target_not_hard : forall f src targets s,
  ls_hard (fold_left (fun s l => merge_target f s l src) targets s) = false -> ls_hard s = false.
Proof. intros f src targets s H. destruct (ls_hard s) eqn:E; [|reflexivity]. rewrite (fold_merge_target_hard f src targets s E) in H. discriminate. Qed.

Lemma fold_agree : forall f l srcP src0 targets sP s0,
  ls_hard (fold_left (fun s t => merge_target f s t srcP) targets sP) = false ->
  ls_hard (fold_left (fun s t => merge_target f s t src0) targets s0) = false ->
  get_loc l (ls_data sP) = get_loc l (ls_data s0) ->
  (forall t, In t targets -> (t = l /\ srcP = src0) \/ apart l t) ->
  get_loc l (ls_data (fold_left (fun s t => merge_target f s t srcP) targets sP)) =
  get_loc l (ls_data (fold_left (fun s t => merge_target f s t src0) targets s0)).
Proof.
  intros f l srcP src0. induction targets as [|t r IH]; intros sP s0 HP H0 Heq Hc; simpl in *; [exact Heq|].
  apply IH; [exact HP|exact H0| |intros t' Ht'; apply Hc; right; exact Ht'].
  apply merge_target_agree; [apply (fold_merge_target_not_hard _ _ _ _ HP)|apply (fold_merge_target_not_hard _ _ _ _ H0)|exact Heq|apply Hc; left; reflexivity].
Qed.

Lemma merge_buckets_not_hard : forall f bs batch s, ls_hard (merge_buckets f s bs batch) = false -> ls_hard s = false.
Proof. intros f bs batch s H. destruct (ls_hard s) eqn:E; [|reflexivity]. rewrite (merge_buckets_hard f bs batch s E) in H. discriminate. Qed.

Lemma buckets_agree : forall f l bl entsP ents0 sP s0,
  length entsP = length ents0 ->
  ls_hard (merge_buckets f sP bl entsP) = false -> ls_hard (merge_buckets f s0 bl ents0) = false ->
  get_loc l (ls_data sP) = get_loc l (ls_data s0) ->
  (forall j tj t, nth_error bl j = Some tj -> In t tj -> (t = l /\ nth_error entsP j = nth_error ents0 j) \/ apart l t) ->
  get_loc l (ls_data (merge_buckets f sP bl entsP)) = get_loc l (ls_data (merge_buckets f s0 bl ents0)).
Proof.
  intros f l. induction bl as [|tg r IH]; intros entsP ents0 sP s0 Hlen HP H0 Heq Hc; simpl in *; [exact Heq|].
  destruct entsP as [|eP rP]; destruct ents0 as [|e0 r0]; try discriminate; [exact Heq|].
  simpl in Hlen. apply IH; [lia|exact HP|exact H0| |intros j tj t Hn Ht; apply (Hc (S j) tj t Hn Ht)].
  apply fold_agree; [apply (merge_buckets_not_hard _ _ _ _ HP)|apply (merge_buckets_not_hard _ _ _ _ H0)|exact Heq|].
  intros t Ht. destruct (Hc 0%nat tg t eq_refl Ht) as [[-> E]|A]; [left; split; [reflexivity|]; simpl in E; congruence|right; exact A].
Qed.

(* the partial-data fault touches the named entities only *)
Lemma null_fields_length : forall nulls l i, length (null_fields nulls i l) = length l.
Proof. intros nulls. induction l as [|e r IH]; intros i; simpl; [reflexivity|]. rewrite IH. reflexivity. Qed.

Lemma fold_null_id : forall nulls (i : N) e, (forall fld, ~ In (i, fld) nulls) ->
  fold_left (fun e nf => if fst nf =? i then null_field (snd nf) e else e) nulls e = e.
Proof.
  induction nulls as [|[k fld] r IH]; intros i e H; simpl; [reflexivity|].
  destruct (k =? i) eqn:E.
  - apply N.eqb_eq in E. subst k. exfalso. apply (H fld). left. reflexivity.
  - apply IH. intros fld' Hin. apply (H fld'). right. exact Hin.
Qed.

Lemma null_fields_nth : forall nulls l i k, (forall fld, ~ In (i + N.of_nat k, fld) nulls) ->
  nth_error (null_fields nulls i l) k = nth_error l k.
Proof.
  intros nulls. induction l as [|e r IH]; intros i k H; simpl; [reflexivity|].
  destruct k as [|k]; simpl.
  - f_equal. apply fold_null_id. intros fld. replace i with (i + N.of_nat 0) by lia. apply H.
  - apply IH. intros fld. replace (i + 1 + N.of_nat k) with (i + N.of_nat (S k)) by lia. apply H.
Qed.

Lemma k_data_neq_errors : bytes_eqb k_data k_errors = false.
Proof. reflexivity. Qed.

Lemma obj_get_app_other : forall k q v (m : list (bytes * json)), bytes_eqb q k = false -> obj_get q (m ++ [(k, v)]) = obj_get q m.
Proof.
  intros k q v. induction m as [|[k' v'] r IH]; intros H; simpl; [rewrite H; reflexivity|].
  destruct (bytes_eqb q k'); [reflexivity|]. apply IH. exact H.
Qed.

Opaque bytes_eqb.
Lemma add_errors_data : forall errs j l, get_loc (PName k_data :: l) (add_errors errs j) = get_loc (PName k_data :: l) j.
Proof.
  intros errs j l. unfold add_errors. destruct errs as [|e0 er]; [reflexivity|].
  destruct j as [| | | | |m]; try reflexivity.
  destruct (obj_get k_errors m) as [[| | | |old|]|] eqn:G; simpl;
    rewrite ?(obj_get_app_other k_errors k_data _ m k_data_neq_errors), ?(obj_get_set_other k_errors k_data _ m k_data_neq_errors); reflexivity.
Qed.

Lemma map_entities_get : forall g j ents, get_loc [PName k_data; PName k_entities] j = Some (JArr ents) ->
  get_loc [PName k_data; PName k_entities] (map_entities g j) = Some (JArr (g ents)).
Proof.
  intros g j ents H. destruct j as [| | | | |m]; try discriminate. simpl in H. simpl.
  induction m as [|[k v] r IH]; simpl in *; [discriminate|].
  destruct (bytes_eqb k_data k) eqn:E.
  - rewrite bytes_eqb_sym in E. rewrite E. simpl. rewrite bytes_eqb_sym, E.
    destruct v as [| | | | |dm]; try discriminate.
    clear IH. induction dm as [|[k2 v2] r2 IH2]; simpl in *; [discriminate|].
    destruct (bytes_eqb k_entities k2) eqn:E2.
    + rewrite bytes_eqb_sym in E2. rewrite E2. simpl. rewrite bytes_eqb_sym, E2. inversion H; subst. reflexivity.
    + rewrite bytes_eqb_sym in E2. rewrite E2. simpl. rewrite bytes_eqb_sym, E2. apply IH2. exact H.
  - rewrite bytes_eqb_sym in E. rewrite E. simpl. rewrite bytes_eqb_sym, E. apply IH. exact H.
Qed.

Transparent bytes_eqb.

Lemma untainted_same_thm : forall f r0 p items bl s resp0 ents0,
  f_kind f = FBatch -> f_datapath f = [PName k_data; PName k_entities] ->
  rs_err r0 = false -> rs_body r0 = BJson resp0 -> valid_numbers resp0 = true ->
  get_loc [PName k_data; PName k_entities] resp0 = Some (JArr ents0) -> ents0 <> [] -> length bl = length ents0 -> items <> [] ->
  (forall respP, rs_body (apply_partial p r0) = BJson respP -> valid_numbers respP = true) ->
  wrong_kind_batch f ents0 = false -> wrong_kind_batch f (null_fields (pf_nulls p) 0 ents0) = false ->
  let sP := merge_result f (apply_partial p r0) items (Some bl) s in
  let s0 := merge_result f r0 items (Some bl) s in
  ls_hard sP = false -> ls_hard s0 = false ->
  forall k targets l, nth_error bl k = Some targets -> In l targets ->
    (forall fld, ~ In (N.of_nat k, fld) (pf_nulls p)) ->
    (forall j tj t, nth_error bl j = Some tj -> In t tj -> (t = l /\ j = k) \/ apart l t) ->
    get_loc l (ls_data sP) = get_loc l (ls_data s0).
Proof.
  intros f r0 p items bl s resp0 ents0 Hk Hdp He Hb Hv Hent Hne Hlen Hitems HvP Hwk0 HwkP. cbv zeta. intros HhP Hh0 k targets l Hn Hl Hnot Hanti.
  assert (Hcb : forall resp, count_bad f resp = false) by (intros resp; unfold count_bad; rewrite Hk; reflexivity).
  destruct ents0 as [|e0 er]; [contradiction|].
  destruct (merge_result_many f r0 items bl s resp0 e0 er He Hb Hv (Hcb _) ltac:(rewrite Hdp; exact Hent) Hitems Hlen Hwk0) as (s1 & Hd1 & Hh1 & _ & E0).
  set (respP := add_errors (pf_errors p) (map_entities (null_fields (pf_nulls p) 0) resp0)).
  assert (HbP : rs_body (apply_partial p r0) = BJson respP) by (unfold apply_partial, on_body; cbn [rs_body]; rewrite Hb; reflexivity).
  assert (HeP : rs_err (apply_partial p r0) = false) by (unfold apply_partial, on_body; cbn [rs_err]; exact He).
  assert (HentP : get_loc (f_datapath f) respP = Some (JArr (null_fields (pf_nulls p) 0 (e0 :: er)))).
  { rewrite Hdp. unfold respP. rewrite add_errors_data. apply map_entities_get. exact Hent. }
  remember (null_fields (pf_nulls p) 0 (e0 :: er)) as entsP eqn:EP.
  assert (HlenP : length entsP = length (e0 :: er)) by (subst entsP; apply null_fields_length).
  destruct entsP as [|eP erP]; [simpl in HlenP; discriminate|].
  destruct (merge_result_many f (apply_partial p r0) items bl s respP eP erP HeP HbP (HvP _ HbP) (Hcb _) HentP Hitems ltac:(rewrite Hlen; symmetry; exact HlenP) HwkP)
    as (s2 & Hd2 & Hh2 & _ & EPm).
  rewrite E0 in *. rewrite EPm in *.
  apply buckets_agree; [exact HlenP|exact HhP|exact Hh0|rewrite Hd1, Hd2; reflexivity|].
  intros j tj t Hnj Ht. destruct (Hanti j tj t Hnj Ht) as [[-> ->]|A]; [left|right; exact A].
  split; [reflexivity|]. rewrite EP. apply null_fields_nth. intros fld. replace (0 + N.of_nat k) with (N.of_nat k) by lia. apply Hnot.
Qed.

(* ---- the items of a fetch: pairwise distinct, none above another ---- *)
Definition antichain (ls : list rpath) : Prop := forall a b, In a ls -> In b ls -> a = b \/ apart a b.

Lemma apart_app : forall a b x y, apart a b -> apart (a ++ x) (b ++ y).
Proof.
  unfold apart. induction a as [|e1 a' IH]; intros b x y [H1 H2]; [simpl in H1; discriminate|].
  destruct b as [|e2 b']; [simpl in H2; discriminate|].
  destruct e1 as [k1|i1], e2 as [k2|i2]; simpl in *; try (split; reflexivity).
  - rewrite (bytes_eqb_sym k2 k1) in *. destruct (bytes_eqb k1 k2); simpl in *; [apply IH; split; assumption|split; reflexivity].
  - rewrite (N.eqb_sym i2 i1) in *. destruct (i1 =? i2); simpl in *; [apply IH; split; assumption|split; reflexivity].
Qed.

Lemma apart_neq : forall a b, apart a b -> a <> b.
Proof. intros a b [H _] ->. rewrite rpath_prefix_refl in H. discriminate. Qed.

Lemma apart_sym : forall a b, apart a b -> apart b a.
Proof. intros a b [H1 H2]. split; assumption. Qed.

Lemma rpath_prefix_app_idx : forall base i j, i <> j -> apart (base ++ [PIdx i]) (base ++ [PIdx j]).
Proof.
  unfold apart. induction base as [|e r IH]; intros i j H; simpl.
  - split; [destruct (i =? j) eqn:E|destruct (j =? i) eqn:E]; try reflexivity; apply N.eqb_eq in E; congruence.
  - destruct (IH i j H) as [A B]. destruct e as [k|n]; [rewrite (bytes_eqb_refl k)|rewrite (N.eqb_refl n)]; simpl; split; assumption.
Qed.

Lemma idx_locs_antichain : forall base n i, antichain (idx_locs base n i) /\ NoDup (idx_locs base n i).
Proof.
  intros base n i. split.
  - intros a b Ha Hb. apply in_idx_locs in Ha as (j1 & _ & ->). apply in_idx_locs in Hb as (j2 & _ & ->).
    destruct (Nat.eq_dec j1 j2) as [->|Hne]; [left; reflexivity|right]. apply rpath_prefix_app_idx. lia.
  - revert i. induction n as [|n IH]; intros i; simpl; [constructor|]. constructor; [|apply IH].
    intros Hin. apply in_idx_locs in Hin as (j & _ & E). apply app_inv_head in E. inversion E. lia.
Qed.

Definition step_out (data : json) (pe : pathelem) (l : rpath) : list rpath :=
  match get_loc l data with
  | None => []
  | Some v =>
    if allowed_by_typename v (pe_types pe) then
      match get_path (pe_path pe) v with
      | None => []
      | Some (JArr a) => idx_locs (l ++ map PName (pe_path pe)) (length a) 0
      | Some _ => [l ++ map PName (pe_path pe)]
      end
    else []
  end.

Lemma step_out_ext : forall data pe l x, In x (step_out data pe l) -> exists y, x = l ++ y.
Proof.
  intros data pe l x H. unfold step_out in H. destruct (get_loc l data) as [v|]; [|destruct H].
  destruct (allowed_by_typename v (pe_types pe)); [|destruct H].
  destruct (get_path (pe_path pe) v) as [[|bb|nn|ss|a|m]|]; try (destruct H as [<-|[]]; eexists; reflexivity); [|destruct H].
  apply in_idx_locs in H as (j & _ & ->). rewrite <- app_assoc. eexists; reflexivity.
Qed.

Lemma step_out_antichain : forall data pe l, antichain (step_out data pe l) /\ NoDup (step_out data pe l).
Proof.
  intros data pe l. unfold step_out. destruct (get_loc l data) as [v|]; [|split; [intros a b []|constructor]].
  destruct (allowed_by_typename v (pe_types pe)); [|split; [intros a b []|constructor]].
  destruct (get_path (pe_path pe) v) as [[|bb|nn|ss|a|m]|]; try (split; [intros x y [<-|[]] [<-|[]]; left; reflexivity|constructor; [intros []|constructor]]).
  - apply idx_locs_antichain.
  - split; [intros a b []|constructor].
Qed.

Lemma nodup_app : forall {A} (a b : list A), NoDup a -> NoDup b -> (forall x, In x a -> In x b -> False) -> NoDup (a ++ b).
Proof.
  induction a as [|y r IH]; intros b Ha Hb H; simpl; [exact Hb|]. inversion Ha; subst. constructor.
  - intros Hin. apply in_app_or in Hin as [Hin|Hin]; [contradiction|]. apply (H y); [left; reflexivity|exact Hin].
  - apply IH; [assumption|exact Hb|]. intros x Hx. apply H. right. exact Hx.
Qed.

Lemma flat_map_antichain : forall (g : rpath -> list rpath) items,
  (forall l x, In x (g l) -> exists y, x = l ++ y) -> (forall l, antichain (g l) /\ NoDup (g l)) ->
  antichain items -> NoDup items -> antichain (flat_map g items) /\ NoDup (flat_map g items).
Proof.
  intros g items Hext Hg. induction items as [|l r IH]; intros Ha Hn; simpl; [split; [intros a b []|constructor]|].
  inversion Hn as [|? ? Hnotin Hn']; subst.
  assert (Har : antichain r) by (intros a b Hx Hy; apply Ha; right; assumption).
  destruct (IH Har Hn') as [IA IN]. destruct (Hg l) as [GA GN].
  assert (Hcross : forall x y, In x (g l) -> In y (flat_map g r) -> apart x y).
  { intros x y Hx Hy. apply in_flat_map in Hy as (l2 & Hl2 & Hy). apply Hext in Hx as (x' & ->). apply Hext in Hy as (y' & ->).
    apply apart_app. destruct (Ha l l2 (or_introl eq_refl) (or_intror Hl2)) as [->|A]; [contradiction|exact A]. }
  split.
  - intros a b Hx Hy. apply in_app_or in Hx as [Hx|Hx]; apply in_app_or in Hy as [Hy|Hy].
    + apply GA; assumption.
    + right. apply Hcross; assumption.
    + right. apply apart_sym. apply Hcross; assumption.
    + apply IA; assumption.
  - apply nodup_app; [exact GN|exact IN|]. intros x Hx Hy. apply (apart_neq x x (Hcross x x Hx Hy)). reflexivity.
Qed.

Lemma select_step_out : forall data pe items,
  select_step data pe items = match pe_path pe with [] => items | _ => flat_map (step_out data pe) items end.
Proof. intros data pe items. unfold select_step, step_out. destruct (pe_path pe); reflexivity. Qed.

Lemma select_items_antichain : forall data path, antichain (select_items data path) /\ NoDup (select_items data path).
Proof.
  intros data path. unfold select_items.
  assert (H0 : forall items : list rpath, antichain items /\ NoDup items ->
               antichain (fold_left (fun items pe => select_step data pe items) path items) /\
               NoDup (fold_left (fun items pe => select_step data pe items) path items)).
  { induction path as [|pe r IH]; intros items H; simpl; [exact H|].
    apply IH. rewrite select_step_out. destruct (pe_path pe); [exact H|].
    destruct H as [Ha Hn]. apply flat_map_antichain; [apply step_out_ext|apply step_out_antichain|exact Ha|exact Hn]. }
  apply H0. split; [intros a b [<-|[]] [<-|[]]; left; reflexivity|constructor; [intros []|constructor]].
Qed.

Lemma filter_tainted_antichain : forall T items, antichain items /\ NoDup items -> antichain (filter_tainted T items) /\ NoDup (filter_tainted T items).
Proof.
  intros T items [Ha Hn]. split.
  - intros a b Hx Hy. apply filter_tainted_spec in Hx as [Hx _]. apply filter_tainted_spec in Hy as [Hy _]. apply Ha; assumption.
  - unfold filter_tainted. apply NoDup_filter. exact Hn.
Qed.

(* every item is put into the buckets once at most *)
Definition members (bs : list (bytes * list rpath)) : list rpath := concat (map snd bs).

Lemma bucket_add_members : forall rep l bs x, In x (members (bucket_add rep l bs)) <-> In x (members bs) \/ x = l.
Proof.
  intros rep l. induction bs as [|[r ls] rest IH]; intros x; unfold members in *; simpl.
  - split; [intros [<-|[]]; right; reflexivity|intros [[]| ->]; left; reflexivity].
  - destruct (bytes_eqb r rep); simpl.
    + rewrite !in_app_iff. simpl. intuition (subst; auto).
    + rewrite !in_app_iff, IH. intuition (subst; auto).
Qed.

Lemma nodup_app_inv : forall {A} (a b : list A), NoDup (a ++ b) -> NoDup a /\ NoDup b /\ (forall x, In x a -> In x b -> False).
Proof.
  induction a as [|y r IH]; intros b H; simpl in *; [split; [constructor|split; [exact H|intros x []]]|].
  inversion H; subst. destruct (IH b H3) as (Ha & Hb & Hd). split; [|split; [exact Hb|]].
  - constructor; [intros Hin; apply H2; apply in_or_app; left; exact Hin|exact Ha].
  - intros x [<-|Hx] Hy; [apply H2; apply in_or_app; right; exact Hy|apply (Hd x Hx Hy)].
Qed.

Lemma bucket_add_members_nodup : forall rep l bs, NoDup (members bs) -> ~ In l (members bs) -> NoDup (members (bucket_add rep l bs)).
Proof.
  intros rep l. induction bs as [|[r ls] rest IH]; intros Hn Hl; unfold members in *; simpl in *.
  - constructor; [intros []|constructor].
  - destruct (nodup_app_inv _ _ Hn) as (Hls & Hrest & Hdis).
    destruct (bytes_eqb r rep); simpl.
    + rewrite <- app_assoc. apply nodup_app; [exact Hls| |].
      * simpl. constructor; [intros Hin; apply Hl; apply in_or_app; right; exact Hin|exact Hrest].
      * intros x Hx [<-|Hy]; [apply Hl; apply in_or_app; left; exact Hx|apply (Hdis x Hx Hy)].
    + apply nodup_app; [exact Hls| |].
      * apply IH; [exact Hrest|intros Hin; apply Hl; apply in_or_app; right; exact Hin].
      * intros x Hx Hy. apply (bucket_add_members rep l rest x) in Hy as [Hy| ->]; [apply (Hdis x Hx Hy)|apply Hl; apply in_or_app; left; exact Hx].
Qed.

Lemma batch_prepare_members_incl : forall rep items d bs0 x, In x (members (snd (batch_prepare rep items d bs0))) -> In x (members bs0) \/ In x items.
Proof.
  induction items as [|l r IH]; intros d bs0 x H; simpl in H; [left; exact H|].
  destruct (get_loc l d) as [v|]; [|apply IH in H as [H|H]; [left; exact H|right; right; exact H]].
  destruct (render_rep rep v) as [v' [b|]]; [|apply IH in H as [H|H]; [left; exact H|right; right; exact H]].
  destruct (bytes_eqb b b_null || bytes_eqb b b_empty_obj); apply IH in H as [H|H]; try (right; right; exact H); [left; exact H|].
  apply bucket_add_members in H as [H| ->]; [left; exact H|right; left; reflexivity].
Qed.

Lemma batch_prepare_members_nodup : forall rep items d bs0, NoDup items -> NoDup (members bs0) -> (forall x, In x items -> ~ In x (members bs0)) ->
  NoDup (members (snd (batch_prepare rep items d bs0))).
Proof.
  induction items as [|l r IH]; intros d bs0 Hn Hb Hd; simpl; [exact Hb|]. inversion Hn; subst.
  assert (Hd' : forall x, In x r -> ~ In x (members bs0)) by (intros x Hx; apply Hd; right; exact Hx).
  destruct (get_loc l d) as [v|]; [|apply IH; assumption].
  destruct (render_rep rep v) as [v' [b|]]; [|apply IH; assumption].
  destruct (bytes_eqb b b_null || bytes_eqb b b_empty_obj); [apply IH; assumption|].
  apply IH; [assumption|apply bucket_add_members_nodup; [exact Hb|apply Hd; left; reflexivity]|].
  intros x Hx Hin. apply bucket_add_members in Hin as [Hin| ->]; [apply (Hd' x Hx Hin)|contradiction].
Qed.

Lemma concat_nodup_unique : forall (ls : list (list rpath)) j k a b x, NoDup (concat ls) ->
  nth_error ls j = Some a -> nth_error ls k = Some b -> In x a -> In x b -> j = k.
Proof.
  induction ls as [|h r IH]; intros j k a b x Hn Hj Hk Ha Hb; [destruct j; discriminate|].
  simpl in Hn. destruct (nodup_app_inv _ _ Hn) as (_ & Hr & Hdis).
  destruct j as [|j], k as [|k]; simpl in *.
  - reflexivity.
  - inversion Hj; subst. exfalso. apply nth_error_In in Hk. apply (Hdis x Ha). apply in_concat. exists b. split; assumption.
  - inversion Hk; subst. exfalso. apply nth_error_In in Hj. apply (Hdis x Hb). apply in_concat. exists a. split; assumption.
  - f_equal. apply (IH j k a b x); assumption.
Qed.

(* the hypothesis of untainted_same_thm about the merge targets holds for what selectItemsForPath + the batch preparation produce *)
Lemma targets_apart : forall f data path T d' rq bl, f_kind f = FBatch ->
  prepare f data (filter_tainted T (select_items data path)) = PLoad d' rq (Some bl) ->
  forall k targets l, nth_error bl k = Some targets -> In l targets ->
  forall j tj t, nth_error bl j = Some tj -> In t tj -> (t = l /\ j = k) \/ apart l t.
Proof.
  intros f data path T d' rq bl Hk Hp k targets l Hn Hl j tj t Hnj Ht.
  set (items := filter_tainted T (select_items data path)) in *.
  destruct (filter_tainted_antichain T _ (select_items_antichain data path)) as [Ha Hnd]. fold items in Ha, Hnd.
  destruct (prepare_batch_inv _ _ _ _ _ _ Hk Hp) as (_ & Hbl & _ & _). cbv zeta in Hbl.
  set (bs := snd (batch_prepare (f_rep f) items data [])) in *.
  assert (Hm : NoDup (members bs)) by (apply batch_prepare_members_nodup; [exact Hnd|constructor|intros x _ []]).
  assert (Hin : forall i ti x, nth_error bl i = Some ti -> In x ti -> In x items).
  { intros i ti x Hi Hx. destruct (batch_prepare_members_incl (f_rep f) items data [] x) as [[]|H]; [|exact H].
    unfold members. fold bs. rewrite <- Hbl. apply in_concat. exists ti. split; [apply (nth_error_In _ _ Hi)|exact Hx]. }
  destruct (Ha l t (Hin _ _ _ Hn Hl) (Hin _ _ _ Hnj Ht)) as [E|A]; [left|right; exact A].
  subst t. split; [reflexivity|]. unfold members in Hm. rewrite <- Hbl in Hm. eapply concat_nodup_unique; eassumption.
Qed.

(* ------------------------------------------------------------------ nothing tainted is rendered again (one step, any state) *)
Section NotSent.
  Variable St : Type.
  Variable exchange : St -> request -> response * St.
  Variable tind : tindices.
  Variable coords : N -> list (bytes * bytes).

  Lemma run_fetch_t_reqs : forall f s T x rq,
    In rq (ls_reqs (fst (fst (run_fetch_t St exchange tind coords f ((s, T), x))))) ->
    In rq (ls_reqs s) \/
    exists d' batch, prepare f (ls_data s) (filter_tainted T (select_items (ls_data s) (f_path f))) = PLoad d' rq batch.
  Proof.
    intros f s T x rq H. unfold run_fetch_t in H. destruct (should_skip f s); [left; exact H|].
    destruct (prepare f (ls_data s) (filter_tainted T (select_items (ls_data s) (f_path f)))) as [d|d rq' batch] eqn:E; [left; exact H|].
    destruct (exchange x rq') as [res x']. unfold merge_result_t in H. cbn [fst] in H. rewrite merge_result_reqs in H.
    assert (H' : In rq (ls_reqs s ++ [rq'])).
    { destruct (tind (coords (f_id f)) f res); destruct (rs_err res); exact H. }
    apply in_app_or in H' as [H'|[<-|[]]]; [left; exact H'|right; exists d, batch; reflexivity].
  Qed.

  Lemma tainted_not_sent_thm : forall f s T,
    let items := filter_tainted T (select_items (ls_data s) (f_path f)) in
    (forall l, In l items -> In l (select_items (ls_data s) (f_path f)) /\ is_tainted T l = false) /\
    (forall l t, In t T -> rpath_prefix l t = true -> ~ In l items) /\
    (forall b l, in_buckets (snd (batch_prepare (f_rep f) items (ls_data s) [])) b l -> In l items) /\
    (forall x rq, In rq (ls_reqs (fst (fst (run_fetch_t St exchange tind coords f ((s, T), x))))) -> ~ In rq (ls_reqs s) ->
       exists d' batch, prepare f (ls_data s) items = PLoad d' rq batch).
  Proof.
    intros f s T. cbv zeta. split; [|split; [|split]].
    - intros l H. apply filter_tainted_spec in H. exact H.
    - intros l t Ht Hp H. apply filter_tainted_spec in H as [_ H]. unfold is_tainted in H.
      assert (existsb (rpath_prefix l) T = true) as E by (apply existsb_exists; exists t; split; assumption). rewrite E in H. discriminate.
    - intros b l H. apply batch_prepare_members in H as [(locs & [] & _)|H]. exact H.
    - intros x rq H Hn. apply run_fetch_t_reqs in H as [H|H]; [contradiction|exact H].
  Qed.
End NotSent.

(* untainted_same_thm for the items selectItemsForPath and the batch preparation produce *)
Lemma untainted_same_items : forall f data path T d' rq bl r0 p s resp0 ents0,
  f_kind f = FBatch -> f_datapath f = [PName k_data; PName k_entities] ->
  prepare f data (filter_tainted T (select_items data path)) = PLoad d' rq (Some bl) ->
  rs_err r0 = false -> rs_body r0 = BJson resp0 -> valid_numbers resp0 = true ->
  get_loc [PName k_data; PName k_entities] resp0 = Some (JArr ents0) -> length bl = length ents0 ->
  (forall respP, rs_body (apply_partial p r0) = BJson respP -> valid_numbers respP = true) ->
  wrong_kind_batch f ents0 = false -> wrong_kind_batch f (null_fields (pf_nulls p) 0 ents0) = false ->
  let items := filter_tainted T (select_items data path) in
  let sP := merge_result f (apply_partial p r0) items (Some bl) s in
  let s0 := merge_result f r0 items (Some bl) s in
  ls_hard sP = false -> ls_hard s0 = false ->
  forall k targets l, nth_error bl k = Some targets -> In l targets ->
    (forall fld, ~ In (N.of_nat k, fld) (pf_nulls p)) ->
    get_loc l (ls_data sP) = get_loc l (ls_data s0).
Proof.
  intros f data path T d' rq bl r0 p s resp0 ents0 Hk Hdp Hp He Hb Hv Hent Hlen HvP Hwk0 HwkP. cbv zeta. intros HhP Hh0 k targets l Hn Hl Hnot.
  destruct (prepare_batch_inv _ _ _ _ _ _ Hk Hp) as (_ & Hbl & Hne & Hitems). cbv zeta in *.
  assert (Hents : ents0 <> []).
  { intros ->. simpl in Hlen. rewrite Hbl in Hlen. rewrite map_length in Hlen. apply Hne. apply length_zero_iff_nil. exact Hlen. }
  eapply (untainted_same_thm f r0 p _ bl s resp0 ents0 Hk Hdp He Hb Hv Hent Hents Hlen Hitems HvP Hwk0 HwkP HhP Hh0 k targets l Hn Hl Hnot).
  intros j tj t Hnj Ht. eapply (targets_apart f data path T d' rq bl Hk Hp k targets l Hn Hl j tj t Hnj Ht).
Qed.
