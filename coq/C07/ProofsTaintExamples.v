(* C07, tainted objects: the concrete plan of the examples (all by vm_compute).

   { l { id cost } } with l = [null, A1, A1, A2]: the root fetch f0 delivers the list, the batch fetch f1 (subgraph s1) delivers
   `zip`, fetched only because `cost` (subgraph s2) @requires it and nullable; the batch fetch f2 delivers `cost` and carries `zip` in
   its representations.  f1's request is [A1, A2]: the null item is skipped, the duplicate A1 de-duplicated, so A2 -- list position 3 --
   is position 1 of `_entities`.  The partial-data fault answers A2 with zip:null and an error at ["_entities",1,"zip"]. *)
From Gv Require Import lib.Bytes lib.Json C02.Model C02.Spec C07.Model C07.ModelPreFix C07.Spec C07.ModelTaint C07.SpecTaint C07.ProofsExamples.
From Coq Require Import String Ascii.
Open Scope N_scope.
Open Scope string_scope.

Definition zip_fld : field := Fld (bs "zip") (Some [bs "A"]) None None (NStr [bs "zip"] true).
Definition p6_f0 := single_fetch 0 "s0" "{l{__typename id}}".
Definition p6_f1 := batch_fetch 1 "s1" "{_entities(r:[" ["l"] [0] (rep_of []).
Definition p6_f2 := batch_fetch 2 "s2" "{_entities(q:[" ["l"] [0; 1] (rep_of [zip_fld]).
Definition p6_tree : ftree := FTSeq [FTSingle p6_f0; FTSingle p6_f1; FTSingle p6_f2].
Definition p6_kind (id : N) : fkind := match id with 0 => FSingle | _ => FBatch end.
Definition p6_root_answer (id : N) : json * list json := (JObj [(bs "l", JArr [JNull; ent "1"; ent "1"; ent "2"])], []).
Definition p6_answer (id : N) (rep : bytes) : json * list json :=
  match id with
  | 1 => (JObj [(bs "__typename", JStr (bs "A")); (bs "zip", JStr rep)], [])
  | _ => (JObj [(bs "__typename", JStr (bs "A")); (bs "cost", JStr rep)], [])
  end.
Definition p6_coords (id : N) : list (bytes * bytes) := match id with 1 => [(bs "A", bs "zip")] | _ => [] end.
Definition err_at (path : list json) : json := JObj [(bs "message", JStr (bs "zip lookup timed out")); (bs "path", JArr path)].
(* position 1 of f1's `_entities` (A2) fails *)
Definition p6_partial (path : list json) (id : N) : option pfault :=
  match id with 1 => Some {| pf_nulls := [(1, bs "zip")]; pf_errors := [err_at path] |} | _ => None end.
Definition proper_path : list json := [JStr (bs "_entities"); JNum (bs "1"); JStr (bs "zip")].
Definition p6_run (vre : bool) (P : N -> option pfault) : tstate := run_t p6_answer p6_root_answer p6_kind vre p6_coords no_faults P p6_tree.
Definition l_at (i : N) : rpath := [PName (bs "l"); PIdx i].
Definition reps_of (id : N) (s : lstate) : list (list bytes) := List.map rq_reps (List.filter (fun rq => N.eqb (rq_fetch rq) id) (ls_reqs s)).

(* fault free: f1 sends two representations for four list items; f2 both with their zip *)
Example p6_fault_free :
  List.map (fun rq => (rq_fetch rq, List.length (rq_reps rq))) (ls_reqs (fst (p6_run true no_partials))) = [(0, 0%nat); (1, 2%nat); (2, 2%nat)] /\
  snd (p6_run true no_partials) = [] /\ ls_errors (fst (p6_run true no_partials)) = [].
Proof. vm_compute. repeat split. Qed.

(* the fault, option on: the object tainted is list position 3 -- not position 1, which the error path "names" --
   f2 sends A1 only (a subset of its fault-free representations), both A1 positions keep the fault-free data,
   the failed object has zip null and no cost, two loader errors (failed dependencies, failed to fetch) *)
Example p6_taint_translates_the_index :
  let sP := p6_run true (p6_partial proper_path) in let s0 := p6_run true no_partials in
  snd sP = [l_at 3] /\
  reps_of 2 (fst sP) = [[bs "{""__typename"":""A"",""id"":""1"",""zip"":""{\""__typename\"":\""A\"",\""id\"":\""1\""}""}"]] /\
  requests_subset_b (ls_reqs (fst s0)) (ls_reqs (fst sP)) = true /\
  get_loc (l_at 1) (ls_data (fst sP)) = get_loc (l_at 1) (ls_data (fst s0)) /\
  get_loc (l_at 2) (ls_data (fst sP)) = get_loc (l_at 2) (ls_data (fst s0)) /\
  get_loc (l_at 3) (ls_data (fst sP)) = Some (JObj [(bs "__typename", JStr (bs "A")); (bs "id", JStr (bs "2")); (bs "zip", JNull)]) /\
  List.map le_kind (ls_errors (fst sP)) = [LE_DEPS; LE_FETCH].
Proof. vm_compute. repeat split. Qed.

(* the option off: the failed entity goes downstream with zip null -- a representation the fault-free run never sends *)
Example p6_option_off_sends_null :
  let sP := p6_run false (p6_partial proper_path) in
  snd sP = [] /\ requests_subset_b (ls_reqs (fst (p6_run false no_partials))) (ls_reqs (fst sP)) = false /\
  List.map (fun r => List.length r) (reps_of 2 (fst sP)) = [2%nat].
Proof. vm_compute. repeat split. Qed.

(* what "the item at the response position" would do (the regression of seeded/C07-m4): with list position 1 -- a healthy
   duplicate -- tainted instead, f2 leaves out a healthy object and sends the failed entity with zip null *)
Definition p6_state_after_f1 : lstate :=
  fst (run_t p6_answer p6_root_answer p6_kind true p6_coords no_faults (p6_partial proper_path) (FTSeq [FTSingle p6_f0; FTSingle p6_f1])).
Definition p6_f2_from (T : list rpath) : lstate :=
  fst (fst (run_fetch_t unit (partial_exchange p6_answer p6_root_answer p6_kind no_faults (p6_partial proper_path)) (tainted_indices true) p6_coords p6_f2
                        ((p6_state_after_f1, T), tt))).
Example p6_position_instead_of_bucket :
  requests_subset_b (ls_reqs (fst (p6_run true no_partials))) (ls_reqs (p6_f2_from [l_at 1])) = false /\
  List.map (fun r => List.length r) (reps_of 2 (p6_f2_from [l_at 1])) = [2%nat] /\
  requests_subset_b (ls_reqs (fst (p6_run true no_partials))) (ls_reqs (p6_f2_from [l_at 3])) = true.
Proof. vm_compute. repeat split. Qed.

(* malformed error paths taint nothing (index out of range, a string, no field, no root) or something else:
   1.5 and 9223372036854775808 read as 0 (GetInt), -0 is 0: position 0 is A1, whose zip is not null, so nothing *)
Example p6_malformed_paths :
  List.map (fun path => snd (p6_run true (p6_partial path)))
    [[JStr (bs "_entities"); JNum (bs "7"); JStr (bs "zip")];
     [JStr (bs "_entities"); JStr (bs "1"); JStr (bs "zip")];
     [JStr (bs "_entities"); JNum (bs "1")];
     [JNum (bs "1"); JStr (bs "zip")];
     [JStr (bs "_entities"); JNum (bs "1.5"); JStr (bs "zip")];
     [JStr (bs "_entities"); JNum (bs "-1"); JStr (bs "zip")];
     [JStr (bs "_entities"); JBool true; JStr (bs "zip")]] = [[]; []; []; []; []; []; []] /\
  (* the root may come later in the path *)
  snd (p6_run true (p6_partial (JStr (bs "q") :: proper_path))) = [l_at 3].
Proof. vm_compute. repeat split. Qed.

(* the spec clause on the model's own response: the strict expectation holds for this run (no later independent fetch) *)
Definition p6_root : node :=
  NObj [] false (bs "Query") [] [] false
    [Fld (bs "l") None None None (NArr [bs "l"] true (NObj [] true (bs "A") [] [] false
       [Fld (bs "id") None None None (NStr [bs "id"] false); Fld (bs "cost") None None None (NStr [bs "cost"] true)]))].
Definition p6_ptree : ptree := PObj [(bs "l", 0, PArr (PObj [(bs "id", 0, PLeaf); (bs "cost", 2, PLeaf)]))].
Definition data_of (s : lstate) : json := match complete_root no_deny p6_root (ls_data s) with (Some t, _) => t | _ => JNull end.
Example p6_spec_clause :
  let ref0 := ls_data (fst (p6_run true no_partials)) in
  taint_isolated_b p6_root [l_at 3] (bs "zip") [2] [] p6_ptree ref0 (data_of (fst (p6_run true (p6_partial proper_path)))) = true /\
  (* ... and rejects the data the position-instead-of-bucket loader produces *)
  taint_isolated_b p6_root [l_at 3] (bs "zip") [2] [] p6_ptree ref0 (data_of (p6_f2_from [l_at 1])) = false.
Proof. vm_compute. split; reflexivity. Qed.

(* ---- plan 7: the same through a SINGLE entity fetch: { a { id cost } }, f1 (entity fetch) delivers zip, f2 requires it.
   The fault answers zip:null with an error at ["_entities",0,"zip"].  The repaired loader (commit 00d2cc7) resolves the path
   against data._entities and taints a; HISTORICAL: before, it resolved it against the entity itself (data._entities.0),
   nothing was tainted and f2 was sent with zip null. ---- *)
Definition p7_f0 := single_fetch 0 "s0" "{a{__typename id}}".
Definition p7_f1 := entity_fetch 1 "s1" "{_entities(r:[" ["a"] [0] (rep_of []).
Definition p7_f2 := entity_fetch 2 "s2" "{_entities(q:[" ["a"] [0; 1] (rep_of [zip_fld]).
Definition p7_tree : ftree := FTSeq [FTSingle p7_f0; FTSingle p7_f1; FTSingle p7_f2].
Definition p7_kind (id : N) : fkind := match id with 0 => FSingle | _ => FEntity end.
Definition p7_root_answer (id : N) : json * list json := (JObj [(bs "a", ent "2")], []).
Definition p7_partial (id : N) : option pfault :=
  match id with
  | 1 => Some {| pf_nulls := [(0, bs "zip")]; pf_errors := [err_at [JStr (bs "_entities"); JNum (bs "0"); JStr (bs "zip")]] |}
  | _ => None
  end.
Definition p7_run (P : N -> option pfault) : tstate := run_t p6_answer p7_root_answer p7_kind true p6_coords no_faults P p7_tree.
Definition p7_run_v0 (P : N -> option pfault) : tstate := run_t_v0 p6_answer p7_root_answer p7_kind true p6_coords no_faults P p7_tree.

Example p7_entity_fetch_taints :
  snd (p7_run p7_partial) = [[PName (bs "a")]] /\ List.map rq_fetch (ls_reqs (fst (p7_run p7_partial))) = [0; 1] /\
  requests_subset_b (ls_reqs (fst (p7_run no_partials))) (ls_reqs (fst (p7_run p7_partial))) = true.
Proof. vm_compute. repeat split. Qed.

Lemma taint_single_entity_refuted_proof :
  exists answer root_answer kind_of coords t P,
    forallb (fetch_wf kind_of) (fetches_of t) = true /\
    snd (run_t_v0 answer root_answer kind_of true coords no_faults P t) = [] /\
    requests_subset_b (ls_reqs (fst (run_t_v0 answer root_answer kind_of true coords no_faults no_partials t)))
                      (ls_reqs (fst (run_t_v0 answer root_answer kind_of true coords no_faults P t))) = false.
Proof.
  exists p6_answer, p7_root_answer, p7_kind, p6_coords, p7_tree, p7_partial. vm_compute. repeat split.
Qed.
