(* C07 specification: boolean checkers evaluated directly on the implementation's observables
   (requests recorded by the scripted subgraphs, response bytes parsed to a tree), independent of
   the loader model.  [ptree] is the response tree annotated with the fetch that provides each
   field (the lab's own bookkeeping). *)
From Gv Require Import lib.Bytes lib.Json C02.Model C02.Spec C07.Model.
Open Scope N_scope.

Definition mem_n (x : N) (l : list N) : bool := existsb (N.eqb x) l.

(* ---- affected fetches: the faulted ones and everything that transitively depends on them ---- *)
Definition affected_step (fs : list fetch) (a : list N) : list N :=
  a ++ map f_id (filter (fun f => negb (mem_n (f_id f) a) && existsb (fun d => mem_n d a) (f_deps f)) fs).
Fixpoint iter {A} (n : nat) (g : A -> A) (x : A) : A := match n with O => x | S n' => iter n' g (g x) end.
Definition affected (fs : list fetch) (F : list N) : list N := iter (length fs) (affected_step fs) F.

(* ---- requests_subset: same fetch, datasource and operation text; representations a subset ---- *)
Definition request_covered (r r0 : request) : bool :=
  (rq_fetch r =? rq_fetch r0) && bytes_eqb (rq_ds r) (rq_ds r0) &&
  bytes_eqb (rq_header r) (rq_header r0) && bytes_eqb (rq_footer r) (rq_footer r0) &&
  forallb (fun x => mem_bytes x (rq_reps r0)) (rq_reps r).
Definition requests_subset_b (base under : list request) : bool :=
  forallb (fun r => existsb (request_covered r) base) under.

(* ---- provider-annotated response tree ---- *)
Inductive ptree := PLeaf | PArr (t : ptree) | PObj (fs : list (bytes * N * ptree)).

Fixpoint has_aff (aff : list N) (pt : ptree) : bool :=
  match pt with
  | PLeaf => false
  | PArr t => has_aff aff t
  | PObj fs =>
    (fix go (fs : list (bytes * N * ptree)) : bool :=
       match fs with
       | [] => false
       | (_, fid, sub) :: r => mem_n fid aff || has_aff aff sub || go r
       end) fs
  end.

(* unaffected_equal: [j0] the fault-free response data, [jF] the data under the faults.  A subtree
   without affected positions is identical; a subtree with some may be null (propagation from an
   affected position inside it); positions provided by affected fetches are [affected_null]'s. *)
Fixpoint agree_b (aff : list N) (pt : ptree) (j0 jF : json) {struct pt} : bool :=
  if negb (has_aff aff pt) then json_eqb j0 jF else
  match jF with
  | JNull => true
  | _ =>
    match pt with
    | PLeaf => json_eqb j0 jF
    | PArr t =>
      match j0, jF with
      | JArr l0, JArr lF =>
        (fix go (l0 lF : list json) : bool :=
           match l0, lF with
           | [], [] => true
           | a :: l0', b :: lF' => agree_b aff t a b && go l0' lF'
           | _, _ => false
           end) l0 lF
      | _, _ => false
      end
    | PObj fs =>
      match j0, jF with
      | JObj m0, JObj mF =>
        (fix go (fs : list (bytes * N * ptree)) : bool :=
           match fs with
           | [] => true
           | (k, fid, sub) :: r =>
             (if mem_n fid aff then true
              else match obj_get k m0, obj_get k mF with
                   | Some a, Some b => agree_b aff sub a b
                   | None, None => true
                   | _, _ => false
                   end) && go r
           end) fs
      | _, _ => false
      end
    end
  end.

(* the fault-free merged data with the affected fetches' contributions removed *)
Fixpoint remove_contrib (aff : list N) (pt : ptree) (j : json) {struct pt} : json :=
  match pt with
  | PLeaf => j
  | PArr t => match j with JArr l => JArr (map (remove_contrib aff t) l) | _ => j end
  | PObj fs =>
    match j with
    | JObj m =>
      let is_field k := existsb (fun f => bytes_eqb k (fst (fst f))) fs in
      JObj (filter (fun kv => negb (is_field (fst kv))) m ++
            (fix go (fs : list (bytes * N * ptree)) : list (bytes * json) :=
               match fs with
               | [] => []
               | (k, fid, sub) :: r =>
                 (if mem_n fid aff then []
                  else match obj_get k m with Some v => [(k, remove_contrib aff sub v)] | None => [] end) ++ go r
               end) fs)
    | _ => j
    end
  end.

(* affected_null: the data under the faults is the C02 completion of that reduced data *)
Definition expected_data (root : node) (aff : list N) (pt : ptree) (ref0 : json) : json :=
  match complete_root no_deny root (remove_contrib aff pt ref0) with
  | (Some t, _) => t
  | (None, _) => JNull
  end.
Definition affected_null_b (root : node) (aff : list N) (pt : ptree) (ref0 dataF : json) : bool :=
  json_eqb (expected_data root aff pt ref0) dataF.

Definition errors_nonempty_b (nfaults nerrors : N) : bool := (nfaults =? 0) || (0 <? nerrors).

(* ================= Prop-level vocabulary of the theorems (Properties.v) ================= *)
Fixpoint fetches_of (t : ftree) : list fetch :=
  match t with
  | FTSingle f => [f]
  | FTSeq l | FTPar l => (fix go (l : list ftree) : list fetch := match l with [] => [] | t :: r => fetches_of t ++ go r end) l
  end.

(* the post-processing paths the planner emits for each fetch kind *)
Definition datapath_of (k : fkind) : rpath :=
  match k with
  | FSingle => [PName k_data]
  | FEntity => [PName k_data; PName k_entities; PIdx 0]
  | FBatch => [PName k_data; PName k_entities]
  end.
Definition fetch_wf (kind_of : N -> fkind) (f : fetch) : bool :=
  (match kind_of (f_id f), f_kind f with
   | FSingle, FSingle | FEntity, FEntity | FBatch, FBatch => true
   | _, _ => false
   end) &&
  (fix eq (a b : rpath) : bool :=
     match a, b with
     | [], [] => true
     | PName x :: a', PName y :: b' => bytes_eqb x y && eq a' b'
     | PIdx x :: a', PIdx y :: b' => (x =? y) && eq a' b'
     | _, _ => false
     end) (f_datapath f) (datapath_of (f_kind f)).

(* [sub_b a b]: a is b with some subtrees absent (object members missing) or null *)
Fixpoint sub_b (a b : json) {struct a} : bool :=
  match a with
  | JNull => true
  | JBool x => match b with JBool y => Bool.eqb x y | _ => false end
  | JNum x => match b with JNum y => bytes_eqb x y | _ => false end
  | JStr x => match b with JStr y => bytes_eqb x y | _ => false end
  | JArr la =>
    match b with
    | JArr lb =>
      (fix go (la lb : list json) {struct la} : bool :=
         match la, lb with
         | [], [] => true
         | x :: la', y :: lb' => sub_b x y && go la' lb'
         | _, _ => false
         end) la lb
    | _ => false
    end
  | JObj ma =>
    match b with
    | JObj mb =>
      (fix go (ma : list (bytes * json)) : bool :=
         match ma with
         | [] => true
         | (k, v) :: r => (match obj_get k mb with Some v' => sub_b v v' | None => false end) && go r
         end) ma
    | _ => false
    end
  end.
Definition sub (a b : json) : Prop := sub_b a b = true.
Definition is_atom (j : json) : bool := match j with JStr _ | JNum _ | JBool _ => true | _ => false end.


(* values without duplicate object keys (RFC 8259: names SHOULD be unique) *)
Fixpoint nodup_keys_b (m : list (bytes * json)) : bool :=
  match m with
  | [] => true
  | (k, _) :: r => negb (existsb (fun kv => bytes_eqb (fst kv) k) r) && nodup_keys_b r
  end.
Fixpoint json_wf (j : json) : bool :=
  match j with
  | JArr l => (fix go (l : list json) : bool := match l with [] => true | x :: r => json_wf x && go r end) l
  | JObj m => nodup_keys_b m &&
              (fix go (m : list (bytes * json)) : bool := match m with [] => true | (_, v) :: r => json_wf v && go r end) m
  | _ => true
  end.

(* no array is traversed when selecting along [path] from [items] *)
Fixpoint noarr_path (d : json) (path : list pathelem) (items : list rpath) : bool :=
  match path with
  | [] => true
  | pe :: r =>
    forallb (fun l => match get_loc l d with
                      | Some v => match get_path (pe_path pe) v with Some (JArr _) => false | _ => true end
                      | None => true
                      end) items && noarr_path d r (select_step d pe items)
  end.

(* ---- plan well-formedness (what the planner and the post-processor guarantee) ---- *)
Definition rep_field_ok (f : field) : bool :=
  match f with
  | Fld _ (Some _) None None (NStr [_] false) | Fld _ (Some _) None None (NInt [_] false)
  | Fld _ (Some _) None None (NFloat [_] false) | Fld _ (Some _) None None (NBool [_] false) => true
  | _ => false
  end.
Definition rep_wf (n : node) : bool :=
  match n with
  | NObj [] true _ [] _ false fields => forallb rep_field_ok fields
  | _ => false
  end.

Definition no_types (path : list pathelem) : bool :=
  forallb (fun pe => match pe_types pe with [] => true | _ => false end) path.


(* every fetch's dependencies come earlier in the tree's execution order *)
Definition deps_before (t : ftree) : bool :=
  (fix go (fs : list fetch) (seen : list N) : bool :=
     match fs with
     | [] => true
     | f :: r => forallb (fun d => mem_n d seen) (f_deps f) && negb (mem_n (f_id f) seen) && go r (f_id f :: seen)
     end) (fetches_of t) [].

Definition fetch_ok (kind_of : N -> fkind) (f : fetch) : bool :=
  fetch_wf kind_of f && no_types (f_path f) && (match f_mergepath f with [] => true | _ => false end) &&
  match f_kind f with
  | FSingle => match f_path f with [] => true | _ => false end     (* single fetches are root fetches *)
  | _ => rep_wf (f_rep f)
  end.
Definition fplan_wf (kind_of : N -> fkind) (t : ftree) : bool :=
  forallb (fetch_ok kind_of) (fetches_of t) && deps_before t.

Section Runs.
  Variable answer : N -> bytes -> json * list json.
  Variable root_answer : N -> json * list json.
  Variable kind_of : N -> fkind.

  (* the loader state after running the plan against the pointwise subgraphs under a fault map *)
  Definition run (F : N -> option fault) (t : ftree) : lstate :=
    fst (load unit (faulty_exchange answer root_answer kind_of F) t tt).
  Definition no_faults : N -> option fault := fun _ => None.

  (* ---- the fault-free run is consistent: no merge overwrites or clashes ----
     [targets f d]: where fetch f merges what, when it runs on data d against the clean subgraphs *)
  Definition targets (f : fetch) (d : json) : list (rpath * json) :=
    let items := select_items d (f_path f) in
    match f_kind f with
    | FSingle => match prepare f d items with
                 | PLoad _ _ _ => map (fun l => (l, fst (root_answer (f_id f)))) items
                 | PSkip _ => []
                 end
    | FEntity => match prepare f d items with
                 | PLoad _ rq _ => match items, rq_reps rq with
                                   | [l], [b] => [(l, fst (answer (f_id f) b))]
                                   | _, _ => []
                                   end
                 | PSkip _ => []
                 end
    | FBatch => flat_map (fun bl => map (fun l => (l, fst (answer (f_id f) (fst bl)))) (snd bl))
                         (snd (batch_prepare (f_rep f) items d []))
    end.
  Definition contained_b (d' : json) (t : rpath * json) : bool :=
    match get_loc (fst t) d' with Some w => sub_b (snd t) w | None => false end.
  Definition clean_exchange := faulty_exchange answer root_answer kind_of (fun _ => None).
  Definition step_ok_b (f : fetch) (s : lstate) : bool :=
    let s' := fst (run_fetch unit clean_exchange f (s, tt)) in
    negb (ls_hard s') && (match ls_errored s' with [] => true | _ => false end) && sub_b (ls_data s) (ls_data s') &&
    (match f_kind f with
     | FEntity => Nat.leb (length (select_items (ls_data s) (f_path f))) 1 && noarr_path (ls_data s) (f_path f) [[]]
     | _ => true
     end) &&
    forallb (contained_b (ls_data s')) (targets f (ls_data s)).
  Fixpoint consistent_from (t : ftree) (s : lstate) : bool :=
    match t with
    | FTSingle f => step_ok_b f s
    | FTSeq l | FTPar l =>
      (fix go (l : list ftree) (s : lstate) : bool :=
         match l with
         | [] => true
         | t :: r => consistent_from t s && go r (fst (run_tree unit clean_exchange t (s, tt)))
         end) l s
    end.
  (* after every fetch of the fault-free run: no merge failure, no fetch recorded as failed, the previous data is contained in
     the new data, an entity fetch had at most one item and traversed no array, every merged answer is contained at its target *)
  Definition consistent (t : ftree) : bool := consistent_from t init_state.
End Runs.

(* fault kinds after which the loader always reports an error: the property's whole list -- transport
   error, non-2xx with empty / non-JSON / errors-only body, empty body, non-JSON (also `NaN` as a
   body or inside data), truncated, errors without data, `data: null`, and a wrong `_entities`
   count for entity and batch fetches.  (Before the repairs the count faults were silent for
   single-entity fetches and NaN inside data was accepted: ModelPreFix.v, c07_*_refuted.) *)
Definition loud (fk : fkind) (k : fault) : bool :=
  match k with
  | FtTransport | FtStatusEmpty | FtStatusText | FtStatusErrors | FtEmpty | FtNonJSON | FtTruncated | FtNaNBody
  | FtErrorsNoData | FtErrorsNullData | FtNullData | FtNaNData => true
  | FtCountLess | FtCountMore => match fk with FSingle => false | _ => true end
  (* the selected data path of an entity / batch entity fetch holds an explicit null, a value of the
     wrong kind or nothing (`_entities`: null / {} / "x", `data`: {} / "x" / 1 / []), with or without
     an errors entry, at status 200 or 500: never the benign "no entity found" (isEmptyEntityFetch
     needs a real list).  For a root fetch `data: {..}` is an ordinary answer. *)
  | FtShape sh _ _ => match fk with
                      | FSingle => match sh with ShDataStr | ShDataNum | ShDataArr => true | _ => false end
                      | _ => true
                      end
  (* `_entities` of the right length with items of a wrong kind; above: `data` itself a string / number / list on a root
     fetch.  Since eb6ed70 (mergeableData) reported like the other invalid shapes -- when MergePath is empty ([fault_fits]) *)
  | FtItems _ _ _ => match fk with FSingle => false | _ => true end
  | _ => false
  end.

(* the kinds whose report rests on mergeableData, which the loader consults only for an empty MergePath *)
Definition plain_merge_kind (k : fault) : bool :=
  match k with
  | FtItems _ _ _ => true
  | FtShape (ShDataStr | ShDataNum | ShDataArr) _ _ => true
  | _ => false
  end.
Definition fault_fits (F : N -> option fault) (f : fetch) : bool :=
  match F (f_id f) with Some k => negb (plain_merge_kind k) || mp_empty f | None => true end.
Definition fetch_wfF (kind_of : N -> fkind) (F : N -> option fault) (f : fetch) : bool := fetch_wf kind_of f && fault_fits F f.
