(* C07 specification: boolean checkers evaluated directly on the implementation's observables
   (requests recorded by the scripted subgraphs, response bytes parsed to a tree), independent of
   the loader model.  [ptree] is the response tree annotated with the fetch that provides each
   field (the lab's own bookkeeping). *)
From Gv Require Import lib.Bytes lib.Json C02.Model C02.Spec C07.Model.
Open Scope N_scope.

Definition mem_n (x : N) (l : list N) : bool := existsb (N.eqb x) l.

(* ---- affected fetches: the faulted ones and everything that transitively depends on them ---- *)
Definition affected_step (fs : list fetch) (a : list N) : list N :=
  a ++ map f_id (filter (fun f => negb (mem_n (f_id f) a) && existsb (fun d => mem_n d a) (f_deps f)) fs).
Fixpoint iter {A} (n : nat) (g : A -> A) (x : A) : A := match n with O => x | S n' => iter n' g (g x) end.
Definition affected (fs : list fetch) (F : list N) : list N := iter (length fs) (affected_step fs) F.

(* ---- requests_subset: same fetch, datasource and operation text; representations a subset ---- *)
Definition request_covered (r r0 : request) : bool :=
  (rq_fetch r =? rq_fetch r0) && bytes_eqb (rq_ds r) (rq_ds r0) &&
  bytes_eqb (rq_header r) (rq_header r0) && bytes_eqb (rq_footer r) (rq_footer r0) &&
  forallb (fun x => mem_bytes x (rq_reps r0)) (rq_reps r).
Definition requests_subset_b (base under : list request) : bool :=
  forallb (fun r => existsb (request_covered r) base) under.

(* ---- provider-annotated response tree ---- *)
Inductive ptree := PLeaf | PArr (t : ptree) | PObj (fs : list (bytes * N * ptree)).

Fixpoint has_aff (aff : list N) (pt : ptree) : bool :=
  match pt with
  | PLeaf => false
  | PArr t => has_aff aff t
  | PObj fs =>
    (fix go (fs : list (bytes * N * ptree)) : bool :=
       match fs with
       | [] => false
       | (_, fid, sub) :: r => mem_n fid aff || has_aff aff sub || go r
       end) fs
  end.

(* unaffected_equal: [j0] the fault-free response data, [jF] the data under the faults.  A subtree
   without affected positions is identical; a subtree with some may be null (propagation from an
   affected position inside it); positions provided by affected fetches are [affected_null]'s. *)
Fixpoint agree_b (aff : list N) (pt : ptree) (j0 jF : json) {struct pt} : bool :=
  if negb (has_aff aff pt) then json_eqb j0 jF else
  match jF with
  | JNull => true
  | _ =>
    match pt with
    | PLeaf => json_eqb j0 jF
    | PArr t =>
      match j0, jF with
      | JArr l0, JArr lF =>
        (fix go (l0 lF : list json) : bool :=
           match l0, lF with
           | [], [] => true
           | a :: l0', b :: lF' => agree_b aff t a b && go l0' lF'
           | _, _ => false
           end) l0 lF
      | _, _ => false
      end
    | PObj fs =>
      match j0, jF with
      | JObj m0, JObj mF =>
        (fix go (fs : list (bytes * N * ptree)) : bool :=
           match fs with
           | [] => true
           | (k, fid, sub) :: r =>
             (if mem_n fid aff then true
              else match obj_get k m0, obj_get k mF with
                   | Some a, Some b => agree_b aff sub a b
                   | None, None => true
                   | _, _ => false
                   end) && go r
           end) fs
      | _, _ => false
      end
    end
  end.

(* the fault-free merged data with the affected fetches' contributions removed *)
Fixpoint remove_contrib (aff : list N) (pt : ptree) (j : json) {struct pt} : json :=
  match pt with
  | PLeaf => j
  | PArr t => match j with JArr l => JArr (map (remove_contrib aff t) l) | _ => j end
  | PObj fs =>
    match j with
    | JObj m =>
      let is_field k := existsb (fun f => bytes_eqb k (fst (fst f))) fs in
      JObj (filter (fun kv => negb (is_field (fst kv))) m ++
            (fix go (fs : list (bytes * N * ptree)) : list (bytes * json) :=
               match fs with
               | [] => []
               | (k, fid, sub) :: r =>
                 (if mem_n fid aff then []
                  else match obj_get k m with Some v => [(k, remove_contrib aff sub v)] | None => [] end) ++ go r
               end) fs)
    | _ => j
    end
  end.

(* affected_null: the data under the faults is the C02 completion of that reduced data *)
Definition expected_data (root : node) (aff : list N) (pt : ptree) (ref0 : json) : json :=
  match complete_root no_deny root (remove_contrib aff pt ref0) with
  | (Some t, _) => t
  | (None, _) => JNull
  end.
Definition affected_null_b (root : node) (aff : list N) (pt : ptree) (ref0 dataF : json) : bool :=
  json_eqb (expected_data root aff pt ref0) dataF.

Definition errors_nonempty_b (nfaults nerrors : N) : bool := (nfaults =? 0) || (0 <? nerrors).

(* ================= Prop-level vocabulary of the theorems (Properties.v) ================= *)
Fixpoint fetches_of (t : ftree) : list fetch :=
  match t with
  | FTSingle f => [f]
  | FTSeq l | FTPar l => (fix go (l : list ftree) : list fetch := match l with [] => [] | t :: r => fetches_of t ++ go r end) l
  end.

(* the post-processing paths the planner emits for each fetch kind *)
Definition datapath_of (k : fkind) : rpath :=
  match k with
  | FSingle => [PName k_data]
  | FEntity => [PName k_data; PName k_entities; PIdx 0]
  | FBatch => [PName k_data; PName k_entities]
  end.
Definition fetch_wf (kind_of : N -> fkind) (f : fetch) : bool :=
  (match kind_of (f_id f), f_kind f with
   | FSingle, FSingle | FEntity, FEntity | FBatch, FBatch => true
   | _, _ => false
   end) &&
  (fix eq (a b : rpath) : bool :=
     match a, b with
     | [], [] => true
     | PName x :: a', PName y :: b' => bytes_eqb x y && eq a' b'
     | PIdx x :: a', PIdx y :: b' => (x =? y) && eq a' b'
     | _, _ => false
     end) (f_datapath f) (datapath_of (f_kind f)).

Section Runs.
  Variable answer : N -> bytes -> json * list json.
  Variable root_answer : N -> json * list json.
  Variable kind_of : N -> fkind.

  (* the loader state after running the plan against the pointwise subgraphs under a fault map *)
  Definition run (F : N -> option fault) (t : ftree) : lstate :=
    fst (load unit (faulty_exchange answer root_answer kind_of F) t tt).
  Definition no_faults : N -> option fault := fun _ => None.
End Runs.

(* fault kinds after which the loader always reports an error (the property's list, with the
   `_entities` count faults only for batch fetches: see errors_nonempty_refuted) *)
Definition loud (fk : fkind) (k : fault) : bool :=
  match k with
  | FtTransport | FtStatusEmpty | FtStatusText | FtStatusErrors | FtEmpty | FtNonJSON | FtTruncated | FtNaNBody
  | FtErrorsNoData | FtErrorsNullData | FtNullData => true
  | FtCountLess | FtCountMore => match fk with FBatch => true | _ => false end
  | _ => false
  end.
