(* C07 (shared with C16b): executable model of v2/pkg/engine/resolve/loader.go, default resolver
   options (wrapped error propagation, no tracing, no authorization / rate limiting, no tainted
   objects, no multi-entity fetch, static headers/footers).

   The plan is data: fetch items (kind, datasource, fetch path, dependencies, representation
   variable as a C02 [node], post-processing paths) in a Single/Sequence/Parallel tree.  The data
   tree of the Go loader is a mutable astjson value addressed through pointers; here it is a
   [json] tree addressed through locations ([rpath]: object keys and array indices).

   Mirrors, branch by branch: selectItemsForPath / selectItems, prepareSingleFetch /
   prepareEntityFetch / prepareBatchEntityFetch (representation rendering through the C02 walk,
   null / {} / error skipping, de-duplication, batchStats), loadPhase (erroredFetchIDs),
   mergeResult (all error branches), shouldSkipErroredDependencyLocked, astjson MergeValues.
   The loader modelled is the one WITH the C07 repairs (every failed fetch is recorded as errored,
   an entity fetch checks the `_entities` count, non-JSON number tokens make the body invalid,
   data of the wrong JSON kind is reported instead of failing in MergeValues);
   C07/ModelPreFix.v keeps the previous mergeResult for the historical refutations.

   The subgraph side is a parameter: [exchange : St -> request -> response * St] (state-passing so
   that C16b can thread a cache through the same loader).  Parallel children run in list order
   (completion order is C08's business).  Error wording is not modelled: (kind, fetch id).

   Abstractions (tied by the correspondence, listed in the check's trusted base):
   xxhash of a rendered representation = the bytes themselves; MergeValues compares two numbers
   by raw token (astjson: as float64); json.Unmarshal of a subgraph `errors` array never fails. *)
From Gv Require Import lib.Bytes lib.Json C02.Model.
Open Scope N_scope.

Inductive fkind := FSingle | FEntity | FBatch.

Record pathelem := { pe_path : list bytes; pe_types : list bytes }.

Record fetch := {
  f_id : N; f_kind : fkind; f_ds : bytes; f_path : list pathelem; f_deps : list N;
  f_rep : node;                       (* representation variable (ResolvableObjectVariable) *)
  f_header : bytes; f_footer : bytes; (* static input around the representations; single: header = whole input *)
  f_datapath : rpath;                 (* SelectResponseDataPath; a decimal key is a [PIdx] *)
  f_mergepath : list bytes }.

Inductive ftree := FTSingle (f : fetch) | FTSeq (l : list ftree) | FTPar (l : list ftree).

Record request := { rq_fetch : N; rq_ds : bytes; rq_header : bytes; rq_footer : bytes; rq_reps : list bytes }.

Inductive body := BEmpty | BInvalid | BJson (j : json).
Record response := { rs_err : bool; rs_status : N; rs_body : body; rs_cc : list bytes }.

(* loader error kinds (by the message the Go code renders) *)
Definition LE_FETCH : N := 1.     (* "Failed to fetch from Subgraph ..." without reason: transport error, or wrapped subgraph errors *)
Definition LE_EMPTY : N := 2.     (* Reason: empty response *)
Definition LE_INVALID : N := 3.   (* Reason: invalid JSON *)
Definition LE_SHAPE : N := 4.     (* Reason: no data or errors in response *)
Definition LE_COUNT : N := 5.     (* Reason: returned entities count does not match ... *)
Definition LE_STATUS : N := 6.    (* "<code>: <text>" status fallback (names no fetch) *)
Record lerr := { le_kind : N; le_fetch : N }.

(* ---- astjson on trees ---- *)
Definition k_typename : bytes := [95;95;116;121;112;101;110;97;109;101].
Definition k_data : bytes := [100;97;116;97].
Definition k_errors : bytes := [101;114;114;111;114;115].
Definition k_entities : bytes := [95;101;110;116;105;116;105;101;115].

Fixpoint get_loc (l : rpath) (j : json) : option json :=
  match l with
  | [] => Some j
  | PName k :: r => match j with
                    | JObj m => match obj_get k m with Some v => get_loc r v | None => None end
                    | _ => None
                    end
  | PIdx i :: r => match j with
                   | JArr a => match nth_error a (N.to_nat i) with Some v => get_loc r v | None => None end
                   | _ => None
                   end
  end.

Fixpoint list_set {A} (n : nat) (x : A) (l : list A) : list A :=
  match l, n with
  | [], _ => []
  | _ :: r, O => x :: r
  | y :: r, S n' => y :: list_set n' x r
  end.

(* in-place update of the value at a location (no-op when the location does not exist) *)
Fixpoint set_loc (l : rpath) (nv : json) (j : json) : json :=
  match l with
  | [] => nv
  | PName k :: r => match j with
                    | JObj m => match obj_get k m with
                                | Some v => JObj (obj_set k (set_loc r nv v) m)
                                | None => j
                                end
                    | _ => j
                    end
  | PIdx i :: r => match j with
                   | JArr a => match nth_error a (N.to_nat i) with
                               | Some v => JArr (list_set (N.to_nat i) (set_loc r nv v) a)
                               | None => j
                               end
                   | _ => j
                   end
  end.

Definition jtype (j : json) : N :=
  match j with JNull => 0 | JBool _ => 1 | JNum _ => 2 | JStr _ => 3 | JArr _ => 4 | JObj _ => 5 end.

(* MergeValues(a, b): None = ErrMergeDifferentTypes / ErrMergeDifferingArrayLengths;
   Some (v, changed).  Structural on b. *)
Fixpoint merge (a b : json) {struct b} : option (json * bool) :=
  match b with
  | JNull => match a with
             | JObj _ => Some (a, false)
             | JNull => Some (a, false)
             | _ => None
             end
  | JBool y => match a with
               | JBool x => if Bool.eqb x y then Some (a, false) else Some (b, true)
               | _ => None
               end
  | JNum y => match a with
              | JNum x => if bytes_eqb x y then Some (a, false) else Some (b, true)
              | _ => None
              end
  | JStr y => match a with
              | JStr x => if bytes_eqb x y then Some (a, false) else Some (b, true)
              | _ => None
              end
  | JArr ba =>
    match a with
    | JArr aa =>
      match aa, ba with
      | [], _ => Some (b, true)
      | _, [] => Some (a, false)
      | _, _ =>
        match (fix go (aa ba : list json) {struct ba} : option (list json) :=
                 match aa, ba with
                 | [], [] => Some []
                 | x :: aa', y :: ba' =>
                   match merge x y with
                   | Some (n, _) => match go aa' ba' with Some r => Some (n :: r) | None => None end
                   | None => None
                   end
                 | _, _ => None
                 end) aa ba with
        | Some l => Some (JArr l, false)
        | None => None
        end
      end
    | _ => None
    end
  | JObj mb =>
    match a with
    | JObj ma =>
      match (fix go (ma : list (bytes * json)) (mb : list (bytes * json)) {struct mb} : option (list (bytes * json)) :=
               match mb with
               | [] => Some ma
               | (k, r) :: mb' =>
                 match obj_get k ma with
                 | None => go (obj_set k r ma) mb'
                 | Some l => match merge l r with
                             | Some (n, _) => go (obj_set k n ma) mb'
                             | None => None
                             end
                 end
               end) ma mb with
      | Some m => Some (JObj m, false)
      | None => None
      end
    | _ => None
    end
  end.

(* MergeValuesWithPath: b wrapped as {"p1":{"p2":b}} *)
Fixpoint wrap_path (p : list bytes) (b : json) : json :=
  match p with [] => b | k :: r => JObj [(k, wrap_path r b)] end.
Definition merge_with_path (a b : json) (p : list bytes) : option (json * bool) := merge a (wrap_path p b).

(* ---- selectItemsForPath ---- *)
Definition allowed_by_typename (v : json) (types : list bytes) : bool :=
  match types with
  | [] => true
  | _ => match v with
         | JObj m => match obj_get k_typename m with Some (JStr s) => mem_bytes s types | _ => true end
         | _ => true
         end
  end.

Fixpoint idx_locs (base : rpath) (n : nat) (i : N) : list rpath :=
  match n with O => [] | S n' => (base ++ [PIdx i]) :: idx_locs base n' (i + 1) end.

Definition select_step (data : json) (pe : pathelem) (items : list rpath) : list rpath :=
  match pe_path pe with
  | [] => items
  | names =>
    flat_map (fun l =>
      match get_loc l data with
      | None => []
      | Some v =>
        if allowed_by_typename v (pe_types pe) then
          match get_path names v with
          | None => []
          | Some (JArr a) => idx_locs (l ++ map PName names) (length a) 0
          | Some _ => [l ++ map PName names]
          end
        else []
      end) items
  end.

Definition select_items (data : json) (path : list pathelem) : list rpath :=
  fold_left (fun items pe => select_step data pe items) path [[]].

(* ---- representation rendering: Resolvable.ResolveNode at depth 1 ---- *)
Definition no_deny : bytes -> bytes -> bool := fun _ _ => false.
(* returns the item as the pre-walk left it (it writes nulls in place) and the bytes, None = error *)
Definition render_rep (rep : node) (v : json) : json * option bytes :=
  let '(v', _, st) := prewalk no_deny rep v [] [] in
  match st with
  | WOk => let '(b, err) := render rep v' [] false in (v', if err then None else Some b)
  | _ => (v', None)
  end.
Definition b_empty_obj : bytes := [123; 125].

(* batchStats: unique representation bytes with the locations that share it, in first-seen order *)
Fixpoint bucket_add (rep : bytes) (l : rpath) (bs : list (bytes * list rpath)) : list (bytes * list rpath) :=
  match bs with
  | [] => [(rep, [l])]
  | (r, ls) :: rest => if bytes_eqb r rep then (r, ls ++ [l]) :: rest else (r, ls) :: bucket_add rep l rest
  end.

(* render every item; the walk may write nulls into the item (in place) *)
Fixpoint batch_prepare (rep : node) (items : list rpath) (data : json) (bs : list (bytes * list rpath))
  : json * list (bytes * list rpath) :=
  match items with
  | [] => (data, bs)
  | l :: rest =>
    match get_loc l data with
    | None => batch_prepare rep rest data bs
    | Some v =>
      let '(v', ob) := render_rep rep v in
      let data' := set_loc l v' data in
      match ob with
      | None => batch_prepare rep rest data' bs         (* SkipErrItems *)
      | Some b =>
        if bytes_eqb b b_null || bytes_eqb b b_empty_obj then batch_prepare rep rest data' bs
        else batch_prepare rep rest data' (bucket_add b l bs)
      end
    end
  end.

(* itemsData *)
Definition items_data (data : json) (items : list rpath) : json :=
  match items with
  | [] => JNull
  | [l] => match get_loc l data with Some v => v | None => JNull end
  | _ => JArr (map (fun l => match get_loc l data with Some v => v | None => JNull end) items)
  end.

Inductive prepared :=
| PSkip (data : json)                                         (* nothing is loaded (skipLoad / fetchSkipped) *)
| PLoad (data : json) (rq : request) (batch : option (list (list rpath))).

Definition mk_request (f : fetch) (reps : list bytes) : request :=
  {| rq_fetch := f_id f; rq_ds := f_ds f; rq_header := f_header f; rq_footer := f_footer f; rq_reps := reps |}.

Definition prepare (f : fetch) (data : json) (items : list rpath) : prepared :=
  match f_kind f with
  | FSingle =>
    match items with
    | [l] => match get_loc l data with
             | Some JNull => PSkip data
             | _ => PLoad data (mk_request f []) None
             end
    | _ => PLoad data (mk_request f []) None
    end
  | FEntity =>
    let input := items_data data items in
    let '(v', ob) := render_rep (f_rep f) input in
    let data' := match items with [l] => set_loc l v' data | _ => data end in
    match ob with
    | None => PSkip data'                               (* SkipErrItem *)
    | Some b =>
      if bytes_eqb b b_null || bytes_eqb b b_empty_obj then PSkip data'
      else PLoad data' (mk_request f [b]) None
    end
  | FBatch =>
    let '(data', bs) := batch_prepare (f_rep f) items data [] in
    match bs with
    | [] => PSkip data'
    | _ => PLoad data' (mk_request f (map fst bs)) (Some (map snd bs))
    end
  end.

(* ---- mergeResult ---- *)
Record lstate := { ls_data : json; ls_errors : list lerr; ls_errored : list N; ls_reqs : list request; ls_hard : bool }.

Definition add_error (s : lstate) (k : N) (f : fetch) : lstate :=
  {| ls_data := ls_data s; ls_errors := ls_errors s ++ [{| le_kind := k; le_fetch := f_id f |}];
     ls_errored := ls_errored s; ls_reqs := ls_reqs s; ls_hard := ls_hard s |}.
Definition set_data (s : lstate) (d : json) : lstate :=
  {| ls_data := d; ls_errors := ls_errors s; ls_errored := ls_errored s; ls_reqs := ls_reqs s; ls_hard := ls_hard s |}.
Definition set_hard (s : lstate) : lstate :=
  {| ls_data := ls_data s; ls_errors := ls_errors s; ls_errored := ls_errored s; ls_reqs := ls_reqs s; ls_hard := true |}.
Definition add_errored (s : lstate) (id : N) : lstate :=
  {| ls_data := ls_data s; ls_errors := ls_errors s; ls_errored := id :: ls_errored s; ls_reqs := ls_reqs s; ls_hard := ls_hard s |}.
Definition add_request (s : lstate) (rq : request) : lstate :=
  {| ls_data := ls_data s; ls_errors := ls_errors s; ls_errored := ls_errored s; ls_reqs := ls_reqs s ++ [rq]; ls_hard := ls_hard s |}.

Definition non2xx (st : N) : bool := ((0 <? st) && (st <? 200)) || (300 <=? st).
Definition is_nullish (o : option json) : bool := match o with None | Some JNull => true | _ => false end.
Definition is_entity_kind (k : fkind) : bool := match k with FSingle => false | _ => true end.

(* RFC 8259 number tokens.  parsedResponse rejects a body in which some number is not one: the
   lenient parser also takes NaN, inf, +1, 01, 1. and .5 for numbers (astjson.Validate on the token) *)
Fixpoint all_digits (s : bytes) : bool := match s with [] => true | c :: r => is_digit c && all_digits r end.
Fixpoint span_digits (s : bytes) : bytes * bytes :=
  match s with
  | c :: r => if is_digit c then let '(d, t) := span_digits r in (c :: d, t) else ([], s)
  | [] => ([], [])
  end.
Definition exp_ok (s : bytes) : bool :=          (* after e / E *)
  let s' := match s with c :: r => if (c =? 43) || (c =? 45) then r else s | [] => s end in
  match s' with [] => false | _ => all_digits s' end.
Definition frac_exp_ok (s : bytes) : bool :=     (* after the integer part *)
  match s with
  | [] => true
  | c :: r =>
    if c =? 46 then
      let '(d, t) := span_digits r in
      match d with
      | [] => false
      | _ => match t with [] => true | e :: t' => ((e =? 101) || (e =? 69)) && exp_ok t' end
      end
    else ((c =? 101) || (c =? 69)) && exp_ok r
  end.
Definition num_token_ok (s : bytes) : bool :=
  let s := match s with c :: r => if c =? 45 then r else s | [] => s end in
  let '(d, t) := span_digits s in
  match d with
  | [] => false
  | [_] => frac_exp_ok t
  | c :: _ => negb (c =? 48) && frac_exp_ok t
  end.
Fixpoint valid_numbers (j : json) : bool :=
  match j with
  | JNum raw => num_token_ok raw
  | JArr l => (fix go (l : list json) : bool := match l with [] => true | x :: r => valid_numbers x && go r end) l
  | JObj m => (fix go (m : list (bytes * json)) : bool := match m with [] => true | (_, v) :: r => valid_numbers v && go r end) m
  | _ => true
  end.

(* renderErrorsFailedToFetch / renderErrorsStatusFallback: the error, and the fetch is recorded as
   errored so that its dependants are skipped (after any failure, not only a transport error) *)
Definition fail (s : lstate) (k : N) (f : fetch) : lstate := add_errored (add_error s k f) (f_id f).

(* merge one target in place; astjson returns "changed" for a replaced top-level value, which the
   loader drops, so only an object target is ever updated *)
Definition merge_target (f : fetch) (s : lstate) (l : rpath) (src : json) : lstate :=
  if ls_hard s then s else
  match get_loc l (ls_data s) with
  | None => s
  | Some a =>
    match merge_with_path a src (f_mergepath f) with
    | None => set_hard s
    | Some (a', changed) => if changed then s else set_data s (set_loc l a' (ls_data s))
    end
  end.

Fixpoint merge_pairwise (f : fetch) (s : lstate) (ls : list rpath) (batch : list json) : lstate :=
  match ls, batch with
  | l :: ls', b :: batch' => merge_pairwise f (merge_target f s l b) ls' batch'
  | _, _ => s
  end.
Fixpoint merge_buckets (f : fetch) (s : lstate) (bs : list (list rpath)) (batch : list json) : lstate :=
  match bs, batch with
  | targets :: bs', src :: batch' =>
    merge_buckets f (fold_left (fun s l => merge_target f s l src) targets s) bs' batch'
  | _, _ => s
  end.

(* mergeableData (repair eb6ed70, only when res.multi == nil -- no MultiFetch in this model -- and MergePath is empty):
   what is merged into a single item must be an object, every item of a batch an object or null; anything else is an
   invalid response of this subgraph ("no data or errors in response"), not an ErrMergeDifferentTypes of the operation *)
Definition mp_empty (f : fetch) : bool := match f_mergepath f with [] => true | _ => false end.
Definition is_obj (j : json) : bool := match j with JObj _ => true | _ => false end.
Definition obj_or_null (j : json) : bool := match j with JObj _ | JNull => true | _ => false end.
Definition wrong_kind_single (f : fetch) (rd : json) : bool := mp_empty f && negb (is_obj rd).
Definition wrong_kind_batch (f : fetch) (b : list json) : bool := mp_empty f && negb (forallb obj_or_null b).

Definition merge_result (f : fetch) (res : response) (items : list rpath) (batch : option (list (list rpath)))
           (s : lstate) : lstate :=
  if rs_err res then fail s LE_FETCH f else
  match rs_body res with
  | BEmpty => fail s LE_EMPTY f
  | BInvalid => if non2xx (rs_status res) then fail s LE_STATUS f else fail s LE_INVALID f
  | BJson resp =>
    if negb (valid_numbers resp) then                                  (* parsedResponse: not JSON after all *)
      if non2xx (rs_status res) then fail s LE_STATUS f else fail s LE_INVALID f
    else
    let rdata := get_loc (f_datapath f) resp in
    let has_errors := match get_loc [PName k_errors] resp with
                      | Some (JArr (_ :: _)) => true
                      | _ => false
                      end in
    let s := if has_errors then add_error s LE_FETCH f else s in      (* mergeErrors, wrapped mode *)
    let entities := get_loc [PName k_data; PName k_entities] resp in
    if match f_kind f, entities with
       | FEntity, Some (JArr l) => negb (Nat.eqb (length l) 1)        (* one representation, one entity *)
       | _, _ => false
       end
    then fail s LE_COUNT f
    else
    if is_nullish rdata then
      if is_entity_kind (f_kind f) && match entities with Some (JArr _) => true | _ => false end
      then s                                                          (* isEmptyEntityFetch: silent *)
      else if negb has_errors && non2xx (rs_status res) then fail s LE_STATUS f
      else if negb has_errors then fail s LE_SHAPE f
      else add_errored s (f_id f)                                     (* errors, no data *)
    else
      match rdata with
      | None => s
      | Some rd =>
        match items, batch with
        | [], _ => match rd with
                   | JObj _ => set_data s rd                          (* dataBuffer.Set(responseData) *)
                   | _ => fail s LE_SHAPE f
                   end
        | [l], None => if wrong_kind_single f rd then fail s LE_SHAPE f else merge_target f s l rd
        | _, _ =>
          match rd with
          | JArr [] => fail s LE_SHAPE f                              (* GetArray() of an empty array is nil *)
          | JArr b =>
            if wrong_kind_batch f b then fail s LE_SHAPE f else
            match batch with
            | Some bs => if Nat.eqb (length bs) (length b) then merge_buckets f s bs b else fail s LE_COUNT f
            | None => if Nat.eqb (length items) (length b) then merge_pairwise f s items b else fail s LE_COUNT f
            end
          | _ => fail s LE_SHAPE f
          end
        end
      end
  end.

Section Loader.
  Variable St : Type.
  Variable exchange : St -> request -> response * St.

  Definition should_skip (f : fetch) (s : lstate) : bool :=
    existsb (fun d => existsb (N.eqb d) (ls_errored s)) (f_deps f).

  (* resolveSingle = preparePhase / loadPhase / mergePhase *)
  Definition run_fetch (f : fetch) (sx : lstate * St) : lstate * St :=
    let '(s, x) := sx in
    if should_skip f s then (add_errored s (f_id f), x) else
    let items := select_items (ls_data s) (f_path f) in
    match prepare f (ls_data s) items with
    | PSkip d => (set_data s d, x)
    | PLoad d rq batch =>
      let s := add_request (set_data s d) rq in
      let '(res, x') := exchange x rq in
      let s := if rs_err res then add_errored s (f_id f) else s in
      (merge_result f res items batch s, x')
    end.

  Fixpoint run_tree (t : ftree) (sx : lstate * St) : lstate * St :=
    match t with
    | FTSingle f => run_fetch f sx
    | FTSeq l =>
      (fix go (l : list ftree) (sx : lstate * St) : lstate * St :=
         match l with
         | [] => sx
         | t :: r => let sx' := run_tree t sx in if ls_hard (fst sx') then sx' else go r sx'
         end) l sx
    | FTPar l =>
      (fix go (l : list ftree) (sx : lstate * St) : lstate * St :=
         match l with
         | [] => sx
         | t :: r => go r (run_tree t sx)
         end) l sx
    end.

  Definition init_state : lstate :=
    {| ls_data := JObj []; ls_errors := []; ls_errored := []; ls_reqs := []; ls_hard := false |}.

  Definition load (t : ftree) (x : St) : lstate * St := run_tree t (init_state, x).
End Loader.

(* ---- the response: loader errors first, then the renderer's; data by the C02 renderer ---- *)
Record outcome := { o_failed : bool;          (* ResolveGraphQLResponse returned an error, nothing written *)
                    o_lerrors : list lerr; o_resolved : resolved }.

(* Resolvable.Resolve: skipAddingNullErrors = hasErrors() && !hasData() *)
Definition skip_null_errors (s : lstate) : bool :=
  match ls_errors s with [] => false | _ => match ls_data s with JObj (_ :: _) => false | _ => true end end.

Definition finish (root : node) (s : lstate) : outcome :=
  let r := resolve no_deny root (ls_data s) in
  let r' := if skip_null_errors s
            then {| r_errors := filter (fun e => negb (ge_kind e =? EK_NONNULL)) (r_errors r);
                    r_data_null := r_data_null r; r_data := r_data r; r_panic := r_panic r; r_render_err := r_render_err r |}
            else r in
  {| o_failed := ls_hard s; o_lerrors := ls_errors s; o_resolved := r' |}.

(* ---- the scripted subgraph: pointwise oracle + fault map (C07) ---- *)
(* "the selected data path holds an explicit null / a value of the wrong kind": the whole body is
   {"data": <shape>} (with or without an errors entry, status 200 or 500) *)
Inductive shape :=
| ShEntNull      (* {"_entities": null} *)
| ShEntObj       (* {"_entities": {}}    an object instead of the list *)
| ShEntStr       (* {"_entities": "x"} *)
| ShDataEmpty    (* {}                   the path is missing *)
| ShDataStr      (* "x"                  data itself of the wrong kind *)
| ShDataNum      (* 1 *)
| ShDataArr.     (* [] *)
(* ... or `_entities` has the right length and every ITEM is of the wrong kind *)
Inductive itemkind := IkNum | IkStr | IkList.

Inductive fault :=
| FtTransport | FtStatusEmpty | FtStatusText | FtStatusErrors | FtEmpty | FtNonJSON | FtTruncated | FtNaNBody
| FtErrorsNoData | FtErrorsNullData | FtNullData | FtCountLess | FtCountMore
| FtStatusWithData | FtNullEntities | FtNaNData
| FtShape (sh : shape) (with_errors st500 : bool)
| FtItems (ik : itemkind) (with_errors st500 : bool).

Definition k_message : bytes := [109;101;115;115;97;103;101].
Definition boom : json := JObj [(k_message, JStr [98;111;111;109])].
Definition b_nan : bytes := [78;97;78].
Definition k_zz : bytes := [122;122].

Fixpoint nanify (j : json) : json :=
  match j with
  | JNum _ => JNum b_nan
  | JArr l => JArr (map nanify l)
  | JObj m => JObj (map (fun kv => (fst kv, nanify (snd kv))) m)
  | _ => j
  end.

Definition map_entities (g : list json -> list json) (j : json) : json :=
  match j with
  | JObj m =>
    JObj (map (fun kv =>
      if bytes_eqb (fst kv) k_data then
        (fst kv, match snd kv with
                 | JObj dm => JObj (map (fun kv2 => if bytes_eqb (fst kv2) k_entities
                                                    then (fst kv2, match snd kv2 with JArr l => JArr (g l) | v => v end)
                                                    else kv2) dm)
                 | v => v
                 end)
      else kv) m)
  | _ => j
  end.
Definition map_data (g : json -> json) (j : json) : json :=
  match j with
  | JObj m => JObj (map (fun kv => if bytes_eqb (fst kv) k_data then (fst kv, g (snd kv)) else kv) m)
  | _ => j
  end.
Definition on_body (g : json -> json) (r : response) : response :=
  {| rs_err := rs_err r; rs_status := rs_status r;
     rs_body := match rs_body r with BJson j => BJson (g j) | b => b end; rs_cc := rs_cc r |}.
Definition mk_response (st : N) (b : body) (r : response) : response :=
  {| rs_err := false; rs_status := st; rs_body := b; rs_cc := rs_cc r |}.

Definition b_x : bytes := [120].
Definition b_one : bytes := [49].
Definition shape_data (sh : shape) : json :=
  match sh with
  | ShEntNull => JObj [(k_entities, JNull)]
  | ShEntObj => JObj [(k_entities, JObj [])]
  | ShEntStr => JObj [(k_entities, JStr b_x)]
  | ShDataEmpty => JObj []
  | ShDataStr => JStr b_x
  | ShDataNum => JNum b_one
  | ShDataArr => JArr []
  end.
Definition item_of (ik : itemkind) : json :=
  match ik with IkNum => JNum b_one | IkStr => JStr b_x | IkList => JArr [] end.
Definition st_of (st500 : bool) : N := if st500 then 500 else 200.
Definition boom_member (with_errors : bool) : list (bytes * json) :=
  if with_errors then [(k_errors, JArr [boom])] else [].
Definition entities_count (j : json) : nat :=
  match get_loc [PName k_data; PName k_entities] j with Some (JArr l) => length l | _ => O end.

Definition apply_fault (k : fault) (r : response) : response :=
  match k with
  | FtShape sh we s5 => mk_response (st_of s5) (BJson (JObj ((k_data, shape_data sh) :: boom_member we))) r
  | FtItems ik we s5 =>
    match rs_body r with
    | BJson j => mk_response (st_of s5)
                   (BJson (JObj ((k_data, JObj [(k_entities, JArr (repeat (item_of ik) (entities_count j)))]) :: boom_member we))) r
    | _ => r
    end
  | FtTransport => {| rs_err := true; rs_status := 0; rs_body := BEmpty; rs_cc := [] |}
  | FtStatusEmpty => mk_response 500 BEmpty r
  | FtStatusText => mk_response 503 BInvalid r
  | FtStatusErrors => mk_response 500 (BJson (JObj [(k_errors, JArr [boom])])) r
  | FtEmpty => mk_response 200 BEmpty r
  | FtNonJSON | FtTruncated => mk_response 200 BInvalid r
  | FtNaNBody => mk_response 200 (BJson (JNum b_nan)) r
  | FtErrorsNoData => mk_response 200 (BJson (JObj [(k_errors, JArr [boom])])) r
  | FtErrorsNullData => mk_response 200 (BJson (JObj [(k_errors, JArr [boom]); (k_data, JNull)])) r
  | FtNullData => mk_response 200 (BJson (JObj [(k_data, JNull)])) r
  | FtCountLess => on_body (map_entities (fun l => removelast l)) r
  | FtCountMore => on_body (map_entities (fun l => match rev l with [] => l | x :: _ => l ++ [x] end)) r
  | FtStatusWithData => {| rs_err := false; rs_status := 500; rs_body := rs_body r; rs_cc := rs_cc r |}
  | FtNullEntities => on_body (map_entities (map (fun _ => JNull))) r
  | FtNaNData => on_body (map_data (fun d => match nanify d with JObj m => JObj ((k_zz, JNum b_nan) :: m) | x => x end)) r
  end.

Section Subgraphs.
  (* per (fetch, representation): the entity and the errors the subgraph reports for it *)
  Variable answer : N -> bytes -> json * list json.
  (* root (single) fetches: the data object and errors *)
  Variable root_answer : N -> json * list json.

  Definition errors_member (errs : list json) : list (bytes * json) :=
    match errs with [] => [] | _ => [(k_errors, JArr errs)] end.

  Definition clean_response (rq : request) (single : bool) : response :=
    let j :=
      if single then
        let '(d, errs) := root_answer (rq_fetch rq) in JObj ((k_data, d) :: errors_member errs)
      else
        let ans := map (answer (rq_fetch rq)) (rq_reps rq) in
        JObj ((k_data, JObj [(k_entities, JArr (map fst ans))]) :: errors_member (flat_map snd ans)) in
    {| rs_err := false; rs_status := 200; rs_body := BJson j; rs_cc := [] |}.

  Variable kind_of : N -> fkind.            (* fetch id -> kind (the datasource knows what it serves) *)
  Variable faults : N -> option fault.      (* by fetch id: a fetch sends at most one request per run *)

  Definition faulty_exchange (x : unit) (rq : request) : response * unit :=
    let r := clean_response rq (match kind_of (rq_fetch rq) with FSingle => true | _ => false end) in
    (match faults (rq_fetch rq) with Some k => apply_fault k r | None => r end, x).
End Subgraphs.
