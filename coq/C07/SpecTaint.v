(* C07 specification for the fault kind "errors with partial data" under ValidateRequiredExternalFields:
   a boolean checker evaluated on the implementation's response, independent of the loader model.

   A partial-data fault on fetch f names positions of `_entities` in f's RESPONSE; the scripted subgraph
   saw which representation was at each position, the lab knows which objects of the reference data
   carry that entity at f's path: these are the FAILED objects ([failed]: their locations).  The fault
   sets field [x] of the failed entities to null.

   Isolated at entity granularity means: the response data is the C02 completion of the fault-free
   reference data in which, at every failed object, x is null and the fields provided by the fetches
   that depend on f at that object ([dreq]) are absent -- and NOTHING else differs: no other object
   (a healthy duplicate, a skipped item's neighbour) loses anything, the failed object gets nothing from
   a dependant.  [later] (fetches that do not depend on f but run after it on the failed object or on an
   object containing it) is empty in the property's reading; a non-empty [later] describes what the
   loader's dependency-blind filter additionally removes (a recorded finding). *)
From Gv Require Import lib.Bytes lib.Json C02.Model C02.Spec C07.Model C07.Spec C07.ModelTaint.
Open Scope N_scope.

Fixpoint rpath_eqb (a b : rpath) : bool :=
  match a, b with
  | [], [] => true
  | PName x :: a', PName y :: b' => bytes_eqb x y && rpath_eqb a' b'
  | PIdx x :: a', PIdx y :: b' => (x =? y) && rpath_eqb a' b'
  | _, _ => false
  end.
Definition loc_mem (l : rpath) (ls : list rpath) : bool := existsb (rpath_eqb l) ls.

Fixpoint reduce_taint (failed : list rpath) (x : bytes) (dreq later : list N) (pt : ptree) (cur : rpath) (j : json) {struct pt} : json :=
  match pt with
  | PLeaf => j
  | PArr t =>
    match j with
    | JArr l =>
      JArr ((fix go (l : list json) (i : N) : list json :=
               match l with
               | [] => []
               | v :: r => reduce_taint failed x dreq later t (cur ++ [PIdx i]) v :: go r (i + 1)
               end) l 0)
    | _ => j
    end
  | PObj fs =>
    match j with
    | JObj m =>
      let self := loc_mem cur failed in
      let anc := existsb (rpath_prefix cur) failed in           (* the object is, or contains, a failed object *)
      let is_field k := existsb (fun f => bytes_eqb k (fst (fst f))) fs in
      JObj (filter (fun kv => negb (is_field (fst kv))) m ++
            (fix go (fs : list (bytes * N * ptree)) : list (bytes * json) :=
               match fs with
               | [] => []
               | (k, fid, sub) :: r =>
                 (if (self && mem_n fid dreq) || (anc && mem_n fid later) then []
                  else match obj_get k m with
                       | Some v => [(k, if self && bytes_eqb k x then JNull
                                        else reduce_taint failed x dreq later sub (cur ++ [PName k]) v)]
                       | None => []
                       end) ++ go r
               end) fs)
    | _ => j
    end
  end.

Definition expected_taint (root : node) (failed : list rpath) (x : bytes) (dreq later : list N) (pt : ptree) (ref0 : json) : json :=
  match complete_root no_deny root (reduce_taint failed x dreq later pt [] ref0) with
  | (Some t, _) => t
  | (None, _) => JNull
  end.
Definition taint_isolated_b (root : node) (failed : list rpath) (x : bytes) (dreq later : list N) (pt : ptree) (ref0 dataF : json) : bool :=
  json_eqb (expected_taint root failed x dreq later pt ref0) dataF.

(* ---- vocabulary of the theorems ---- *)
Section RunsT.
  Variable answer : N -> bytes -> json * list json.
  Variable root_answer : N -> json * list json.
  Variable kind_of : N -> fkind.

  (* the loader state (and tainted objects) after running the plan against the pointwise subgraphs under a
     fault map and a map of partial-data faults, with the option [vre] and the fetch reasons [coords] *)
  Definition run_t (vre : bool) (coords : N -> list (bytes * bytes)) (F : N -> option fault) (P : N -> option pfault) (t : ftree) : tstate :=
    fst (load_t unit (partial_exchange answer root_answer kind_of F P) (tainted_indices vre) coords t tt).
  (* HISTORICAL: the loader before commit 00d2cc7 (a single EntityFetch never tainted) *)
  Definition run_t_v0 (vre : bool) (coords : N -> list (bytes * bytes)) (F : N -> option fault) (P : N -> option pfault) (t : ftree) : tstate :=
    fst (load_t unit (partial_exchange answer root_answer kind_of F P) (tainted_indices_v0 vre) coords t tt).
  Definition no_partials : N -> option pfault := fun _ => None.
End RunsT.
