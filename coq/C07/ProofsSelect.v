(* C07: item selection and batch preparation under the information order. *)
From Gv Require Import lib.Bytes lib.Json C02.Model C07.Model C07.Spec C07.ProofsBase C07.ProofsSub C07.ProofsRep.
From Coq Require Import Lia PeanoNat.
Open Scope N_scope.

Lemma get_loc_app : forall l1 l2 d, get_loc (l1 ++ l2) d = match get_loc l1 d with Some v => get_loc l2 v | None => None end.
Proof.
  induction l1 as [|[k|i] r IH]; intros l2 d; simpl; [reflexivity| |].
  - destruct d; try reflexivity. destruct (obj_get k members); [apply IH|reflexivity].
  - destruct d; try reflexivity. destruct (nth_error items (N.to_nat i)); [apply IH|reflexivity].
Qed.

Lemma get_path_loc : forall names v, get_path names v = get_loc (map PName names) v.
Proof.
  induction names as [|k r IH]; intros v; simpl; [reflexivity|].
  destruct v; try reflexivity. destruct (obj_get k members); [apply IH|reflexivity].
Qed.

Lemma in_idx_locs : forall base n i l, In l (idx_locs base n i) <-> exists j, (j < n)%nat /\ l = base ++ [PIdx (i + N.of_nat j)].
Proof.
  induction n as [|n IH]; intros i l; simpl.
  - split; [intros []|intros (j & Hj & _); lia].
  - split.
    + intros [<-|H].
      * exists 0%nat. split; [lia|]. rewrite N.add_0_r. reflexivity.
      * apply IH in H as (j & Hj & ->). exists (S j). split; [lia|]. f_equal. f_equal. f_equal. lia.
    + intros (j & Hj & ->). destruct j as [|j].
      * left. rewrite N.add_0_r. reflexivity.
      * right. apply IH. exists j. split; [lia|]. f_equal. f_equal. f_equal. lia.
Qed.

(* every item selected under the smaller data is selected under the larger one, or is a null *)
Definition items_inv (dF : json) (itemsF items0 : list rpath) : Prop :=
  forall l, In l itemsF -> In l items0 \/ get_loc l dF = Some JNull.

Lemma select_step_inv : forall dF d0 pe itemsF items0, sub_b dF d0 = true -> pe_types pe = [] ->
  items_inv dF itemsF items0 -> items_inv dF (select_step dF pe itemsF) (select_step d0 pe items0).
Proof.
  intros dF d0 pe itemsF items0 Hs Ht Hi. unfold select_step. destruct (pe_path pe) as [|n0 ns] eqn:P; [exact Hi|].
  set (names := n0 :: ns) in *. intros l Hl.
  apply in_flat_map in Hl as (l0 & Hl0 & Hl).
  destruct (get_loc l0 dF) as [vF|] eqn:GF; [|contradiction].
  rewrite Ht in Hl. cbn [allowed_by_typename] in Hl.
  destruct (Hi l0 Hl0) as [Hin0|Hnull].
  2:{ rewrite Hnull in GF. inversion GF; subst vF. simpl in Hl. contradiction. }
  destruct (sub_get_loc _ _ _ _ Hs GF) as (v0 & G0 & Hv).
  destruct (get_path names vF) as [xF|] eqn:PF; [|contradiction].
  rewrite get_path_loc in PF. destruct (sub_get_loc _ _ _ _ Hv PF) as (x0 & P0 & Hx).
  assert (Hsel : forall l', (match x0 with JArr a => In l' (idx_locs (l0 ++ map PName names) (length a) 0) | _ => l' = l0 ++ map PName names end) ->
                            In l' (flat_map (fun l1 => match get_loc l1 d0 with
                                                       | None => []
                                                       | Some v => if allowed_by_typename v (pe_types pe)
                                                                   then match get_path names v with
                                                                        | None => []
                                                                        | Some (JArr a) => idx_locs (l1 ++ map PName names) (length a) 0
                                                                        | Some _ => [l1 ++ map PName names]
                                                                        end
                                                                   else []
                                                       end) items0)).
  { intros l' Hl'. apply in_flat_map. exists l0. split; [exact Hin0|]. rewrite G0, Ht. cbn [allowed_by_typename].
    rewrite get_path_loc, P0. destruct x0; try (left; symmetry; exact Hl'). exact Hl'. }
  destruct xF as [|b|raw|s|aF|mF].
  - right. destruct Hl as [<-|[]]. rewrite get_loc_app, GF. exact PF.
  - left. apply Hsel. rewrite (sub_atom_eq (JBool b) x0 eq_refl Hx). destruct Hl as [<-|[]]. reflexivity.
  - left. apply Hsel. rewrite (sub_atom_eq (JNum raw) x0 eq_refl Hx). destruct Hl as [<-|[]]. reflexivity.
  - left. apply Hsel. rewrite (sub_atom_eq (JStr s) x0 eq_refl Hx). destruct Hl as [<-|[]]. reflexivity.
  - left. apply Hsel. destruct (sub_arr_inv _ _ Hx) as (a0 & -> & Ha). rewrite <- (sub_list_length _ _ Ha). exact Hl.
  - left. apply Hsel. destruct (sub_obj_inv _ _ Hx) as (m0 & -> & _). destruct Hl as [<-|[]]. reflexivity.
Qed.

Lemma fold_select_inv : forall dF d0 path iF i0, sub_b dF d0 = true -> no_types path = true ->
  items_inv dF iF i0 ->
  items_inv dF (fold_left (fun items pe => select_step dF pe items) path iF)
               (fold_left (fun items pe => select_step d0 pe items) path i0).
Proof.
  intros dF d0 path. induction path as [|pe r IH]; intros iF i0 Hs Ht Hi; simpl; [exact Hi|].
  unfold no_types in Ht. simpl in Ht. apply andb_prop in Ht as [H1 H2].
  apply IH; [exact Hs|exact H2|]. apply select_step_inv; [exact Hs| |exact Hi].
  destruct (pe_types pe); [reflexivity|discriminate].
Qed.

Lemma select_items_inv : forall dF d0 path, sub_b dF d0 = true -> no_types path = true ->
  items_inv dF (select_items dF path) (select_items d0 path).
Proof.
  intros dF d0 path Hs Ht. unfold select_items. apply fold_select_inv; [exact Hs|exact Ht|].
  intros l H. left. exact H.
Qed.

(* ---- batch preparation with a flat representation ---- *)
Lemma obj_set_get_same : forall k m c, obj_get k m = Some c -> obj_set k c m = m.
Proof.
  induction m as [|[k' v'] m IHm]; simpl; intros c G; [discriminate|].
  destruct (bytes_eqb k k'); [inversion G; reflexivity|]. f_equal. apply IHm. exact G.
Qed.
Lemma list_set_nth_same : forall {A} (a : list A) n c, nth_error a n = Some c -> list_set n c a = a.
Proof.
  induction a as [|y a IHa]; intros n c G; [destruct n; discriminate|].
  destruct n; simpl in *; [inversion G; reflexivity|]. f_equal. apply IHa. exact G.
Qed.

Lemma set_loc_same : forall l d v, get_loc l d = Some v -> set_loc l v d = d.
Proof.
  induction l as [|[k|i] r IH]; intros d v H; simpl in *.
  - inversion H. reflexivity.
  - destruct d; try reflexivity. destruct (obj_get k members) as [c|] eqn:G; [|reflexivity].
    rewrite (IH c v H). f_equal. apply obj_set_get_same. exact G.
  - destruct d; try reflexivity. destruct (nth_error items (N.to_nat i)) as [c|] eqn:G; [|reflexivity].
    rewrite (IH c v H). f_equal. apply list_set_nth_same. exact G.
Qed.

Lemma set_loc_none : forall l d v, get_loc l d = None -> set_loc l v d = d.
Proof.
  induction l as [|[k|i] r IH]; intros d v H; simpl in *.
  - discriminate.
  - destruct d; try reflexivity. destruct (obj_get k members) as [c|] eqn:G; [|reflexivity].
    rewrite (IH c v H). f_equal. apply obj_set_get_same. exact G.
  - destruct d; try reflexivity. destruct (nth_error items (N.to_nat i)) as [c|] eqn:G; [|reflexivity].
    rewrite (IH c v H). f_equal. apply list_set_nth_same. exact G.
Qed.

Definition rendered (fields : list field) (d : json) (l : rpath) (b : bytes) : Prop :=
  exists v, get_loc l d = Some v /\ flat_render fields v = Some b /\ bytes_eqb b b_null = false /\ bytes_eqb b b_empty_obj = false.

Definition in_buckets (bs : list (bytes * list rpath)) (b : bytes) (l : rpath) : Prop :=
  exists locs, In (b, locs) bs /\ In l locs.

Lemma bucket_add_in : forall rep l bs b l', in_buckets (bucket_add rep l bs) b l' <-> in_buckets bs b l' \/ (b = rep /\ l' = l).
Proof.
  induction bs as [|[r ls] rest IH]; intros b l'; simpl.
  - split.
    + intros (locs & [E|[]] & Hl). inversion E; subst. destruct Hl as [<-|[]]. right. split; reflexivity.
    + intros [(locs & [] & _)|[-> ->]]. exists [l]. split; left; reflexivity.
  - destruct (bytes_eqb r rep) eqn:E.
    + apply bytes_eqb_true in E. subst r. split.
      * intros (locs & [E|Hin] & Hl).
        -- inversion E; subst. apply in_app_or in Hl as [Hl|[<-|[]]]; [left; exists ls; split; [left; reflexivity|exact Hl]|right; split; reflexivity].
        -- left. exists locs. split; [right; exact Hin|exact Hl].
      * intros [(locs & [E|Hin] & Hl)|[-> ->]].
        -- inversion E; subst. exists (locs ++ [l]). split; [left; reflexivity|apply in_or_app; left; exact Hl].
        -- exists locs. split; [right; exact Hin|exact Hl].
        -- exists (ls ++ [l]). split; [left; reflexivity|apply in_or_app; right; left; reflexivity].
    + split.
      * intros (locs & [E'|Hin] & Hl).
        -- inversion E'; subst. left. exists locs. split; [left; reflexivity|exact Hl].
        -- assert (in_buckets (bucket_add rep l rest) b l') as Hb by (exists locs; split; assumption).
           apply IH in Hb as [(locs' & Hin' & Hl')|Heq]; [left; exists locs'; split; [right; exact Hin'|exact Hl']|right; exact Heq].
      * intros [(locs & [E'|Hin] & Hl)|Heq].
        -- inversion E'; subst. exists locs. split; [left; reflexivity|exact Hl].
        -- assert (in_buckets (bucket_add rep l rest) b l') as (locs' & Hin' & Hl') by (apply IH; left; exists locs; split; assumption).
           exists locs'. split; [right; exact Hin'|exact Hl'].
        -- assert (in_buckets (bucket_add rep l rest) b l') as (locs' & Hin' & Hl') by (apply IH; right; exact Heq).
           exists locs'. split; [right; exact Hin'|exact Hl'].
Qed.

Lemma batch_prepare_flat : forall ty inacc fields items d bs0, forallb rep_field_ok fields = true ->
  exists bs, batch_prepare (NObj [] true ty [] inacc false fields) items d bs0 = (d, bs) /\
    forall b l, in_buckets bs b l <-> in_buckets bs0 b l \/ (In l items /\ rendered fields d l b).
Proof.
  intros ty inacc fields items d bs0 Hok. revert bs0.
  induction items as [|l r IH]; intros bs0; simpl.
  - exists bs0. split; [reflexivity|]. intros b l. split; [left; assumption|intros [H|[[] _]]; exact H].
  - destruct (get_loc l d) as [v|] eqn:G.
    + rewrite (render_rep_flat ty inacc fields v Hok). rewrite (set_loc_same _ _ _ G).
      destruct (flat_render fields v) as [b0|] eqn:FR.
      * destruct (bytes_eqb b0 b_null || bytes_eqb b0 b_empty_obj) eqn:Sk.
        -- destruct (IH bs0) as (bs & Hbs & Hspec). exists bs. split; [exact Hbs|].
           intros b l'. rewrite Hspec. split; [intros [H|[Hin Hr]]; [left; exact H|right; split; [right; exact Hin|exact Hr]]|].
           intros [H|[[<-|Hin] Hr]]; [left; exact H| |right; split; assumption].
           destruct Hr as (v' & G' & FR' & N1 & N2). rewrite G in G'. inversion G'; subst v'. rewrite FR in FR'. inversion FR'; subst b.
           rewrite N1, N2 in Sk. discriminate.
        -- apply Bool.orb_false_elim in Sk as [N1 N2].
           destruct (IH (bucket_add b0 l bs0)) as (bs & Hbs & Hspec). exists bs. split; [exact Hbs|].
           intros b l'. rewrite Hspec, bucket_add_in. split.
           ++ intros [[H|[-> ->]]|[Hin Hr]]; [left; exact H| |right; split; [right; exact Hin|exact Hr]].
              right. split; [left; reflexivity|]. exists v. repeat split; assumption.
           ++ intros [H|[[<-|Hin] Hr]]; [left; left; exact H| |right; split; assumption].
              destruct Hr as (v' & G' & FR' & _). rewrite G in G'. inversion G'; subst v'. rewrite FR in FR'. inversion FR'; subst b.
              left. right. split; reflexivity.
      * destruct (IH bs0) as (bs & Hbs & Hspec). exists bs. split; [exact Hbs|].
        intros b l'. rewrite Hspec. split; [intros [H|[Hin Hr]]; [left; exact H|right; split; [right; exact Hin|exact Hr]]|].
        intros [H|[[<-|Hin] Hr]]; [left; exact H| |right; split; assumption].
        destruct Hr as (v' & G' & FR' & _). rewrite G in G'. inversion G'; subst v'. rewrite FR in FR'. discriminate.
    + destruct (IH bs0) as (bs & Hbs & Hspec). exists bs. split; [exact Hbs|].
      intros b l'. rewrite Hspec. split; [intros [H|[Hin Hr]]; [left; exact H|right; split; [right; exact Hin|exact Hr]]|].
      intros [H|[[<-|Hin] Hr]]; [left; exact H| |right; split; assumption].
      destruct Hr as (v' & G' & _). rewrite G in G'. discriminate.
Qed.

(* buckets are never empty *)
Definition buckets_nonempty (bs : list (bytes * list rpath)) : Prop := forall b locs, In (b, locs) bs -> locs <> [].
Lemma bucket_add_nonempty : forall rep l bs, buckets_nonempty bs -> buckets_nonempty (bucket_add rep l bs).
Proof.
  induction bs as [|[r ls] rest IH]; intros H b locs Hin; simpl in Hin.
  - destruct Hin as [E|[]]. inversion E. discriminate.
  - destruct (bytes_eqb r rep).
    + destruct Hin as [E|Hin]; [inversion E; destruct ls; discriminate|]. eapply H. right. exact Hin.
    + destruct Hin as [E|Hin]; [inversion E; subst; eapply H; left; reflexivity|].
      eapply IH; [|exact Hin]. intros b' locs' Hin'. eapply H. right. exact Hin'.
Qed.
Lemma batch_prepare_nonempty : forall rep items d bs0, buckets_nonempty bs0 -> buckets_nonempty (snd (batch_prepare rep items d bs0)).
Proof.
  induction items as [|l r IH]; intros d bs0 H; simpl; [exact H|].
  destruct (get_loc l d) as [v|]; [|apply IH; exact H].
  destruct (render_rep rep v) as [v' [b|]]; [|apply IH; exact H].
  destruct (bytes_eqb b b_null || bytes_eqb b b_empty_obj); apply IH; [exact H|apply bucket_add_nonempty; exact H].
Qed.
