(* C07: the information order on data trees ("equal except absent or null subtrees") and its
   algebra: reflexive, transitive, compatible with get_loc / set_loc, and MergeValues is a join. *)
From Gv Require Import lib.Bytes lib.Json C02.Model C07.Model C07.Spec C07.ProofsBase.
From Coq Require Import Lia PeanoNat.
Open Scope N_scope.

Fixpoint sub_list (la lb : list json) : bool :=
  match la, lb with
  | [], [] => true
  | x :: la', y :: lb' => sub_b x y && sub_list la' lb'
  | _, _ => false
  end.
Fixpoint sub_members (ma mb : list (bytes * json)) : bool :=
  match ma with
  | [] => true
  | (k, v) :: r => (match obj_get k mb with Some v' => sub_b v v' | None => false end) && sub_members r mb
  end.

Lemma sub_arr_eq : forall la lb, sub_b (JArr la) (JArr lb) = sub_list la lb.
Proof. intros la lb. destruct la, lb; reflexivity. Qed.
Lemma sub_obj_eq : forall ma mb, sub_b (JObj ma) (JObj mb) = sub_members ma mb.
Proof. induction ma as [|[k v] r IH]; intros mb; [reflexivity|]. simpl. f_equal. apply IH. Qed.

Lemma sub_members_spec : forall ma mb, sub_members ma mb = true <->
  (forall k v, In (k, v) ma -> exists v', obj_get k mb = Some v' /\ sub_b v v' = true).
Proof.
  induction ma as [|[k v] r IH]; intros mb; simpl.
  - split; [intros _ k v []|reflexivity].
  - rewrite andb_true_iff, IH. split.
    + intros [H1 H2] k' v' [E|Hin]; [inversion E; subst|auto].
      destruct (obj_get k' mb) as [w|]; [exists w; auto|discriminate].
    + intros H. split; [|intros; apply H; right; assumption].
      destruct (H k v (or_introl eq_refl)) as (w & Hw & Hs). rewrite Hw. exact Hs.
Qed.

Lemma obj_get_in : forall k m v, obj_get k m = Some v -> exists k', In (k', v) m /\ bytes_eqb k k' = true.
Proof.
  induction m as [|[k' v'] r IH]; simpl; intros v H; [discriminate|].
  destruct (bytes_eqb k k') eqn:E; [inversion H; subst; exists k'; split; [left; reflexivity|exact E]|].
  destruct (IH v H) as (k2 & Hin & He). exists k2. split; [right; exact Hin|exact He].
Qed.

Lemma obj_get_key_eq : forall k k' m, bytes_eqb k k' = true -> obj_get k m = obj_get k' m.
Proof. intros k k' m H. apply bytes_eqb_true in H. subst. reflexivity. Qed.

(* ---- reflexivity (on values without duplicate keys it is exact; in general: first-match) ---- *)
Definition nodup_keys (m : list (bytes * json)) : Prop :=
  forall k v, In (k, v) m -> obj_get k m = Some v.

Fixpoint wf_obj (j : json) : Prop :=
  match j with
  | JArr l => (fix go (l : list json) : Prop := match l with [] => True | x :: r => wf_obj x /\ go r end) l
  | JObj m => nodup_keys m /\ (fix go (m : list (bytes * json)) : Prop := match m with [] => True | (_, v) :: r => wf_obj v /\ go r end) m
  | _ => True
  end.

Lemma sub_list_refl : forall l, (forall x, In x l -> sub_b x x = true) -> sub_list l l = true.
Proof. induction l as [|x l IH]; simpl; intros H; [reflexivity|]. rewrite H by (left; reflexivity). apply IH. intros; apply H; right; assumption. Qed.

(* ---- transitivity ---- *)
Lemma sub_trans : forall a b c, sub_b a b = true -> sub_b b c = true -> sub_b a c = true.
Proof.
  intros a; induction a as [|x|x|x|l H|m H] using json_ind'; intros b c Hab Hbc; try reflexivity.
  - destruct b; simpl in Hab; try discriminate. destruct c; simpl in Hbc; try discriminate.
    apply Bool.eqb_prop in Hab, Hbc. subst. simpl. apply Bool.eqb_reflx.
  - destruct b; simpl in Hab; try discriminate. destruct c; simpl in Hbc; try discriminate.
    apply bytes_eqb_true in Hab, Hbc. subst. simpl. apply bytes_eqb_refl.
  - destruct b; simpl in Hab; try discriminate. destruct c; simpl in Hbc; try discriminate.
    apply bytes_eqb_true in Hab, Hbc. subst. simpl. apply bytes_eqb_refl.
  - destruct b as [| | | |lb|]; try (simpl in Hab; destruct l; discriminate).
    destruct c as [| | | |lc|]; try (simpl in Hbc; destruct lb; discriminate).
    rewrite sub_arr_eq in *. revert lb lc Hab Hbc.
    induction H as [|x l Hx Hl IH]; intros lb lc Hab Hbc; destruct lb as [|y lb]; simpl in Hab; try discriminate;
      destruct lc as [|z lc]; simpl in Hbc; try discriminate; [reflexivity|].
    apply andb_prop in Hab as [H1 H2]. apply andb_prop in Hbc as [H3 H4]. simpl.
    rewrite (Hx y z H1 H3). apply (IH lb lc H2 H4).
  - destruct b as [| | | | |mb]; try (simpl in Hab; destruct m as [|[? ?] ?]; discriminate).
    destruct c as [| | | | |mc]; try (simpl in Hbc; destruct mb as [|[? ?] ?]; discriminate).
    rewrite sub_obj_eq in *. revert Hab. induction H as [|[k v] r Hv Hr IH]; intros Hab; simpl in *; [reflexivity|].
    apply andb_prop in Hab as [H1 H2]. rewrite (IH H2), andb_true_r.
    destruct (obj_get k mb) as [w|] eqn:G; [|discriminate].
    pose proof (proj1 (sub_members_spec _ _) Hbc) as Hbc'.
    destruct (obj_get_in _ _ _ G) as (k' & Hin & Hk).
    destruct (Hbc' k' w Hin) as (u & Hu & Hwu).
    rewrite (obj_get_key_eq _ _ _ Hk), Hu. eapply Hv; eassumption.
Qed.

(* ---- inversions ---- *)
Lemma sub_obj_inv : forall ma c, sub_b (JObj ma) c = true -> exists mc, c = JObj mc /\ sub_members ma mc = true.
Proof.
  intros ma c H. destruct c as [| | | | |mc]; try (simpl in H; destruct ma as [|[? ?] ?]; discriminate).
  exists mc. split; [reflexivity|]. rewrite <- sub_obj_eq. exact H.
Qed.
Lemma sub_arr_inv : forall la c, sub_b (JArr la) c = true -> exists lc, c = JArr lc /\ sub_list la lc = true.
Proof.
  intros la c H. destruct c as [| | | |lc|]; try (simpl in H; destruct la; discriminate).
  exists lc. split; [reflexivity|]. rewrite <- sub_arr_eq. exact H.
Qed.

Lemma sub_members_get : forall ma mc k v, sub_members ma mc = true -> obj_get k ma = Some v ->
  exists v', obj_get k mc = Some v' /\ sub_b v v' = true.
Proof.
  intros ma mc k v H G. destruct (obj_get_in _ _ _ G) as (k' & Hin & Hk).
  destruct (proj1 (sub_members_spec _ _) H k' v Hin) as (v' & Hv & Hs).
  exists v'. rewrite (obj_get_key_eq _ _ _ Hk). split; assumption.
Qed.

Lemma sub_list_nth : forall la lc n v, sub_list la lc = true -> nth_error la n = Some v ->
  exists v', nth_error lc n = Some v' /\ sub_b v v' = true.
Proof.
  induction la as [|x la IH]; intros lc n v H Hn; [destruct n; discriminate|].
  destruct lc as [|y lc]; [discriminate|]. simpl in H. apply andb_prop in H as [H1 H2].
  destruct n as [|n]; simpl in *.
  - inversion Hn; subst. exists y. split; [reflexivity|exact H1].
  - apply (IH lc n v H2 Hn).
Qed.
Lemma sub_list_length : forall la lc, sub_list la lc = true -> length la = length lc.
Proof.
  induction la as [|x la IH]; destruct lc as [|y lc]; simpl; intros H; try discriminate; [reflexivity|].
  apply andb_prop in H as [_ H]. f_equal. apply IH. exact H.
Qed.

(* ---- get_loc is monotone ---- *)
Lemma sub_get_loc : forall l d D v, sub_b d D = true -> get_loc l d = Some v ->
  exists w, get_loc l D = Some w /\ sub_b v w = true.
Proof.
  induction l as [|[k|i] r IH]; intros d D v Hs Hg; simpl in Hg.
  - inversion Hg; subst. exists D. split; [reflexivity|exact Hs].
  - destruct d as [| | | | |m]; try discriminate.
    destruct (obj_get k m) as [c|] eqn:G; [|discriminate].
    destruct (sub_obj_inv _ _ Hs) as (mc & -> & Hm).
    destruct (sub_members_get _ _ _ _ Hm G) as (C & HC & HcC).
    simpl. rewrite HC. apply (IH c C v HcC Hg).
  - destruct d as [| | | |a|]; try discriminate.
    destruct (nth_error a (N.to_nat i)) as [c|] eqn:G; [|discriminate].
    destruct (sub_arr_inv _ _ Hs) as (lc & -> & Hl).
    destruct (sub_list_nth _ _ _ _ Hl G) as (C & HC & HcC).
    simpl. rewrite HC. apply (IH c C v HcC Hg).
Qed.

(* ---- updating below a bound stays below it ---- *)
Lemma sub_members_obj_set : forall m M k x C, sub_members m M = true -> obj_get k M = Some C -> sub_b x C = true ->
  sub_members (obj_set k x m) M = true.
Proof.
  induction m as [|[k' v'] r IH]; intros M k x C Hm HC Hx; simpl.
  - rewrite HC, Hx. reflexivity.
  - simpl in Hm. apply andb_prop in Hm as [H1 H2].
    destruct (bytes_eqb k k') eqn:E; simpl.
    + rewrite <- (obj_get_key_eq _ _ _ E), HC, Hx, H2. reflexivity.
    + rewrite H1. simpl. eapply IH; eassumption.
Qed.

Lemma sub_list_set : forall la lc n x C, sub_list la lc = true -> nth_error lc n = Some C -> sub_b x C = true ->
  sub_list (list_set n x la) lc = true.
Proof.
  induction la as [|y la IH]; intros lc n x C H Hn Hx; [destruct n; exact H|].
  destruct lc as [|z lc]; [discriminate|]. simpl in H. apply andb_prop in H as [H1 H2].
  destruct n as [|n]; simpl in *.
  - inversion Hn; subst. rewrite Hx, H2. reflexivity.
  - rewrite H1. simpl. eapply IH; eassumption.
Qed.

Lemma sub_set_loc : forall l d D w v', sub_b d D = true -> get_loc l D = Some w -> sub_b v' w = true ->
  sub_b (set_loc l v' d) D = true.
Proof.
  induction l as [|[k|i] r IH]; intros d D w v' Hs Hg Hv; simpl.
  - simpl in Hg. inversion Hg; subst. exact Hv.
  - destruct d as [| | | | |m]; try exact Hs.
    destruct (obj_get k m) as [c|] eqn:G; [|exact Hs].
    destruct (sub_obj_inv _ _ Hs) as (mc & -> & Hm).
    destruct (sub_members_get _ _ _ _ Hm G) as (C & HC & HcC).
    simpl in Hg. rewrite HC in Hg. rewrite sub_obj_eq.
    eapply sub_members_obj_set; [exact Hm|exact HC|]. eapply IH; eassumption.
  - destruct d as [| | | |a|]; try exact Hs.
    destruct (nth_error a (N.to_nat i)) as [c|] eqn:G; [|exact Hs].
    destruct (sub_arr_inv _ _ Hs) as (lc & -> & Hl).
    destruct (sub_list_nth _ _ _ _ Hl G) as (C & HC & HcC).
    simpl in Hg. rewrite HC in Hg. rewrite sub_arr_eq.
    eapply sub_list_set; [exact Hl|exact HC|]. eapply IH; eassumption.
Qed.

(* ---- MergeValues is a join: below any common upper bound ---- *)
Definition merge_list : list json -> list json -> option (list json) :=
  fix go (aa ba : list json) {struct ba} : option (list json) :=
    match aa, ba with
    | [], [] => Some []
    | x :: aa', y :: ba' =>
      match merge x y with
      | Some (n, _) => match go aa' ba' with Some r => Some (n :: r) | None => None end
      | None => None
      end
    | _, _ => None
    end.
Definition merge_members : list (bytes * json) -> list (bytes * json) -> option (list (bytes * json)) :=
  fix go (ma : list (bytes * json)) (mb : list (bytes * json)) {struct mb} : option (list (bytes * json)) :=
    match mb with
    | [] => Some ma
    | (k, r) :: mb' =>
      match obj_get k ma with
      | None => go (obj_set k r ma) mb'
      | Some l => match merge l r with
                  | Some (n, _) => go (obj_set k n ma) mb'
                  | None => None
                  end
      end
    end.

Lemma merge_arr_eq : forall aa ba, merge (JArr aa) (JArr ba) =
  match aa, ba with
  | [], _ => Some (JArr ba, true)
  | _, [] => Some (JArr aa, false)
  | _, _ => match merge_list aa ba with Some l => Some (JArr l, false) | None => None end
  end.
Proof. intros aa ba. destruct aa, ba; reflexivity. Qed.
Lemma merge_obj_eq : forall ma mb, merge (JObj ma) (JObj mb) =
  match merge_members ma mb with Some m => Some (JObj m, false) | None => None end.
Proof. intros ma mb. destruct mb as [|[k r] mb']; reflexivity. Qed.

Lemma merge_join : forall b a c a' ch, merge a b = Some (a', ch) -> sub_b a c = true -> sub_b b c = true -> sub_b a' c = true.
Proof.
  intros b; induction b as [|y|y|y|ba H|mb H] using json_ind'; intros a c a' ch Hm Ha Hb.
  - destruct a; simpl in Hm; inversion Hm; subst; exact Ha.
  - destruct a as [|x| | | |]; simpl in Hm; try discriminate.
    destruct (Bool.eqb x y); inversion Hm; subst; assumption.
  - destruct a as [| |x| | |]; simpl in Hm; try discriminate.
    destruct (bytes_eqb x y); inversion Hm; subst; assumption.
  - destruct a as [| | |x| |]; simpl in Hm; try discriminate.
    destruct (bytes_eqb x y); inversion Hm; subst; assumption.
  - destruct a as [| | | |aa|]; try (simpl in Hm; discriminate).
    rewrite merge_arr_eq in Hm.
    destruct aa as [|x0 aa0]; [inversion Hm; subst; exact Hb|].
    destruct ba as [|y0 ba0]; [inversion Hm; subst; exact Ha|].
    destruct (merge_list (x0 :: aa0) (y0 :: ba0)) as [l|] eqn:ML; [|discriminate]. inversion Hm; subst. clear Hm.
    destruct (sub_arr_inv _ _ Ha) as (lc & -> & Hla). destruct (sub_arr_inv _ _ Hb) as (lc' & E & Hlb). inversion E; subst lc'. clear E.
    rewrite sub_arr_eq. clear Ha Hb.
    revert H ML Hla Hlb. generalize (x0 :: aa0) as aa. generalize (y0 :: ba0) as bb. intros bb aa. revert aa l lc.
    induction bb as [|y bb IH]; intros aa l lc HF ML Hla Hlb.
    + destruct aa; simpl in ML; [|discriminate]. inversion ML; subst. exact Hla.
    + destruct aa as [|x aa]; simpl in ML; [discriminate|].
      destruct (merge x y) as [[n chn]|] eqn:Mxy; [|discriminate].
      destruct (merge_list aa bb) as [r|] eqn:Mr; [|discriminate]. inversion ML; subst. clear ML.
      destruct lc as [|z lc]; [discriminate|]. simpl in Hla, Hlb.
      apply andb_prop in Hla as [A1 A2]. apply andb_prop in Hlb as [B1 B2].
      inversion HF; subst. simpl. rewrite (H1 x z n chn Mxy A1 B1). simpl. eapply IH; eassumption.
  - destruct a as [| | | | |ma]; try (simpl in Hm; discriminate).
    rewrite merge_obj_eq in Hm.
    destruct (merge_members ma mb) as [m'|] eqn:MM; [|discriminate]. inversion Hm; subst. clear Hm.
    destruct (sub_obj_inv _ _ Ha) as (mc & -> & Hma). destruct (sub_obj_inv _ _ Hb) as (mc' & E & Hmb). inversion E; subst mc'. clear E.
    rewrite sub_obj_eq. clear Ha Hb.
    revert ma m' MM Hma Hmb. induction H as [|[k r] mb' Hr Hrest IH]; intros ma m' MM Hma Hmb.
    + simpl in MM. inversion MM; subst. exact Hma.
    + simpl in Hmb. apply andb_prop in Hmb as [B1 B2].
      destruct (obj_get k mc) as [C|] eqn:GC; [|discriminate].
      simpl in MM. destruct (obj_get k ma) as [l|] eqn:G.
      * destruct (merge l r) as [[n chn]|] eqn:Mlr; [|discriminate].
        destruct (sub_members_get _ _ _ _ Hma G) as (C' & HC' & HlC). rewrite GC in HC'. inversion HC'; subst C'.
        apply (IH (obj_set k n ma) m' MM); [|exact B2].
        eapply sub_members_obj_set; [exact Hma|exact GC|]. simpl in Hr. eapply Hr; eassumption.
      * apply (IH (obj_set k r ma) m' MM); [|exact B2].
        eapply sub_members_obj_set; eassumption.
Qed.
