From Gv Require Import lib.Bytes lib.Json lib.ExtractAnchor C02.Model C02.Spec C07.Model C07.Spec C07.ModelTaint C07.SpecTaint.
Require Import ExtrOcamlBasic.
Extraction Language OCaml.
Extraction "model.ml" extraction_anchor load finish faulty_exchange affected requests_subset_b agree_b
  affected_null_b expected_data errors_nonempty_b json_eqb marshal root_wf fplan_wf consistent sub_b loud
  load_t partial_exchange taint_isolated_b expected_taint fetches_of tainted_indices is_tainted.
