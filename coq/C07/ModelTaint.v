(* C07: the tainted-objects mechanism of the loader (ResolverOptions.ValidateRequiredExternalFields),
   layered over C07/Model.v (kept in a file of its own so that the loader model shared with C16b is
   untouched: with the option off this loader IS that loader, ProofsTaint.load_t_off).

   Mirrors, branch by branch:
   tainted_objects.go  getTaintedIndices (error path -> index of the failed entity in the RESPONSE,
                       i.e. among the de-duplicated, non-skipped representations of the request),
                       selectObjectAndIndex, taintedObjects.filterOutTainted / isTainted (an item is
                       left out when it, or anything below it, is tainted);
   loader.go           mergeResult: taintedIndices, renderErrorsFailedDeps, and the three places
                       where merged objects are added to Loader.taintedObjs -- in the batchStats
                       branch every merge TARGET of the unique representation [batchIndex], NOT the
                       item at response position [batchIndex];
                       selectItemsForPath: filterOutTainted on every later fetch.

   Go keys taintedObjs by pointer; here an object is its location in the data tree ([rpath]).  The two
   agree as long as aliases of one astjson value (a de-duplicated entity merged by pointer into
   several targets) are tainted together, which holds because aliases render the same representation
   and so share a bucket (tied by the correspondence check).

   FetchInfo.FetchReasons of a fetch (IsRequires && Nullable) is the parameter [coords]:
   fetch id -> list of (type name, field name). *)
From Gv Require Import lib.Bytes lib.Json C02.Model C07.Model.
Open Scope N_scope.

Definition LE_DEPS : N := 7.      (* "Failed to obtain field dependencies from Subgraph ..." *)
Definition k_path : bytes := [112;97;116;104].

(* ---- astjson Value.Get(key) with one key: objects by key; arrays by strconv.Atoi(key) ---- *)
Definition atoi_idx (k : bytes) : option N :=
  let '(neg, ds) := match k with
                    | c :: r => if c =? 45 then (true, r) else if c =? 43 then (false, r) else (false, k)
                    | [] => (false, k)
                    end in
  match ds with
  | [] => None
  | _ => if all_digits ds
         then let n := dec_value ds in if neg && negb (n =? 0) then None else Some n
         else None
  end.
Definition aget (k : bytes) (j : json) : option json :=
  match j with
  | JObj m => obj_get k m
  | JArr a => match atoi_idx k with
              | Some n => if n <? N.of_nat (length a) then nth_error a (N.to_nat n) else None
              | None => None
              end
  | _ => None
  end.

(* strconv.Itoa of a non-negative int *)
Fixpoint uint_bytes (u : Decimal.uint) : bytes :=
  match u with
  | Decimal.Nil => []
  | Decimal.D0 r => 48 :: uint_bytes r | Decimal.D1 r => 49 :: uint_bytes r | Decimal.D2 r => 50 :: uint_bytes r
  | Decimal.D3 r => 51 :: uint_bytes r | Decimal.D4 r => 52 :: uint_bytes r | Decimal.D5 r => 53 :: uint_bytes r
  | Decimal.D6 r => 54 :: uint_bytes r | Decimal.D7 r => 55 :: uint_bytes r | Decimal.D8 r => 56 :: uint_bytes r
  | Decimal.D9 r => 57 :: uint_bytes r
  end.
Definition itoa (n : N) : bytes := match n with 0 => [48] | _ => uint_bytes (N.to_uint n) end.

(* Value.GetInt on a number token (fastfloat.ParseInt64BestEffort): None = a negative int;
   anything that is not a plain int64 reads as 0 *)
Definition int64_lim : N := 9223372036854775808.
Definition get_int (s : bytes) : option N :=
  match s with
  | [] => Some 0
  | c :: ds =>
    if c =? 45 then
      match ds with
      | [] => Some 0
      | _ => if all_digits ds
             then let n := dec_value ds in if (n =? 0) || (int64_lim <? n) then Some 0 else None
             else Some 0
      end
    else if all_digits s then let n := dec_value s in if n <? int64_lim then Some n else Some 0
    else Some 0
  end.

(* selectObjectAndIndex(response, path) for a non-empty path: (object, index); index None = -1.
   The index is the FIRST number element of the path, assigned once. *)
Fixpoint select_obj_idx (resp : json) (path : list json) (index : option N) : option json * option N :=
  match path with
  | [] => (Some resp, index)
  | el :: r =>
    match el with
    | JNum s =>
      match get_int s with
      | None => (None, index)
      | Some p =>
        let index' := match index with None => Some p | Some _ => index end in
        match aget (itoa p) resp with
        | Some v => select_obj_idx v r index'
        | None => (None, None)
        end
      end
    | JStr k => match aget k resp with
                | Some v => select_obj_idx v r index
                | None => (None, None)
                end
    | _ => (None, None)
    end
  end.

Fixpoint after_root (root : bytes) (items : list json) : option (list json) :=
  match items with
  | [] => None
  | JStr s :: r => if bytes_eqb s root then Some r else after_root root r
  | _ :: r => after_root root r
  end.

Definition coord_mem (tn fld : bytes) (coords : list (bytes * bytes)) : bool :=
  existsb (fun c => bytes_eqb (fst c) tn && bytes_eqb (snd c) fld) coords.

(* one entry of the subgraph's errors array -> the tainted index it names, if any *)
Definition taint_index_of_error (coords : list (bytes * bytes)) (root : bytes) (data : json) (e : json) : option N :=
  match aget k_path e with
  | Some (JArr items) =>
    match after_root root items with
    | None => None
    | Some rest =>
      match rest with
      | [] | [_] => None                                   (* needs an index and a field after the root *)
      | _ =>
        let field_name := match last rest JNull with JStr s => s | _ => [] end in
        match select_obj_idx data (removelast rest) None with
        | (Some (JObj m), Some i) =>
          match obj_get field_name m with
          | Some JNull =>
            match obj_get k_typename m with
            | Some (JStr tn) => match tn with
                                | [] => None
                                | _ => if coord_mem tn field_name coords then Some i else None
                                end
            | _ => None
            end
          | _ => None
          end
        | _ => None
        end
      end
    end
  | _ => None
  end.

Fixpoint filter_map {A B} (g : A -> option B) (l : list A) : list B :=
  match l with [] => [] | x :: r => match g x with Some y => y :: filter_map g r | None => filter_map g r end end.

(* getTaintedIndices as mergeResult calls it: only for a parsed response with a non-empty errors array.
   [taint_data]: what the error paths are resolved against -- the selected response data, except that a single entity
   fetch selects data._entities.0 while the paths still start at _entities (loader.go, commit 00d2cc7); before that
   repair it was the selected data for every kind ([fixed = false]: a single EntityFetch never tainted anything). *)
Definition taint_data (fixed : bool) (f : fetch) (resp : json) : option json :=
  match f_kind f with
  | FEntity => if fixed then get_loc [PName k_data; PName k_entities] resp else get_loc (f_datapath f) resp
  | _ => get_loc (f_datapath f) resp
  end.
Definition tainted_indices_gen (fixed vre : bool) (coords : list (bytes * bytes)) (f : fetch) (res : response) : list N :=
  if negb vre || rs_err res then [] else
  match coords with
  | [] => []
  | _ =>
    match rs_body res with
    | BJson resp =>
      if negb (valid_numbers resp) then [] else
      match get_loc [PName k_errors] resp with
      | Some (JArr ((_ :: _) as errs)) =>
        match taint_data fixed f resp with
        | Some data => filter_map (taint_index_of_error coords k_entities data) errs
        | None => []
        end
      | _ => []
      end
    | _ => []
    end
  end.
Definition tainted_indices := tainted_indices_gen true.
Definition tainted_indices_v0 := tainted_indices_gen false.      (* HISTORICAL: before 00d2cc7 *)

Definition mem_idx (i : N) (l : list N) : bool := existsb (N.eqb i) l.

(* the merge targets of the buckets named by the tainted indices *)
Fixpoint bucket_taints (ti : list N) (bs : list (list rpath)) (i : N) : list rpath :=
  match bs with
  | [] => []
  | targets :: r => (if mem_idx i ti then targets else []) ++ bucket_taints ti r (i + 1)
  end.
(* items[i] is what MergeValuesWithPath returned: the object in the tree unless it was replaced *)
Definition kept_target (f : fetch) (data : json) (l : rpath) (src : json) : list rpath :=
  match get_loc l data with
  | Some a => match merge_with_path a src (f_mergepath f) with
              | Some (_, false) => [l]
              | _ => []
              end
  | None => []
  end.
Fixpoint pairwise_taints (ti : list N) (f : fetch) (data : json) (items : list rpath) (b : list json) (i : N) : list rpath :=
  match items, b with
  | l :: r, src :: b' => (if mem_idx i ti then kept_target f data l src else []) ++ pairwise_taints ti f data r b' (i + 1)
  | _, _ => []
  end.

(* the objects mergeResult adds to taintedObjs: same branch structure as [merge_result] after the
   errors have been merged ([s]: the state the merge starts from) *)
Definition new_taints (ti : list N) (f : fetch) (res : response) (items : list rpath) (batch : option (list (list rpath)))
           (s : lstate) : list rpath :=
  match ti with
  | [] => []
  | _ =>
  if rs_err res then [] else
  match rs_body res with
  | BJson resp =>
    if negb (valid_numbers resp) then [] else
    let rdata := get_loc (f_datapath f) resp in
    let entities := get_loc [PName k_data; PName k_entities] resp in
    if match f_kind f, entities with
       | FEntity, Some (JArr l) => negb (Nat.eqb (length l) 1)
       | _, _ => false
       end
    then []
    else if is_nullish rdata then []
    else
      match rdata with
      | None => []
      | Some rd =>
        match items, batch with
        | [], _ => []
        | [l], None =>
          if wrong_kind_single f rd then [] else
          if mem_idx 0 ti then kept_target f (ls_data s) l rd else []
        | _, _ =>
          match rd with
          | JArr [] => []
          | JArr b =>
            if wrong_kind_batch f b then [] else
            match batch with
            | Some bs => if Nat.eqb (length bs) (length b) then bucket_taints ti bs 0 else []
            | None => if Nat.eqb (length items) (length b) then pairwise_taints ti f (ls_data s) items b 0 else []
            end
          | _ => []
          end
        end
      end
  | _ => []
  end
  end.

(* taintedObjects.isTainted(item): the item or anything below it is tainted *)
Fixpoint rpath_prefix (a b : rpath) : bool :=
  match a, b with
  | [], _ => true
  | PName x :: a', PName y :: b' => bytes_eqb x y && rpath_prefix a' b'
  | PIdx x :: a', PIdx y :: b' => (x =? y) && rpath_prefix a' b'
  | _, _ => false
  end.
Definition is_tainted (T : list rpath) (l : rpath) : bool := existsb (rpath_prefix l) T.
Definition filter_tainted (T : list rpath) (items : list rpath) : list rpath :=
  filter (fun l => negb (is_tainted T l)) items.

Definition tstate := (lstate * list rpath)%type.

(* mergeResult with the taint bookkeeping *)
Definition tindices := list (bytes * bytes) -> fetch -> response -> list N.   (* [tainted_indices vre], or the historical one *)
Definition merge_result_t (tind : tindices) (coords : list (bytes * bytes)) (f : fetch) (res : response) (items : list rpath)
           (batch : option (list (list rpath))) (st : tstate) : tstate :=
  let '(s, T) := st in
  let ti := tind coords f res in
  let s1 := match ti with [] => s | _ => add_error s LE_DEPS f end in     (* renderErrorsFailedDeps *)
  let s2 := merge_result f res items batch s1 in
  (s2, if ls_hard s2 then T else T ++ new_taints ti f res items batch s1).

Section LoaderT.
  Variable St : Type.
  Variable exchange : St -> request -> response * St.
  Variable tind : tindices.                              (* [tainted_indices vre]: vre = ValidateRequiredExternalFields *)
  Variable coords : N -> list (bytes * bytes).           (* fetch id -> (type, field) fetched for a nullable @requires *)

  Definition run_fetch_t (f : fetch) (sx : tstate * St) : tstate * St :=
    let '((s, T), x) := sx in
    if should_skip f s then ((add_errored s (f_id f), T), x) else
    let items := filter_tainted T (select_items (ls_data s) (f_path f)) in     (* selectItemsForPath *)
    match prepare f (ls_data s) items with
    | PSkip d => ((set_data s d, T), x)
    | PLoad d rq batch =>
      let s := add_request (set_data s d) rq in
      let '(res, x') := exchange x rq in
      let s := if rs_err res then add_errored s (f_id f) else s in
      (merge_result_t tind (coords (f_id f)) f res items batch (s, T), x')
    end.

  Fixpoint run_tree_t (t : ftree) (sx : tstate * St) : tstate * St :=
    match t with
    | FTSingle f => run_fetch_t f sx
    | FTSeq l =>
      (fix go (l : list ftree) (sx : tstate * St) : tstate * St :=
         match l with
         | [] => sx
         | t :: r => let sx' := run_tree_t t sx in if ls_hard (fst (fst sx')) then sx' else go r sx'
         end) l sx
    | FTPar l =>
      (fix go (l : list ftree) (sx : tstate * St) : tstate * St :=
         match l with
         | [] => sx
         | t :: r => go r (run_tree_t t sx)
         end) l sx
    end.

  Definition load_t (t : ftree) (x : St) : tstate * St := run_tree_t t ((init_state, []), x).
End LoaderT.

(* ---- "errors with partial data": the subgraph answers, but some entities come back with a field
   set to null and an entry in `errors` (whose path may or may not name the entity properly) ---- *)
Record pfault := { pf_nulls : list (N * bytes);   (* (position in _entities, field) set to null *)
                   pf_errors : list json }.       (* appended to the response's errors *)

Definition null_field (fld : bytes) (e : json) : json :=
  match e with
  | JObj m => match obj_get fld m with Some _ => JObj (obj_set fld JNull m) | None => e end
  | _ => e
  end.
Fixpoint null_fields (nulls : list (N * bytes)) (i : N) (l : list json) : list json :=
  match l with
  | [] => []
  | e :: r => fold_left (fun e nf => if fst nf =? i then null_field (snd nf) e else e) nulls e :: null_fields nulls (i + 1) r
  end.
Definition add_errors (errs : list json) (j : json) : json :=
  match errs with
  | [] => j
  | _ =>
    match j with
    | JObj m => match obj_get k_errors m with
                | Some (JArr old) => JObj (obj_set k_errors (JArr (old ++ errs)) m)
                | _ => JObj (m ++ [(k_errors, JArr errs)])
                end
    | _ => j
    end
  end.
Definition apply_partial (p : pfault) (r : response) : response :=
  on_body (fun j => add_errors (pf_errors p) (map_entities (null_fields (pf_nulls p) 0) j)) r.

Section SubgraphsP.
  Variable answer : N -> bytes -> json * list json.
  Variable root_answer : N -> json * list json.
  Variable kind_of : N -> fkind.
  Variable faults : N -> option fault.
  Variable partials : N -> option pfault.

  Definition partial_exchange (x : unit) (rq : request) : response * unit :=
    let '(r, x') := faulty_exchange answer root_answer kind_of faults x rq in
    (match partials (rq_fetch rq) with Some p => apply_partial p r | None => r end, x').
End SubgraphsP.
