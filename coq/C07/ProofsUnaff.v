(* C07: unaffected_equal as a lower bound.  Knocking out the whole affected set (the faulted fetches
   and everything that transitively depends on them) loses nothing that the faulty run keeps: the
   data of the knocked-out run is contained in the data of the faulty run (which is contained in
   the fault-free data, by monotone).  Three runs in lockstep: knocked-out, faulty, fault-free. *)
From Gv Require Import lib.Bytes lib.Json C02.Model C02.Spec C07.Model C07.Spec C07.ProofsBase C07.ProofsErrors
     C07.ProofsSub C07.ProofsRep C07.ProofsSelect C07.ProofsMono C07.ProofsWf.
From Coq Require Import Lia PeanoNat.
Open Scope N_scope.

(* ---- updates that grow a value grow the tree ---- *)
Lemma sub_list_upd : forall a n x, forallb json_wf a = true ->
  (forall c, nth_error a n = Some c -> sub_b c x = true) -> sub_list a (list_set n x a) = true.
Proof.
  induction a as [|y a IH]; intros n x Hw Hc; [destruct n; reflexivity|].
  simpl in Hw. apply andb_prop in Hw as [W1 W2]. destruct n as [|n]; simpl.
  - rewrite (Hc y eq_refl). simpl. clear -W2. induction a as [|z a IH]; simpl; [reflexivity|].
    simpl in W2. apply andb_prop in W2 as [Z1 Z2]. rewrite (sub_refl z Z1). apply IH. exact Z2.
  - rewrite (sub_refl y W1). simpl. apply IH; [exact W2|]. intros c Hn. apply Hc. exact Hn.
Qed.

Lemma sub_set_loc_infl : forall l d v v', json_wf d = true -> get_loc l d = Some v -> sub_b v v' = true ->
  sub_b d (set_loc l v' d) = true.
Proof.
  induction l as [|[k|i] r IH]; intros d v v' Hw Hg Hs; simpl in *.
  - inversion Hg; subst. exact Hs.
  - destruct d as [| | | | |m]; try discriminate. destruct (obj_get k m) as [c|] eqn:G; [|discriminate].
    rewrite sub_obj_eq. apply sub_members_upd.
    + rewrite <- sub_obj_eq. apply sub_refl. exact Hw.
    + intros l' E. rewrite G in E. inversion E; subst l'. eapply IH; [|exact Hg|exact Hs].
      rewrite json_wf_obj in Hw. apply andb_prop in Hw as [_ Hv]. exact (obj_get_wf k m c Hv G).
  - destruct d as [| | | |a|]; try discriminate. destruct (nth_error a (N.to_nat i)) as [c|] eqn:G; [|discriminate].
    rewrite sub_arr_eq. rewrite json_wf_arr in Hw. apply sub_list_upd; [exact Hw|].
    intros c' E. rewrite G in E. inversion E; subst c'. eapply IH; [|exact Hg|exact Hs].
    rewrite forallb_forall in Hw. apply Hw. eapply nth_error_In. exact G.
Qed.

Lemma nth_list_set_same : forall {A} (a : list A) n x c, nth_error a n = Some c -> nth_error (list_set n x a) n = Some x.
Proof.
  induction a as [|y a IH]; intros n x c H; [destruct n; discriminate|].
  destruct n; simpl in *; [reflexivity|]. eapply IH. exact H.
Qed.

Lemma get_set_loc_same : forall l d v v', get_loc l d = Some v -> get_loc l (set_loc l v' d) = Some v'.
Proof.
  induction l as [|[k|i] r IH]; intros d v v' Hg; simpl in *; [reflexivity| |].
  - destruct d as [| | | | |m]; try discriminate. destruct (obj_get k m) as [c|] eqn:G; [|discriminate].
    simpl. rewrite (obj_get_set_eq k k _ m (bytes_eqb_refl k)). eapply IH. exact Hg.
  - destruct d as [| | | |a|]; try discriminate. destruct (nth_error a (N.to_nat i)) as [c|] eqn:G; [|discriminate].
    simpl. rewrite (nth_list_set_same a (N.to_nat i) _ c G). eapply IH. exact Hg.
Qed.

Lemma merge_obj_false : forall ma b a' ch, merge (JObj ma) b = Some (a', ch) -> ch = false.
Proof.
  intros ma b a' ch H. destruct b; simpl in H; try discriminate.
  - inversion H. reflexivity.
  - rewrite <- (merge_obj_eq ma members) in H || idtac.
    change (merge (JObj ma) (JObj members) = Some (a', ch)) in H. rewrite merge_obj_eq in H.
    destruct (merge_members ma members); inversion H. reflexivity.
Qed.

(* ---- one merge: stays below the bound, grows, keeps wf, and (if it did not fail) contains the source ---- *)
Definition contained (d : json) (t : rpath * json) : Prop := exists w, get_loc (fst t) d = Some w /\ sub_b (snd t) w = true.

Lemma contained_mono : forall d d' t, sub_b d d' = true -> contained d t -> contained d' t.
Proof.
  intros d d' [l src] Hs (w & Hw & Hsw). destruct (sub_get_loc _ _ _ _ Hs Hw) as (w' & Hw' & Hww').
  exists w'. split; [exact Hw'|]. eapply sub_trans; eassumption.
Qed.

Lemma merge_target_facts : forall f s l src D w, f_mergepath f = [] ->
  sub_b (ls_data s) D = true -> get_loc l D = Some w -> sub_b src w = true ->
  json_wf (ls_data s) = true -> json_wf src = true ->
  let s' := merge_target f s l src in
  sub_b (ls_data s') D = true /\ sub_b (ls_data s) (ls_data s') = true /\ json_wf (ls_data s') = true /\
  (ls_hard s' = false -> ls_hard s = false /\
     ((exists m, get_loc l (ls_data s) = Some (JObj m)) -> contained (ls_data s') (l, src))).
Proof.
  intros f s l src D w Hmp Hs Hg Hsrc Wd Wsrc. cbv zeta.
  pose proof (merge_target_sub f s l src D w Hmp Hs Hg Hsrc) as Hsub.
  split; [exact Hsub|]. unfold merge_target in *.
  destruct (ls_hard s) eqn:Hh.
  { split; [apply sub_refl; exact Wd|]. split; [exact Wd|]. intros E. rewrite Hh in E. discriminate. }
  destruct (get_loc l (ls_data s)) as [a|] eqn:Ga.
  2:{ split; [apply sub_refl; exact Wd|]. split; [exact Wd|]. intros _. split; [exact Hh|]. intros (m & E). discriminate. }
  rewrite Hmp in *. unfold merge_with_path in *. cbn [wrap_path] in *.
  destruct (sub_get_loc _ _ _ _ Hs Ga) as (w' & Hw' & Haw). rewrite Hg in Hw'. inversion Hw'; subst w'.
  assert (Wa : json_wf a = true) by (eapply get_loc_wf; eassumption).
  destruct (merge a src) as [[a' ch]|] eqn:M.
  2:{ split; [apply sub_refl; exact Wd|]. split; [exact Wd|]. intros E. discriminate. }
  destruct (merge_upper _ _ _ _ _ M Haw Hsrc Wa Wsrc) as [Ua Ub].
  destruct ch.
  - split; [apply sub_refl; exact Wd|]. split; [exact Wd|]. intros _. split; [exact Hh|].
    intros (m & E). inversion E; subst a. apply merge_obj_false in M. discriminate.
  - cbn [ls_data set_data ls_hard]. split; [eapply sub_set_loc_infl; eassumption|].
    split; [apply set_loc_wf; [exact Wd|eapply merge_wf; eassumption]|].
    intros _. split; [exact Hh|]. intros _. exists a'. split; [eapply get_set_loc_same; exact Ga|exact Ub].
Qed.
