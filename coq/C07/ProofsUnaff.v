(* C07: unaffected_equal as a lower bound.  Knocking out the whole affected set (the faulted fetches
   and everything that transitively depends on them) loses nothing that the faulty run keeps: the
   data of the knocked-out run is contained in the data of the faulty run (which is contained in
   the fault-free data, by monotone).  Three runs in lockstep: knocked-out, faulty, fault-free. *)
From Gv Require Import lib.Bytes lib.Json C02.Model C02.Spec C07.Model C07.Spec C07.ProofsBase C07.ProofsErrors
     C07.ProofsSub C07.ProofsRep C07.ProofsSelect C07.ProofsMono C07.ProofsWf.
From Coq Require Import Lia PeanoNat.
Open Scope N_scope.

(* ---- updates that grow a value grow the tree ---- *)
Lemma sub_list_upd : forall a n x, forallb json_wf a = true ->
  (forall c, nth_error a n = Some c -> sub_b c x = true) -> sub_list a (list_set n x a) = true.
Proof.
  induction a as [|y a IH]; intros n x Hw Hc; [destruct n; reflexivity|].
  simpl in Hw. apply andb_prop in Hw as [W1 W2]. destruct n as [|n]; simpl.
  - rewrite (Hc y eq_refl). simpl. clear -W2. induction a as [|z a IH]; simpl; [reflexivity|].
    simpl in W2. apply andb_prop in W2 as [Z1 Z2]. rewrite (sub_refl z Z1). apply IH. exact Z2.
  - rewrite (sub_refl y W1). simpl. apply IH; [exact W2|]. intros c Hn. apply Hc. exact Hn.
Qed.

Lemma sub_set_loc_infl : forall l d v v', json_wf d = true -> get_loc l d = Some v -> sub_b v v' = true ->
  sub_b d (set_loc l v' d) = true.
Proof.
  induction l as [|[k|i] r IH]; intros d v v' Hw Hg Hs; simpl in *.
  - inversion Hg; subst. exact Hs.
  - destruct d as [| | | | |m]; try discriminate. destruct (obj_get k m) as [c|] eqn:G; [|discriminate].
    rewrite sub_obj_eq. apply sub_members_upd.
    + rewrite <- sub_obj_eq. apply sub_refl. exact Hw.
    + intros l' E. rewrite G in E. inversion E; subst l'. eapply IH; [|exact Hg|exact Hs].
      rewrite json_wf_obj in Hw. apply andb_prop in Hw as [_ Hv]. exact (obj_get_wf k m c Hv G).
  - destruct d as [| | | |a|]; try discriminate. destruct (nth_error a (N.to_nat i)) as [c|] eqn:G; [|discriminate].
    rewrite sub_arr_eq. rewrite json_wf_arr in Hw. apply sub_list_upd; [exact Hw|].
    intros c' E. rewrite G in E. inversion E; subst c'. eapply IH; [|exact Hg|exact Hs].
    rewrite forallb_forall in Hw. apply Hw. eapply nth_error_In. exact G.
Qed.

Lemma nth_list_set_same : forall {A} (a : list A) n x c, nth_error a n = Some c -> nth_error (list_set n x a) n = Some x.
Proof.
  induction a as [|y a IH]; intros n x c H; [destruct n; discriminate|].
  destruct n; simpl in *; [reflexivity|]. eapply IH. exact H.
Qed.

Lemma get_set_loc_same : forall l d v v', get_loc l d = Some v -> get_loc l (set_loc l v' d) = Some v'.
Proof.
  induction l as [|[k|i] r IH]; intros d v v' Hg; simpl in *; [reflexivity| |].
  - destruct d as [| | | | |m]; try discriminate. destruct (obj_get k m) as [c|] eqn:G; [|discriminate].
    simpl. rewrite (obj_get_set_eq k k _ m (bytes_eqb_refl k)). eapply IH. exact Hg.
  - destruct d as [| | | |a|]; try discriminate. destruct (nth_error a (N.to_nat i)) as [c|] eqn:G; [|discriminate].
    simpl. rewrite (nth_list_set_same a (N.to_nat i) _ c G). eapply IH. exact Hg.
Qed.

Lemma merge_obj_false : forall ma b a' ch, merge (JObj ma) b = Some (a', ch) -> ch = false.
Proof.
  intros ma b a' ch H. destruct b; simpl in H; try discriminate.
  - inversion H. reflexivity.
  - rewrite <- (merge_obj_eq ma members) in H || idtac.
    change (merge (JObj ma) (JObj members) = Some (a', ch)) in H. rewrite merge_obj_eq in H.
    destruct (merge_members ma members); inversion H. reflexivity.
Qed.

(* ---- one merge: stays below the bound, grows, keeps wf, and (if it did not fail) contains the source ---- *)
Definition contained (d : json) (t : rpath * json) : Prop := exists w, get_loc (fst t) d = Some w /\ sub_b (snd t) w = true.

Lemma contained_mono : forall d d' t, sub_b d d' = true -> contained d t -> contained d' t.
Proof.
  intros d d' [l src] Hs (w & Hw & Hsw). destruct (sub_get_loc _ _ _ _ Hs Hw) as (w' & Hw' & Hww').
  exists w'. split; [exact Hw'|]. eapply sub_trans; eassumption.
Qed.

Lemma merge_target_facts : forall f s l src D w, f_mergepath f = [] ->
  sub_b (ls_data s) D = true -> get_loc l D = Some w -> sub_b src w = true ->
  json_wf (ls_data s) = true -> json_wf src = true ->
  let s' := merge_target f s l src in
  sub_b (ls_data s') D = true /\ sub_b (ls_data s) (ls_data s') = true /\ json_wf (ls_data s') = true /\
  (ls_hard s' = false -> ls_hard s = false /\
     ((exists m, get_loc l (ls_data s) = Some (JObj m)) -> contained (ls_data s') (l, src))).
Proof.
  intros f s l src D w Hmp Hs Hg Hsrc Wd Wsrc. cbv zeta.
  pose proof (merge_target_sub f s l src D w Hmp Hs Hg Hsrc) as Hsub.
  split; [exact Hsub|]. unfold merge_target in *.
  destruct (ls_hard s) eqn:Hh.
  { split; [apply sub_refl; exact Wd|]. split; [exact Wd|]. intros E. rewrite Hh in E. discriminate. }
  destruct (get_loc l (ls_data s)) as [a|] eqn:Ga.
  2:{ split; [apply sub_refl; exact Wd|]. split; [exact Wd|]. intros _. split; [reflexivity|]. intros (m & E). discriminate. }
  rewrite Hmp in *. unfold merge_with_path in *. cbn [wrap_path] in *.
  destruct (sub_get_loc _ _ _ _ Hs Ga) as (w' & Hw' & Haw). rewrite Hg in Hw'. inversion Hw'; subst w'.
  assert (Wa : json_wf a = true) by exact (get_loc_wf l (ls_data s) a Wd Ga).
  destruct (merge a src) as [[a' ch]|] eqn:M.
  2:{ split; [apply sub_refl; exact Wd|]. split; [exact Wd|]. intros E. discriminate. }
  destruct (merge_upper _ _ _ _ _ M Haw Hsrc Wa Wsrc) as [Ua Ub].
  destruct ch.
  - split; [apply sub_refl; exact Wd|]. split; [exact Wd|]. intros _. split; [reflexivity|].
    intros (m & E). inversion E; subst a. apply merge_obj_false in M. discriminate.
  - cbn [ls_data set_data ls_hard]. split; [eapply sub_set_loc_infl; eassumption|].
    split; [apply set_loc_wf; [exact Wd|exact (merge_wf src a a' false M Wa Wsrc)]|].
    intros _. split; [reflexivity|]. intros _. exists a'. split; [eapply get_set_loc_same; exact Ga|exact Ub].
Qed.

Lemma obj_persist : forall l d d' m, sub_b d d' = true -> get_loc l d = Some (JObj m) -> exists m', get_loc l d' = Some (JObj m').
Proof.
  intros l d d' m Hs Hg. destruct (sub_get_loc _ _ _ _ Hs Hg) as (w & Hw & Hmw).
  destruct (sub_obj_inv _ _ Hmw) as (m' & -> & _). exists m'. exact Hw.
Qed.

Definition is_obj_at (d : json) (l : rpath) : Prop := exists m, get_loc l d = Some (JObj m).

Lemma fold_target_facts : forall f src targets s D, f_mergepath f = [] ->
  sub_b (ls_data s) D = true -> json_wf (ls_data s) = true -> json_wf src = true ->
  (forall l, In l targets -> exists w, get_loc l D = Some w /\ sub_b src w = true) ->
  let s' := fold_left (fun s l => merge_target f s l src) targets s in
  sub_b (ls_data s') D = true /\ sub_b (ls_data s) (ls_data s') = true /\ json_wf (ls_data s') = true /\
  (ls_hard s' = false -> ls_hard s = false /\ forall l, In l targets -> is_obj_at (ls_data s) l -> contained (ls_data s') (l, src)).
Proof.
  intros f src targets. induction targets as [|l r IH]; intros s D Hmp Hs Wd Wsrc Ht; cbv zeta; simpl.
  - split; [exact Hs|]. split; [apply sub_refl; exact Wd|]. split; [exact Wd|]. intros Hh. split; [exact Hh|intros l []].
  - destruct (Ht l (or_introl eq_refl)) as (w & Hw & Hsw).
    destruct (merge_target_facts f s l src D w Hmp Hs Hw Hsw Wd Wsrc) as (A1 & A2 & A3 & A4).
    destruct (IH (merge_target f s l src) D Hmp A1 A3 Wsrc (fun l' H => Ht l' (or_intror H))) as (B1 & B2 & B3 & B4).
    split; [exact B1|]. split; [eapply sub_trans; eassumption|]. split; [exact B3|].
    intros Hh. destruct (B4 Hh) as [Hh1 Hc1]. destruct (A4 Hh1) as [Hh0 Hc0]. split; [exact Hh0|].
    intros l' [<-|Hin] Hobj.
    + eapply contained_mono; [exact B2|]. apply Hc0. exact Hobj.
    + apply Hc1; [exact Hin|]. destruct Hobj as (m & Hm). eapply obj_persist; eassumption.
Qed.

Lemma buckets_facts : forall f bs ents s D, f_mergepath f = [] ->
  sub_b (ls_data s) D = true -> json_wf (ls_data s) = true -> forallb json_wf ents = true ->
  (forall locs src, In (locs, src) (combine bs ents) -> forall l, In l locs -> exists w, get_loc l D = Some w /\ sub_b src w = true) ->
  let s' := merge_buckets f s bs ents in
  sub_b (ls_data s') D = true /\ sub_b (ls_data s) (ls_data s') = true /\ json_wf (ls_data s') = true /\
  (ls_hard s' = false -> ls_hard s = false /\
     forall locs src, In (locs, src) (combine bs ents) -> forall l, In l locs -> is_obj_at (ls_data s) l -> contained (ls_data s') (l, src)).
Proof.
  intros f bs. induction bs as [|b bs IH]; intros ents s D Hmp Hs Wd We Ht; cbv zeta; simpl.
  - split; [exact Hs|]. split; [apply sub_refl; exact Wd|]. split; [exact Wd|]. intros Hh. split; [exact Hh|intros ? ? []].
  - destruct ents as [|src ents].
    { split; [exact Hs|]. split; [apply sub_refl; exact Wd|]. split; [exact Wd|]. intros Hh. split; [exact Hh|intros ? ? []]. }
    simpl in We. apply andb_prop in We as [W1 W2].
    destruct (fold_target_facts f src b s D Hmp Hs Wd W1 (fun l H => Ht b src (or_introl eq_refl) l H)) as (A1 & A2 & A3 & A4).
    destruct (IH ents _ D Hmp A1 A3 W2 (fun locs src' H => Ht locs src' (or_intror H))) as (B1 & B2 & B3 & B4).
    split; [exact B1|]. split; [eapply sub_trans; eassumption|]. split; [exact B3|].
    intros Hh. destruct (B4 Hh) as [Hh1 Hc1]. destruct (A4 Hh1) as [Hh0 Hc0]. split; [exact Hh0|].
    intros locs src' [E|Hin] l Hl Hobj.
    + inversion E; subst. eapply contained_mono; [exact B2|]. apply Hc0; assumption.
    + eapply Hc1; [exact Hin|exact Hl|]. destruct Hobj as (m & Hm). eapply obj_persist; eassumption.
Qed.

(* ---- the shape of mergeResult on a response that parses, has RFC numbers and the right entity count ---- *)
Definition count_bad (f : fetch) (resp : json) : bool :=
  match f_kind f, get_loc [PName k_data; PName k_entities] resp with
  | FEntity, Some (JArr l) => negb (Nat.eqb (length l) 1)
  | _, _ => false
  end.

(* an entity answered with null: "not found", silently nothing *)
Lemma merge_result_null_entity : forall f res items batch s resp ents,
  rs_err res = false -> rs_body res = BJson resp -> valid_numbers resp = true -> count_bad f resp = false ->
  is_nullish (get_loc (f_datapath f) resp) = true -> f_kind f <> FSingle ->
  get_loc [PName k_data; PName k_entities] resp = Some (JArr ents) ->
  exists s1, ls_data s1 = ls_data s /\ ls_hard s1 = ls_hard s /\ ls_errored s1 = ls_errored s /\ merge_result f res items batch s = s1.
Proof.
  intros f res items batch s resp ents He Hb Hv Hcb Hn Hk Hent. unfold merge_result. unfold count_bad in Hcb.
  rewrite He, Hb, Hv, Hent in *. cbn [negb]. rewrite Hcb, Hn.
  assert (Hek : is_entity_kind (f_kind f) = true) by (destruct (f_kind f); [congruence|reflexivity|reflexivity]).
  rewrite Hek. cbn [andb].
  eexists. split; [|split; [|split; [|reflexivity]]];
    destruct (match get_loc [PName k_errors] resp with Some (JArr (_ :: _)) => true | _ => false end); reflexivity.
Qed.

Lemma merge_result_one : forall f res l s resp rd,
  rs_err res = false -> rs_body res = BJson resp -> valid_numbers resp = true -> count_bad f resp = false ->
  get_loc (f_datapath f) resp = Some rd -> is_nullish (Some rd) = false -> wrong_kind_single f rd = false ->
  exists s1, ls_data s1 = ls_data s /\ ls_hard s1 = ls_hard s /\ ls_errored s1 = ls_errored s /\ merge_result f res [l] None s = merge_target f s1 l rd.
Proof.
  intros f res l s resp rd He Hb Hv Hcb Hg Hn Hwk. unfold merge_result. unfold count_bad in Hcb. rewrite He, Hb, Hv. cbn [negb]. rewrite Hcb, Hg, Hn, Hwk.
  eexists. split; [|split; [|split; [|reflexivity]]];
    destruct (match get_loc [PName k_errors] resp with Some (JArr (_ :: _)) => true | _ => false end); reflexivity.
Qed.

Lemma merge_result_many : forall f res items bs s resp e es,
  rs_err res = false -> rs_body res = BJson resp -> valid_numbers resp = true -> count_bad f resp = false ->
  get_loc (f_datapath f) resp = Some (JArr (e :: es)) ->
  items <> [] -> length bs = length (e :: es) -> wrong_kind_batch f (e :: es) = false ->
  exists s1, ls_data s1 = ls_data s /\ ls_hard s1 = ls_hard s /\ ls_errored s1 = ls_errored s /\ merge_result f res items (Some bs) s = merge_buckets f s1 bs (e :: es).
Proof.
  intros f res items bs s resp e es He Hb Hv Hcb Hg Hne Hlen Hwk. unfold merge_result. unfold count_bad in Hcb. rewrite He, Hb, Hv. cbn [negb]. rewrite Hcb, Hg. cbn [is_nullish].
  destruct items as [|l [|l2 r]]; [congruence| |]; rewrite Hwk, Hlen, Nat.eqb_refl;
    (eexists; split; [|split; [|split; [|reflexivity]]];
     destruct (match get_loc [PName k_errors] resp with Some (JArr (_ :: _)) => true | _ => false end); reflexivity).
Qed.

Lemma merge_target_errored' : forall f s l src, ls_errored (merge_target f s l src) = ls_errored s.
Proof. exact merge_target_errored. Qed.

(* the clean responses have RFC numbers when the answers do *)
Definition answers_valid (answer : N -> bytes -> json * list json) (root_answer : N -> json * list json) : Prop :=
  (forall id rep, valid_numbers (fst (answer id rep)) = true /\ forallb valid_numbers (snd (answer id rep)) = true) /\
  (forall id, valid_numbers (fst (root_answer id)) = true /\ forallb valid_numbers (snd (root_answer id)) = true).

Lemma valid_numbers_arr : forall l, valid_numbers (JArr l) = forallb valid_numbers l.
Proof. induction l as [|x l IH]; simpl; [reflexivity|]. f_equal; try exact IH. Qed.

Lemma clean_valid : forall answer root_answer rq single resp, answers_valid answer root_answer ->
  rs_body (clean_response answer root_answer rq single) = BJson resp -> valid_numbers resp = true.
Proof.
  intros answer root_answer rq single resp [Ha Hr] Hb. unfold clean_response in Hb. destruct single.
  - destruct (root_answer (rq_fetch rq)) as [d errs] eqn:RA. inversion Hb; subst resp. clear Hb.
    destruct (Hr (rq_fetch rq)) as [H1 H2]. rewrite RA in H1, H2. cbn [fst snd] in H1, H2.
    unfold errors_member. destruct errs as [|e0 er]; cbn.
    + rewrite H1. reflexivity.
    + rewrite H1. change (valid_numbers (JArr (e0 :: er)) && true = true). rewrite valid_numbers_arr, H2. reflexivity.
  - inversion Hb; subst resp. clear Hb.
    assert (H1 : forallb valid_numbers (map fst (map (answer (rq_fetch rq)) (rq_reps rq))) = true).
    { rewrite forallb_forall. intros x Hx. apply in_map_iff in Hx as (p & <- & Hp). apply in_map_iff in Hp as (rep & <- & _). apply Ha. }
    assert (H2 : forallb valid_numbers (flat_map snd (map (answer (rq_fetch rq)) (rq_reps rq))) = true).
    { rewrite forallb_forall. intros x Hx. apply in_flat_map in Hx as (p & Hp & Hx). apply in_map_iff in Hp as (rep & <- & _).
      destruct (Ha (rq_fetch rq) rep) as [_ H]. rewrite forallb_forall in H. apply H. exact Hx. }
    unfold errors_member. destruct (flat_map snd (map (answer (rq_fetch rq)) (rq_reps rq))) as [|e0 er]; cbn.
    + change (valid_numbers (JArr (map fst (map (answer (rq_fetch rq)) (rq_reps rq)))) && true && true = true).
      rewrite valid_numbers_arr, H1. reflexivity.
    + change (valid_numbers (JArr (map fst (map (answer (rq_fetch rq)) (rq_reps rq)))) && true && (valid_numbers (JArr (e0 :: er)) && true) = true).
      rewrite !valid_numbers_arr, H1, H2. reflexivity.
Qed.

(* ---- the shape of a load (analysis of prepare on the run's own data) ---- *)
Lemma flat_render_some_obj : forall fields v b, flat_render fields v = Some b -> bytes_eqb b b_null = false -> exists m, v = JObj m.
Proof.
  intros fields v b H N. destruct v; simpl in H; try discriminate.
  - inversion H; subst. rewrite bytes_eqb_refl in N. discriminate.
  - eexists. reflexivity.
Qed.

Lemma shape_of_load : forall kind_of f dataF dF rqF batchF, fetch_ok kind_of f = true ->
  prepare f dataF (select_items dataF (f_path f)) = PLoad dF rqF batchF ->
  load_shape f dataF (select_items dataF (f_path f)) rqF batchF.
Proof.
  intros kind_of f dataF dF rqF batchF Hok HP.
  destruct (fetch_ok_inv kind_of f Hok) as (Hk & Hd & Hnt & Hmp & Hkind).
  unfold load_shape. destruct (f_kind f) eqn:K.
  - rewrite Hkind in *. change (select_items dataF []) with [@nil pelem] in *.
    unfold prepare in HP. rewrite K in HP. cbn [get_loc] in HP.
    split; [reflexivity|]. destruct dataF; inversion HP; split; reflexivity.
  - destruct (rep_wf_inv _ Hkind) as (ty & inacc & fields & Hrep & Hf).
    set (itemsF := select_items dataF (f_path f)) in *.
    unfold prepare in HP. rewrite K, Hrep in HP. rewrite (render_rep_flat ty inacc fields _ Hf) in HP.
    destruct (flat_render fields (items_data dataF itemsF)) as [b|] eqn:FR; [|discriminate].
    destruct (bytes_eqb b b_null || bytes_eqb b b_empty_obj) eqn:Sk; [discriminate|].
    apply Bool.orb_false_elim in Sk as [N1 N2]. inversion HP; subst rqF batchF. clear HP.
    destruct itemsF as [|l [|l2 r]] eqn:EI.
    + simpl in FR. inversion FR; subst b. rewrite bytes_eqb_refl in N1. discriminate.
    + unfold items_data in FR. destruct (get_loc l dataF) as [vF|] eqn:G.
      * destruct (flat_render_some_obj _ _ _ FR N1) as (m & ->). exists l, b, m. repeat split; assumption.
      * simpl in FR. inversion FR; subst b. rewrite bytes_eqb_refl in N1. discriminate.
    + simpl in FR. discriminate.
  - destruct (rep_wf_inv _ Hkind) as (ty & inacc & fields & Hrep & Hf).
    set (itemsF := select_items dataF (f_path f)) in *.
    destruct (batch_prepare_flat ty inacc fields itemsF dataF [] Hf) as (bsF & HbF & HspecF).
    unfold prepare in HP. rewrite K, Hrep, HbF in HP. rewrite Hrep, HbF. cbn [snd].
    exists bsF. split; [reflexivity|]. destruct bsF as [|bk0 bsF'] eqn:EB; [discriminate|]. rewrite <- EB in *.
    split; [rewrite EB; discriminate|]. inversion HP; subst rqF batchF. split; [reflexivity|]. split; [reflexivity|].
    intros b l Hin. apply HspecF in Hin as [(locs & [] & _)|[Hl (vF & GF & FRv & N1 & N2)]].
    destruct (flat_render_some_obj _ _ _ FRv N1) as (m & ->). exists m. try subst dF. exact GF.
Qed.

(* no array on the path: at most one item, also under smaller data *)
Lemma select_len_noarr : forall dF d0 path iF i0, sub_b dF d0 = true -> no_types path = true ->
  items_inv dF iF i0 -> (length iF <= 1)%nat -> noarr_path d0 path i0 = true ->
  (length (fold_left (fun items pe => select_step dF pe items) path iF) <= 1)%nat.
Proof.
  intros dF d0 path. induction path as [|pe r IH]; intros iF i0 Hs Ht Hi Hl Hn; simpl; [exact Hl|].
  unfold no_types in Ht. simpl in Ht. apply andb_prop in Ht as [T1 T2]. simpl in Hn. apply andb_prop in Hn as [N1 N2].
  assert (Hty : pe_types pe = []) by (destruct (pe_types pe); [reflexivity|discriminate]).
  apply (IH (select_step dF pe iF) (select_step d0 pe i0)); try assumption.
  - apply select_step_inv; assumption.
  - unfold select_step. destruct (pe_path pe) as [|n0 ns] eqn:P; [exact Hl|].
    destruct iF as [|l [|l2 rr]]; [simpl; lia| |simpl in Hl; lia].
    cbn [flat_map]. rewrite app_nil_r. destruct (get_loc l dF) as [vF|] eqn:GF; [|simpl; lia].
    rewrite Hty. cbn [allowed_by_typename].
    destruct (get_path (n0 :: ns) vF) as [xF|] eqn:PF; [|simpl; lia].
    destruct xF as [| | | |aF|]; try (simpl; lia).
    exfalso. destruct (Hi l (or_introl eq_refl)) as [Hin0|Hnull].
    + destruct (sub_get_loc _ _ _ _ Hs GF) as (v0 & G0 & Hv).
      rewrite get_path_loc in PF. destruct (sub_get_loc _ _ _ _ Hv PF) as (x0 & P0 & Hx).
      destruct (sub_arr_inv _ _ Hx) as (a0 & -> & _).
      rewrite forallb_forall in N1. specialize (N1 l Hin0). rewrite G0 in N1. rewrite ?P in N1. rewrite get_path_loc, P0 in N1. discriminate.
    + rewrite Hnull in GF. inversion GF; subst vF. simpl in PF. discriminate.
Qed.

Lemma combine_in_map : forall {A B C} (g : A -> C) (bs : list (A * B)) b locs,
  In (b, locs) bs -> In (locs, g b) (combine (map snd bs) (map g (map fst bs))).
Proof.
  induction bs as [|[b' l'] r IH]; intros b locs H; simpl in *; [contradiction|].
  destruct H as [E|H]; [inversion E; subst; left; reflexivity|right; apply IH; exact H].
Qed.

Lemma sub_obj_root : forall m d', sub_b (JObj m) d' = true -> exists m', d' = JObj m'.
Proof. intros m d' H. destruct (sub_obj_inv _ _ H) as (m' & -> & _). eexists. reflexivity. Qed.

Lemma step_noarr : forall answer root_answer kind_of f s0, step_ok_b answer root_answer kind_of f s0 = true ->
  f_kind f = FEntity -> noarr_path (ls_data s0) (f_path f) [[]] = true.
Proof.
  intros answer root_answer kind_of f s0 H K. unfold step_ok_b in H.
  apply andb_prop in H as [H _]. apply andb_prop in H as [_ He]. rewrite K in He. apply andb_prop in He as [_ He]. exact He.
Qed.

Section Unaff.
  Variable answer : N -> bytes -> json * list json.
  Variable root_answer : N -> json * list json.
  Variable kind_of : N -> fkind.
  Variable F : N -> option fault.
  Hypothesis Hloud : forall id k, F id = Some k -> loud (kind_of id) k = true.
  Hypothesis Hans : forall id rep, json_wf (fst (answer id rep)) = true.
  (* an `_entities` item is an object or null (anything else is now an invalid response, mergeableData) *)
  Hypothesis Hansm : forall id rep, obj_or_null (fst (answer id rep)) = true.
  Hypothesis Hroot : forall id, json_wf (fst (root_answer id)) = true.
  Hypothesis Hrobj : roots_are_objects root_answer.
  Hypothesis Hval : answers_valid answer root_answer.

  Let e0 := clean_exchange answer root_answer kind_of.
  Let eF := faulty_exchange answer root_answer kind_of F.

  Lemma entity_one_item : forall f s0 dF, sub_b dF (ls_data s0) = true -> fetch_ok kind_of f = true ->
    step_ok_b answer root_answer kind_of f s0 = true -> f_kind f = FEntity ->
    (length (select_items dF (f_path f)) <= 1)%nat.
  Proof.
    intros f s0 dF Hs Hok Hstep K. destruct (fetch_ok_inv kind_of f Hok) as (_ & _ & Hnt & _ & _).
    unfold select_items. eapply select_len_noarr; [exact Hs|exact Hnt| |simpl; lia|eapply step_noarr; eassumption].
    intros l H. left. exact H.
  Qed.

  Lemma targets_pskip : forall f d d', fetch_ok kind_of f = true ->
    prepare f d (select_items d (f_path f)) = PSkip d' -> targets answer root_answer f d = [].
  Proof.
    intros f d d' Hok HP. unfold targets. destruct (f_kind f) eqn:K; try (rewrite HP; reflexivity).
    unfold prepare in HP. rewrite K in HP.
    destruct (batch_prepare (f_rep f) (select_items d (f_path f)) d []) as [d2 bs]. cbn [snd].
    destruct bs; [reflexivity|discriminate].
  Qed.

  (* everything the faulty run's own step does, for the role of the bigger side *)
  Lemma F_step_facts : forall f s0 sF, Rst s0 sF -> fetch_ok kind_of f = true ->
    step_ok_b answer root_answer kind_of f s0 = true ->
    json_wf (ls_data sF) = true -> (exists m, ls_data sF = JObj m) ->
    let sF' := fst (run_fetch unit eF f (sF, tt)) in
    sub_b (ls_data sF) (ls_data sF') = true /\ json_wf (ls_data sF') = true /\
    (F (f_id f) = None -> should_skip f sF = false ->
       ls_errored sF' = ls_errored sF /\
       (ls_hard sF' = false -> big_facts answer root_answer f (ls_data sF) (ls_data sF'))).
  Proof.
    intros f s0 sF HR Hok Hstep Wd (m0 & Hm0). cbv zeta.
    destruct (fetch_ok_inv kind_of f Hok) as (Hk & Hd & Hnt & Hmp & Hkind).
    assert (Hone : f_kind f = FEntity -> (length (select_items (ls_data sF) (f_path f)) <= 1)%nat).
    { intros K. eapply entity_one_item; try eassumption. exact (R_sub _ _ HR). }
    assert (Hsame : forall s', ls_data s' = ls_data sF ->
              sub_b (ls_data sF) (ls_data s') = true /\ json_wf (ls_data s') = true).
    { intros s' E. rewrite E. split; [apply sub_refl; exact Wd|exact Wd]. }
    unfold run_fetch.
    destruct (should_skip f sF) eqn:SK.
    { cbn [fst]. destruct (Hsame (add_errored sF (f_id f)) eq_refl) as [A B]. split; [exact A|]. split; [exact B|]. intros _ E. discriminate. }
    pose proof (prepare_data kind_of f (ls_data sF) (select_items (ls_data sF) (f_path f)) Hok) as Hpd.
    destruct (prepare f (ls_data sF) (select_items (ls_data sF) (f_path f))) as [d|dF rqF batchF] eqn:HP.
    { cbn [fst]. subst d. destruct (Hsame (set_data sF (ls_data sF)) eq_refl) as [A B]. split; [exact A|]. split; [exact B|].
      intros _ _. split; [reflexivity|]. intros _. split; [exact Hone|]. rewrite (targets_pskip f _ _ Hok HP). intros l src []. }
    subst dF.
    (* the fault-free side, for the bounds *)
    destruct (targets_contained answer root_answer kind_of f s0 Hstep) as (Hinfl0 & Hone0 & Hcont0).
    assert (Hbig0 : big_facts answer root_answer f (ls_data s0) (ls_data (fst (run_fetch unit (clean_exchange answer root_answer kind_of) f (s0, tt))))) by (split; assumption).
    assert (Hload : load_ok answer root_answer f (ls_data s0) (ls_data (fst (run_fetch unit (clean_exchange answer root_answer kind_of) f (s0, tt))))
                            (select_items (ls_data sF) (f_path f)) rqF batchF).
    { destruct (f_kind f) eqn:K; [eapply load_sim_single|eapply load_sim_entity|eapply load_sim_batch]; try eassumption; exact (R_sub _ _ HR). }
    destruct Hload as (_ & HneF & Hone1 & Hcont).
    pose proof (shape_of_load kind_of f _ _ _ _ Hok HP) as Hshape.
    destruct (prepare_request _ _ _ _ _ _ HP) as (Hrq & Hbatch & _).
    unfold eF, faulty_exchange in *. rewrite Hrq, Hk in *.
    set (cl := clean_response answer root_answer rqF match f_kind f with FSingle => true | _ => false end) in *.
    set (D := ls_data (fst (run_fetch unit (clean_exchange answer root_answer kind_of) f (s0, tt)))) in *.
    cbn [fst] in *.
    set (sF1 := add_request (set_data sF (ls_data sF)) rqF) in *.
    destruct (F (f_id f)) as [k|] eqn:EF.
    { (* faulted: nothing merged *)
      set (res := apply_fault k cl) in *. set (sF2 := if rs_err res then add_errored sF1 (f_id f) else sF1) in *.
      assert (HdF2 : ls_data sF2 = ls_data sF) by (subst sF2; destruct (rs_err res); reflexivity).
      assert (Hsm : ls_data (merge_result f res (select_items (ls_data sF) (f_path f)) batchF sF2) = ls_data sF).
      { subst res cl. specialize (Hloud _ _ EF). rewrite Hk in Hloud.
        rewrite (proj1 (proj2 (loud_outcome answer root_answer f k _ _ _ _ _ sF2 Hrobj Hd Hloud (fun _ => ltac:(unfold mp_empty; rewrite Hmp; reflexivity)) HP))). exact HdF2. }
      destruct (Hsame _ Hsm) as [A B]. split; [exact A|]. split; [exact B|]. intros E. discriminate. }
    (* unfaulted: the clean response *)
    assert (HsD : sub_b (ls_data sF) D = true) by (eapply sub_trans; [exact (R_sub _ _ HR)|exact Hinfl0]).
    change (if rs_err cl then add_errored sF1 (f_id f) else sF1) with sF1 in *.
    assert (Hd1 : ls_data sF1 = ls_data sF) by reflexivity.
    assert (He1 : ls_errored sF1 = ls_errored sF) by reflexivity.
    unfold load_shape in Hshape. unfold clean_of in Hcont. fold cl in Hcont.
    destruct (f_kind f) eqn:K.
    - (* single *)
      destruct Hshape as (Hit & Hb & Hq). rewrite Hb in Hcont |- *. rewrite Hit in Hcont |- *. subst rqF.
      destruct (clean_single_rdata answer root_answer (mk_request f [])) as (resp & Hbody & Herr & Hrd). fold cl in Hbody, Herr.
      cbn [rq_fetch mk_request] in Hrd. rewrite <- Hd in Hrd.
      pose proof (clean_valid answer root_answer (mk_request f []) true resp Hval Hbody) as Hvn.
      assert (Hcb : count_bad f resp = false) by (unfold count_bad; rewrite K; reflexivity).
      set (rd := fst (root_answer (f_id f))) in *.
      destruct (Hrobj (f_id f)) as (mr & Hmr). fold rd in Hmr.
      assert (Nl : is_nullish (Some rd) = false) by (rewrite Hmr; reflexivity).
      assert (Hwk : wrong_kind_single f rd = false) by (unfold wrong_kind_single; rewrite Hmr; apply andb_false_r).
      destruct (merge_result_one f cl [] sF1 resp rd Herr Hbody Hvn Hcb Hrd Nl Hwk) as (s1 & Es1 & Eh1 & Ee1 & Emr).
      match goal with |- context [merge_result f cl ?it None sF1] => replace (merge_result f cl it None sF1) with (merge_target f s1 [] rd) by (symmetry; exact Emr) end.
      destruct (Hcont resp rd Herr Hbody Hrd [] eq_refl) as (w & Hw & Hrw).
      destruct (merge_target_facts f s1 [] rd D w Hmp) as (A1 & A2 & A3 & A4); try assumption.
      { rewrite Es1, Hd1. exact HsD. } { rewrite Es1, Hd1. exact Wd. } { apply Hroot. }
      rewrite Es1, Hd1 in A2. split; [exact A2|]. split; [exact A3|].
      intros _ _. split; [rewrite merge_target_errored, Ee1; exact He1|]. intros Hh. split; [intros E; congruence|].
      intros l src Hin. unfold targets in Hin. rewrite K, HP, Hit in Hin. destruct Hin as [E|[]]. inversion E; subst l src.
      destruct (A4 Hh) as [_ Hc]. apply Hc. exists m0. rewrite Es1, Hd1. cbn [get_loc]. rewrite Hm0. reflexivity.
    - (* entity *)
      destruct Hshape as (l & b & m & Hit & Hb & Hq & Hgl). rewrite Hb in Hcont |- *. rewrite Hit in Hcont |- *. subst rqF.
      destruct (clean_entities_rdata answer root_answer (mk_request f [b])) as (resp & Hbody & Herr & Hrd0). fold cl in Hbody, Herr.
      cbn [rq_fetch rq_reps mk_request map] in Hrd0.
      pose proof (clean_valid answer root_answer (mk_request f [b]) false resp Hval Hbody) as Hvn.
      assert (Hcb : count_bad f resp = false).
      { unfold count_bad. rewrite K. change [PName k_data; PName k_entities] with (datapath_of FBatch). rewrite Hrd0. reflexivity. }
      set (rd := fst (answer (f_id f) b)) in *.
      assert (Hrd : get_loc (f_datapath f) resp = Some rd).
      { rewrite Hd. change (datapath_of FEntity) with (datapath_of FBatch ++ [PIdx 0]). rewrite get_loc_app, Hrd0. reflexivity. }
      assert (Htg : targets answer root_answer f (ls_data sF) = [(l, rd)]).
      { unfold targets. rewrite K, HP, Hit. reflexivity. }
      destruct (is_nullish (Some rd)) eqn:Nl.
      + destruct (merge_result_null_entity f cl [l] None sF1 resp [rd] Herr Hbody Hvn Hcb) as (s1 & E1 & E2 & E3 & Emr);
          [rewrite Hrd; exact Nl|rewrite K; discriminate|exact Hrd0|].
        match goal with |- context [merge_result f cl ?it None sF1] => replace (merge_result f cl it None sF1) with s1 by (symmetry; exact Emr) end.
        rewrite E1. destruct (Hsame sF1 Hd1) as [A B]. rewrite Hd1. split; [exact A|]. split; [exact B|].
        intros _ _. split; [rewrite E3; exact He1|]. intros _. split; [intros _; exact (Hone eq_refl)|]. rewrite Htg. intros l' src [E|[]]. inversion E; subst l' src.
        exists (JObj m). split; [exact Hgl|]. destruct rd; try discriminate. reflexivity.
      + assert (Hwk : wrong_kind_single f rd = false).
        { unfold wrong_kind_single. pose proof (Hansm (f_id f) b) as Ho. fold rd in Ho. destruct rd; try discriminate; apply andb_false_r. }
        destruct (merge_result_one f cl l sF1 resp rd Herr Hbody Hvn Hcb Hrd Nl Hwk) as (s1 & Es1 & Eh1 & Ee1 & Emr).
        match goal with |- context [merge_result f cl ?it None sF1] => replace (merge_result f cl it None sF1) with (merge_target f s1 l rd) by (symmetry; exact Emr) end.
        destruct (Hcont resp rd Herr Hbody Hrd l eq_refl) as (w & Hw & Hrw).
        destruct (merge_target_facts f s1 l rd D w Hmp) as (A1 & A2 & A3 & A4); try assumption.
        { rewrite Es1, Hd1. exact HsD. } { rewrite Es1, Hd1. exact Wd. } { apply Hans. }
        rewrite Es1, Hd1 in A2. split; [exact A2|]. split; [exact A3|].
        intros _ _. split; [rewrite merge_target_errored, Ee1; exact He1|]. intros Hh. split; [intros _; exact (Hone eq_refl)|]. rewrite Htg. intros l' src [E|[]]. inversion E; subst l' src.
        destruct (A4 Hh) as [_ Hc]. apply Hc. exists m. rewrite Es1, Hd1. exact Hgl.
    - (* batch *)
      destruct Hshape as (bsF & Hbs & HneB & Hq & Hb & Hobj). subst rqF batchF.
      destruct (clean_entities_rdata answer root_answer (mk_request f (map fst bsF))) as (resp & Hbody & Herr & Hrd0). fold cl in Hbody, Herr.
      cbn [rq_fetch rq_reps mk_request] in Hrd0. rewrite <- Hd in Hrd0.
      pose proof (clean_valid answer root_answer (mk_request f (map fst bsF)) false resp Hval Hbody) as Hvn.
      assert (Hcb : count_bad f resp = false) by (unfold count_bad; rewrite K; reflexivity).
      set (ents := map (fun rep => fst (answer (f_id f) rep)) (map fst bsF)) in *.
      destruct ents as [|e es] eqn:Eents.
      { destruct bsF; [congruence|discriminate]. }
      assert (Hlen : length (map snd bsF) = length (e :: es)).
      { rewrite <- Eents. unfold ents. rewrite !map_length. reflexivity. }
      assert (Hwk : wrong_kind_batch f (e :: es) = false).
      { unfold wrong_kind_batch. rewrite <- Eents. unfold ents.
        assert (Hall : forallb obj_or_null (map (fun rep => fst (answer (f_id f) rep)) (map fst bsF)) = true).
        { rewrite forallb_forall. intros x Hx. apply in_map_iff in Hx as (rep & <- & _). apply Hansm. }
        rewrite Hall. apply andb_false_r. }
      destruct (merge_result_many f cl (select_items (ls_data sF) (f_path f)) (map snd bsF) sF1 resp e es Herr Hbody Hvn Hcb Hrd0 HneF Hlen Hwk) as (s1 & Es1 & Eh1 & Ee1 & Emr).
      rewrite Emr.
      assert (Wents : forallb json_wf (e :: es) = true).
      { rewrite <- Eents. unfold ents. rewrite forallb_forall. intros x Hx. apply in_map_iff in Hx as (rep & <- & _). apply Hans. }
      destruct (buckets_facts f (map snd bsF) (e :: es) s1 D Hmp) as (A1 & A2 & A3 & A4); try assumption.
      { rewrite Es1, Hd1. exact HsD. } { rewrite Es1, Hd1. exact Wd. }
      { intros locs src Hin l Hl. eapply (Hcont resp (JArr (e :: es)) Herr Hbody Hrd0 (e :: es) eq_refl); eassumption. }
      rewrite Es1, Hd1 in A2. split; [exact A2|]. split; [exact A3|].
      intros _ _. split; [rewrite merge_buckets_errored, Ee1; exact He1|]. intros Hh. split; [intros E; congruence|].
      intros l src Hin. unfold targets in Hin. rewrite K, Hbs in Hin.
      apply in_flat_map in Hin as ((b, locs) & Hinb & Hl). cbn [fst snd] in Hl. apply in_map_iff in Hl as (l' & E & Hl'). inversion E; subst l' src.
      destruct (A4 Hh) as [_ Hc]. eapply Hc.
      + rewrite <- Eents. unfold ents. apply (combine_in_map (fun rep => fst (answer (f_id f) rep)) bsF b locs Hinb).
      + exact Hl'.
      + rewrite Es1, Hd1. apply (Hobj b l). exists locs. split; assumption.
  Qed.
End Unaff.

(* ---- hard failures are sticky ---- *)
Lemma merge_target_hard : forall f s l src, ls_hard s = true -> ls_hard (merge_target f s l src) = true.
Proof. intros f s l src H. unfold merge_target. rewrite H. exact H. Qed.
Lemma fold_merge_target_hard : forall f src targets s, ls_hard s = true ->
  ls_hard (fold_left (fun s l => merge_target f s l src) targets s) = true.
Proof. induction targets as [|l r IH]; intros s H; simpl; [exact H|]. apply IH. apply merge_target_hard. exact H. Qed.
Lemma merge_pairwise_hard : forall f ls batch s, ls_hard s = true -> ls_hard (merge_pairwise f s ls batch) = true.
Proof.
  induction ls as [|l ls IH]; intros batch s H; simpl; [exact H|].
  destruct batch; [exact H|]. apply IH. apply merge_target_hard. exact H.
Qed.
Lemma merge_buckets_hard : forall f bs batch s, ls_hard s = true -> ls_hard (merge_buckets f s bs batch) = true.
Proof.
  induction bs as [|b bs IH]; intros batch s H; simpl; [exact H|].
  destruct batch; [exact H|]. apply IH. apply fold_merge_target_hard. exact H.
Qed.
Lemma merge_result_hard : forall f res items batch s, ls_hard s = true -> ls_hard (merge_result f res items batch s) = true.
Proof.
  intros f res items batch s H. mr_cases;
    first [ exact H | apply merge_target_hard; exact H | apply merge_pairwise_hard; exact H | apply merge_buckets_hard; exact H ].
Qed.

Section Sticky.
  Variable St : Type.
  Variable e : St -> request -> response * St.
  Lemma run_fetch_hard : forall f s x, ls_hard s = true -> ls_hard (fst (run_fetch St e f (s, x))) = true.
  Proof.
    intros f s x H. unfold run_fetch. destruct (should_skip f s); [exact H|].
    destruct (prepare f (ls_data s) (select_items (ls_data s) (f_path f))) as [d|d rq batch]; [exact H|].
    destruct (e x rq) as [res x']. cbn [fst]. apply merge_result_hard. destruct (rs_err res); exact H.
  Qed.
  Lemma run_tree_hard : forall t s x, ls_hard s = true -> ls_hard (fst (run_tree St e t (s, x))) = true.
  Proof.
    fix IH 1. intros t; destruct t as [f|l|l]; intros s x H.
    - apply run_fetch_hard. exact H.
    - simpl. revert s x H. induction l as [|t r IHl]; intros s x H; [exact H|].
      specialize (IH t s x H). destruct (run_tree St e t (s, x)) as [s1 y1]. cbn [fst] in *. rewrite IH. exact IH.
    - simpl. revert s x H. induction l as [|t r IHl]; intros s x H; [exact H|].
      specialize (IH t s x H). destruct (run_tree St e t (s, x)) as [s1 y1]. cbn [fst] in *. apply IHl. exact IH.
  Qed.
End Sticky.

Lemma run_fetch_errored_incl : forall St (e : St -> request -> response * St) f s x id,
  In id (ls_errored (fst (run_fetch St e f (s, x)))) -> In id (ls_errored s) \/ id = f_id f.
Proof.
  intros St e f s x id H. unfold run_fetch in H.
  destruct (should_skip f s).
  { cbn [fst ls_errored add_errored] in H. destruct H as [<-|H]; [right; reflexivity|left; exact H]. }
  destruct (prepare f (ls_data s) (select_items (ls_data s) (f_path f))) as [d|d rq b]; [left; exact H|].
  destruct (e x rq) as [res x']. cbn [fst] in H. apply merge_result_errored_incl in H as [H|H]; [|right; exact H].
  destruct (rs_err res); cbn [ls_errored add_errored add_request set_data] in H; [destruct H as [<-|H]; [right; reflexivity|left; exact H]|left; exact H].
Qed.

Section Three.
  Variable answer : N -> bytes -> json * list json.
  Variable root_answer : N -> json * list json.
  Variable kind_of : N -> fkind.
  Variable F : N -> option fault.
  Hypothesis Hloud : forall id k, F id = Some k -> loud (kind_of id) k = true.
  Hypothesis Hans : forall id rep, json_wf (fst (answer id rep)) = true.
  (* an `_entities` item is an object or null (anything else is now an invalid response, mergeableData) *)
  Hypothesis Hansm : forall id rep, obj_or_null (fst (answer id rep)) = true.
  Hypothesis Hroot : forall id, json_wf (fst (root_answer id)) = true.
  Hypothesis Hrobj : roots_are_objects root_answer.
  Hypothesis Hval : answers_valid answer root_answer.
  Variable A : N -> bool.
  Hypothesis HFA : forall id k, F id = Some k -> A id = true.

  Definition knock : N -> option fault := fun id => if A id then Some FtTransport else None.

  Let e0 := clean_exchange answer root_answer kind_of.
  Let eF := faulty_exchange answer root_answer kind_of F.
  Let eG := faulty_exchange answer root_answer kind_of knock.

  Definition dep_closed (f : fetch) : Prop := forall d, In d (f_deps f) -> A d = true -> A (f_id f) = true.
  Definition FI (s : lstate) : Prop :=
    json_wf (ls_data s) = true /\ (exists m, ls_data s = JObj m) /\ (forall id, In id (ls_errored s) -> A id = true).

  Lemma not_skipped : forall f s, dep_closed f -> (forall id, In id (ls_errored s) -> A id = true) -> A (f_id f) = false ->
    should_skip f s = false.
  Proof.
    intros f s Hc He Ha. unfold should_skip. destruct (existsb _ (f_deps f)) eqn:E; [|reflexivity].
    apply existsb_exists in E as (d & Hd & Hx). apply existsb_exists in Hx as (d' & Hd' & Heq). apply N.eqb_eq in Heq. subst d'.
    rewrite (Hc d Hd (He d Hd')) in Ha. discriminate.
  Qed.

  Lemma F_fetch_progress : forall f s0 sF, Rst s0 sF -> FI sF -> fetch_ok kind_of f = true ->
    step_ok_b answer root_answer kind_of f s0 = true -> dep_closed f ->
    let sF' := fst (run_fetch unit eF f (sF, tt)) in
    ls_hard sF' = false ->
    FI sF' /\ sub_b (ls_data sF) (ls_data sF') = true /\ (A (f_id f) = false -> big_facts answer root_answer f (ls_data sF) (ls_data sF')).
  Proof.
    intros f s0 sF HR (Wd & (m & Hm) & He) Hok Hstep Hc. cbv zeta. intros Hh.
    destruct (F_step_facts answer root_answer kind_of F Hloud Hans Hansm Hroot Hrobj Hval f s0 sF HR Hok Hstep Wd (ex_intro _ m Hm)) as (Hinf & Wd' & Hbig).
    split; [|split; [exact Hinf|]].
    - split; [exact Wd'|]. split; [rewrite Hm in Hinf; apply (sub_obj_root _ _ Hinf)|].
      intros id Hid. destruct (A (f_id f)) eqn:Ea.
      + apply run_fetch_errored_incl in Hid as [Hid| ->]; [apply He; exact Hid|exact Ea].
      + assert (HF : F (f_id f) = None) by (destruct (F (f_id f)) as [k|] eqn:EF; [rewrite (HFA _ _ EF) in Ea; discriminate|reflexivity]).
        destruct (Hbig HF (not_skipped f sF Hc He Ea)) as [Hee _]. unfold eF in Hid. rewrite Hee in Hid. apply He. exact Hid.
    - intros Ea. apply Hbig; [|apply not_skipped; assumption|exact Hh].
      destruct (F (f_id f)) as [k|] eqn:EF; [|reflexivity]. rewrite (HFA _ _ EF) in Ea. discriminate.
  Qed.

  Lemma G_fetch_same : forall f sG, fetch_ok kind_of f = true -> A (f_id f) = true ->
    ls_data (fst (run_fetch unit eG f (sG, tt))) = ls_data sG.
  Proof.
    intros f sG Hok Ha. unfold run_fetch. destruct (should_skip f sG); [reflexivity|].
    pose proof (prepare_data kind_of f (ls_data sG) (select_items (ls_data sG) (f_path f)) Hok) as Hpd.
    destruct (prepare f (ls_data sG) (select_items (ls_data sG) (f_path f))) as [d|d rq b] eqn:HP; [cbn; exact Hpd|].
    destruct (prepare_request _ _ _ _ _ _ HP) as (Hrq & _ & _). unfold eG, faulty_exchange, knock. rewrite Hrq, Ha. cbn [fst apply_fault rs_err].
    unfold merge_result. cbn [rs_err]. cbn. exact Hpd.
  Qed.

  Lemma fetch_sim3 : forall f s0 sF sG, Rst s0 sF -> FI sF -> sub_b (ls_data sG) (ls_data sF) = true ->
    fetch_ok kind_of f = true -> step_ok_b answer root_answer kind_of f s0 = true -> dep_closed f ->
    ls_hard (fst (run_fetch unit eF f (sF, tt))) = false ->
    sub_b (ls_data (fst (run_fetch unit eG f (sG, tt)))) (ls_data (fst (run_fetch unit eF f (sF, tt)))) = true.
  Proof.
    intros f s0 sF sG HR HFI Hs Hok Hstep Hc Hh.
    destruct (F_fetch_progress f s0 sF HR HFI Hok Hstep Hc Hh) as (_ & Hinf & Hbig).
    set (DF := ls_data (fst (run_fetch unit eF f (sF, tt)))) in *.
    assert (HsD : sub_b (ls_data sG) DF = true) by (eapply sub_trans; eassumption).
    destruct (A (f_id f)) eqn:Ea.
    { rewrite (G_fetch_same f sG Hok Ea). exact HsD. }
    specialize (Hbig eq_refl).
    destruct (fetch_ok_inv kind_of f Hok) as (Hk & Hd & Hnt & Hmp & Hkind).
    unfold run_fetch at 1. destruct (should_skip f sG); [exact HsD|].
    pose proof (prepare_data kind_of f (ls_data sG) (select_items (ls_data sG) (f_path f)) Hok) as Hpd.
    destruct (prepare f (ls_data sG) (select_items (ls_data sG) (f_path f))) as [d|dG rqG batchG] eqn:HP; [cbn [fst ls_data set_data]; subst d; exact HsD|].
    subst dG. destruct (prepare_request _ _ _ _ _ _ HP) as (Hrq & _ & _).
    assert (Hload : load_ok answer root_answer f (ls_data sF) DF (select_items (ls_data sG) (f_path f)) rqG batchG).
    { destruct (f_kind f) eqn:K; [eapply load_sim_single|eapply load_sim_entity|eapply load_sim_batch]; eassumption. }
    destruct Hload as (_ & HneG & Hone & Hcont).
    unfold eG, faulty_exchange, knock. rewrite Hrq, Ea, Hk. cbn [fst].
    apply merge_result_sub; try assumption.
  Qed.

  Definition closed_in (t : ftree) : Prop := forall f, In f (fetches_of t) -> dep_closed f.

  Lemma closed_app : forall (l1 l2 : list fetch), (forall f, In f (l1 ++ l2) -> dep_closed f) ->
    (forall f, In f l1 -> dep_closed f) /\ (forall f, In f l2 -> dep_closed f).
  Proof. intros l1 l2 H. split; intros f Hf; apply H; apply in_or_app; [left|right]; exact Hf. Qed.

  (* the faulty run alone (with the fault-free run as its bound): grows, stays well formed *)
  Lemma F_tree_progress : forall t s0 sF, Rst s0 sF -> FI sF -> forallb (fetch_ok kind_of) (fetches_of t) = true ->
    consistent_from answer root_answer kind_of t s0 = true -> closed_in t ->
    ls_hard (fst (run_tree unit eF t (sF, tt))) = false ->
    FI (fst (run_tree unit eF t (sF, tt))) /\ sub_b (ls_data sF) (ls_data (fst (run_tree unit eF t (sF, tt)))) = true.
  Proof.
    fix IH 1. intros t; destruct t as [f|l|l]; intros s0 sF HR HFI Hwf Hc Hcl Hh.
    - simpl in Hwf. rewrite andb_true_r in Hwf. simpl in Hc.
      destruct (F_fetch_progress f s0 sF HR HFI Hwf Hc (Hcl f (or_introl eq_refl)) Hh) as (H1 & H2 & _). split; assumption.
    - simpl in *. revert s0 sF HR HFI Hwf Hc Hcl Hh. induction l as [|t r IHl]; intros s0 sF HR HFI Hwf Hc Hcl Hh.
      { split; [exact HFI|]. destruct HFI as (W & _ & _). apply sub_refl. exact W. }
      rewrite forallb_app in Hwf. apply andb_prop in Hwf as [Hw1 Hw2]. apply andb_prop in Hc as [Hc1 Hc2].
      destruct (closed_app _ _ Hcl) as [Hcl1 Hcl2].
      pose proof (tree_sim answer root_answer kind_of F Hloud Hrobj t s0 sF HR Hw1 Hc1) as HR1.
      specialize (IH t s0 sF HR HFI Hw1 Hc1 Hcl1).
      destruct (run_tree unit (clean_exchange answer root_answer kind_of) t (s0, tt)) as [s1 []] eqn:R1.
      unfold eF in *. destruct (run_tree unit (faulty_exchange answer root_answer kind_of F) t (sF, tt)) as [sF1 []] eqn:RF1. cbn [fst] in *.
      destruct (ls_hard sF1) eqn:H1.
      + cbn [fst] in Hh. rewrite H1 in Hh. discriminate.
      + destruct (IH eq_refl) as [I1 I2]. destruct (IHl s1 sF1 HR1 I1 Hw2 Hc2 Hcl2 Hh) as [J1 J2].
        split; [exact J1|eapply sub_trans; eassumption].
    - simpl in *. revert s0 sF HR HFI Hwf Hc Hcl Hh. induction l as [|t r IHl]; intros s0 sF HR HFI Hwf Hc Hcl Hh.
      { split; [exact HFI|]. destruct HFI as (W & _ & _). apply sub_refl. exact W. }
      rewrite forallb_app in Hwf. apply andb_prop in Hwf as [Hw1 Hw2]. apply andb_prop in Hc as [Hc1 Hc2].
      destruct (closed_app _ _ Hcl) as [Hcl1 Hcl2].
      pose proof (tree_sim answer root_answer kind_of F Hloud Hrobj t s0 sF HR Hw1 Hc1) as HR1.
      specialize (IH t s0 sF HR HFI Hw1 Hc1 Hcl1).
      destruct (run_tree unit (clean_exchange answer root_answer kind_of) t (s0, tt)) as [s1 []] eqn:R1.
      unfold eF in *. destruct (run_tree unit (faulty_exchange answer root_answer kind_of F) t (sF, tt)) as [sF1 []] eqn:RF1. cbn [fst] in *.
      destruct (ls_hard sF1) eqn:H1.
      + pose proof (run_tree_hard unit (faulty_exchange answer root_answer kind_of F) (FTPar r) sF1 tt H1) as Hx. simpl in Hx. rewrite Hx in Hh. discriminate.
      + destruct (IH eq_refl) as [I1 I2]. destruct (IHl s1 sF1 HR1 I1 Hw2 Hc2 Hcl2 Hh) as [J1 J2].
        split; [exact J1|eapply sub_trans; eassumption].
  Qed.

  Lemma tree_sim3 : forall t s0 sF sG, Rst s0 sF -> FI sF -> sub_b (ls_data sG) (ls_data sF) = true ->
    forallb (fetch_ok kind_of) (fetches_of t) = true ->
    consistent_from answer root_answer kind_of t s0 = true -> closed_in t ->
    ls_hard (fst (run_tree unit eF t (sF, tt))) = false ->
    sub_b (ls_data (fst (run_tree unit eG t (sG, tt)))) (ls_data (fst (run_tree unit eF t (sF, tt)))) = true.
  Proof.
    fix IH 1. intros t; destruct t as [f|l|l]; intros s0 sF sG HR HFI Hs Hwf Hc Hcl Hh.
    - simpl in Hwf. rewrite andb_true_r in Hwf. simpl in Hc.
      apply (fetch_sim3 f s0 sF sG HR HFI Hs Hwf Hc (Hcl f (or_introl eq_refl)) Hh).
    - simpl in *. revert s0 sF sG HR HFI Hs Hwf Hc Hcl Hh. induction l as [|t r IHl]; intros s0 sF sG HR HFI Hs Hwf Hc Hcl Hh; [exact Hs|].
      rewrite forallb_app in Hwf. apply andb_prop in Hwf as [Hw1 Hw2]. apply andb_prop in Hc as [Hc1 Hc2].
      destruct (closed_app _ _ Hcl) as [Hcl1 Hcl2].
      pose proof (tree_sim answer root_answer kind_of F Hloud Hrobj t s0 sF HR Hw1 Hc1) as HR1.
      pose proof (F_tree_progress t s0 sF HR HFI Hw1 Hc1 Hcl1) as HP1.
      specialize (IH t s0 sF sG HR HFI Hs Hw1 Hc1 Hcl1).
      destruct (run_tree unit (clean_exchange answer root_answer kind_of) t (s0, tt)) as [s1 []] eqn:R1.
      unfold eF, eG in *. destruct (run_tree unit (faulty_exchange answer root_answer kind_of F) t (sF, tt)) as [sF1 []] eqn:RF1.
      destruct (run_tree unit (faulty_exchange answer root_answer kind_of knock) t (sG, tt)) as [sG1 []] eqn:RG1. cbn [fst] in *.
      destruct (ls_hard sF1) eqn:H1; [cbn [fst] in Hh; rewrite H1 in Hh; discriminate|].
      destruct (HP1 eq_refl) as [I1 _]. specialize (IH eq_refl).
      destruct (ls_hard sG1) eqn:HG1.
      + (* the knocked-out run stops; the faulty run goes on growing *)
        pose proof (F_tree_progress (FTSeq r) s1 sF1 HR1 I1) as HP2. simpl in HP2.
        destruct (HP2 Hw2 Hc2 Hcl2 Hh) as [_ J2]. eapply sub_trans; eassumption.
      + apply (IHl s1 sF1 sG1 HR1 I1 IH Hw2 Hc2 Hcl2 Hh).
    - simpl in *. revert s0 sF sG HR HFI Hs Hwf Hc Hcl Hh. induction l as [|t r IHl]; intros s0 sF sG HR HFI Hs Hwf Hc Hcl Hh; [exact Hs|].
      rewrite forallb_app in Hwf. apply andb_prop in Hwf as [Hw1 Hw2]. apply andb_prop in Hc as [Hc1 Hc2].
      destruct (closed_app _ _ Hcl) as [Hcl1 Hcl2].
      pose proof (tree_sim answer root_answer kind_of F Hloud Hrobj t s0 sF HR Hw1 Hc1) as HR1.
      pose proof (F_tree_progress t s0 sF HR HFI Hw1 Hc1 Hcl1) as HP1.
      specialize (IH t s0 sF sG HR HFI Hs Hw1 Hc1 Hcl1).
      destruct (run_tree unit (clean_exchange answer root_answer kind_of) t (s0, tt)) as [s1 []] eqn:R1.
      unfold eF, eG in *. destruct (run_tree unit (faulty_exchange answer root_answer kind_of F) t (sF, tt)) as [sF1 []] eqn:RF1.
      destruct (run_tree unit (faulty_exchange answer root_answer kind_of knock) t (sG, tt)) as [sG1 []] eqn:RG1. cbn [fst] in *.
      destruct (ls_hard sF1) eqn:H1.
      { pose proof (run_tree_hard unit (faulty_exchange answer root_answer kind_of F) (FTPar r) sF1 tt H1) as Hx. simpl in Hx. rewrite Hx in Hh. discriminate. }
      destruct (HP1 eq_refl) as [I1 _]. specialize (IH eq_refl).
      apply (IHl s1 sF1 sG1 HR1 I1 IH Hw2 Hc2 Hcl2 Hh).
  Qed.

  Theorem unaffected_lower_proof : forall t,
    fplan_wf kind_of t = true -> consistent answer root_answer kind_of t = true -> closed_in t ->
    ls_hard (run answer root_answer kind_of F t) = false ->
    sub_b (ls_data (run answer root_answer kind_of knock t)) (ls_data (run answer root_answer kind_of F t)) = true.
  Proof.
    intros t Hwf Hc Hcl Hh. unfold fplan_wf in Hwf. apply andb_prop in Hwf as [Hwf _].
    assert (H0 : Rst init_state init_state) by (constructor; reflexivity).
    assert (HFI : FI init_state) by (split; [reflexivity|split; [exists []; reflexivity|intros id []]]).
    unfold run, load in *. apply (tree_sim3 t init_state init_state init_state H0 HFI eq_refl Hwf Hc Hcl Hh).
  Qed.
End Three.

Lemma unaffected_lower_proof' : forall answer root_answer kind_of F (A : N -> bool) t,
  (forall id k, F id = Some k -> loud (kind_of id) k = true) ->
  (forall id rep, json_wf (fst (answer id rep)) = true) -> (forall id rep, obj_or_null (fst (answer id rep)) = true) ->
  (forall id, json_wf (fst (root_answer id)) = true) ->
  roots_are_objects root_answer -> answers_valid answer root_answer ->
  (forall id k, F id = Some k -> A id = true) -> closed_in A t ->
  fplan_wf kind_of t = true -> consistent answer root_answer kind_of t = true ->
  ls_hard (run answer root_answer kind_of F t) = false ->
  sub_b (ls_data (run answer root_answer kind_of (knock A) t)) (ls_data (run answer root_answer kind_of F t)) = true.
Proof.
  intros answer root_answer kind_of F A t Hl Ha Hm Hr Hro Hv HFA Hcl Hwf Hc Hh.
  exact (unaffected_lower_proof answer root_answer kind_of F Hl Ha Hm Hr Hro Hv A HFA t Hwf Hc Hcl Hh).
Qed.
